"""C09 — queries never modify the document; creation adds exactly the missing path."""
from __future__ import annotations

import json
import os
import random

from harness import core, codec
from harness.props import editing as ed

RULE = ("(purity) seeded random documents x paths of every segment kind (keys, indexes incl. negative, slices, anchors, searches, "
        "keyword searches, wildcards, traversals) and collector expressions over them with + - &: a deep snapshot (canonical JSON "
        "incl. anchors) is taken before and after exists(), get_nodes(mustexist=True) and — when the path exists — "
        "get_nodes(mustexist=False); any difference is a violation.  A third of the documents carry negative, zero and positive "
        "INTEGER map keys; straight-line paths to their nodes (dot and slash notation) exist by construction, so the optional-match "
        "query is judged on them whatever exists() answers.  Subtraction collectors over maps sharing keys whose values are "
        "look-alike pairs (8080 / '8080', 1.5 / '1.5', true / 'True': unequal, same text), truly equal, or different: a pair that "
        "vanishes although no EQUAL pair is among the subtracted results gets its own signature.  (creation) documents x straight-line key/index paths made of an "
        "existing prefix of every length (through integer keys too, addressed by their digits) followed by a missing tail of 1-4 "
        "segments (also fully existing paths; missing keys with every character that needs a backslash escape - separators, "
        "brackets, quotes, &, *, space, the backslash ... - in dot and slash notation, written with backslash escapes or - a third "
        "of the cases - INSIDE QUOTATION MARKS ('x*', \"a.b\": only the quotation mark and the backslash are escaped there; with "
        "qplain every key is quoted), fenced by 'the Lean PARSER MODEL reads the text as exactly the intended KEY / INDEX "
        "segments' - not by the real parser, so an implementation that reads a quoted key as a wildcard search is judged, not "
        "skipped; missing negative / zero / positive digit keys; 12 % of the supplied values are TEXT spelled like a Python "
        "literal - simple quoted string literals ('abc', \"two words\", '5', ''), which must be stored with their quotation marks, "
        "and integer look-alikes (0x1F, -0o17, 0b101, (1), - 5: an int for ast.literal_eval, a ValueError for int()), which must "
        "be stored as that text), through "
        "get_nodes(mustexist=False, default_value=v) and set_value(v, format): the whole document afterwards must equal the Lean model "
        "createPath; directly on the real code: the path then resolves to exactly one node holding the value and every pre-existing "
        "node that is not an ancestor of the created spine is unchanged.  Tails also start with a NEGATIVE index below the list (idx < -len, written [n] or as a bare "
        "key): when the model refuses and the implementation goes ahead and changes the document, the path must resolve afterwards and "
        "no pre-existing node may change.  Real code only: (merge keys) c03.gen_merge_text documents x a key that a mapping (75 % with "
        "`<<`) neither owns nor inherits + 0-2 further missing segments, set_value and get_nodes(mustexist=False): the PHYSICAL "
        "document (own keys per mapping in order, merge references, sequences, anchors) is the original plus exactly the new own key at "
        "the end of that mapping, and the path resolves to the value; (fan-out) an Array of 2-4 Hashes, each holding 0-2 intermediate "
        "Hashes, whose LAST key exists below some elements and is missing below others (also all / none) x `servers.net.port`, "
        "`servers.*.net.port`, slices, `/servers/net/port`, searches `servers[name=~/./].port` x set_value / optional get_nodes: every "
        "instance servers[i]...last resolves to the value (set) or keeps its value / holds the default (get), new keys at the end of "
        "their Hash, nothing else changed.  distinct_nontrivial = distinct (document, path) pairs whose "
        "query matched >= 1 node (purity) or whose creation added >= 1 node.")


def I(v):
    return {"k": "int", "v": str(v)}


PURITY_CORPUS = [
    ({"k": "map", "e": [["a", {"k": "map", "e": [["x", I(1)], ["y", I(2)]]}]]}, "(a)-(a.x)"),
    ({"k": "map", "e": [["l", {"k": "seq", "i": [{"k": "map", "e": [["x", I(1)]]}]}], ["b", {"k": "map", "e": [["x", I(1)]]}]]}, "(l.*)-(b.x)"),
    ({"k": "map", "e": [["a", I(1)], ["b", I(2)]]}, "(a)+(b)"),
    ({"k": "map", "e": [["a", I(1)], ["b", I(2)]]}, "(*)&(a)"),
]
CREATE_CORPUS = [
    {"doc": {"k": "map", "e": [["a", {"k": "null"}]]}, "segs": [["k", "a"], ["k", "b"], ["k", "c"]], "v": ["int", 5], "fmt": "DEFAULT", "mode": "set"},
    {"doc": {"k": "map", "e": [["l", {"k": "seq", "i": [I(1)]}]]}, "segs": [["k", "l"], ["i", 3]], "v": ["int", 5], "fmt": "DEFAULT", "mode": "set"},
    {"doc": {"k": "map", "e": [["l", {"k": "seq", "i": [I(1)]}]]}, "segs": [["k", "l"], ["i", 2], ["k", "k"], ["i", 1]], "v": ["str", "x"], "fmt": "DEFAULT", "mode": "set"},
    {"doc": {"k": "map", "e": [["a", {"k": "map", "e": []}]]}, "segs": [["k", "a"], ["k", "b"]], "v": ["str", "false"], "fmt": "DEFAULT", "mode": "get"},
    {"doc": {"k": "map", "e": []}, "segs": [["k", "a"], ["k", "b"], ["i", 0]], "v": ["str", "z"], "fmt": "DQUOTE", "mode": "set"},
    {"doc": {"k": "map", "e": [["a", {"k": "map", "e": []}]]}, "segs": [["k", "a"], ["i", 1]], "v": ["str", "z"], "fmt": "DEFAULT", "mode": "set"},
    {"doc": {"k": "map", "e": [["a", I(3)]]}, "segs": [["k", "a"], ["k", "b"]], "v": ["str", "z"], "fmt": "DEFAULT", "mode": "set"},
]

NEWKEYS = ["n", "m", "new", "a", "b", "k", "z"]


def esc_key(key):
    """Backslash-escape every character of a key that is not a letter, a digit, `_` or `-`."""
    return "".join(c if (c.isalnum() or c in "_-") else "\\" + c for c in str(key))


def quote_key(key, q):
    """The key written inside quotation marks `q` (' or "): only the quotation mark itself and the backslash need a
    backslash there; separators, brackets, `*`, `&`, blanks ... stand for themselves."""
    return q + "".join("\\" + c if c in (q, "\\") else c for c in str(key)) + q


def key_text(key, quote=None, qplain=False):
    """One key segment: backslash-escaped, or - with `quote` - in quotation marks when it holds a character that needs
    escaping (with `qplain`: always).  The empty key cannot be written in quotes (`''` is no segment)."""
    key = str(key)
    if quote and key and (qplain or any(not (c.isalnum() or c in "_-") for c in key)):
        return quote_key(key, quote)
    return esc_key(key)


def path_text(segs, sep=".", quote=None, qplain=False):
    t = ""
    for kind, ref in segs:
        if kind == "i":
            t += "[%d]" % ref
        elif sep == "/":
            t += "/" + key_text(ref, quote, qplain)
        else:
            t += ("." if t else "") + key_text(ref, quote, qplain)
    return t


def case_path(case):
    return path_text(case["segs"], case.get("sep", "."), case.get("quote"), bool(case.get("qplain")))


def parses_to(path, segs):
    """Fence (the parser is C14's subject): the path text must parse to exactly the intended key / index segments."""
    from yamlpath import YAMLPath
    from yamlpath.enums import PathSegmentTypes
    try:
        got = list(YAMLPath(path).escaped)
    except Exception:  # noqa
        return False
    if len(got) != len(segs):
        return False
    for (t, a), (kind, ref) in zip(got, segs):
        if kind == "i":
            if t is not PathSegmentTypes.INDEX or a != ref:
                return False
        elif t is not PathSegmentTypes.KEY or a != str(ref):
            return False
    return True


def model_parses_to(ans, segs):
    """Fence by the Lean PARSER MODEL (answer of driver op C14.parse; the parser is C14's / C08's subject): the text
    denotes exactly the intended KEY / INDEX segments.  Unlike `parses_to` it does not ask the implementation, so a
    real parser that reads a quoted or escaped key as something else (a wildcard search, say) does not put the case out
    of the model - its creation is then judged against the segments the text denotes."""
    got = ans.get("esc", {}).get("ok")
    if got is None or len(got) != len(segs):
        return False
    for (t, a), (kind, ref) in zip(got, segs):
        if kind == "i":
            if t != "INDEX" or not isinstance(a, dict) or a.get("int") != str(ref):
                return False
        elif t != "KEY" or a != str(ref):
            return False
    return True


# characters that need a backslash somewhere in a YAML Path (separators, brackets, quotes, anchors, wildcards, search
# operators, the backslash itself) and a few that do not
ESC_CHARS = list(" ./[]()&*!{}'\"\\#=~^$%,:<>@|;?+")
INT_KEYS = [-10, -2, -1, 0, 1, 2, 7]


def gen_esc_key(rng):
    c = rng.choice(ESC_CHARS)
    r = rng.random()
    if r < 0.55:
        return rng.choice(["www", "a", "two", "n"]) + c + rng.choice(["example", "b", "words", "1"]) + (c + "com" if rng.random() < 0.3 else "")
    if r < 0.8:
        return c + rng.choice(["lit", "x"])
    return rng.choice(["run", "x"]) + c


def with_int_keys(rng, j, p=0.5):
    """A copy of the document in which some map keys are replaced by negative, zero and positive integers."""
    if j["k"] == "map":
        ents = [[k, with_int_keys(rng, v, p)] for k, v in j["e"]]
        if ents and rng.random() < p:
            pool = [i for i in INT_KEYS if i not in [k for k, _ in ents]]
            for n in rng.sample(range(len(ents)), min(len(ents), rng.choice([1, 1, 2, 3]))):
                if pool and isinstance(ents[n][0], str):
                    ents[n][0] = pool.pop(rng.randrange(len(pool)))
        out = dict(j, e=ents)
        return out
    if j["k"] == "seq":
        return dict(j, i=[with_int_keys(rng, v, p) for v in j["i"]])
    return j


def exact_path(rng, doc):
    """A straight-line path (keys and indexes only) to an existing node, in dot or slash notation."""
    nodes = ed.all_addrs(doc)
    if not nodes:
        return None
    a, _ = rng.choice(nodes)
    segs, cur = [], doc
    for kind, ref in a:
        if kind == "i":
            segs.append(["i", ref - len(cur["i"]) if rng.random() < 0.2 else ref])
            cur = cur["i"][ref]
        else:
            segs.append(["k", str(ref)])
            cur = [v for k, v in cur["e"] if k == ref and type(k) is type(ref)][0]
    return path_text(segs, rng.choice([".", "/"])), segs


def gen_segs(rng, doc, esc=False, ints=False):
    """A straight-line path: an existing prefix of random length, then 0-4 further segments that
    mostly do not exist yet."""
    nodes = [((), doc)] + ed.all_addrs(doc)
    addr, node = rng.choice(nodes)
    segs = []
    cur = doc
    for kind, ref in addr:
        if kind == "i" and rng.random() < 0.15:
            segs.append(["i", ref - len(cur["i"])])
        elif kind == "i" and rng.random() < 0.15:
            segs.append(["k", str(ref)])
        elif kind == "k":
            segs.append(["k", str(ref)])            # an integer key is addressed by its digits
        else:
            segs.append([kind, ref])
        cur = cur["i"][ref] if kind == "i" else [v for k, v in cur["e"] if k == ref and type(k) is type(ref)][0]
    tail = rng.choice([0, 1, 1, 2, 2, 3, 4])
    for i in range(tail):
        k = cur["k"] if cur is not None else None
        if k == "seq":
            n = len(cur["i"])
            if rng.random() < 0.14:
                # a negative index BELOW the list (idx < -len): no tail can make it resolve; written [n] or as a bare key
                low = -(n + rng.choice([1, 1, 2, 3]))
                segs.append(["i", low] if rng.random() < 0.65 else ["k", str(low)])
            else:
                segs.append(["i", n + rng.choice([0, 0, 1, 2, 3])] if rng.random() < 0.85 else ["k", rng.choice(NEWKEYS)])
        elif k == "map":
            have = [kk for kk, _ in cur["e"]]
            cand = [x for x in NEWKEYS if x not in have] or ["q"]
            if esc and rng.random() < 0.6:
                cand = [gen_esc_key(rng)]
            elif ints and rng.random() < 0.3:
                cand = [str(x) for x in INT_KEYS + [-7, 12] if x not in have]
            segs.append(["k", rng.choice(cand)] if rng.random() < 0.85 else ["i", rng.choice([0, 1])])
        else:
            r = rng.random()
            nk = gen_esc_key(rng) if esc and rng.random() < 0.6 else rng.choice(NEWKEYS)
            segs.append(["k", nk] if r < 0.55 else (["i", rng.choice([0, 0, 1, 2])] if r < 0.9 else ["k", "2"]))
        cur = None
    if not segs:
        segs = [["k", gen_esc_key(rng) if esc else rng.choice(NEWKEYS)]]
    return segs


# Supplied values that are TEXT spelled like a Python literal (`Nodes.wrap_type` / `make_new_node` hand every text to
# ast.literal_eval): a simple quoted string literal - the created node must hold the supplied text, quotation marks
# included - and integer look-alikes (an int for literal_eval, a ValueError for int(): the node holds the text).
LIT_BODIES = ["abc", "two words", "", "5", "true", "1.5", "None", "x*", "a.b", " pad ", "é", "0x1F", "k: v", "#"]


def gen_literal_text(rng, lookalikes=True):
    r = rng.random()
    if r < 0.6 or not lookalikes:
        q = rng.choice("'\"")
        body = rng.choice(LIT_BODIES + ["it%ss" % ("'" if q == '"' else '"')])
        return q + body + q
    sign = rng.choice(["", "", "-", "+"])
    dec = rng.choice(["0", "1", "7", "12", "300", str(rng.randrange(1, 10 ** rng.randint(1, 9)))])
    if r < 0.85:
        base = rng.choice("xXoObB")
        digs = {"x": "0123456789abcdefABCDEF", "o": "01234567", "b": "01"}[base.lower()]
        return sign + "0" + base + "".join(rng.choice(digs) for _ in range(rng.randint(1, 6)))
    if r < 0.95:
        return "(" + sign + dec + ")"
    return rng.choice("-+") + " " + dec


def is_int_lookalike(v):
    """A text that ast.literal_eval reads as an int although int(text) raises ValueError (0x1F, 0o17, (1), - 5)."""
    import ast
    if not isinstance(v, str):
        return False
    try:
        lit = ast.literal_eval(v)
    except Exception:  # noqa
        return False
    if type(lit) is not int:
        return False
    try:
        int(v)
    except ValueError:
        return True
    return False


def gen_create_cases(rng, n):
    out = []
    for _ in range(n):
        doc = ed.gen_doc(rng)
        ints = rng.random() < 0.3
        if ints:
            doc = with_int_keys(rng, doc)
        for _ in range(3):
            v = rng.choice(ed.VALUES)
            if rng.random() < 0.12:
                v = ("str", gen_literal_text(rng))
            case = {"doc": doc, "segs": gen_segs(rng, doc, esc=rng.random() < 0.3, ints=ints), "v": [v[0], v[1]],
                    "fmt": rng.choice(ed.FORMATS), "mode": rng.choice(["set", "set", "get"]), "sep": rng.choice([".", ".", "/"])}
            if rng.random() < 0.35:
                # key segments written in quotation marks (those that hold a character needing an escape; with qplain all)
                case["quote"] = rng.choice("'\"")
                case["qplain"] = rng.random() < 0.3
            out.append(case)
    return out


def gen_purity_cases(rng, n):
    out = []
    for _ in range(n):
        doc = ed.gen_doc(rng)
        ints = rng.random() < 0.3
        if ints:
            doc = with_int_keys(rng, doc)
        for _ in range(3):
            if rng.random() < (0.5 if ints else 0.1):
                ep = exact_path(rng, doc)
                if ep is not None:
                    out.append({"doc": doc, "path": ep[0], "segs": ep[1], "purity": True, "exact": True})
                    continue
            out.append({"doc": doc, "path": ed.gen_path(rng, doc), "purity": True})
    return out


# look-alike values: unequal, yet str() of both is the same text
LOOKALIKE = [[("int", 8080), ("str", "8080")], [("int", 1), ("str", "1")], [("float", 1.5), ("str", "1.5")],
             [("bool", True), ("str", "True")], [("bool", False), ("str", "False")], [("int", 0), ("str", "0")],
             [("int", -3), ("str", "-3")], [("float", 10.0), ("str", "10.0")]]


def gen_lookalike_cases(rng, n):
    """Subtraction collectors whose operands are maps sharing keys: per shared key the two values are a look-alike
    pair (unequal, same text), truly equal, or plainly different."""
    out = []
    for _ in range(n):
        keys = rng.sample(["port", "tls", "x", "y", "name", 1, -1], rng.randint(1, 4))
        lhs, rhs, third = [], [], []
        for k in keys:
            grp = rng.choice(LOOKALIKE)
            a, b = (grp[0], grp[1]) if rng.random() < 0.5 else (grp[1], grp[0])
            r = rng.random()
            if r < 0.6:
                pass                                    # look-alike
            elif r < 0.75:
                b = a                                   # truly equal (known finding C09-F1)
            else:
                b = ("str", "other")
            lhs.append([k, codec.scalar_to_json(a[1])])
            if rng.random() < 0.85:
                rhs.append([k, codec.scalar_to_json(b[1])])
            third.append([k, codec.scalar_to_json(rng.choice([a, b, ("int", 9090)])[1])])
        lhs.append(["own", {"k": "str", "v": "web"}])
        rhs.append(["extra", {"k": "int", "v": "7"}])
        rng.shuffle(rhs)
        doc = {"k": "map", "e": [["service", {"k": "map", "e": lhs}], ["overrides", {"k": "map", "e": rhs}],
                                  ["other", {"k": "map", "e": third}],
                                  ["list", {"k": "seq", "i": [{"k": "map", "e": [list(e) for e in lhs[:2]]}, {"k": "map", "e": [list(e) for e in third[:2]]}]}]]}
        k = str(rng.choice(rhs)[0])
        for path in rng.sample(["(service)-(overrides.%s)" % k, "(service)-(overrides.*)", "(/service)-(/overrides/%s)" % k,
                                "((service)+(other))-(overrides.%s)" % k, "((service)+(other))-(overrides.*)", "(list.*)-(overrides.%s)" % k,
                                "(list.*)-(overrides.*)", "(service)-(overrides)", "(service)-(other.*)", "(*)-(overrides.*)"], 3):
            out.append({"doc": doc, "path": path, "purity": True})
    return out


def run(chk: core.Check):
    core.use_repo()
    if chk.replay_in:
        rp = json.load(open(chk.replay_in))
        chunks = [[rp.get("case", rp)]]
    else:
        cases = [{"doc": d, "path": p, "purity": True} for d, p in PURITY_CORPUS] + [dict(c) for c in CREATE_CORPUS]
        d = os.path.join(core.CORPUS_DIR, "C09")
        if os.path.isdir(d):
            for fn in sorted(os.listdir(d)):
                try:
                    cases.append(json.load(open(os.path.join(d, fn))))
                except Exception:
                    pass
        rng = random.Random(chk.seed)
        quick = chk.tier == "quick"
        cases += gen_purity_cases(rng, 9000 if quick else 150000)
        cases += gen_lookalike_cases(rng, 1500 if quick else 25000)
        cases += gen_create_cases(rng, 9000 if quick else 150000)
        mc = gen_merge_create_cases(rng, 700 if quick else 8000)
        chk.extra_cov["merge_key_creation_cases"] = len(mc)
        fo = gen_fanout_cases(rng, 3000 if quick else 40000)
        chk.extra_cov["fan_out_creation_cases"] = len(fo)
        cases += mc + fo
        rng.shuffle(cases)
        chunks = core.chunked(cases, 64)
    results = core.pmap(_job, chunks)
    for stats, viol, disag, samples, keys in results:
        chk.evaluations += stats.pop("n")
        chk.out_of_model += stats.pop("oom")
        for k, v in stats.items():
            chk.count(k, v)
        for k in keys:
            chk.nontrivial.add(k)
        for s in samples:
            chk.sample(s)
        for sig, w, case in viol:
            chk.violation(sig, w, case)
        for sig, w, case in disag:
            chk.disagreements_checked += 1
            chk.disagreement(sig, w, case)
    if chk.replay_in:
        print("replay:", json.dumps({"violations": chk.violations[:2], "disagreements": chk.disagreements[:2],
                                     "known": {k: v["n"] for k, v in chk.known_hits.items()}})[:1500])
    return chk


def _key(*parts):
    import hashlib
    return hashlib.blake2b(json.dumps(parts, sort_keys=True).encode(), digest_size=8).hexdigest()


def path_kind(path):
    if ")-(" in path:
        return "collector-subtraction"
    if ")&(" in path:
        return "collector-intersection"
    if ")+(" in path or path.startswith("("):
        return "collector"
    return "plain"


def only_additions(before, after):
    """True if `after` is `before` plus new nodes (containers only gained children / members)."""
    fb, fa = ed.flat(before), ed.flat(after)
    new = [a for a in fa if a not in fb]
    # members of a set have no address of their own: a set that gained members (the old ones kept, checked below) is an
    # addition too (`[.>0].l` over `[!!set {x}, [[]], {l: …}]`: the set matches the search, lacks `l`, and gets it)
    new += [a for a, was in fb.items() if was[0] == "set" and a in fa and fa[a][0] == "set" and len(fa[a][2]) > len(was[2])]
    if not new:
        return False
    for a, was in fb.items():
        now = fa.get(a)
        if now == was:
            continue
        if now is None or was[0] == "scalar" or now[0] != was[0] or now[1] != was[1]:
            return False
        if was[0] == "seq" and now[2] < was[2]:
            return False
        if was[0] in ("map", "set") and tuple(now[2][:len(was[2])]) != tuple(was[2]):
            return False
    return True


def subtraction_class(j, after, path):
    """'' when every key-value pair that vanished from the document has an EQUAL (Python ==) pair among the results of
    the subtracted expressions (the known class C09-F1); ':unequal-values-removed' when a pair vanished whose value
    differs from the subtracted one (e.g. 8080 vs "8080"); '' when the subtracted expressions cannot be evaluated
    on their own (collector not at the start of the path)."""
    from yamlpath import Processor, YAMLPath
    from yamlpath.enums import PathSegmentTypes, CollectorOperators
    from yamlpath.wrappers import NodeCoords
    try:
        segs = list(YAMLPath(path).escaped)
    except Exception:  # noqa
        return ""
    if not segs or segs[0][0] is not PathSegmentTypes.COLLECTOR:
        return ""
    pairs = []

    def add(node, parent=None, ref=None):
        node = NodeCoords.unwrap_node_coords(node)
        if isinstance(node, (list, set)) and not isinstance(node, dict):
            for e in node:
                add(e)
        elif isinstance(parent, dict):
            pairs.append((ref, node))
        elif isinstance(node, dict):
            pairs.extend(node.items())
    for t, a in segs:
        if t is PathSegmentTypes.COLLECTOR and a.operation is CollectorOperators.SUBTRACTION:
            twin = ed.build(j)
            res = ed.guarded(lambda: list(Processor(core.quiet_logger(), twin).get_nodes(a.expression, mustexist=True)))
            if res[0] != "ok":
                return ""
            for nc in res[1]:
                add(nc, nc.parent, nc.parentref)
    fb, fa = ed.flat(j), ed.flat(after)
    plain_before = {}
    for addr in fb:
        if addr not in fa and addr and addr[-1][0] == "k" and addr[:-1] in fa:
            node = j
            for kind, ref in addr:
                node = [v for k, v in node["e"] if k == ref and type(k) is type(ref)][0] if kind == "k" else node["i"][ref]
            plain_before[addr] = codec.json_to_plain(codec.strip_anchors(node))
    for addr, val in plain_before.items():
        key = addr[-1][1]
        if not any(k == key and v == val for k, v in [(k, _plain(v)) for k, v in pairs]):
            return ":unequal-values-removed"
    return ""


def _plain(v):
    try:
        return codec.json_to_plain(codec.node_to_json(v, anchors=False))
    except Exception:  # noqa
        return v


def purity_case(case, bump, viol, keys):
    from yamlpath import Processor
    j, path = case["doc"], case["path"]
    kind = path_kind(path)
    bump("purity:" + kind)
    matched = False
    exists = False
    n_required = -1
    exact = bool(case.get("exact")) and parses_to(path, case.get("segs", []))
    for api in ("exists", "required", "optional"):
        if api == "optional" and not exists and not exact:
            continue
        doc = ed.build(j)
        proc = Processor(core.quiet_logger(), doc)
        if api == "exists":
            res = ed.guarded(lambda: proc.exists(path))
            exists = res[0] == "ok" and bool(res[1])
        elif api == "required":
            res = ed.guarded(lambda: len(list(proc.get_nodes(path, mustexist=True))))
            matched = res[0] == "ok" and res[1] > 0
            n_required = res[1] if res[0] == "ok" else -1
        else:
            res = ed.guarded(lambda: len(list(proc.get_nodes(path, mustexist=False))))
            if res[0] not in ("ok", "timeout") and not exact:
                # the optional query tried to create the rest of the path under a match of a search / wildcard that
                # lacks it and was refused there (after creating under earlier matches): every branch does not
                # exist, so this is not "a path that already exists"
                bump("purity:optional-creates-in-unmatched-branch-not-judged")
                continue
            if res[0] == "ok" and res[1] != n_required and not exact:
                # the path exists under some matches of a search/wildcard and is created under others:
                # not "a path that already exists"
                bump("purity:optional-creates-in-unmatched-branch-not-judged")
                continue
        if res[0] == "timeout":
            viol.append(("timeout", "%s(%s) did not finish in 10 s" % (api, path), dict(case)))
            return
        after = ed.snapshot(proc.data)
        bump("purity-call:%s:%s" % (api, res[0].split(":")[0]))
        if after != j and api == "optional" and only_additions(j, after) and not exact:
            # created under a match of a search / wildcard that lacks the rest of the path:
            # creation, not a read of "a path that already exists"
            bump("purity:optional-creates-in-unmatched-branch-not-judged")
            continue
        if after != j:
            sig = "query-mutates-document:" + kind
            if exact:
                sig = "query-mutates-document:existing-straight-path"     # the path leads to a node of the document by construction
            elif kind == "collector-subtraction":
                sig += subtraction_class(j, after, path)
            viol.append((sig, "%s on path %s changed the document" % (
                {"exists": "exists()", "required": "get_nodes(mustexist=True)", "optional": "get_nodes(mustexist=False)"}[api], path),
                dict(case, api=api)))
            return
    if matched:
        keys.append(_key(j, path))


def _job(cases):
    stats = {"n": 0, "oom": 0}
    viol, disag, samples, keys = [], [], [], []

    def bump(k):
        stats[k] = stats.get(k, 0) + 1
    pend = []
    for case in cases:
        stats["n"] += 1
        try:
            if case.get("purity"):
                purity_case(case, bump, viol, keys)
                continue
            if case.get("mergecreate"):
                merge_create_case(case, bump, viol, keys)
                continue
            if case.get("fanout"):
                fanout_case(case, bump, viol, keys)
                continue
        except codec.OutOfModel:
            stats["oom"] += 1
            continue
        pend.append(case)
    if pend:
        # the model side first (it does not depend on the implementation): what the path text denotes (parser model),
        # the document after the creation, the new scalar
        reqs = []
        for case in pend:
            reqs.append({"op": "C14.parse", "t": case_path(case)})
            reqs.append({"op": "C09.create", "doc": case["doc"], "segs": case["segs"], "v": codec.scalar_to_json(case["v"][1]),
                         "fmt": case["fmt"], "mode": case["mode"]})
            reqs.append({"op": "C03.newscalar", "v": codec.scalar_to_json(case["v"][1]), "fmt": case["fmt"]})
        ans = core.Driver().ask(reqs)
        for i, case in enumerate(pend):
            if not model_parses_to(ans[3 * i], case["segs"]):
                stats["oom"] += 1            # the text does not denote the intended key / index segments
                continue
            try:
                r = real_create(case)
            except codec.OutOfModel:
                stats["oom"] += 1
                continue
            judge_create(case, r, ans[3 * i + 1], ans[3 * i + 2], bump, viol, disag, samples, keys, stats)
    return stats, viol, disag, samples, keys


def real_create(case):
    from yamlpath import Processor
    from yamlpath.enums import YAMLValueFormats
    j = case["doc"]
    path = case_path(case)              # fenced by the caller with the parser MODEL (model_parses_to)
    v = case["v"][1]
    doc = ed.build(j)
    proc = Processor(core.quiet_logger(), doc)
    if case["mode"] == "get":
        res = ed.guarded(lambda: [codec.node_to_json(nc.node) for nc in proc.get_nodes(path, mustexist=False, default_value=v)])
    else:
        res = ed.guarded(lambda: proc.set_value(path, v, value_format=YAMLValueFormats[case["fmt"]]))
    after = ed.snapshot(proc.data)
    resolved = None
    if res[0] == "ok":
        rr = ed.guarded(lambda: [codec.node_to_json(nc.node) for nc in proc.get_nodes(path, mustexist=True)])
        resolved = rr[1] if rr[0] == "ok" else rr[0]
    return res, after, resolved


def null_prefix(j, segs):
    """True if a PROPER prefix of the straight-line path leads to a null node."""
    cur = j
    for n, (kind, ref) in enumerate(segs):
        if cur["k"] == "null" and "a" not in cur:
            return n > 0 or True
        if cur["k"] == "map" and kind == "k":
            d = dict((k, v) for k, v in cur["e"])
            if ref in d:
                cur = d[ref]
            elif isinstance(ref, str) and ref.lstrip("-").isdigit() and int(ref) in d:
                cur = d[int(ref)]
            else:
                return False
        elif cur["k"] == "seq":
            try:
                i = int(ref)
            except ValueError:
                return False
            if -len(cur["i"]) <= i < len(cur["i"]):
                cur = cur["i"][i]
            else:
                return False
        else:
            return False
    return False


def judge_create(case, r, ans, ns, bump, viol, disag, samples, keys, stats):
    res, after, resolved = r
    j = case["doc"]
    path = case_path(case)
    rep = dict(case, path=path)
    if case.get("quote") and (path.count(case["quote"]) >= 2):
        bump("create:key-in-quotation-marks")
    if case["v"][0] == "str" and case["v"][1][:1] in ("'", '"') and case["v"][1][-1:] == case["v"][1][:1] and len(case["v"][1]) > 1:
        bump("create:value-is-a-quoted-literal:" + case["mode"])
    if not parses_to(path, case["segs"]):
        bump("create:real-parser-reads-other-segments")     # judged all the same: the text denotes these segments
    if any(not (c.isalnum() or c in "_-") for k, r_ in case["segs"] if k == "k" for c in str(r_)):
        bump("create:key-needs-escapes")
    if any(k == "k" and str(r_).lstrip("-").isdigit() for k, r_ in case["segs"]):
        bump("create:digits-key-segment" + (":negative" if any(k == "k" and str(r_).startswith("-") for k, r_ in case["segs"]) else ""))
    if ans.get("err") == "outOfModel":
        stats["oom"] += 1
        return
    bump("create:%s:impl-%s" % (case["mode"], res[0].split(":")[0]))
    if res[0] == "timeout":
        viol.append(("timeout", "creation at %s did not finish" % path, rep))
        return
    if "err" in ans:
        mclass = ed.err_class(ans["err"])
        if res[0] == "ok" and after != j:
            # the model refuses (e.g. a negative index below the list), the implementation went ahead and CHANGED the
            # document: the creation clause is judged directly - the path must now resolve to the value, and old nodes
            # may only have gained children on the way to new nodes
            bf, af = ed.flat(j), ed.flat(after)
            new_addrs = [a for a in af if a not in bf]
            if not isinstance(resolved, list) or not resolved:
                viol.append(("create-path-does-not-resolve", "%s at %s went ahead (the model refuses: %s) and changed the document, but the path "
                             "does not resolve afterwards (%s)" % (case["mode"], path, ans["err"], resolved), rep))
                return
            for a in [a for a in bf if bf[a] != af.get(a)]:
                if not any(n[:len(a)] == a and len(n) > len(a) for n in new_addrs):
                    viol.append(("create-changes-existing-node", "%s at %s (the model refuses: %s) changed the pre-existing node %s" % (
                        case["mode"], path, ans["err"], ed.path_of_addr(a)), rep))
                    return
        if res[0] != mclass:
            if res[0].startswith("crash"):
                cls = ":int-lookalike-text" if is_int_lookalike(case["v"][1]) else ""
                viol.append(("%s@%s%s" % (res[0], res[1], cls), "creating %s with the value %r raised %s" % (path, case["v"][1], res[0]), rep))
            else:
                disag.append(("create-error-class", "model says %s, implementation %s at %s" % (ans["err"], res[0], path), rep))
        elif res[0].startswith("crash"):
            bump("create:evaluator-crash-not-judged")
        elif after != j:
            bump("note:failed-create-left-partial-change")  # e.g. padded list, then the value does not fit the format
        return
    if res[0] != "ok":
        if res[0].startswith("crash"):
            cls = ":int-lookalike-text" if is_int_lookalike(case["v"][1]) else ""
            viol.append(("%s@%s%s" % (res[0], res[1], cls), "creating %s with the value %r raised %s" % (path, case["v"][1], res[0]), rep))
        else:
            disag.append(("create-error-class", "model creates %s, implementation raised %s" % (path, res[0]), rep))
        return
    before_flat, after_flat = ed.flat(j), ed.flat(after)
    new_addrs = [a for a in after_flat if a not in before_flat]
    changed_old = [a for a in before_flat if before_flat[a] != after_flat.get(a)]
    bump("create:tail-%d" % min(len(new_addrs), 6))
    if null_prefix(j, case["segs"]):
        # a null on the way: the code relays (and, for a set, overwrites) the null instead of creating the tail
        if case["mode"] == "set" or after != j:
            viol.append(("create-stops-at-null", "creating %s: an existing null at a proper prefix of the path is relayed/overwritten; "
                         "the missing tail is not created and the path does not resolve to the value" % path, rep))
        else:
            viol.append(("create-stops-at-null", "get_nodes(%s, mustexist=False): an existing null at a proper prefix is relayed; "
                         "the missing tail is not created" % path, rep))
        return
    # direct frame check: an old node may change only by gaining children on the way to the new spine
    if new_addrs:
        for a in changed_old:
            if not any(n[:len(a)] == a for n in new_addrs):
                viol.append(("create-changes-existing-node", "creating %s changed a pre-existing node outside the created spine" % path, rep))
                return
    if after != ans["ok"]:
        viol.append(("create-differs", "after %s the document is not the original plus exactly the missing tail holding the value" % (
            "set_value(%s, %r, %s)" % (path, case["v"][1], case["fmt"]) if case["mode"] == "set" else
            "get_nodes(%s, mustexist=False, default_value=%r)" % (path, case["v"][1])), rep))
        return
    # direct check: the path now resolves to exactly one node holding the value
    if case["mode"] == "set" and "ok" in ns["plain"]:
        want = ns["plain"]["ok"]
        got = [codec.strip_anchors(x) for x in resolved] if isinstance(resolved, list) else resolved
        if got != [want]:
            viol.append(("create-path-does-not-resolve", "after set_value(%s, %r) the path resolves to %s, expected exactly [%s]" % (
                path, case["v"][1], json.dumps(got)[:120], json.dumps(want)), rep))
            return
    if case["mode"] == "get" and new_addrs and "ok" in ns["wrap"]:
        # the created path resolves to the SUPPLIED value (a text stays that text, quotation marks and all)
        want = ns["wrap"]["ok"]
        got = [codec.strip_anchors(x) for x in resolved] if isinstance(resolved, list) else resolved
        if got != [want]:
            viol.append(("create-path-does-not-resolve", "after get_nodes(%s, mustexist=False, default_value=%r) the path resolves to %s, expected exactly [%s]" % (
                path, case["v"][1], json.dumps(got)[:120], json.dumps(want)), rep))
            return
    if new_addrs:
        keys.append(_key(j, path, case["mode"]))
        if len(samples) < 2 and len(new_addrs) > 2:
            samples.append({"path": path, "mode": case["mode"], "new_nodes": len(new_addrs)})


# --------------------------------------------------------------------------- creation in documents with YAML merge keys (real code only)
#
# Merge keys are outside the Lean model.  Documents of c03.gen_merge_text (anchored source maps, consumers with `<<: *m` /
# `<<: [*m1, *m0]` at top level and inside a list, own keys overriding inherited ones) x a straight path to one of the
# mappings + a key that the mapping neither owns nor inherits + 0-2 further missing segments, through set_value and
# get_nodes(mustexist=False, default_value=v).  Judged on the PHYSICAL document (c03.mk_phys): the original plus exactly
# the new own key at the end of that mapping's own keys (holding the value, or the new Hash / Array spine down to it);
# every mapping's own keys and merge references, every sequence and anchor as before; the path then resolves to the value.

MC_NEWKEYS = ["timeout", "zz", "q1", "new"]
MC_VALUES = [("int", 7), ("str", "fresh"), ("int", 0), ("str", "a b")]


def gen_merge_create_cases(rng, ndocs):
    from harness.props import c03
    out = []
    for _ in range(ndocs):
        text = c03.gen_merge_text(rng)
        doc = c03.mk_load(text)
        if doc is None:
            continue
        try:
            table = c03.mk_phys(doc)
        except codec.OutOfModel:
            continue
        paths = c03.mk_paths(table)
        maps = [ci for ci, c in enumerate(table) if c["t"] == "map" and ci in paths]
        with_merge = [ci for ci in maps if table[ci]["merge"]]
        for _ in range(3):
            ci = rng.choice(with_merge) if with_merge and rng.random() < 0.75 else rng.choice(maps)
            tail = [rng.choice(MC_NEWKEYS)] + rng.choice([[], [], ["sub"], [0], ["sub", "leaf"], ["sub", 0]])
            v = rng.choice(MC_VALUES)
            out.append({"mergecreate": True, "text": text, "ci": ci, "prefix": paths[ci], "tail": tail, "v": [v[0], v[1]],
                        "mode": rng.choice(["set", "set", "get"])})
    return out


def merge_create_case(case, bump, viol, keys):
    from yamlpath import Processor
    from harness.props import c03, c04
    text, ci, tail, v = case["text"], case["ci"], case["tail"], case["v"][1]
    doc = c03.mk_load(text)
    if doc is None:
        bump("merge-create:skipped-does-not-load")
        return
    ids = {}
    before = c03.mk_phys(doc, ids_out=ids)
    path = case["prefix"]
    for t in tail:
        path += "[%d]" % t if isinstance(t, int) else ("." if path else "") + t
    # the mapping object itself: the key must be missing from its own AND its inherited keys
    target = [o for o in _walk_maps(doc) if ids.get(id(o)) == ci]
    if not target or tail[0] in target[0]:
        bump("merge-create:skipped-key-exists")
        return
    want = json.loads(json.dumps(before))
    node = ["s", codec.scalar_to_json(v), None]
    for t in reversed(tail[1:]):
        want.append({"t": "seq", "anchor": None, "items": [node]} if isinstance(t, int) else {"t": "map", "anchor": None, "merge": [], "own": [[t, node]]})
        node = ["ref", len(want) - 1]
    want[ci]["own"].append([tail[0], node])
    want = c04.mk_renumber(want)
    proc = Processor(core.quiet_logger(), doc)
    if case["mode"] == "get":
        res = ed.guarded(lambda: [nc.node for nc in proc.get_nodes(path, mustexist=False, default_value=v)])
    else:
        res = ed.guarded(lambda: proc.set_value(path, v))
    rep = dict(case, path=path)
    what = "%s(%s, %r) - a missing key of a mapping %s" % ("set_value" if case["mode"] == "set" else "get_nodes(mustexist=False)", path, v,
                                                          "with merge keys" if before[ci]["merge"] else "without merge keys")
    bump("merge-create:%s:%s" % ("parent-has-merge-keys" if before[ci]["merge"] else "plain-parent", res[0].split(":")[0]))
    if res[0] == "timeout":
        viol.append(("timeout", what + " did not finish", rep))
        return
    if res[0] != "ok":
        viol.append(("merge-create:%s@%s" % (res[0], res[1]), what + " raised %s (%s)\n%s" % (res[0], res[1], text), rep))
        return
    after = c03.mk_phys(proc.data)
    if after != want:
        sig, detail = c03.mk_describe(want, after)
        viol.append((sig.replace("merge-doc", "merge-create"), what + ": the document is not the original plus exactly the missing tail (%s)\n%s" % (detail, text), rep))
        return
    rr = ed.guarded(lambda: [codec.scalar_to_json(nc.node) for nc in proc.get_nodes(path, mustexist=True)])
    if rr[0] != "ok" or rr[1] != [codec.scalar_to_json(v)]:
        viol.append(("merge-create:path-does-not-resolve", what + ": afterwards the path resolves to %s\n%s" % (rr[1] if rr[0] == "ok" else rr[0], text), rep))
        return
    keys.append(_key(text, path, case["mode"]))


def _walk_maps(root):
    from harness.props import c04
    return c04.ids_maps(root)


# --------------------------------------------------------------------------- creation below several matches (real code only)
#
# A path that fans out over an Array-of-Hashes - key pass-through (`servers.net.port`), `servers.*.net.port`, a slice, a
# search (`servers[name=~/./].port`) - and ends in straight keys.  Every element holds the intermediate Hashes; the LAST key
# exists below some elements and is missing below others (also: below all, below none).  Each concrete instance
# `servers[i].….port` is a path of keys and indexes with an existing prefix and a missing (or no missing) tail, so after
# set_value(path, v) every instance resolves to v, and after get_nodes(mustexist=False, default_value=v) the existing
# ones keep their value and the missing ones hold v; a new key goes to the end of its Hash and nothing else changes -
# whatever the sibling elements hold.  Not generated (the pinned tree treats them differently and the property does not
# say which is meant): pass-through / wildcard / slice DIRECTLY followed by the last key (`servers.port`, `servers.*.port`).

def gen_fanout_cases(rng, n):
    out = []
    for _ in range(n):
        nel = rng.choice([2, 3, 3, 4])
        inter = rng.choice([[], ["net"], ["net"], ["net", "cfg"]])
        r = rng.random()
        has = [rng.random() < 0.5 for _ in range(nel)]
        if r < 0.7:
            has[rng.randrange(nel)] = True
            miss = [i for i in range(nel) if i != has.index(True)]
            has[rng.choice(miss)] = False
        elif r < 0.85:
            has = [False] * nel
        else:
            has = [True] * nel
        last = rng.choice(["port", "p", "a"])
        elems = []
        for i in range(nel):
            inner = [["other", I(i)]] + ([[last, I(8000 + i)]] if has[i] else [])
            if rng.random() < 0.4:
                inner.append(["z", {"k": "str", "v": "t%d" % i}])
            rng.shuffle(inner)
            node = {"k": "map", "e": inner}
            for k in reversed(inter):
                ents = [["x", I(1)], [k, node]]
                rng.shuffle(ents)
                node = {"k": "map", "e": ents}
            node["e"].insert(rng.choice([0, len(node["e"])]) if inter else 0, ["name", {"k": "str", "v": "s%d" % i}])
            elems.append(node)
        doc = {"k": "map", "e": [["keep", I(1)], ["servers", {"k": "seq", "i": elems}], ["tailkey", {"k": "map", "e": [[last, I(5)]]}]]}
        sels = ["servers[name=~/./]", "servers[name^s]", "servers[.!=zz]"]
        if inter:
            sels += ["servers", "servers", "servers.*", "servers[0:%d]" % nel, "/servers"]
        sel = rng.choice(sels)
        keysegs = inter + [last]
        path = sel + "".join("/" + k for k in keysegs) if sel.startswith("/") else sel + "." + ".".join(keysegs)
        v = rng.choice([("int", 99), ("str", "new"), ("int", 0)])
        out.append({"fanout": True, "doc": doc, "path": path, "inter": inter, "last": last, "v": [v[0], v[1]], "mode": rng.choice(["set", "set", "get"])})
    return out


def fanout_case(case, bump, viol, keys):
    from yamlpath import Processor
    j, path, v = case["doc"], case["path"], case["v"][1]
    want = json.loads(json.dumps(j))
    vj = codec.scalar_to_json(v)
    created = existing = 0
    for el in dict((k, x) for k, x in want["e"])["servers"]["i"]:
        node = el
        for k in case["inter"]:
            node = dict((kk, x) for kk, x in node["e"])[k]
        hit = [e for e in node["e"] if e[0] == case["last"]]
        if hit:
            existing += 1
            if case["mode"] == "set":
                hit[0][1] = vj
        else:
            created += 1
            node["e"].append([case["last"], vj])
    doc = ed.build(j)
    proc = Processor(core.quiet_logger(), doc)
    if case["mode"] == "get":
        res = ed.guarded(lambda: [nc.node for nc in proc.get_nodes(path, mustexist=False, default_value=v)])
    else:
        res = ed.guarded(lambda: proc.set_value(path, v))
    after = ed.snapshot(proc.data)
    rep = dict(case)
    cls = "mixed" if created and existing else "all-missing" if created else "all-existing"
    bump("fanout:%s:%s:%s" % (case["mode"], cls, res[0].split(":")[0]))
    what = "%s(%s, %r) over %d elements of which %d hold the last key" % (
        "set_value" if case["mode"] == "set" else "get_nodes(mustexist=False)", path, v, created + existing, existing)
    if res[0] == "timeout":
        viol.append(("timeout", what + " did not finish", rep))
        return
    if res[0] != "ok":
        viol.append(("fanout-create:%s@%s" % (res[0], res[1]), what + " raised %s (%s)" % (res[0], res[1]), rep))
        return
    if codec.strip_anchors(after) == codec.strip_anchors(want):
        if created:
            keys.append(_key(j, path, case["mode"]))
        return
    # which clause: an instance servers[i]...last that does not resolve to the value / an old node changed
    got_els = dict((k, x) for k, x in after["e"]).get("servers", {"i": []})["i"]
    for i, el in enumerate(got_els):
        node = el
        try:
            for k in case["inter"]:
                node = dict((kk, x) for kk, x in node["e"])[k]
            hit = [e for e in node["e"] if e[0] == case["last"]]
        except Exception:  # noqa
            hit = None
        if not hit:
            inst = "servers[%d].%s" % (i, ".".join(case["inter"] + [case["last"]]))
            viol.append(("fanout-create:missing-tail-not-created", what + ": the instance %s of the path has an existing prefix and a missing tail, "
                         "but does not resolve afterwards (the tail was created only where no sibling already held the key)" % inst, rep))
            return
    viol.append(("fanout-create:differs", what + ": the document is not the original plus exactly the missing tails: %s" % (
        json.dumps(codec.json_to_plain(after), default=list)[:300]), rep))
