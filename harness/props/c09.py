"""C09 — queries never modify the document; creation adds exactly the missing path."""
from __future__ import annotations

import json
import os
import random

from harness import core, codec
from harness.props import editing as ed

RULE = ("(purity) seeded random documents x paths of every segment kind (keys, indexes incl. negative, slices, anchors, searches, "
        "keyword searches, wildcards, traversals) and collector expressions over them with + - &: a deep snapshot (canonical JSON "
        "incl. anchors) is taken before and after exists(), get_nodes(mustexist=True) and — when the path exists — "
        "get_nodes(mustexist=False); any difference is a violation.  (creation) documents x straight-line key/index paths made of an "
        "existing prefix of every length followed by a missing tail of 1-4 segments (also fully existing paths), through "
        "get_nodes(mustexist=False, default_value=v) and set_value(v, format): the whole document afterwards must equal the Lean model "
        "createPath; directly on the real code: the path then resolves to exactly one node holding the value and every pre-existing "
        "node that is not an ancestor of the created spine is unchanged.  distinct_nontrivial = distinct (document, path) pairs whose "
        "query matched >= 1 node (purity) or whose creation added >= 1 node.")


def I(v):
    return {"k": "int", "v": str(v)}


PURITY_CORPUS = [
    ({"k": "map", "e": [["a", {"k": "map", "e": [["x", I(1)], ["y", I(2)]]}]]}, "(a)-(a.x)"),
    ({"k": "map", "e": [["l", {"k": "seq", "i": [{"k": "map", "e": [["x", I(1)]]}]}], ["b", {"k": "map", "e": [["x", I(1)]]}]]}, "(l.*)-(b.x)"),
    ({"k": "map", "e": [["a", I(1)], ["b", I(2)]]}, "(a)+(b)"),
    ({"k": "map", "e": [["a", I(1)], ["b", I(2)]]}, "(*)&(a)"),
]
CREATE_CORPUS = [
    {"doc": {"k": "map", "e": [["a", {"k": "null"}]]}, "segs": [["k", "a"], ["k", "b"], ["k", "c"]], "v": ["int", 5], "fmt": "DEFAULT", "mode": "set"},
    {"doc": {"k": "map", "e": [["l", {"k": "seq", "i": [I(1)]}]]}, "segs": [["k", "l"], ["i", 3]], "v": ["int", 5], "fmt": "DEFAULT", "mode": "set"},
    {"doc": {"k": "map", "e": [["l", {"k": "seq", "i": [I(1)]}]]}, "segs": [["k", "l"], ["i", 2], ["k", "k"], ["i", 1]], "v": ["str", "x"], "fmt": "DEFAULT", "mode": "set"},
    {"doc": {"k": "map", "e": [["a", {"k": "map", "e": []}]]}, "segs": [["k", "a"], ["k", "b"]], "v": ["str", "false"], "fmt": "DEFAULT", "mode": "get"},
    {"doc": {"k": "map", "e": []}, "segs": [["k", "a"], ["k", "b"], ["i", 0]], "v": ["str", "z"], "fmt": "DQUOTE", "mode": "set"},
    {"doc": {"k": "map", "e": [["a", {"k": "map", "e": []}]]}, "segs": [["k", "a"], ["i", 1]], "v": ["str", "z"], "fmt": "DEFAULT", "mode": "set"},
    {"doc": {"k": "map", "e": [["a", I(3)]]}, "segs": [["k", "a"], ["k", "b"]], "v": ["str", "z"], "fmt": "DEFAULT", "mode": "set"},
]

NEWKEYS = ["n", "m", "new", "a", "b", "k", "z"]


def path_text(segs):
    t = ""
    for kind, ref in segs:
        if kind == "i":
            t += "[%d]" % ref
        else:
            t += ("." if t else "") + str(ref)
    return t


def gen_segs(rng, doc):
    """A straight-line path: an existing prefix of random length, then 0-4 further segments that
    mostly do not exist yet."""
    nodes = [((), doc)] + ed.all_addrs(doc)
    nodes = [(a, n) for a, n in nodes if all(isinstance(r[1], str) or r[0] == "i" for r in a)]
    addr, node = rng.choice(nodes)
    segs = []
    cur = doc
    for kind, ref in addr:
        if kind == "i" and rng.random() < 0.15:
            segs.append(["i", ref - len(cur["i"])])
        elif kind == "i" and rng.random() < 0.15:
            segs.append(["k", str(ref)])
        else:
            segs.append([kind, ref])
        cur = cur["i"][ref] if kind == "i" else dict((k, v) for k, v in cur["e"])[ref]
    tail = rng.choice([0, 1, 1, 2, 2, 3, 4])
    for i in range(tail):
        k = cur["k"] if cur is not None else None
        if k == "seq":
            n = len(cur["i"])
            segs.append(["i", n + rng.choice([0, 0, 1, 2, 3])] if rng.random() < 0.85 else ["k", rng.choice(NEWKEYS)])
        elif k == "map":
            have = [kk for kk, _ in cur["e"]]
            cand = [x for x in NEWKEYS if x not in have] or ["q"]
            segs.append(["k", rng.choice(cand)] if rng.random() < 0.85 else ["i", rng.choice([0, 1])])
        else:
            r = rng.random()
            segs.append(["k", rng.choice(NEWKEYS)] if r < 0.55 else (["i", rng.choice([0, 0, 1, 2])] if r < 0.9 else ["k", "2"]))
        cur = None
    if not segs:
        segs = [["k", rng.choice(NEWKEYS)]]
    return segs


def gen_create_cases(rng, n):
    out = []
    for _ in range(n):
        doc = ed.gen_doc(rng)
        for _ in range(3):
            v = rng.choice(ed.VALUES)
            out.append({"doc": doc, "segs": gen_segs(rng, doc), "v": [v[0], v[1]], "fmt": rng.choice(ed.FORMATS),
                        "mode": rng.choice(["set", "set", "get"])})
    return out


def gen_purity_cases(rng, n):
    out = []
    for _ in range(n):
        doc = ed.gen_doc(rng)
        for _ in range(3):
            out.append({"doc": doc, "path": ed.gen_path(rng, doc), "purity": True})
    return out


def run(chk: core.Check):
    core.use_repo()
    if chk.replay_in:
        rp = json.load(open(chk.replay_in))
        chunks = [[rp.get("case", rp)]]
    else:
        cases = [{"doc": d, "path": p, "purity": True} for d, p in PURITY_CORPUS] + [dict(c) for c in CREATE_CORPUS]
        d = os.path.join(core.CORPUS_DIR, "C09")
        if os.path.isdir(d):
            for fn in sorted(os.listdir(d)):
                try:
                    cases.append(json.load(open(os.path.join(d, fn))))
                except Exception:
                    pass
        rng = random.Random(chk.seed)
        quick = chk.tier == "quick"
        cases += gen_purity_cases(rng, 9000 if quick else 150000)
        cases += gen_create_cases(rng, 9000 if quick else 150000)
        rng.shuffle(cases)
        chunks = core.chunked(cases, 64)
    results = core.pmap(_job, chunks)
    for stats, viol, disag, samples, keys in results:
        chk.evaluations += stats.pop("n")
        chk.out_of_model += stats.pop("oom")
        for k, v in stats.items():
            chk.count(k, v)
        for k in keys:
            chk.nontrivial.add(k)
        for s in samples:
            chk.sample(s)
        for sig, w, case in viol:
            chk.violation(sig, w, case)
        for sig, w, case in disag:
            chk.disagreements_checked += 1
            chk.disagreement(sig, w, case)
    if chk.replay_in:
        print("replay:", json.dumps({"violations": chk.violations[:2], "disagreements": chk.disagreements[:2],
                                     "known": {k: v["n"] for k, v in chk.known_hits.items()}})[:1500])
    return chk


def _key(*parts):
    import hashlib
    return hashlib.blake2b(json.dumps(parts, sort_keys=True).encode(), digest_size=8).hexdigest()


def path_kind(path):
    if ")-(" in path:
        return "collector-subtraction"
    if ")&(" in path:
        return "collector-intersection"
    if ")+(" in path or path.startswith("("):
        return "collector"
    return "plain"


def only_additions(before, after):
    """True if `after` is `before` plus new nodes (containers only gained children / members)."""
    fb, fa = ed.flat(before), ed.flat(after)
    new = [a for a in fa if a not in fb]
    # members of a set have no address of their own: a set that gained members (the old ones kept, checked below) is an
    # addition too (`[.>0].l` over `[!!set {x}, [[]], {l: …}]`: the set matches the search, lacks `l`, and gets it)
    new += [a for a, was in fb.items() if was[0] == "set" and a in fa and fa[a][0] == "set" and len(fa[a][2]) > len(was[2])]
    if not new:
        return False
    for a, was in fb.items():
        now = fa.get(a)
        if now == was:
            continue
        if now is None or was[0] == "scalar" or now[0] != was[0] or now[1] != was[1]:
            return False
        if was[0] == "seq" and now[2] < was[2]:
            return False
        if was[0] in ("map", "set") and tuple(now[2][:len(was[2])]) != tuple(was[2]):
            return False
    return True


def purity_case(case, bump, viol, keys):
    from yamlpath import Processor
    j, path = case["doc"], case["path"]
    kind = path_kind(path)
    bump("purity:" + kind)
    matched = False
    exists = False
    n_required = -1
    for api in ("exists", "required", "optional"):
        if api == "optional" and not exists:
            continue
        doc = ed.build(j)
        proc = Processor(core.quiet_logger(), doc)
        if api == "exists":
            res = ed.guarded(lambda: proc.exists(path))
            exists = res[0] == "ok" and bool(res[1])
        elif api == "required":
            res = ed.guarded(lambda: len(list(proc.get_nodes(path, mustexist=True))))
            matched = res[0] == "ok" and res[1] > 0
            n_required = res[1] if res[0] == "ok" else -1
        else:
            res = ed.guarded(lambda: len(list(proc.get_nodes(path, mustexist=False))))
            if res[0] == "ok" and res[1] != n_required:
                # the path exists under some matches of a search/wildcard and is created under others:
                # not "a path that already exists"
                bump("purity:optional-creates-in-unmatched-branch-not-judged")
                continue
        if res[0] == "timeout":
            viol.append(("timeout", "%s(%s) did not finish in 10 s" % (api, path), dict(case)))
            return
        after = ed.snapshot(proc.data)
        bump("purity-call:%s:%s" % (api, res[0].split(":")[0]))
        if after != j and api == "optional" and only_additions(j, after):
            # created under a match of a search / wildcard that lacks the rest of the path:
            # creation, not a read of "a path that already exists"
            bump("purity:optional-creates-in-unmatched-branch-not-judged")
            continue
        if after != j:
            viol.append(("query-mutates-document:" + kind, "%s on path %s changed the document" % (
                {"exists": "exists()", "required": "get_nodes(mustexist=True)", "optional": "get_nodes(mustexist=False)"}[api], path),
                dict(case, api=api)))
            return
    if matched:
        keys.append(_key(j, path))


def _job(cases):
    stats = {"n": 0, "oom": 0}
    viol, disag, samples, keys = [], [], [], []

    def bump(k):
        stats[k] = stats.get(k, 0) + 1
    pend = []
    for case in cases:
        stats["n"] += 1
        try:
            if case.get("purity"):
                purity_case(case, bump, viol, keys)
                continue
            r = real_create(case)
        except codec.OutOfModel:
            stats["oom"] += 1
            continue
        pend.append((case, r))
    if pend:
        reqs = []
        for case, _ in pend:
            reqs.append({"op": "C09.create", "doc": case["doc"], "segs": case["segs"], "v": codec.scalar_to_json(case["v"][1]),
                         "fmt": case["fmt"], "mode": case["mode"]})
            reqs.append({"op": "C03.newscalar", "v": codec.scalar_to_json(case["v"][1]), "fmt": case["fmt"]})
        ans = core.Driver().ask(reqs)
        for i, (case, r) in enumerate(pend):
            judge_create(case, r, ans[2 * i], ans[2 * i + 1], bump, viol, disag, samples, keys, stats)
    return stats, viol, disag, samples, keys


def real_create(case):
    from yamlpath import Processor
    from yamlpath.enums import YAMLValueFormats
    j = case["doc"]
    path = path_text(case["segs"])
    v = case["v"][1]
    doc = ed.build(j)
    proc = Processor(core.quiet_logger(), doc)
    if case["mode"] == "get":
        res = ed.guarded(lambda: [codec.node_to_json(nc.node) for nc in proc.get_nodes(path, mustexist=False, default_value=v)])
    else:
        res = ed.guarded(lambda: proc.set_value(path, v, value_format=YAMLValueFormats[case["fmt"]]))
    after = ed.snapshot(proc.data)
    resolved = None
    if res[0] == "ok":
        rr = ed.guarded(lambda: [codec.node_to_json(nc.node) for nc in proc.get_nodes(path, mustexist=True)])
        resolved = rr[1] if rr[0] == "ok" else rr[0]
    return res, after, resolved


def null_prefix(j, segs):
    """True if a PROPER prefix of the straight-line path leads to a null node."""
    cur = j
    for n, (kind, ref) in enumerate(segs):
        if cur["k"] == "null" and "a" not in cur:
            return n > 0 or True
        if cur["k"] == "map" and kind == "k":
            d = dict((k, v) for k, v in cur["e"])
            if ref in d:
                cur = d[ref]
            elif isinstance(ref, str) and ref.lstrip("-").isdigit() and int(ref) in d:
                cur = d[int(ref)]
            else:
                return False
        elif cur["k"] == "seq":
            try:
                i = int(ref)
            except ValueError:
                return False
            if -len(cur["i"]) <= i < len(cur["i"]):
                cur = cur["i"][i]
            else:
                return False
        else:
            return False
    return False


def judge_create(case, r, ans, ns, bump, viol, disag, samples, keys, stats):
    res, after, resolved = r
    j = case["doc"]
    path = path_text(case["segs"])
    rep = dict(case, path=path)
    if ans.get("err") == "outOfModel":
        stats["oom"] += 1
        return
    bump("create:%s:impl-%s" % (case["mode"], res[0].split(":")[0]))
    if res[0] == "timeout":
        viol.append(("timeout", "creation at %s did not finish" % path, rep))
        return
    if "err" in ans:
        mclass = ed.err_class(ans["err"])
        if res[0] != mclass:
            if res[0].startswith("crash"):
                viol.append(("%s@%s" % (res[0], res[1]), "creating %s raised %s" % (path, res[0]), rep))
            else:
                disag.append(("create-error-class", "model says %s, implementation %s at %s" % (ans["err"], res[0], path), rep))
        elif res[0].startswith("crash"):
            bump("create:evaluator-crash-not-judged")
        elif after != j:
            bump("note:failed-create-left-partial-change")  # e.g. padded list, then the value does not fit the format
        return
    if res[0] != "ok":
        if res[0].startswith("crash"):
            viol.append(("%s@%s" % (res[0], res[1]), "creating %s raised %s" % (path, res[0]), rep))
        else:
            disag.append(("create-error-class", "model creates %s, implementation raised %s" % (path, res[0]), rep))
        return
    before_flat, after_flat = ed.flat(j), ed.flat(after)
    new_addrs = [a for a in after_flat if a not in before_flat]
    changed_old = [a for a in before_flat if before_flat[a] != after_flat.get(a)]
    bump("create:tail-%d" % min(len(new_addrs), 6))
    if null_prefix(j, case["segs"]):
        # a null on the way: the code relays (and, for a set, overwrites) the null instead of creating the tail
        if case["mode"] == "set" or after != j:
            viol.append(("create-stops-at-null", "creating %s: an existing null at a proper prefix of the path is relayed/overwritten; "
                         "the missing tail is not created and the path does not resolve to the value" % path, rep))
        else:
            viol.append(("create-stops-at-null", "get_nodes(%s, mustexist=False): an existing null at a proper prefix is relayed; "
                         "the missing tail is not created" % path, rep))
        return
    # direct frame check: an old node may change only by gaining children on the way to the new spine
    if new_addrs:
        for a in changed_old:
            if not any(n[:len(a)] == a for n in new_addrs):
                viol.append(("create-changes-existing-node", "creating %s changed a pre-existing node outside the created spine" % path, rep))
                return
    if after != ans["ok"]:
        viol.append(("create-differs", "after creating %s the document is not the original plus exactly the missing tail" % path, rep))
        return
    # direct check: the path now resolves to exactly one node holding the value
    if case["mode"] == "set" and "ok" in ns["plain"]:
        want = ns["plain"]["ok"]
        got = [codec.strip_anchors(x) for x in resolved] if isinstance(resolved, list) else resolved
        if got != [want]:
            viol.append(("create-path-does-not-resolve", "after set_value(%s, %r) the path resolves to %s, expected exactly [%s]" % (
                path, case["v"][1], json.dumps(got)[:120], json.dumps(want)), rep))
            return
    if new_addrs:
        keys.append(_key(j, path, case["mode"]))
        if len(samples) < 2 and len(new_addrs) > 2:
            samples.append({"path": path, "mode": case["mode"], "new_nodes": len(new_addrs)})
