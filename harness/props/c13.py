"""C13 — search keywords select by their definitions (min/max/unique/distinct/has_child/parent/name)."""
from __future__ import annotations

import itertools
import json
import random

from harness import core, codec
from harness.props import compare_common as cc

RULE = ("(1) the parameter splitter on every text of length <= 5 over {a , space backslash ' \"} plus random longer "
        "ones; (2) through the real Processor.get_nodes: every sequence of length <= 5 over three same-kind values "
        "(ints 2/9/10, floats 1.5/2.25/10.0, strings a/b/ab; mixed and null-holding triples kept apart as family "
        "'mixed'), at the document root and under a key, x each of the 7 keywords x plain/inverted x parameter "
        "absent/present; every Array-of-Hashes and hash-of-hashes of <= 4 members whose attribute `a` is absent / "
        "null / one of two values (ints, strings; <= 3 members for the unequal look-alike pairs 1/'1', 2.5/'2.5', "
        "true/'True'), AoH members may also be null, hash-of-hashes members may also be null or a bare scalar, x keyword x "
        "inversion x parameter a / absent / unknown - these are also judged WITHOUT the model: unique/distinct by Python == "
        "on the values, max/min plain + inverted must partition all members; parent(n), n in 0..5 and default, and "
        "name() for every node of 14 small documents reached by key, index and Array-of-Hashes pass-through paths, and "
        "for the nodes a filtered deep traversal (**.key, **[key=1], **[key>0]) reaches in 6 fixed + 60 seeded documents "
        "with lists of hashes (also name() of each climbed ancestor), and for the nodes below an Array slice "
        "<list>[a:b].<key | key.key | key[0]> over every list of hashes of 4 fixed + 60 seeded documents (3-5 members, equal "
        "members likely; every slice of the fixed, 4 per seeded list; mostly >= 2 members selected; both notations): "
        "parent(n) n in default,0..4, name() of each climbed ancestor, name() of the reached nodes, and each parent() result "
        "must be held by its reported parent under its reported parentref; parent(n) AS THE FILTER OF A WILDCARD: "
        "<container>.*[parent(n)] and <container>.**[parent(n)] for every non-empty container (the root included, so the selected "
        "nodes start at depth 1) of the 14 + 6 fixed and 40 seeded documents, n in default, 0..4 up to one level above the root, "
        "name() of each climbed ancestor, and chained climbs ...*[parent(m)][parent(n)] that end at the root or one level above it, "
        "a third in forward-slash notation - expected: the n-th ancestor of every child (*) / of every node at or below the "
        "container, a node before its children (**), in order, and a refusal only where such a node has fewer than n ancestors "
        "(the wildcards evaluate the following segment twice, as a test and for the result: the answer must not depend on it); "
        "has_child(&NAME) - ANCHORED children, YAML merge keys, and HISTORIES on one document object: 300 seeded documents loaded from "
        "YAML text (1-3 anchored source hashes, a later one may merge an earlier one; 2-5 hashes merging one or two of them through "
        "`<<: *m` / `<<: [*m, *n]` or none, holding anchored scalar values, aliases of them and anchored keys; 40 % with an "
        "Array-of-Hashes of such records), one Processor per document: every [has_child(&NAME)] / [!has_child(&NAME)] for every anchor "
        "name of the document and an unknown one over the root's hashes (`/*`, `/h*`), over the Array-of-Hashes (`/lst`, `lst.*`) and on "
        "one hash, then 0-3 edit steps through the SAME Processor (ymk_nodes with a new / the present / a generated anchor name, "
        "alias_nodes, set_value replacing or creating, delete_nodes of keys and of whole hashes) with all queries asked again after "
        "each step (names that disappeared included) - judged directly by the clause on the CURRENT content: exactly the hashes having "
        "(inverted: lacking) a key, a value or a merge reference carrying that Anchor / Alias name; plus 7 non-anchor keyword / "
        "search queries per step compared with a fresh Processor over an independent copy (dump + load) of the current content "
        "(an answer may depend on the document's content only, never on what was asked or changed before); "
        "has_child on hashes, lists, nulls, scalars; "
        "keys that a parameter can only name quoted or escaped (17 keys holding literal backslashes, commas, quotes, inner / edge "
        "blanks) as the attribute / child key of Arrays-of-Hashes, hashes of hashes and single hashes of <= 3 members, next to "
        "members holding a look-alike key (the key without its backslashes, with them doubled, unquoted, cut at the comma ...) "
        "instead or as well, x has_child / max / min / unique / distinct x inversion x the escaped, single- and double-quoted "
        "spelling of the key x two ways of writing that in a path - judged by the model and model-free (has_child = exactly the "
        "hashes having / lacking the key); max() / min() plain and inverted over what a flat or nested collector ((X)), "
        "((X)+(Y)), (((X)+(Y))+(Z)) ... gathered from lists / hashes of ints and floats with ties, both notations - judged on the "
        "values (numeric greatest / least, inverted the others in any order); the SEQUENCE flat collector -> [<!>max()|min()] -> [name()] / "
        "[parent(n)] / [parent(n)][name()] over collections of ints / floats with ties at depth 1, 2 and 3 (members gathered one by one "
        "`k.*`, for name() also the list itself), both notations, every n up to the depth of the shallowest gathered member: name() = the "
        "key / index each selected member is held under in ITS collection, parent(n) = its n-th ancestor in the document (oracle: the "
        "members' addresses read off the document); THE DEFAULT RETRIEVAL MODE: every case whose selection is empty by definition and a "
        "third of the others is asked again through get_nodes(path) with mustexist=False (every node in front of the keyword exists and "
        "is not null) - the same members, and the empty selection is an empty result, not an error; "
        "collections holding containers (crash classes).  Observable: result node addresses in order (identity of the "
        "yielded container, else parent identity + parentref), for name() the yielded key/index, or the error class.  "
        "distinct_nontrivial = distinct cases with a non-empty result that is a proper subset of the members or a "
        "climbed ancestor / name.")

KW = {"MAX": "max", "MIN": "min", "UNIQUE": "unique", "DISTINCT": "distinct", "HAS_CHILD": "has_child",
      "PARENT": "parent", "NAME": "name"}


def sj(v):
    return codec.scalar_to_json(v)


# --------------------------------------------------------------------------- splitter

SPLIT_ALPHA = ["a", ",", " ", "\\", "'", '"']


def split_chunk(texts):
    from yamlpath.path.searchkeywordterms import SearchKeywordTerms
    from yamlpath.enums import PathSearchKeywords
    model = core.Driver().ask([{"op": "C13.split", "params": t} for t in texts])
    stats = {"n": 0, "nontrivial": 0, "oom": 0, "fam": {}}
    viol, disag = [], []
    for t, mo in zip(texts, model):
        stats["n"] += 1
        st, val = cc.guarded(lambda: list(SearchKeywordTerms(False, PathSearchKeywords.MAX, t).parameters))
        if st == "ok":
            im = {"ok": val}
        elif st == "timeout":
            im = {"timeout": 1}
        else:
            im = {"err": core.exc_class(val)}
        if im != mo:
            disag.append(("splitter", "parameters of %r: impl %s, model %s" % (t, im, mo), {"kind": "split", "params": t}))
        elif "ok" in im and len(im["ok"]) >= 2:
            stats["nontrivial"] += 1
        stats["fam"]["split:" + ("ok" if "ok" in im else im.get("err", "timeout"))] = \
            stats["fam"].get("split:" + ("ok" if "ok" in im else im.get("err", "timeout")), 0) + 1
    return stats, viol, disag, []


# --------------------------------------------------------------------------- queries

def addr_of_result(nc, table, doc):
    """Address of the node a NodeCoords designates: identity of the container it yields, else the
    parent container's identity plus parentref."""
    from ruamel.yaml.comments import CommentedSet
    node = nc.node
    if isinstance(node, (dict, list, CommentedSet)) and id(node) in table:
        return table[id(node)]
    if nc.parent is None:
        if node is doc or not isinstance(doc, (dict, list)):
            return []
        raise codec.OutOfModel("result without parent that is not the root")
    if id(nc.parent) not in table:
        raise codec.OutOfModel("parent not in document")
    return table[id(nc.parent)] + [codec.ref_of(nc.parent, nc.parentref)]


def held_under(nc):
    """Is the yielded node what its reported parent holds under its reported parentref?  (None: no parent reported)"""
    if nc.parent is None:
        return None
    try:
        x = nc.parent[nc.parentref]
    except Exception:  # noqa
        return False
    return x is nc.node or (not isinstance(x, (dict, list)) and type(x) is type(nc.node) and x == nc.node)


def anchorize(docj):
    """Give every non-null scalar its own anchor: json_to_ruamel then builds the wrapper objects the
    round-trip loader yields for anchored scalars (ScalarBoolean, ScalarInt, ScalarFloat,
    PlainScalarString).  The keyword definitions do not depend on that representation."""
    n = [0]

    def go(j):
        k = j.get("k")
        if k == "map":
            return dict(j, e=[[kk, go(v)] for kk, v in j["e"]])
        if k == "seq":
            return dict(j, i=[go(v) for v in j["i"]])
        if k in ("bool", "int", "float", "str") and "a" not in j:
            n[0] += 1
            return dict(j, a="zw%d" % n[0])
        return j
    return go(docj)


def maybe_anchorize(docj, path):
    import zlib
    if zlib.crc32((json.dumps(docj, sort_keys=True) + path).encode()) % 4 == 0:
        return anchorize(docj)
    return docj


def run_kw(docj, path, want_kw, want_inv, want_params, mustexist=True):
    """Outcome of the query on the real Processor: (expressible?, outcome) with outcome
    {"nodes": [addr…]} | {"names": [key/index…]} | {"err": class, "site":…, "partial": n}.
    mustexist=False: the DEFAULT retrieval mode of get_nodes (a YAML Path error is then an error, never "nothing matched")."""
    from yamlpath import Processor, YAMLPath
    from yamlpath.enums import PathSegmentTypes
    from yamlpath.path.searchkeywordterms import SearchKeywordTerms
    doc = codec.json_to_ruamel(maybe_anchorize(docj, path))
    table = codec.build_addr_table(doc)

    def parse():
        yp = YAMLPath(path)
        segs = list(yp.escaped)
        last = segs[-1]
        ok = (last[0] is PathSegmentTypes.KEYWORD_SEARCH and isinstance(last[1], SearchKeywordTerms)
              and last[1].keyword.name == want_kw and bool(last[1].inverted) == want_inv
              and last[1]._parameters == want_params)
        return yp, ok
    st, val = cc.guarded(parse)
    if st != "ok":
        return False, None
    yp, ok = val
    if not ok:
        return False, None
    res, names = [], []

    def go():
        proc = Processor(core.quiet_logger(), doc)
        for nc in proc.get_nodes(yp, mustexist=mustexist):
            if want_kw == "NAME":
                names.append(nc.node)
            else:
                res.append(addr_of_result(nc, table, doc))
                held.append(held_under(nc))
    held = []
    st, val = cc.guarded(go)
    got = {"names": names} if want_kw == "NAME" else {"nodes": res, "held": held}
    if st == "ok":
        return True, got
    if st == "timeout":
        return True, {"err": "timeout"}
    if isinstance(val, codec.OutOfModel):
        return True, {"oom": str(val)}
    cls = core.exc_class(val)
    if cls == "ypath" and not res and not names:
        return True, {"err": "ypath", "site": core.crash_site(val)} if not mustexist else {"err": "ypath"}
    return True, {"err": cls, "site": core.crash_site(val), "partial": len(res) + len(names)}


def judge_optional(c, path, mnodes, mnames, what):
    """The same query in the DEFAULT retrieval mode (get_nodes(path), mustexist=False; what yaml-get style callers use):
    the keyword must select exactly the same members - in particular an EMPTY selection is an empty result there, not an
    error (with mustexist=True "nothing matched" is reported as a YAML Path error by design).  Every node the path names
    in front of the keyword exists, so the optional mode has nothing to create.  -> (signature, text) | None"""
    okp, im = run_kw(c["doc"], path, c["kw"], c["inv"], c["params"], mustexist=False)
    if not okp or "oom" in im:
        return None
    name = "%s%s" % ("!" if c["inv"] else "", KW[c["kw"]])
    want = ([(r[1] if r is not None else None) for r in mnames] if c["kw"] == "NAME" else mnodes)
    if "err" in im:
        if im["err"] == "timeout":
            return ("timeout", what + " (default retrieval mode) did not return")
        if not want:
            return ("optional-mode:empty-selection-raises:%s" % name,
                    "get_nodes(%r) in the default retrieval mode (mustexist=False) raised %s at %s; the keyword selects no member here, "
                    "so the result is the empty selection (on %s)" % (path, im["err"], im.get("site"), what))
        return ("optional-mode:raises:%s" % name, "get_nodes(%r, mustexist=False) raised %s at %s; by definition it selects %s (%s)"
                % (path, im["err"], im.get("site"), want, what))
    got = im.get("names") if c["kw"] == "NAME" else im.get("nodes")
    same = (got == want) or (c["inv"] and c["kw"] in ("MAX", "MIN", "UNIQUE") and got is not None
                             and sorted(map(json.dumps, got)) == sorted(map(json.dumps, want)))
    if not same:
        return ("optional-mode:kw-mismatch:%s" % name, "get_nodes(%r, mustexist=False) yielded %s; by definition %s (%s)"
                % (path, got, want, what))
    return None


def reached_by(docj, path):
    """Addresses of the nodes the real code reaches by `path`, in order."""
    from yamlpath import Processor, YAMLPath
    doc = codec.json_to_ruamel(docj)
    table = codec.build_addr_table(doc)

    def go():
        proc = Processor(core.quiet_logger(), doc)
        return [addr_of_result(nc, table, doc) for nc in proc.get_nodes(YAMLPath(path), mustexist=True)]
    st, val = cc.guarded(go)
    if st == "ok":
        return val
    if isinstance(val, codec.OutOfModel):
        return {"oom": str(val)}
    return {"err": "timeout" if st == "timeout" else core.exc_class(val)}


def nodes_of(outcome):
    """Result addresses of a query outcome; a YAML Path error without results = nothing matched; None = other error."""
    if "nodes" in outcome:
        return outcome["nodes"]
    return [] if outcome == {"err": "ypath"} else None


def py_eq(a, b):
    """Equality of two scalar values as Python `==` decides it (1 == 1.0 == True; 1 != "1"; null == null)."""
    return a == b


def query_text(c, inv):
    """The query of a case as path text; `ptext` is the parameter text as it must be written in a path so that the
    path parser hands `params` to the keyword (backslashes doubled, blanks / quotes escaped)."""
    return "%s[%s%s(%s)]" % (c["path"], "!" if inv else "", KW[c["kw"]], c.get("ptext", c["params"]))


def direct_judge(c, path, got):
    """The clauses of the property judged without the model, with Python `==` on the values themselves, for an
    Array-of-Hashes / hash-of-hashes at `ats[0]` and a parameter naming the attribute:
    unique = the members whose value occurs once (inverted: more than once), distinct = the first member of each group
    of equal values, max/min plain + inverted = a partition of ALL the members.  None = held or not judged."""
    kw, inv = c["kw"], c["inv"]
    # `key`: the key the parameter text designates when that text is a quoted / escaped spelling of it
    name = c.get("key", c["params"])
    if len(c["ats"]) != 1 or ("key" not in c and not name.isalnum()):
        return None
    at = c["ats"][0]
    coll = codec.json_to_plain(c["doc"])
    for kind, ref in at:
        coll = coll[ref]
    if kw == "HAS_CHILD" and "key" in c:
        # has_child returns exactly the hashes having (inverted: lacking) the named key
        if isinstance(coll, dict):
            want = [at] if (name in coll) != inv else []
        elif isinstance(coll, list) and coll and all(isinstance(v, dict) for v in coll):
            want = [at + [["i", i]] for i, v in enumerate(coll) if (name in v) != inv]
        else:
            return None
        if got != want:
            return ("direct:%shas_child-not-the-hashes-%s-the-key" % ("!" if inv else "", "lacking" if inv else "having"),
                    "yielded %s; the hashes %s the key %r are %s" % (got, "lacking" if inv else "having", name, want))
        return None
    if kw not in ("UNIQUE", "DISTINCT", "MAX", "MIN"):
        return None
    if isinstance(coll, dict):
        members = [(["k", k], v) for k, v in coll.items()]
        if name in coll and any(not isinstance(v, dict) for _, v in members):
            return None                      # "the parameter names a key of the parent": refused by the code
    elif isinstance(coll, list) and all(v is None or isinstance(v, dict) for v in coll) and coll:
        members = [(["i", i], v) for i, v in enumerate(coll)]
    else:
        return None
    keyed = [(ref, v[name]) for ref, v in members if isinstance(v, dict) and name in v]
    if any(isinstance(v, (dict, list, set)) for _, v in keyed):
        return None                          # container values: crash classes, C15's domain
    addr = lambda ref: at + [ref]
    if kw in ("UNIQUE", "DISTINCT"):
        occ = lambda v: sum(1 for _, w in keyed if py_eq(v, w))
        if kw == "UNIQUE" and not inv:
            want = [addr(r) for r, v in keyed if occ(v) == 1]
            if got != want:
                return ("direct:unique-not-the-once-occurring", "yielded %s; the members whose `%s` occurs once are %s" % (got, name, want))
        elif kw == "UNIQUE":
            want = [addr(r) for r, v in keyed if occ(v) > 1]
            if sorted(map(json.dumps, got)) != sorted(map(json.dumps, want)):
                return ("direct:!unique-not-the-repeated", "yielded %s; the members whose `%s` occurs more than once are %s" % (got, name, want))
        elif not inv:
            want = [addr(r) for i, (r, v) in enumerate(keyed) if not any(py_eq(v, w) for _, w in keyed[:i])]
            if got != want:
                return ("direct:distinct-not-first-of-each-group", "yielded %s; the first members of each group of equal `%s` are %s" % (got, name, want))
        return None
    if not inv:
        return None
    # max/min: the plain and the inverted result partition the members
    okp, plain = run_kw(c["doc"], query_text(c, False), kw, False, c["params"])
    if not okp or nodes_of(plain) is None or not (got or nodes_of(plain)):
        return None                          # both empty: the query is refused altogether
    plain = {"nodes": nodes_of(plain)}
    allm = sorted(json.dumps(addr(r)) for r, _ in members)
    both = sorted(json.dumps(a) for a in plain["nodes"] + got)
    if both != allm:
        return ("direct:%s-partition" % KW[kw], "yielded %s and plain %s; together they must be exactly the members %s"
                % (got, plain["nodes"], [addr(r) for r, _ in members]))
    return None


def opt_sampled(path, empty):
    import zlib
    return empty or zlib.crc32(path.encode()) % 3 == 0


def null_in_front(c):
    """Is a node the keyword is applied to null?  The default retrieval mode treats a null node as one still to be built
    and hands it on without applying the segment (C09's subject): not judged."""
    for at in c["ats"] + c.get("via", []):       # `via`: nodes an earlier segment of the path selected and handed on
        j = c["doc"]
        for kind, ref in at:
            if j["k"] == "map":
                j = dict((json.dumps(k), v) for k, v in j["e"]).get(json.dumps(ref))
            elif j["k"] == "seq":
                j = j["i"][ref] if -len(j["i"]) <= ref < len(j["i"]) else None
            else:
                j = None
            if j is None:
                return True
        if j["k"] == "null":
            return True
    return False


def kw_chunk(cases):
    """cases: [{"fam", "doc", "path", "ats", "kw", "inv", "params"}]"""
    drv = core.Driver()
    reqs = []
    for c in cases:
        if c.get("reach") == "impl":
            # a search filter behind `**` (which also tests every scalar leaf against the term): which nodes that reaches
            # is not C13's business; the keyword is judged on the nodes the code does reach
            rs = reached_by(c["doc"], c["path"])
            c["ats"] = rs if isinstance(rs, list) else []
            c["unreached"] = not isinstance(rs, list) or not rs
        for at in c["ats"]:
            reqs.append({"op": "C13.kw", "doc": c["doc"], "at": at, "inv": c["inv"], "kw": c["kw"], "params": c["params"]})
    answers = drv.ask(reqs)
    stats = {"n": 0, "nontrivial": 0, "oom": 0, "fam": {}, "skipped": 0, "crash_agreed": {}}
    viol, disag, samples = [], [], []
    k = 0
    for c in cases:
        mos = [a["model"] for a in answers[k:k + len(c["ats"])]]
        k += len(c["ats"])
        case = dict(c, kind="kw")
        path = query_text(c, c["inv"])
        case["query"] = path
        okp, im = run_kw(c["doc"], path, c["kw"], c["inv"], c["params"])
        stats["n"] += 1
        if not okp:
            stats["skipped"] += 1
            continue
        if c.get("unreached"):
            stats["oom"] += 1
            continue
        if c.get("reach") == "oracle":
            # the path in front of the keyword is a deep traversal: the nodes it reaches are C01's business; C13 judges
            # the keyword on the nodes it does reach (`ats`, from the definition of `**` + filter) only if the code
            # reaches exactly those
            rs = reached_by(c["doc"], c["path"])
            if rs != c["ats"]:
                if not (isinstance(rs, dict) and "oom" in rs):
                    disag.append(("deep-traversal-reach", "%s on %s reaches %s; by the definition of ** %s"
                                  % (c["path"], json.dumps(codec.json_to_plain(c["doc"])), rs, c["ats"]), case))
                else:
                    stats["oom"] += 1
                continue
        if c.get("direct") and nodes_of(im) is not None:
            dv = direct_judge(c, path, nodes_of(im))
            if dv is not None:
                stats["fam"][c["fam"]] = stats["fam"].get(c["fam"], 0) + 1
                viol.append((dv[0], "%s on %s %s" % (path, json.dumps(codec.json_to_plain(c["doc"]), default=sorted), dv[1]), case))
                continue
        # the model's expectation for the whole query: results of each reached node, in order
        merr, mnodes, mnames = None, [], []
        for mo in mos:
            if "err" in mo:
                merr = mo["err"]
                break
            if "nodes" in mo:
                mnodes += mo["nodes"]
            else:
                mnames.append(mo["name"])
        if merr == "outOfModel" or "oom" in im:
            stats["oom"] += 1
            continue
        stats["fam"][c["fam"]] = stats["fam"].get(c["fam"], 0) + 1
        what = "%s on %s" % (path, json.dumps(codec.json_to_plain(c["doc"]), default=sorted))
        if im.get("err") == "timeout":
            viol.append(("timeout", what + " did not return", case))
            continue
        if merr is not None:
            if merr.startswith("crash"):
                if im.get("err") == merr:
                    key = "%s@%s" % (merr, im.get("site"))
                    stats["crash_agreed"][key] = stats["crash_agreed"].get(key, 0) + 1
                else:
                    disag.append(("kw-crash-class:%s" % c["kw"], what + ": impl %s, model %s" % (im, merr), case))
                continue
            # model: a YAML Path error (or nothing matched)
            if im.get("err") == "ypath":
                continue
            if "err" in im:
                viol.append(("%s@%s" % (im["err"], im.get("site")), what + " raised %s; expected a YAML Path error" % im["err"], case))
            else:
                viol.append(("kw-expected-error:%s" % c["kw"], what + " yielded %s; the keyword's definition refuses this query" % im, case))
            continue
        if "err" in im and im["err"] != "ypath":
            viol.append(("%s@%s" % (im["err"], im.get("site")), what + " raised %s" % im["err"], case))
            continue
        if c["kw"] == "NAME":
            want = [(r[1] if r is not None else None) for r in mnames]
            got = im.get("names", []) if "err" not in im else []
            if got != want:
                viol.append(("kw-mismatch:NAME", what + " %s; held under %s" % (
                    "was refused (YAML Path error)" if "err" in im else "yielded %s" % got, want), case))
                continue
            if want and want[0] is not None:
                stats["nontrivial"] += 1
            if "reach" not in c and opt_sampled(path, False) and not null_in_front(c):
                ov = judge_optional(c, path, mnodes, mnames, what)
                stats["fam"]["optional-mode"] = stats["fam"].get("optional-mode", 0) + 1
                if ov is not None:
                    viol.append((ov[0], ov[1], dict(case, mode="optional")))
            continue
        got = im.get("nodes", []) if "err" not in im else []
        if got != mnodes:
            sig = "kw-mismatch:%s%s:%s" % ("!" if c["inv"] else "", c["kw"], c["fam"].split("/")[0])
            viol.append((sig, what + " %s; by definition %s" % (
                "was refused (YAML Path error)" if "err" in im else "yielded %s" % got, mnodes), case))
            continue
        if c.get("pref") and "err" not in im and False in im.get("held", []):
            bad = [a for a, h in zip(got, im["held"]) if h is False]
            viol.append(("parent-result-parentref", what + " yielded the right ancestor(s) %s but with a parent reference under "
                         "which the reported parent does not hold them (name() of the result is that reference)" % bad, case))
            continue
        if "reach" not in c and opt_sampled(path, not mnodes) and not null_in_front(c):
            # the default retrieval mode: the same selection; all of the cases whose selection is empty, a third of the others
            ov = judge_optional(c, path, mnodes, mnames, what)
            key = "optional-mode" + ("/empty-selection" if not mnodes else "")
            stats["fam"][key] = stats["fam"].get(key, 0) + 1
            if ov is not None:
                viol.append((ov[0], ov[1], dict(case, mode="optional")))
                continue
        nmem = c.get("members", 0)
        if got and (c["kw"] in ("PARENT",) and c["params"] not in ("0",) or 0 < len(got) < nmem):
            stats["nontrivial"] += 1
            if len(samples) < 1:
                samples.append({"query": path, "doc": c["doc"], "impl": got, "model": mnodes})
    return stats, viol[:40], disag[:40], samples


# --------------------------------------------------------------------------- case generation

TRIPLES = {
    "ints": [2, 9, 10], "floats": [1.5, 2.25, 10.0], "strings": ["a", "b", "ab"],
    "mixed/int-str-null": [1, "a", None], "mixed/int-float-bool": [1, 1.0, True], "mixed/numstr": ["10", "9", 2],
    "mixed/int-null": [3, None, 7],
}


def wrap(collection_json, members):
    """The collection at the document root and under key `c`."""
    return [({"k": "map", "e": [["c", collection_json]]}, "c", [[["k", "c"]]], members),
            (collection_json, "", [[]], members)]


def param_sets(fam_kind, kw):
    if kw in ("PARENT",):
        return ["", "0", "1", "2"]
    if kw == "NAME":
        return ["", "a"]
    if kw == "HAS_CHILD":
        return ["a", "", "zz"] if fam_kind != "seq" else ["a", ""]
    return ["", "a"] if fam_kind == "seq" else ["a", "", "zz"]


def seq_cases(maxlen):
    cases = []
    for fam, vals in TRIPLES.items():
        vj = [sj(v) for v in vals]
        for n in range(0, maxlen + 1):
            for idxs in itertools.product(range(3), repeat=n):
                coll = {"k": "seq", "i": [vj[i] for i in idxs]}
                # both placements for short sequences, under the key only for the long ones
                for (doc, path, ats, members) in wrap(coll, n)[: (2 if n <= 3 else 1)]:
                    for kw in KW:
                        for inv in (False, True):
                            for params in param_sets("seq", kw):
                                cases.append({"fam": "seq/" + fam if "/" not in fam else fam, "doc": doc, "path": path, "ats": ats,
                                              "kw": kw, "inv": inv, "params": params, "members": members})
    return cases


def member_states(values):
    absent = {"k": "map", "e": [["b", sj(0)]]}
    null_attr = {"k": "map", "e": [["a", {"k": "null"}], ["b", sj(1)]]}
    return [absent, null_attr] + [{"k": "map", "e": [["a", sj(v)]]} for v in values]


HASH_VALUE_FAMILIES = [
    # (family, the two attribute values, longest collection enumerated)
    ("ints", [2, 10], 4), ("strings", ["b", "ab"], 4),
    # unequal values of different types that print alike: grouping / comparing must go by value, not by text
    ("mixed/int-str", [1, "1"], 3), ("mixed/float-str", [2.5, "2.5"], 3), ("mixed/bool-str", [True, "True"], 3),
]


def hash_cases(maxlen, rng, tier):
    cases = []
    for vfam, values, vmax in HASH_VALUE_FAMILIES:
        states = member_states(values)
        aoh_states = states + [{"k": "null"}]
        # members of a hash of hashes that are not hashes themselves: a null placeholder, a bare scalar
        hoh_states = states + [{"k": "null"}, sj(values[0])]
        nonhash = {"aoh": (len(states),), "hoh": (len(states), len(states) + 1)}
        for n in range(0, min(maxlen, vmax) + 1):
            for shape, pool in (("aoh", aoh_states), ("hoh", hoh_states)):
                for idxs in itertools.product(range(len(pool)), repeat=n):
                    if shape == "aoh":
                        coll = {"k": "seq", "i": [pool[i] for i in idxs]}
                    else:
                        coll = {"k": "map", "e": [["k%d" % j, pool[i]] for j, i in enumerate(idxs)]}
                    has_null_attr = any(i == 1 for i in idxs)
                    fam = "%s/%s%s%s" % (shape, vfam, "+nullattr" if has_null_attr else "",
                                         "+nonhash-member" if any(i in nonhash[shape] for i in idxs) else "")
                    placements = wrap(coll, n)
                    if n == maxlen and tier == "quick":
                        placements = placements[:1]
                    for (doc, path, ats, members) in placements:
                        for kw in ("MAX", "MIN", "UNIQUE", "DISTINCT", "HAS_CHILD"):
                            for inv in (False, True):
                                for params in param_sets(shape, kw):
                                    cases.append({"fam": fam, "doc": doc, "path": path, "ats": ats, "kw": kw, "inv": inv,
                                                  "params": params, "members": n, "direct": True})
    # a hash whose own key is named like the parameter, holding non-hash members
    for vals in ([1, 2], [1, {"k": "map", "e": [["a", sj(3)]]}]):
        es = [["a", sj(vals[0])], ["k1", vals[1] if isinstance(vals[1], dict) else sj(vals[1])]]
        doc = {"k": "map", "e": es}
        for kw in ("MAX", "MIN", "UNIQUE", "DISTINCT"):
            for inv in (False, True):
                cases.append({"fam": "hoh/param-names-own-key", "doc": doc, "path": "", "ats": [[]], "kw": kw, "inv": inv,
                              "params": "a", "members": 2})
    return cases


# keys a keyword parameter can only name in a quoted / escaped spelling: literal backslashes, commas, quotes, blanks
ODD_KEYS = ["srv\\pub", "\\", "a\\", "\\a", "a\\\\b", "\\\\", "a\\,b", "a,b", ",", "a'b", 'a"b', "'a'", "it's", "a b", " a", "a ", " "]


def decoys_of(key):
    """Keys a wrong reading of the parameter text would look for instead: the key without its backslashes, with each
    doubled, without quotes / commas / blanks, cut at the first comma."""
    ds = [key.replace("\\", ""), key.replace("\\", "\\\\"), key.replace("\\", "", 1), key.strip(), key.replace(" ", ""),
          key.replace("'", "").replace('"', ""), key.split(",")[0], key.replace(",", ""), "'%s'" % key, key + "\\"]
    out = []
    for d in ds:
        if d and d != key and d not in out and not d.startswith("&"):
            out.append(d)
    return out


def param_spellings(key):
    """Parameter texts (what the keyword receives from the path parser) that designate `key` as ONE parameter:
    every significant character escaped; the key between single / double quotes (backslashes and quotes escaped)."""
    esc = "".join(("\\" + ch) if ch in "\\,'\" " else ch for ch in key)
    inq = "".join(("\\" + ch) if ch in "\\'\"" else ch for ch in key)
    out = [esc, "'%s'" % inq, '"%s"' % inq]
    if "'" not in key and '"' not in key and "\\" not in key:
        out.append("'%s'" % key)
    return list(dict.fromkeys(out))


def path_spellings(params):
    """Path texts from which the path parser yields the parameter text `params`: backslashes doubled and every blank /
    quote / bracket escaped; or backslashes doubled and blanks escaped only (quotes left to the path parser, which
    keeps balanced ones).  run_kw checks that the parser really hands over `params` (else: path-not-expressible)."""
    full = "".join(("\\" + ch) if ch in "\\ '\"()[]" else ch for ch in params)
    light = "".join(("\\" + ch) if ch in "\\ " else ch for ch in params)
    return list(dict.fromkeys([full, light]))


def oddkey_cases(rng, tier):
    """Arrays-of-Hashes and hashes (of hashes) whose attribute / child key holds literal backslashes, commas, quotes or
    blanks, next to members holding a look-alike key instead (or both, with the values swapped): each keyword taking a
    key name x inversion x every spelling of the key as a parameter x both ways of writing that in a path.  Judged by
    the model and directly (`direct_judge`: has_child = the hashes having the key, unique/distinct, max/min partition)."""
    cases = []
    for key in ODD_KEYS:
        decoys = decoys_of(key)
        for dk in decoys[: (2 if tier == "quick" else 10)]:
            states = [{"k": "map", "e": [[key, sj(2)]]}, {"k": "map", "e": [[dk, sj(10)]]},
                      {"k": "map", "e": [[key, sj(10)], [dk, sj(2)]]}, {"k": "map", "e": [["other", sj(0)]]}]
            combos = [t for n in (1, 2) for t in itertools.product(range(4), repeat=n)]
            threes = list(itertools.product(range(4), repeat=3))
            combos += rng.sample(threes, 6 if tier == "quick" else 40)
            for idxs in combos:
                n = len(idxs)
                shapes = [("aoh", {"k": "seq", "i": [states[i] for i in idxs]})]
                if n <= 2:
                    shapes.append(("hoh", {"k": "map", "e": [["k%d" % j, states[i]] for j, i in enumerate(idxs)]}))
                if n == 1:
                    shapes.append(("hash", states[idxs[0]]))
                for shape, coll in shapes:
                    doc, path, ats, members = wrap(coll, n)[0]
                    kws = ("HAS_CHILD",) if shape == "hash" else ("HAS_CHILD", "MAX", "MIN", "UNIQUE", "DISTINCT")
                    for kw in kws:
                        for params in param_spellings(key):
                            ptexts = path_spellings(params)
                            ptext = ptexts[rng.randrange(len(ptexts))] if (n == 3 or kw not in ("HAS_CHILD", "MAX")) else None
                            for pt in ([ptext] if ptext is not None else ptexts):
                                for inv in (False, True):
                                    cases.append({"fam": "oddkey/%s/%s" % (shape, KW[kw]), "doc": doc, "path": path, "ats": ats,
                                                  "kw": kw, "inv": inv, "params": params, "ptext": pt, "key": key,
                                                  "members": n if shape != "hash" else 2, "direct": True})
    return cases


PARENT_DOCS = [
    {"a": {"b": {"c": 1}}},
    {"a": {"b": [1, {"c": 2}]}, "l": [[1, 2], [3]], "s": 5},
    {"l": [{"a": 1}, {"a": 2}]},
    {"l": [{"a": {"x": 1}}, {"a": {"x": 2}}, {"b": 0}]},
    [1, [2, [3, [4]]]],
    [{"a": [1, 2]}, {"a": [3]}],
    {"x": None, "y": [None], 1: {2: "z"}},
    {"h": {"k1": {"p": 1}, "k2": {"p": 2}}},
    "scalar",
    [],
    {},
    {"a": [[{"b": 1}]]},
    {"m": {"n": {"o": {"p": {"q": 1}}}}},
    {"l": [[{"a": 1}], [{"a": 2}]]},
]


def plain_to_json(v):
    if isinstance(v, dict):
        return {"k": "map", "e": [[k, plain_to_json(x)] for k, x in v.items()]}
    if isinstance(v, list):
        return {"k": "seq", "i": [plain_to_json(x) for x in v]}
    return sj(v)


def all_nodes(v, addr=None, path=""):
    """(address, key/index path text) of every node."""
    addr = addr or []
    yield addr, path
    if isinstance(v, dict):
        for k, x in v.items():
            yield from all_nodes(x, addr + [["k", k]], (path + "." if path else "") + str(k))
    elif isinstance(v, list):
        for i, x in enumerate(v):
            yield from all_nodes(x, addr + [["i", i]], path + "[%d]" % i)


def parent_cases():
    cases = []
    for d in PARENT_DOCS:
        dj = plain_to_json(d)
        for addr, path in all_nodes(d):
            for n in ["", "0", "1", "2", "3", "4", "5", "-1", "x"]:
                cases.append({"fam": "parent/direct", "doc": dj, "path": path, "ats": [addr], "kw": "PARENT", "inv": False,
                              "params": n, "members": 0})
            cases.append({"fam": "parent/inverted", "doc": dj, "path": path, "ats": [addr], "kw": "PARENT", "inv": True,
                          "params": "", "members": 0})
            cases.append({"fam": "name/direct", "doc": dj, "path": path, "ats": [addr], "kw": "NAME", "inv": False,
                          "params": "", "members": 0})
            for p in ("a", "zz"):
                for inv in (False, True):
                    cases.append({"fam": "has_child/direct", "doc": dj, "path": path, "ats": [addr], "kw": "HAS_CHILD",
                                  "inv": inv, "params": p, "members": 2})
    # Array-of-Hashes pass-through: `l.a` reaches the attribute of every member
    pt = [({"l": [{"a": 1}, {"a": 2}]}, "l.a", [[["k", "l"], ["i", 0], ["k", "a"]], [["k", "l"], ["i", 1], ["k", "a"]]]),
          ({"l": [{"a": {"x": 1}}, {"a": {"x": 2}}, {"b": 0}]}, "l.a.x",
           [[["k", "l"], ["i", 0], ["k", "a"], ["k", "x"]], [["k", "l"], ["i", 1], ["k", "a"], ["k", "x"]]]),
          ([{"a": [1, 2]}, {"a": [3]}], "a", [[["i", 0], ["k", "a"]], [["i", 1], ["k", "a"]]])]
    for d, path, ats in pt:
        for n in ["", "0", "1", "2", "3", "4"]:
            cases.append({"fam": "parent/aoh-pass-through", "doc": plain_to_json(d), "path": path, "ats": ats, "kw": "PARENT",
                          "inv": False, "params": n, "members": 0})
        cases.append({"fam": "name/aoh-pass-through", "doc": plain_to_json(d), "path": path, "ats": ats, "kw": "NAME",
                      "inv": False, "params": "", "members": 0})
    return cases


# documents with lists of hashes, for parent(n) / name() on nodes found by a filtered deep traversal
DEEP_DOCS = [
    {"l": [{"a": 1}, {"a": 2, "b": {"a": 3}}]},
    {"top": {"l": [{"n": 0, "m": {"a": 1}}, {"n": 1, "m": {"a": 2}}]}},
    [{"a": {"b": 1}}, {"a": {"b": 2}}, [{"b": 3}]],
    {"x": {"l": [{"m": {"a": 1, "l": [{"a": 2}]}}, {"m": {"a": 1}}], "a": 0}},
    {"p": [[{"a": 1}], {"q": [{"a": 1, "c": None}]}]},
    {"h": {"k": {"a": 1}}, "l": [[[{"a": 2}]]]},
]


def random_deep_doc(rng, depth=0):
    """A document of hashes and lists (lists of hashes mostly) with integer leaves under the keys a, b, c, l."""
    r = rng.random()
    if depth >= 4 or r < 0.25 + 0.1 * depth:
        return rng.randint(0, 2)
    if r < 0.65:
        ks = rng.sample(["a", "b", "c", "l"], rng.randint(1, 3))
        return {k: random_deep_doc(rng, depth + 1) for k in ks}
    return [random_deep_doc(rng, depth + 1) if rng.random() < 0.3 else
            {k: random_deep_doc(rng, depth + 2) for k in rng.sample(["a", "b", "c"], rng.randint(1, 2))}
            for _ in range(rng.randint(1, 3))]


def deep_reach(d, kind, key, val=None):
    """Addresses the path `**.key` / `**[key=val]` / `**[key>val]` reaches, by the definition of `**` followed by a
    filter: every hash of the document, in document order (a node before its children), whose child `key` passes the
    filter, contributes that child."""
    out = []

    def walk(v, addr):
        if isinstance(v, dict):
            if key in v:
                x = v[key]
                isnum = isinstance(x, int) and not isinstance(x, bool)
                if kind == "key" or (kind == "eq" and isnum and x == val) or (kind == "gt" and isnum and x > val):
                    out.append(addr + [["k", key]])
            for k, x in v.items():
                walk(x, addr + [["k", k]])
        elif isinstance(v, list):
            for i, x in enumerate(v):
                walk(x, addr + [["i", i]])
    walk(d, [])
    return out


def deep_parent_cases(rng, nrandom):
    cases = []
    docs = list(DEEP_DOCS)
    while len(docs) < len(DEEP_DOCS) + nrandom:
        d = random_deep_doc(rng)
        if isinstance(d, (dict, list)) and "[{" in json.dumps(d).replace(" ", ""):
            docs.append(d)
    for d in docs:
        dj = plain_to_json(d)
        keys = sorted({a[-1][1] for a, _ in all_nodes(d) if a and a[-1][0] == "k"})
        prefixes = []
        for k in keys:
            prefixes.append(("**.%s" % k, deep_reach(d, "key", k), "key"))
            prefixes.append(("**[%s=1]" % k, deep_reach(d, "key", k), "search"))
            prefixes.append(("**[%s>0]" % k, deep_reach(d, "key", k), "search"))
        for path, ats, pk in prefixes:
            reach = "oracle" if pk == "key" else "impl"
            if not ats:
                continue
            for n in ["", "0", "1", "2", "3", "4", "5"]:
                cases.append({"fam": "parent/deep-traversal-" + pk, "doc": dj, "path": path, "ats": ats, "kw": "PARENT",
                              "inv": False, "params": n, "members": 0, "reach": reach})
                # name() of the climbed ancestor (where every reached node has that many ancestors)
                steps = 1 if n == "" else int(n)
                if reach == "impl" or all(len(a) >= steps for a in ats):
                    cases.append({"fam": "name/deep-traversal-" + pk, "doc": dj, "path": "%s[parent(%s)]" % (path, n),
                                  "ats": [a[:len(a) - steps] for a in ats], "kw": "NAME", "inv": False, "params": "",
                                  "members": 0, "reach": reach})
            cases.append({"fam": "name/deep-traversal-" + pk, "doc": dj, "path": path, "ats": ats, "kw": "NAME", "inv": False,
                          "params": "", "members": 0, "reach": reach})
    return cases


def fslash(path):
    """A dot-notation key / index path (plain keys) in forward-slash notation."""
    return "/" + path.replace(".", "/")


def wild_parent_cases(rng, nrandom):
    """parent(n) as the FILTER of a wildcard: `<container>.*[parent(n)]` and `<container>.**[parent(n)]` for every non-empty
    container of PARENT_DOCS, DEEP_DOCS and `nrandom` seeded documents (root included, so the selected nodes start at depth 1),
    n in default, 0..4; name() of each climbed ancestor; chained climbs `…*[parent(m)][parent(n)]` (the second climb may reach
    the root or pass it); a third of the paths in forward-slash notation.  `*` followed by a segment selects every child for
    which that segment matches, `**` every node at or below the container (a node before its children), and parent(n)
    matches every node that has n ancestors: so the result is the n-th ancestor of each of those nodes, in order, and a
    refusal exactly when one of them lies less than n levels below the root.  The wildcards evaluate the following segment
    once as a test and once for the result - the answer must not depend on that."""
    cases = []
    docs = list(PARENT_DOCS) + list(DEEP_DOCS)
    while len(docs) < len(PARENT_DOCS) + len(DEEP_DOCS) + nrandom:
        d = random_deep_doc(rng)
        if isinstance(d, (dict, list)) and d:
            docs.append(d)
    k = 0
    for d in docs:
        dj = plain_to_json(d)
        nodes = list(all_nodes(d))
        for addr, path in nodes:
            sub = [a for a, _p in nodes if a[:len(addr)] == addr]
            kids = [a for a in sub if len(a) == len(addr) + 1]
            if not kids:
                continue
            depth = len(addr)
            for star, ats, fam in ((path + ".*" if path else "*", kids, "wildcard"),
                                   (path + ".**" if path else "**", sub, "deep-wildcard")):
                k += 1
                if k % 3 == 0:
                    star = fslash(star)
                least = min(len(a) for a in ats)
                for n in ["", "0", "1", "2", "3", "4"]:
                    steps = 1 if n == "" else int(n)
                    if steps > least + 1:
                        continue
                    cases.append({"fam": "parent/" + fam, "doc": dj, "path": star, "ats": ats, "kw": "PARENT", "inv": False,
                                  "params": n, "members": 0})
                    if steps <= least:
                        up = [a[:len(a) - steps] for a in ats]
                        cases.append({"fam": "name/" + fam, "doc": dj, "path": "%s[parent(%s)]" % (star, n), "ats": up,
                                      "kw": "NAME", "inv": False, "params": "", "members": 0, "via": ats})
                        # a second climb from the ancestors the first one reached: up to the root, and one level too far
                        for n2 in ["", "0", "2"] + ([str(least - steps)] if least - steps > 2 else []):
                            s2 = 1 if n2 == "" else int(n2)
                            if s2 <= least - steps + 1:
                                cases.append({"fam": "parent/%s-chained" % fam, "doc": dj, "path": "%s[parent(%s)]" % (star, n),
                                              "ats": up, "kw": "PARENT", "inv": False, "params": n2, "members": 0, "via": ats})
    return cases


# lists of hashes addressed by a slice [a:b]: parent(n) / name() on what lies below the sliced elements
SLICE_DOCS = [
    {"stages": [{"id": "f", "steps": ["a", "b"], "m": {"x": 1}}, {"id": "b", "steps": ["c"], "m": {"x": 2}},
                {"id": "t", "steps": ["d", "e"], "m": {"x": 3}}, {"id": "s", "steps": ["f"], "m": {"x": 4}}]},
    [{"a": 1, "b": {"c": 1}}, {"a": 1, "b": {"c": 1}}, {"a": 2, "b": {"c": 1}}],
    {"top": {"l": [{"a": 0}, {"a": 0}, {"a": 0}, {"a": 0}, {"a": 0}], "z": 1}},
    {"l": [{"a": [1], "b": 0}, {"a": [2, 3], "b": 0}, {"a": [4], "b": 1}], "k": [{"a": 5}, {"a": 6}]},
]


def random_slice_doc(rng):
    """a list of 3-5 hashes (equal members likely), each with some of: a scalar, a hash, a list; at the root or below 1-2 keys"""
    n = rng.randint(3, 5)
    keys = rng.sample(["a", "b", "c", "m"], rng.randint(1, 3))
    shape = {k: rng.choice(["scalar", "scalar", "hash", "list"]) for k in keys}

    def member():
        out = {}
        for k in keys:
            if rng.random() < 0.1:
                continue
            if shape[k] == "scalar":
                out[k] = rng.randint(0, 1)
            elif shape[k] == "hash":
                out[k] = {kk: rng.randint(0, 1) for kk in rng.sample(["x", "y"], rng.randint(1, 2))}
            else:
                out[k] = [rng.randint(0, 1) for _ in range(rng.randint(1, 2))]
        return out or {keys[0]: 0}
    base = member()
    lst = [(json.loads(json.dumps(base)) if rng.random() < 0.4 else member()) for _ in range(n)]
    r = rng.random()
    if r < 0.2:
        return lst
    if r < 0.7:
        return {rng.choice(["l", "stages"]): lst, "z": rng.randint(0, 1)}
    return {"top": {"l": lst}, "z": [rng.randint(0, 1)]}


def slice_tails(members):
    """[(address tail, dot path tail)] of the key / key.key / key[0] paths present in EVERY one of the hashes"""
    def tails(v):
        out = []
        for k, x in v.items():
            out.append(((("k", k),), k))
            if isinstance(x, dict):
                out += [((("k", k), ("k", kk)), "%s.%s" % (k, kk)) for kk in x]
            elif isinstance(x, list) and x:
                out.append(((("k", k), ("i", 0)), "%s[0]" % k))
        return out
    common = None
    for m in members:
        if not isinstance(m, dict):
            return []
        t = tails(m)
        common = t if common is None else [x for x in common if x in t]
    return common or []


def slice_parent_cases(rng, nrandom):
    """<list>[a:b].<tail>[parent(n)], ...[parent(n)][name()], ...[name()] for every list of hashes of the documents and
    every slice 0 <= a < b <= len (the members a..b-1; mostly >= 2 of them): the n-th ancestor of EACH reached node, the
    reference each ancestor is held under, in order."""
    cases = []
    docs = list(SLICE_DOCS) + [random_slice_doc(rng) for _ in range(nrandom)]
    for dn, d in enumerate(docs):
        dj = plain_to_json(d)
        for addr, lpath in all_nodes(d):
            lst = d
            for (t, x) in addr:
                lst = lst[x]
            if not (isinstance(lst, list) and len(lst) >= 2 and all(isinstance(m, dict) for m in lst)):
                continue
            slices = [(a, b) for a in range(len(lst)) for b in range(a + 1, len(lst) + 1)]
            if dn >= len(SLICE_DOCS):
                slices = rng.sample(slices, min(4, len(slices)))
            for (a, b) in slices:
                tl = slice_tails(lst[a:b])
                if dn >= len(SLICE_DOCS) and len(tl) > 3:
                    tl = rng.sample(tl, 3)
                for tail, ttext in tl:
                    fslash = (a + b + len(ttext)) % 2 == 1
                    if fslash:
                        base = "/" + lpath.replace(".", "/") + "[%d:%d]/" % (a, b) + ttext.replace(".", "/")
                    else:
                        base = lpath + "[%d:%d]." % (a, b) + ttext
                    ats = [addr + [["i", i]] + [list(x) for x in tail] for i in range(a, b)]
                    fam = "slice" if b - a >= 2 else "slice1"
                    common = {"doc": dj, "inv": False, "members": 0}
                    for n in ["", "0", "1", "2", "3", "4"]:
                        cases.append(dict(common, fam="parent/" + fam, path=base, ats=ats, kw="PARENT", params=n, pref=True))
                        steps = 1 if n == "" else int(n)
                        if steps >= 1 and len(ats[0]) >= steps:
                            cases.append(dict(common, fam="name/%s-parent" % fam, path="%s[parent(%s)]" % (base, n),
                                              ats=[x[:len(x) - steps] for x in ats], kw="NAME", params=""))
                    cases.append(dict(common, fam="name/" + fam, path=base, ats=ats, kw="NAME", params=""))
    return cases


def odd_cases():
    """Collections holding containers, odd parameters: the crash classes of the model."""
    cases = []
    docs = [["a", {"b": 1}, "a"], [[1], [2]], [{"a": [1]}, {"a": [1]}], [{"a": {"x": 1}}, {"a": 2}], ["a", "b", "a"],
            {"k1": {"a": [1]}, "k2": {"a": 1}}]
    for d in docs:
        for kw in ("UNIQUE", "DISTINCT", "MAX", "MIN", "HAS_CHILD"):
            for inv in (False, True):
                for params in ("", "a", ",", "a,b", "'a'", "\"a\"", "\\'a", "a\\", "&x", " a "):
                    cases.append({"fam": "odd", "doc": plain_to_json(d), "path": "", "ats": [[]], "kw": kw, "inv": inv,
                                  "params": params, "members": len(d)})
    return cases


def random_cases(rng, n):
    cases = []
    for _ in range(n):
        fam = rng.choice(["ints", "floats", "strings"])
        if fam == "ints":
            vals = [rng.randint(-5, 12) for _ in range(rng.randint(6, 12))]
        elif fam == "floats":
            vals = [rng.choice([0.5, 1.5, 2.25, 10.0, -3.5, 100.125, 1e-05, 20.0]) for _ in range(rng.randint(6, 12))]
        else:
            vals = [rng.choice(["a", "b", "ab", "B", "ba", "", "é", "abc"]) for _ in range(rng.randint(6, 12))]
        shape = rng.choice(["seq", "aoh", "hoh"])
        if shape != "seq" and rng.random() < 0.3:
            # same text, different type
            vals = [(str(v) if rng.random() < 0.4 else v) for v in vals]
            fam = "mixed-" + fam

        def member(v):
            r = rng.random()
            if r < 0.75:
                return {"k": "map", "e": [["a", sj(v)]]}
            if r < 0.85:
                return {"k": "map", "e": [["b", sj(0)]]}
            if r < 0.93 or shape == "aoh":
                return {"k": "null"}
            return sj(v)
        if shape == "seq":
            coll = {"k": "seq", "i": [sj(v) for v in vals]}
            params = ""
        elif shape == "aoh":
            coll = {"k": "seq", "i": [member(v) for v in vals]}
            params = "a"
        else:
            coll = {"k": "map", "e": [["k%d" % i, member(v)] for i, v in enumerate(vals)]}
            params = "a"
        doc, path, ats, members = wrap(coll, len(vals))[0]
        cases.append({"fam": "random/%s/%s" % (shape, fam), "doc": doc, "path": path, "ats": ats,
                      "kw": rng.choice(["MAX", "MIN", "UNIQUE", "DISTINCT"]), "inv": rng.random() < 0.5, "params": params,
                      "members": members, "direct": shape != "seq"})
    return cases


# --------------------------------------------------------------------------- max / min behind (nested) collectors

def run_coll_kw(docj, path, kw, inv):
    """Values (as [kind, text], in order) that `path` = <collector groups>[<!>max()|min()] yields on the real Processor."""
    from yamlpath import Processor, YAMLPath
    from yamlpath.enums import PathSegmentTypes
    from yamlpath.path.searchkeywordterms import SearchKeywordTerms
    from yamlpath.wrappers import NodeCoords
    from harness.props import c12
    doc = codec.json_to_ruamel(docj)

    def parse():
        yp = YAMLPath(path)
        segs = list(yp.escaped)
        last = segs[-1][1] if kw else None
        ok = all(sg[0] is PathSegmentTypes.COLLECTOR for sg in (segs[:-1] if kw else segs)) and len(segs) >= 1
        if kw:
            ok = (ok and len(segs) >= 2 and isinstance(last, SearchKeywordTerms) and last.keyword.name == kw
                  and bool(last.inverted) == inv and last._parameters == "")
        return yp, ok
    st, val = cc.guarded(parse)
    if st != "ok" or not val[1]:
        return None
    res = []

    def flat(x):
        while isinstance(x, NodeCoords):
            x = x.node
        if isinstance(x, list):
            for y in x:
                flat(y)
        else:
            res.append(c12.ident(x))

    def go():
        for nc in Processor(core.quiet_logger(), doc).get_nodes(val[0], mustexist=True):
            flat(nc)
    st, val2 = cc.guarded(go)
    if st == "ok":
        return {"vals": res}
    if st == "timeout":
        return {"err": "timeout"}
    cls = core.exc_class(val2)
    if cls == "ypath" and not res:
        return {"vals": []}
    return {"err": cls, "site": core.crash_site(val2)}


def coll_kw_chunk(cases):
    """max() / min(), plain and inverted, over what a (nested) collector gathered from lists / hashes of numbers: exactly
    the gathered members whose value is greatest / least (all of them on a tie), inverted exactly the others - judged on
    the values themselves (numbers only, so `greatest` is numeric)."""
    from harness.props import c12
    stats = {"n": 0, "nontrivial": 0, "oom": 0, "fam": {}, "skipped": 0, "crash_agreed": {}}
    viol = []
    for c in cases:
        expr = c12.coll_expr(c["shape"], c["operands"], c["fslash"])
        plainj = codec.json_to_plain(c["doc"])
        cands = []
        for key, _star in c["operands"]:
            coll = plainj[key]
            cands += list(coll.values()) if isinstance(coll, dict) else list(coll)
        stats["n"] += 1
        base = run_coll_kw(c["doc"], expr, None, False)
        if base is None or base.get("vals") != [c12.ident(v) for v in cands]:
            stats["skipped"] += 1            # what the collector gathers is not C13's subject
            continue
        path = "%s[%s%s()]" % (expr, "!" if c["inv"] else "", KW[c["kw"]])
        got = run_coll_kw(c["doc"], path, c["kw"], c["inv"])
        if got is None:
            stats["skipped"] += 1
            continue
        nested = "nested" if "((" in c["shape"] else "flat"
        fam = "collector-%s/%s" % (nested, KW[c["kw"]])
        stats["fam"][fam] = stats["fam"].get(fam, 0) + 1
        case = dict(c, kind="collkw", query=path)
        what = "%s on %s" % (path, json.dumps(plainj))
        if "err" in got:
            viol.append(("%s@%s" % (got["err"], got.get("site")), what + " raised %s" % got["err"], case))
            continue
        best = max(cands) if c["kw"] == "MAX" else min(cands)
        want = [c12.ident(v) for v in cands if (v == best) != c["inv"]]
        # the property fixes WHICH members, not the order in which the inverted form hands them out
        if sorted(got["vals"]) != sorted(want):
            viol.append(("direct:collector-%s:%s%s" % (nested, "!" if c["inv"] else "", KW[c["kw"]]),
                         what + " yielded %s; the gathered members %s %s are %s"
                         % (got["vals"], "other than the" if c["inv"] else "with the", "greatest" if c["kw"] == "MAX" else "least", want), case))
            continue
        if 0 < len(want) < len(cands):
            stats["nontrivial"] += 1
    return stats, viol[:40], [], []


def collector_kw_cases(rng, tier):
    """Three collections (lists; the third may be a hash) of ints / floats whose text order differs from their numeric
    order, repeats allowed (ties); every grouping of c12.COLL_SHAPES over 1-3 of them; max / min x inversion."""
    from harness.props import c12
    cases = []
    for d in range(60 if tier == "quick" else 600):
        pool = [c12.COLL_NUMS, c12.COLL_NUMS, c12.COLL_FLOATS, c12.COLL_NUMS + c12.COLL_FLOATS][d % 4]
        colls = {}
        for key in ("a", "b", "c"):
            vals = [rng.choice(pool) for _ in range(rng.randint(1, 4))]
            if key == "c" and rng.random() < 0.5:
                colls[key] = {"k": "map", "e": [["k%d" % i, sj(v)] for i, v in enumerate(vals)]}
            else:
                colls[key] = {"k": "seq", "i": [sj(v) for v in vals]}
        doc = {"k": "map", "e": [[k, colls[k]] for k in ("a", "b", "c")]}
        for n in (1, 2, 3):
            for shape in c12.COLL_SHAPES[n]:
                keys = rng.sample(["a", "b", "c"], n)
                operands = [[k, True if colls[k]["k"] == "map" else rng.random() < 0.5] for k in keys]
                for kw in ("MAX", "MIN"):
                    for inv in (False, True):
                        cases.append({"doc": doc, "operands": operands, "shape": shape, "fslash": rng.random() < 0.3,
                                      "kw": kw, "inv": inv})
    return cases


# --------------------------------------------------------------------------- collector -> max / min -> name() / parent(n)

def run_seq(docj, path):
    """Results of a multi-step path on the real Processor: {"vals": [...]} each result a document node's address
    (["node", addr]), or - when the last segment is name() - the yielded key / index (["name", x])."""
    from yamlpath import Processor, YAMLPath
    from yamlpath.wrappers import NodeCoords
    doc = codec.json_to_ruamel(docj)
    table = codec.build_addr_table(doc)
    names = path.endswith("[name()]")
    res = []

    def go():
        for nc in Processor(core.quiet_logger(), doc).get_nodes(YAMLPath(path), mustexist=True):
            while isinstance(nc.node, NodeCoords):
                nc = nc.node
            if names:
                res.append(["name", nc.node])
            else:
                res.append(["node", addr_of_result(nc, table, doc)])
    st, val = cc.guarded(go)
    if st == "ok":
        return {"vals": res}
    if st == "timeout":
        return {"err": "timeout"}
    if isinstance(val, codec.OutOfModel):
        return {"vals": res + [["not-a-document-node", str(val)]]}
    cls = core.exc_class(val)
    if cls == "ypath" and not res:
        return {"err": "ypath"}
    return {"err": cls, "site": core.crash_site(val), "partial": res}


def coll_seq_chunk(cases):
    """<flat collector>[<!>max()|min()] FOLLOWED BY [name()] / [parent(n)] / [parent(n)][name()]: the members max / min
    select out of what a collector gathered are nodes of the document, so name() is the key / index each is held under in
    ITS collection and parent(n) its n-th ancestor in the document.  Oracle: the gathered members with their addresses,
    read off the document (operands `k.*` / `p.k.*`: the members of a list / hash; `k`: the list itself, gathered member
    by member); the greatest / least by numeric value (inverted: the others, in any order)."""
    stats = {"n": 0, "nontrivial": 0, "oom": 0, "fam": {}, "skipped": 0, "crash_agreed": {}}
    viol = []
    for c in cases:
        plainj = codec.json_to_plain(c["doc"])
        gathered = []
        for addr_keys, _star in c["operands"]:
            coll = plainj
            for k in addr_keys:
                coll = coll[k]
            base = [["k", k] for k in addr_keys]
            refs = [["k", k] for k in coll] if isinstance(coll, dict) else [["i", i] for i in range(len(coll))]
            gathered += [(base + [r], coll[r[1]]) for r in refs]
        stats["n"] += 1
        expr = c["expr"]
        # what the collector alone gathers is not C13's subject
        basev = run_coll_kw(c["doc"], expr, None, False)
        from harness.props import c12
        if basev is None or basev.get("vals") != [c12.ident(v) for _a, v in gathered]:
            stats["skipped"] += 1
            continue
        best = max(v for _a, v in gathered) if c["kw"] == "MAX" else min(v for _a, v in gathered)
        sel = [a for a, v in gathered if (v == best) != c["inv"]]
        steps = c["steps"]
        if steps is None:
            want = [["name", a[-1][1]] for a in sel]
        elif c["then_name"]:
            want = [["name", a[:len(a) - steps][-1][1]] for a in sel]
        else:
            want = [["node", a[:len(a) - steps]] for a in sel]
        path = "%s[%s%s()]%s" % (expr, "!" if c["inv"] else "", KW[c["kw"]], c["tail"])
        got = run_seq(c["doc"], path)
        fam = "collector-then/%s%s" % (KW[c["kw"]], "/name" if steps is None or c["then_name"] else "/parent")
        stats["fam"][fam] = stats["fam"].get(fam, 0) + 1
        case = dict(c, kind="collseq", query=path)
        what = "%s on %s" % (path, json.dumps(plainj))
        if not sel:
            continue
        if "err" in got:
            sig = ("%s@%s" % (got["err"], got.get("site"))) if got["err"] not in ("ypath", "timeout") else \
                "collector-then-keyword-refused:%s" % c["tail"].split("(")[0].strip("[")
            viol.append((sig, what + " raised %s; expected %s" % (got["err"], want), case))
            continue
        same = got["vals"] == want if not c["inv"] else sorted(map(json.dumps, got["vals"])) == sorted(map(json.dumps, want))
        if not same:
            kind = "name" if steps is None or c["then_name"] else "parent"
            viol.append(("collector-then-%s:%s%s" % (kind, "!" if c["inv"] else "", KW[c["kw"]]),
                         what + " yielded %s; the members %s%s() selects are %s, so by definition %s"
                         % (got["vals"], "!" if c["inv"] else "", KW[c["kw"]], sel, want), case))
            continue
        if len(sel) < len(gathered):
            stats["nontrivial"] += 1
    return stats, viol[:40], [], []


def coll_seq_cases(rng, tier):
    """Documents {a: [...], p: {b: [...], c: {...}}, q: {r: {d: [...]}}} of ints / floats with ties (collections at depth
    1, 2 and 3); flat collectors (X), (X)+(Y), (X)+(Y)+(Z) over their members (`k.*`), for name() also over the lists
    themselves (`k`); both notations; then [max()] / [min()] plain and inverted; then [name()], [parent(n)] for every n up to
    the depth of the shallowest gathered member, [parent(n)][name()]."""
    from harness.props import c12
    cases = []
    for d in range(40 if tier == "quick" else 400):
        pool = [c12.COLL_NUMS, c12.COLL_FLOATS, c12.COLL_NUMS + c12.COLL_FLOATS][d % 3]

        def coll(as_map):
            vals = [rng.choice(pool) for _ in range(rng.randint(1, 4))]
            if as_map:
                return {"k": "map", "e": [["k%d" % i, sj(v)] for i, v in enumerate(vals)]}
            return {"k": "seq", "i": [sj(v) for v in vals]}
        doc = {"k": "map", "e": [["a", coll(False)],
                                 ["p", {"k": "map", "e": [["b", coll(False)], ["c", coll(True)]]}],
                                 ["q", {"k": "map", "e": [["r", {"k": "map", "e": [["d", coll(rng.random() < 0.5)]]}]]}]]}
        where = {"a": ["a"], "b": ["p", "b"], "c": ["p", "c"], "d": ["q", "r", "d"]}
        is_map = {"a": False, "b": False, "c": True, "d": doc["e"][2][1]["e"][0][1]["e"][0][1]["k"] == "map"}
        for n in (1, 2, 3):
            for _rep in range(2):
                names = rng.sample(["a", "b", "c", "d"], n)
                for tailkind in ("name", "parent"):
                    operands = [[where[k], True if (is_map[k] or tailkind == "parent") else rng.random() < 0.5] for k in names]
                    fslash = rng.random() < 0.3
                    subs = []
                    for keys, star in operands:
                        if fslash:
                            subs.append("(/%s%s)" % ("/".join(keys), "/*" if star else ""))
                        else:
                            subs.append("(%s%s)" % (".".join(keys), ".*" if star else ""))
                    expr = ("/" if fslash else "") + "+".join(subs)
                    mind = min(len(keys) for keys, _s in operands) + 1
                    if tailkind == "name":
                        tails = [("[name()]", None, False)]
                    else:
                        tails = [("[parent(%s)]" % ("" if k == 1 and rng.random() < 0.5 else k), k, False) for k in range(0, mind + 1)]
                        tails += [("[parent(%d)][name()]" % k, k, True) for k in range(1, mind)]
                    for tail, steps, then_name in tails:
                        for kw in ("MAX", "MIN"):
                            for inv in (False, True):
                                cases.append({"doc": doc, "operands": operands, "expr": expr, "kw": kw, "inv": inv, "tail": tail,
                                              "steps": steps, "then_name": then_name})
    return cases


# --------------------------------------------------------------------------- has_child(&NAME): anchored children, merge keys, histories

def anchor_doc_text(rng):
    """YAML text of a document whose root holds only hashes (and, in AoH mode, one list of hashes `lst`): 1-3 anchored source
    hashes `base<i>: &m<i>` (a later one may merge an earlier one), 2-5 hashes `h<i>` that merge one or two sources through a
    YAML merge key (`<<: *m0`, `<<: [*m0, *m1]`) or none, hold scalar values with an anchor of their own (`v: &s0 5`), aliases
    of those (`w: *s0`) and anchored keys (`&k0 kk: 1`).  No hash holds an anchored HASH as a plain value."""
    lines = []
    nsrc = rng.randint(1, 3)
    for i in range(nsrc):
        lines.append("base%d: &m%d" % (i, i))
        if i and rng.random() < 0.3:
            lines.append("  <<: *m%d" % rng.randrange(i))
        lines.append("  x: %d" % i)
        lines.append("  y: %s" % rng.choice(["1", "a", "2"]))
    sanch, kanch = [], []

    def hash_body(ind, first=""):
        out = []
        r = rng.random()
        if r < 0.45:
            out.append("<<: *m%d" % rng.randrange(nsrc))
        elif r < 0.65 and nsrc > 1:
            out.append("<<: [%s]" % ", ".join("*m%d" % j for j in rng.sample(range(nsrc), 2)))
        out.append("own: %d" % rng.randint(0, 2))
        r = rng.random()
        if r < 0.3:
            sanch.append("s%d" % len(sanch))
            out.append("v: &%s %s" % (sanch[-1], rng.choice(["5", "a"])))
        elif r < 0.5 and sanch:
            out.append("w: *%s" % rng.choice(sanch))
        if rng.random() < 0.2:
            kanch.append("k%d" % len(kanch))
            out.append("&%s kk: 1" % kanch[-1])
        return [(first if j == 0 else ind) + x for j, x in enumerate(out)]

    nh = rng.randint(2, 5)
    for i in range(nh):
        lines.append("h%d:" % i)
        lines += hash_body("  ", "  ")
    aoh = rng.random() < 0.4
    if aoh:
        lines.append("lst:")
        for i in range(rng.randint(1, 4)):
            lines += hash_body("    ", "  - ")
    return "\n".join(lines) + "\n", aoh


def anchor_name_of(node):
    a = getattr(node, "anchor", None)
    return a.value if a is not None else None


def has_anchored_child(h, name):
    """The clause, read off the ruamel tree: the hash has a child - a key, a value, or a YAML merge key reference
    `<<: *NAME` - carrying the Anchor / Alias name."""
    if any(anchor_name_of(src) == name for (_i, src) in getattr(h, "merge", [])):
        return True
    own = h.non_merged_items() if hasattr(h, "non_merged_items") else h.items()
    return any(anchor_name_of(k) == name or anchor_name_of(v) == name for k, v in own)


def all_anchor_names(node, out, seen=None):
    from ruamel.yaml.comments import CommentedMap
    seen = set() if seen is None else seen
    if id(node) in seen:
        return
    seen.add(id(node))
    n = anchor_name_of(node)
    if n:
        out.add(n)
    if isinstance(node, CommentedMap):
        for (_i, src) in getattr(node, "merge", []):
            all_anchor_names(src, out, seen)
        for k, v in node.non_merged_items():
            all_anchor_names(k, out, seen)
            all_anchor_names(v, out, seen)
    elif isinstance(node, list):
        for v in node:
            all_anchor_names(v, out, seen)


def ask_refs(proc, path, mustexist):
    """parentrefs of the results (each result must be what its parent holds there) | {"err": …}"""
    out = []

    def go():
        for nc in proc.get_nodes(path, mustexist=mustexist):
            if nc.parent is None or nc.parent[nc.parentref] is not nc.node:
                out.append(["?", repr(nc.parentref)])
            else:
                out.append(nc.parentref)
    st, val = cc.guarded(go)
    if st == "ok":
        return out
    if st == "timeout":
        return {"err": "timeout"}
    if core.exc_class(val) == "ypath" and not out and mustexist:
        return []
    return {"err": core.exc_class(val), "site": core.crash_site(val)}


def anchor_queries(data, names, aoh):
    """[(path, candidates container key | None, NAME, inverted)] of a document."""
    from ruamel.yaml.comments import CommentedMap
    qs = []
    for n in names:
        for inv in (False, True):
            kw = "[%shas_child(&%s)]" % ("!" if inv else "", n)
            qs.append(("/h*" + kw, "h*", n, inv))
            if not aoh:
                qs.append(("/*" + kw, "*", n, inv))
            elif isinstance(data.get("lst"), list) and data["lst"] and all(isinstance(e, CommentedMap) for e in data["lst"]):
                qs.append(("/lst" + kw, "lst", n, inv))
                qs.append(("lst.*" + kw, "lst", n, inv))
            if "h0" in data:
                qs.append(("/h0" + kw, "h0", n, inv))
    return qs


def anchor_expect(data, where, name, inv):
    from ruamel.yaml.comments import CommentedMap
    if where == "lst":
        return [i for i, e in enumerate(data["lst"]) if has_anchored_child(e, name) != inv]
    if where == "h0":
        return ["h0"] if has_anchored_child(data["h0"], name) != inv else []
    return [k for k, v in data.items() if isinstance(v, CommentedMap) and (where == "*" or str(k).startswith("h"))
            and has_anchored_child(v, name) != inv]


GENERIC_QUERIES = ["/h*[has_child(own)]", "/h*[has_child(v)]", "/h*[!has_child(x)]", "/*[x=0]", "/h*[own>0]", "/*[max(own)]", "/h0[parent()]"]


def anchor_history_chunk(cases):
    """cases: [{"text", "aoh", "steps": [[op, args…]], "mustexist"}] - ONE document object and ONE Processor per case: ask every
    has_child(&NAME) query (plain and inverted, over the root's hashes through `*` and `h*`, over the Array-of-Hashes, on a
    single hash), apply an edit step through the same Processor, ask again, ...  Each answer is judged (a) by the clause on the
    CURRENT content of the document (has_anchored_child) and (b) against a fresh Processor over an independent copy of the
    current content (dumped and loaded again): the property quantifies over documents, so an answer may depend on the content
    only, not on what was asked or changed before."""
    import io
    from yamlpath import Processor
    from yamlpath.common import Parsers
    from ruamel.yaml.comments import CommentedMap
    stats = {"n": 0, "nontrivial": 0, "oom": 0, "fam": {}, "skipped": 0}
    viol = []

    def bump(k, n=1):
        stats["fam"][k] = stats["fam"].get(k, 0) + n

    for c in cases:
        yaml = Parsers.get_yaml_editor()
        st, data = cc.guarded(lambda: yaml.load(c["text"]))
        if st != "ok" or not isinstance(data, CommentedMap):
            stats["skipped"] += 1
            continue
        proc = Processor(core.quiet_logger(), data)
        seen_names = set()
        done = []
        for si in range(len(c["steps"]) + 1):
            if si:
                step = c["steps"][si - 1]
                def edit():
                    op = step[0]
                    if op == "ymk":
                        proc.ymk_nodes(step[1], step[2], anchor_name=step[3])
                    elif op == "alias":
                        proc.alias_nodes(step[1], step[2], anchor_name=step[3])
                    elif op == "set":
                        proc.set_value(step[1], step[2])
                    elif op == "del":
                        proc.delete_nodes(step[1])
                st, val = cc.guarded(edit)
                done.append(step + [st if st == "ok" else core.exc_class(val) if st == "exc" else st])
                bump("anchor-history/step:" + step[0] + (":refused" if st != "ok" else ""))
                if st == "timeout":
                    break
            names = set()
            all_anchor_names(data, names)
            seen_names |= names
            fam = "has_child-anchor/" + ("first-query" if si == 0 else "after-edits")
            # an independent copy of the current content
            copy_doc = None
            def mk_copy():
                buf = io.StringIO()
                Parsers.get_yaml_editor().dump(data, buf)
                return Parsers.get_yaml_editor().load(buf.getvalue())
            st, val = cc.guarded(mk_copy)
            if st == "ok" and isinstance(val, CommentedMap):
                copy_doc = val
            what = lambda: " (document %r%s)" % (c["text"], "".join("; then %s" % d for d in done))
            for (path, where, name, inv) in anchor_queries(data, sorted(seen_names) + ["q"], c["aoh"]):
                stats["n"] += 1
                got = ask_refs(proc, path, c["mustexist"])
                case = dict(c, kind="anchor-history", upto=si, query=path)
                if isinstance(got, dict):
                    if got["err"] == "ypath":
                        got = []
                    else:
                        viol.append(("%s@%s" % (got["err"], got.get("site")), "%s raised %s%s" % (path, got["err"], what()), case))
                        continue
                want = anchor_expect(data, where, name, inv)
                bump(fam)
                if got != want:
                    viol.append(("direct:%shas_child-anchor-not-the-hashes-%s-the-child:%s" % (
                                    "!" if inv else "", "lacking" if inv else "having", "first-query" if si == 0 else "after-edits"),
                                 "%s yielded %s; the hashes %s a child anchored / aliased / merged as &%s are %s%s" % (
                                     path, got, "lacking" if inv else "having", name, want, what()), case))
                    continue
                if want and len(want) < len(anchor_expect(data, where, name, False)) + len(anchor_expect(data, where, name, True)):
                    stats["nontrivial"] += 1
                    if any(hasattr(data.get(k) if where != "lst" else data["lst"][k], "merge")
                           and getattr(data.get(k) if where != "lst" else data["lst"][k], "merge") for k in want):
                        bump("has_child-anchor/through-merge-key")
            if copy_doc is None or si == 0:
                continue
            fresh = Processor(core.quiet_logger(), copy_doc)
            for path in GENERIC_QUERIES:        # (anchors of plain scalars do not all survive a dump: only queries that ignore them)
                stats["n"] += 1
                got = ask_refs(proc, path, c["mustexist"])
                ref = ask_refs(fresh, path, c["mustexist"])
                bump("history/answer-vs-fresh-copy")
                if got != ref and not (isinstance(got, dict) and isinstance(ref, dict) and got["err"] == ref["err"]):
                    viol.append(("history:answer-depends-on-earlier-steps",
                                 "%s yielded %s on the document object that was queried and edited before, %s on an independent copy "
                                 "of its current content%s" % (path, got, ref, what()),
                                 dict(c, kind="anchor-history", upto=si, query=path)))
    return stats, viol[:40], [], []


def anchor_history_cases(rng, n):
    cases = []
    for i in range(n):
        text, aoh = anchor_doc_text(rng)
        nh = text.count("\nh") + (1 if text.startswith("h") else 0)
        nb = text.count("base")
        steps = []
        for j in range(rng.randint(0, 3)):
            r = rng.random()
            hk = "/h%d" % rng.randrange(max(1, nh))
            if r < 0.4:
                src = "/base%d" % rng.randrange(nb)          # only the source hashes are merged: no reference cycles
                steps.append(["ymk", hk, src, rng.choice(["", "n%d" % j, "shared"])])
            elif r < 0.55:
                steps.append(["alias", hk + "/own", "/h%d/own" % rng.randrange(max(1, nh)), rng.choice(["", "a%d" % j])])
            elif r < 0.75:
                steps.append(["set", hk + rng.choice(["/own", "/v", "/new"]), rng.choice([7, "z"])])
            elif r < 0.9:
                steps.append(["del", hk + rng.choice(["/own", "/v", "/w", "/kk"])])
            else:
                steps.append(["del", hk])
        cases.append({"text": text, "aoh": aoh, "steps": steps, "mustexist": i % 2 == 0})
    return cases


def check_tables(chk):
    from yamlpath.enums import PathSearchKeywords
    live = {k.name: str(k) for k in PathSearchKeywords}
    if live != KW:
        chk.disagreement("table:PathSearchKeywords", "keywords of the code %s differ from the model's %s" % (live, KW),
                         {"kind": "table", "live": live})


def run(chk: core.Check):
    core.use_repo()
    rng = random.Random(chk.seed)
    tier = chk.tier
    if chk.replay_in:
        rp = json.load(open(chk.replay_in))
        c = rp.get("case", rp)
        res = (split_chunk([c["params"]]) if c.get("kind") == "split" else
               coll_kw_chunk([c]) if c.get("kind") == "collkw" else
               coll_seq_chunk([c]) if c.get("kind") == "collseq" else
               anchor_history_chunk([c]) if c.get("kind") == "anchor-history" else kw_chunk([c]))
        st, viol, disag, _ = res
        print("replay:", json.dumps({"case": c, "violations": [v[:2] for v in viol], "disagreements": [d[:2] for d in disag]},
                                    default=str, ensure_ascii=False))
        _absorb(chk, st, viol, disag, [])
        return chk
    check_tables(chk)
    texts = list(cc.exhaustive_texts(SPLIT_ALPHA, 5))
    words = ["a", "b", ",", " ", "\\", "'", '"', "a,b", "'a,b'", "\"x\"", "\\,", "1", "&x"]
    texts += ["".join(rng.choice(words) for _ in range(rng.randint(3, 9))) for _ in range(20000)]
    for r in core.pmap(split_chunk, core.chunked(texts, 16)):
        _absorb(chk, *r)
    cases = seq_cases(5) + hash_cases(4, rng, tier) + parent_cases() + odd_cases()
    cases += deep_parent_cases(rng, 60 if tier == "quick" else 600)
    cases += slice_parent_cases(random.Random(chk.seed * 17 + 1), 60 if tier == "quick" else 600)
    wild = wild_parent_cases(random.Random(chk.seed * 23 + 5), 40 if tier == "quick" else 400)
    chk.extra_cov["wildcard_parent_cases"] = len(wild)
    cases += wild
    cases += random_cases(rng, 3000 if tier == "quick" else 100000)
    odd = oddkey_cases(random.Random(chk.seed * 31 + 7), tier)
    chk.extra_cov["oddkey_cases"] = len(odd)
    cases += odd
    chk.extra_cov["cases_generated"] = len(cases)
    rng.shuffle(cases)
    for r in core.pmap(kw_chunk, core.chunked(cases, 64)):
        _absorb(chk, *r)
    ckw = collector_kw_cases(random.Random(chk.seed * 11 + 3), tier)
    chk.extra_cov["collector_kw_cases"] = len(ckw)
    for r in core.pmap(coll_kw_chunk, core.chunked(ckw, 64)):
        _absorb(chk, *r)
    cseq = coll_seq_cases(random.Random(chk.seed * 19 + 9), tier)
    chk.extra_cov["collector_then_keyword_cases"] = len(cseq)
    for r in core.pmap(coll_seq_chunk, core.chunked(cseq, 64)):
        _absorb(chk, *r)
    hist = anchor_history_cases(random.Random(chk.seed * 29 + 11), 300 if tier == "quick" else 6000)
    chk.extra_cov["anchor_history_cases"] = len(hist)
    for r in core.pmap(anchor_history_chunk, core.chunked(hist, 16)):
        _absorb(chk, *r)
    chk.exhaustive = True
    chk.extra_cov["exhaustive_bound"] = ("all sequences of length <= 5 over 3 values x 7 value triples; all AoH (5 member states) "
                                        "and hash-of-hashes (6 member states, incl. null and bare-scalar members) of <= 4 "
                                        "members x 2 value kinds and of <= 3 members x 3 mixed-type value pairs; parameter "
                                        "texts of length <= 5 over 6 characters")
    return chk


def _absorb(chk, st, viol, disag, samples):
    chk.evaluations += st["n"]
    chk.out_of_model += st.get("oom", 0)
    chk.nontrivial_extra += st.get("nontrivial", 0)
    for k, v in st.get("fam", {}).items():
        chk.count("family:" + k, v)
    for k, v in st.get("crash_agreed", {}).items():
        chk.count("crash-outcome-agreed (C15's domain):" + k, v)
    if st.get("skipped"):
        chk.count("path-not-expressible", st["skipped"])
    for s in samples:
        chk.sample(s)
    for sig, w, case in viol:
        chk.violation(sig, w, case)
    for sig, w, case in disag:
        chk.disagreements_checked += 1
        chk.disagreement(sig, w, case)
