"""C05 — merging two documents yields the policy-defined result for every option mix."""
from __future__ import annotations

import json
import os
import random

from harness import core, codec
from harness.props import merging as mg

RULE = ("every ordered pair of documents with <= 2 nodes each (quick; <= 3 nodes thorough) over scalars null 1 2 'a' "
        "true 1.0, keys a b, set members a b 1, each under all 180 hash x array x aoh x set policy combinations given as "
        "constructor (command-line) values; a corpus of past findings; seeded random pairs of larger documents (maps, "
        "lists, arrays-of-hashes with identity keys, sets, empty containers, kind clashes at equal keys, right-hand "
        "documents derived from the left-hand one) under random configurations: command-line values, [defaults] values, "
        "per-path [rules] and [keys] delivered through the rules=/keys= constructor arguments and, for a sample, through a "
        "real INI file.  Every case runs Merger(l).merge_with(r) on freshly built ruamel documents under a 5 s timer. "
        "Direct check on the real code: the outcome is a document or a MergeException (NameError from an enumeration's "
        "from_str for an invalid rule text is a configuration error); anything else is a violation.  Correspondence: "
        "Merger.data (canonical JSON, key order included) or the error class equals the Lean model's, whose content and key "
        "order are proved to meet the specification; a difference in content, outcome class or OrderOK is a violation, a "
        "difference in key interleaving only is a broken correspondence.  The finite tables (option names, defaults) and "
        "Python == on a grid of values are compared completely.  distinct_nontrivial = distinct (l, r, policy) cases whose "
        "result is a document different from both inputs.  Series: 24 000 (quick) left documents with 2-3 sibling sections of "
        "related content and 2-3 right-hand documents merged in turn by ONE Merger / MergerConfig, each naming one section with "
        "the same or a related body (an equal-valued node under an equal parent at different paths of successive documents), "
        "rules / keys addressed at nodes of the first; every step is judged as the merge of the Merger's document as it stood "
        "before the step with that step's right-hand document against the model, which knows no earlier step.  YAML merge keys: "
        "4 000 (quick) left documents (loaded from text) in which 2-3 Hashes inherit an anchored Hash through `<<: *b`, right-hand "
        "documents naming inherited / own / new keys of one of them in random order; judged directly: every Hash the right-hand "
        "document does not name reads as before (in memory and re-read from the written document), every key of the named Hash "
        "it does not name reads as before in the written document, a named Scalar is taken.  Aimed merges with per-path rules: "
        "20 000 (quick) left documents holding a Hash / Array / Array-of-Hashes under a path P of one or two plain keys, a related "
        "right-hand document merged AT P (--mergeat), [rules] / [keys] naming nodes of the merged content by their path in the left "
        "document (P + path in the right-hand document); the merge path and every rule path are written, independently, in "
        "forward-slash or in dot notation (both spell the same path; kw and INI delivery); the content found at P afterwards is "
        "judged as the merge of the content at P before with the right-hand document under the same policies against the model, "
        "the rules addressed relative to P (the model knows neither a merge path nor a notation).")

CORPUS = [
    # (l, r, cfg)
    (mg.M(("a", mg.S(5))), mg.M(("a", mg.L())), {}),
    (mg.M(("a", mg.M(("x", mg.S(1))))), mg.M(("a", mg.L())), {}),
    (mg.L(mg.S(1), mg.S(2)), mg.L(mg.S(3), mg.S(3)), {"array": "unique"}),
    (mg.L(mg.S(1), mg.S(1)), mg.L(mg.S(1), mg.S(3), mg.S(True), mg.S(1.0)), {"array": "unique"}),
    (mg.M(("a", mg.S(1))), mg.M(("a", mg.S(2))), {"aoh": "left"}),
    (mg.M(("a", mg.L(mg.S(1)))), mg.M(("a", mg.L(mg.S(2)))), {"aoh": "right", "array": "left"}),
    (mg.L(mg.M(("a", mg.S(1)))), mg.L(mg.M(("b", mg.S(2)))), {"aoh": "left"}),
    (mg.L(mg.M(("a", mg.S(1)))), mg.L(mg.M(("b", mg.S(2)))), {"aoh": "right"}),
    (mg.S(5), mg.S(7), {}),
    (mg.S(5), mg.M(("a", mg.S(1))), {"hash": "left"}),
    (mg.S(5), mg.SET("a"), {}),
    (mg.S("x"), mg.SET("a"), {"set": "unique"}),
    (mg.M(("a", mg.S(1))), mg.M(("a", mg.SET("x"))), {}),
    (mg.L(), mg.L(mg.M(("a", mg.S(1))), mg.S(5)), {"aoh": "deep"}),
    (mg.SET("a"), mg.L(mg.M()), {}),
    (mg.M(("a", mg.S(1)), ("b", mg.S(2)), ("c", mg.S(3))),
     mg.M(("x", mg.S(1)), ("b", mg.S(2)), ("y", mg.S(1)), ("c", mg.S(3)), ("z", mg.S(1))), {}),
    (mg.M(("a", mg.S(1)), ("b", mg.M()), ("c", mg.S(3))),
     mg.M(("x", mg.S(1)), ("b", mg.M()), ("y", mg.S(1)), ("c", mg.S(3)), ("z", mg.S(1))), {"rules": [[[["k", "b"]], "left"]]}),
    (mg.L(mg.M(("id", mg.S("1")), ("v", mg.S(1)))), mg.L(mg.M(("id", mg.S(1)), ("v", mg.S(2)))), {"aoh": "deep"}),
    (mg.M(("l", mg.L(mg.M(("n", mg.S(1)), ("id", mg.S(2)), ("v", mg.S(1)))))),
     mg.M(("l", mg.L(mg.M(("n", mg.S(9)), ("id", mg.S(2)), ("v", mg.S(2)))))), {"aoh": "deep", "keys": [[[["k", "l"]], "id"]]}),
    (mg.M(("force", mg.S(True))), mg.M(("force", mg.S(False))), {"rules": [[[["k", "force"]], "left"]]}),
]


def judge(l, r, cfg, via, im, mo):
    """-> list of ('violation'|'disagreement', sig, what).  im: impl outcome, mo: model outcome."""
    out = []
    desc = "%s <- %s under %s (%s)" % (_show(l), _show(r), json.dumps(cfg, sort_keys=True), via)
    if "oom" in im or mo.get("err") == "outOfModel":
        return None
    if "err" in im and im["err"] not in ("merge", "config"):
        sig = "%s@%s" % (im["err"], im.get("site", "?"))
        out.append(("violation", sig, "merge %s raised %s at %s" % (desc, im["err"], im.get("site"))))
        return out
    if "err" in im:
        if mo.get("err") != im["err"]:
            if "ok" in mo:
                out.append(("violation", "refused:%s<-%s" % (mg.kind(l), mg.kind(r)),
                            "merge %s raised a %s error; the policies define a result" % (desc, im["err"])))
            else:
                out.append(("disagreement", "errclass:%s-vs-%s" % (im["err"], mo.get("err")),
                            "merge %s: impl %s, model %s" % (desc, im["err"], mo.get("err"))))
        return out
    res = im["ok"]
    if "err" in mo:
        out.append(("violation", "accepted-%s:%s<-%s" % (mo["err"], mg.kind(l), mg.kind(r)),
                    "merge %s silently produced %s; the specification demands a %s error" % (desc, _show(res), mo["err"])))
        return out
    want = mo["ok"]
    if res == want:
        return out
    if not mg.content_eq(res, want):
        out.append(("violation", "content:%s<-%s:%s" % (mg.kind(l), mg.kind(r), _diff_site(res, want)),
                    "merge %s gave %s; the policies define %s" % (desc, _show(res), _show(want))))
    elif not _order_ok_deep(l, r, res):
        out.append(("violation", "order:%s<-%s" % (mg.kind(l), mg.kind(r)),
                    "merge %s gave %s: left-hand keys or right-only keys lost their relative order" % (desc, _show(res))))
    else:
        out.append(("disagreement", "interleaving",
                    "merge %s: key interleaving impl %s, model %s" % (desc, _show(res), _show(want))))
    return out


def _all_coords(d):
    """(addr, node, parent, ref) for every node of d below the root."""
    out = []

    def walk(n, addr):
        if n["k"] == "map":
            for kk, v in n["e"]:
                out.append((addr + [["k", kk]], v, n, kk))
                walk(v, addr + [["k", kk]])
        elif n["k"] == "seq":
            for i, v in enumerate(n["i"]):
                out.append((addr + [["i", i]], v, n, i))
                walk(v, addr + [["i", i]])
    walk(d, [])
    return out


def rule_hits_twin(r, cfg):
    """Does a configured rule / key path name a node of r that has an equal twin elsewhere in r (equal node, equal
    parent, same key / index - e.g. the same record twice in an array of hashes)?  `_get_config_for` compares by ==,
    so the rule holds for the twin too - as long as both stay equal.  The real merge appends right-hand records BY
    REFERENCE and merges later records into them, which changes the right-hand document the rules are registered against:
    whether the twin still matches then depends on which keys were merged before the lookup (`[{a: []}] <- [R, R]`,
    aoh=deep, rule `[0].n = right`: R[1].n finds the rule when `n` precedes `a` in R, not when `a` comes first).  The
    model has values, not objects; such inputs are outside its abstraction."""
    addrs = [a for a, _v in cfg.get("rules", [])] + [a for a, _v in cfg.get("keys", [])]
    if not addrs:
        return False
    coords = _all_coords(r)
    for a in addrs:
        mine = [c for c in coords if c[0] == a]
        if not mine:
            continue
        _a, node, parent, ref = mine[0]
        for b, n2, p2, ref2 in coords:
            if b != a and ref2 == ref and type(ref2) is type(ref) and mg.content_eq(n2, node) and mg.content_eq(p2, parent):
                return True
    return False


def _order_ok_deep(l, r, m):
    if not mg.order_ok(l, r, m):
        return False
    return True


def _diff_site(a, b):
    """Kind of the first differing sub-value (a stable, coarse location for the signature)."""
    if a["k"] != b["k"]:
        return "%s/%s" % (a["k"], b["k"])
    k = a["k"]
    if k == "map":
        da, db = {mg._hk(x[0]): x[1] for x in a["e"]}, {mg._hk(x[0]): x[1] for x in b["e"]}
        if da.keys() != db.keys():
            return "map-keys"
        for x in da:
            if not mg.content_eq(da[x], db[x]):
                return "map." + _diff_site(da[x], db[x])
        return "map"
    if k == "seq":
        if len(a["i"]) != len(b["i"]):
            return "seq-len"
        for x, y in zip(a["i"], b["i"]):
            if not mg.content_eq(x, y):
                return "seq." + _diff_site(x, y)
        return "seq"
    if k == "set":
        return "set-members"
    return "scalar"


def _show(d):
    def plain(j):
        k = j["k"]
        if k == "map":
            return {str(kk) if not isinstance(kk, str) else kk: plain(v) for kk, v in j["e"]}
        if k == "seq":
            return [plain(v) for v in j["i"]]
        if k == "set":
            return {"!!set": list(j["m"])}
        return codec.json_to_plain(j)
    return json.dumps(plain(d))


def run_cases(cases):
    """Worker: cases = [(l, r, cfg, via)] -> (stats, findings, samples, nontrivial keys)."""
    drv = core.Driver()
    reqs = []
    prepared = []
    stats = {"n": 0, "oom": 0}
    for (l, r, cfg, via) in cases:
        try:
            mc = mg.model_cfg(cfg, [l, r])
        except codec.OutOfModel:
            stats["oom"] += 1
            continue
        reqs.append({"op": "C05.merge", "l": l, "r": r, "cfg": mc})
        prepared.append((l, r, cfg, via))
    model = drv.ask(reqs)
    findings, samples = [], []
    nontrivial = 0
    hist = {}
    for (l, r, cfg, via), mo in zip(prepared, model):
        im = mg.impl_merge(l, r, cfg, via)
        stats["n"] += 1
        oc = "ok" if "ok" in im else ("oom" if "oom" in im else im["err"].split(":")[0])
        hist["impl_outcome:" + oc] = hist.get("impl_outcome:" + oc, 0) + 1
        hist["pair:%s<-%s" % (mg.kind(l), mg.kind(r))] = hist.get("pair:%s<-%s" % (mg.kind(l), mg.kind(r)), 0) + 1
        hist["via:" + via] = hist.get("via:" + via, 0) + 1
        sz = min(mg.size(l) + mg.size(r), 40) // 5 * 5
        hist["size:%02d+" % sz] = hist.get("size:%02d+" % sz, 0) + 1
        if cfg.get("rules"):
            hist["with_rules"] = hist.get("with_rules", 0) + 1
        if cfg.get("keys"):
            hist["with_keys"] = hist.get("with_keys", 0) + 1
        j = judge(l, r, cfg, via, im, mo)
        if j is None:
            stats["oom"] += 1
            continue
        if j and rule_hits_twin(r, cfg):
            # outside the model's abstraction (see rule_hits_twin); crashes are judged all the same
            keep = [x for x in j if "@" in x[1]]
            if len(keep) != len(j):
                hist["rule_names_node_with_equal_twin(differs; not judged)"] = hist.get("rule_names_node_with_equal_twin(differs; not judged)", 0) + 1
                stats["oom"] += 1
            j = keep
        if "ok" in im and im["ok"] != l and im["ok"] != r:
            nontrivial += 1
            if len(samples) < 1 and mg.size(l) > 3:
                samples.append({"l": l, "r": r, "cfg": cfg, "via": via, "impl": im, "model": mo})
        for kind_, sig, what in j:
            if len(findings) < 40:
                findings.append((kind_, sig, what, {"l": l, "r": r, "cfg": cfg, "via": via, "impl": im, "model": mo}))
    return stats, findings, samples, nontrivial, hist


def _exh_job(job):
    _tag, pairs = job
    cases = [(l, r, p, "kw") for (l, r) in pairs for p in mg.ALL_POLICIES]
    return run_cases(cases)


def _rand_job(job):
    _tag, seed, n = job
    rng = random.Random(seed)
    cases = []
    for _ in range(n):
        l, r = mg.rand_pair(rng)
        cfg = mg.rand_policy(rng, r, with_rules=rng.random() < 0.5)
        via = "ini" if (mg.needs_ini(cfg) or rng.random() < 0.03) else "kw"
        cases.append((l, r, cfg, via))
    return run_cases(cases)


# --------------------------------------------------------------------------- a series of merges by ONE Merger

SECTION_KEYS = ["prod", "test", "a", "b", "c", "k1"]


def series_case(rng):
    """One left document with two or three sibling sections of related content; a series of right-hand documents, each naming
    one (sometimes two) of the sections with the SAME or a related body - so that an equal-valued node with an equal parent
    stands at different paths of successive right-hand documents; rules / keys addressed at nodes of the first of them."""
    body = mg.rand_doc(rng, 2, "map")
    if rng.random() < 0.5:
        body["e"].append(["hosts", mg.L(*[mg.rand_scalar(rng) for _ in range(rng.randint(1, 2))])])
    if rng.random() < 0.4:
        body["e"].append(["users", mg.L(*[mg.rand_record(rng, 1) for _ in range(rng.randint(1, 2))])])
    seen, es = set(), []
    for k, v in body["e"]:
        if k not in seen:
            seen.add(k)
            es.append([k, v])
    body = {"k": "map", "e": es}
    ks = rng.sample(SECTION_KEYS, rng.choice([2, 2, 3]))
    l = mg.M(*[(k, mg.mutate(rng, body, 2)) for k in ks])
    rs = []
    for i in range(rng.choice([2, 2, 3])):
        k = ks[i % len(ks)] if rng.random() < 0.8 else rng.choice(ks)
        b = body if rng.random() < 0.7 else mg.mutate(rng, body, 2)
        es = [(k, b)]
        if rng.random() < 0.15:
            k2 = rng.choice([x for x in ks if x != k])
            es.append((k2, mg.mutate(rng, body, 2)))
        rs.append(mg.M(*es))
    cfg = mg.rand_policy(rng, rs[0], with_rules=False)
    deep = [(a, n) for a, n in mg.node_addrs(rs[0]) if len(a) >= 2]
    rules, keys = [], []
    if deep and rng.random() < 0.85:
        for a, n in rng.sample(deep, min(len(deep), rng.randint(1, 2))):
            rules.append([a, rng.choice(mg.valid_rule_names(n))])
    aohs = [(a, n) for a, n in deep if n["k"] == "seq" and n["i"] and n["i"][0]["k"] == "map"]
    if aohs and rng.random() < 0.6:
        a, n = rng.choice(aohs)
        keys.append([a, rng.choice([e[0] for e in n["i"][0]["e"] if isinstance(e[0], str)] + ["id", "n"])])
    if rules:
        cfg["rules"] = rules
    if keys:
        cfg["keys"] = keys
    via = "ini" if (mg.needs_ini(cfg) or rng.random() < 0.1) else "kw"
    return l, rs, cfg, via


def impl_series(l, rs, cfg, via, limit_s=10.0):
    """Merger(l, ONE MergerConfig) then merge_with(r) for each r in turn -> the outcome after every step
    ([{"ok": doc} ..., possibly ending in {"err": ...}])."""
    import signal
    from yamlpath.merger import Merger
    old = signal.signal(signal.SIGVTALRM, mg._alarm)
    signal.setitimer(signal.ITIMER_VIRTUAL, limit_s)
    out = []
    try:
        mc = mg.make_config(cfg, via)
        m = Merger(mc.log, codec.json_to_ruamel(l), mc)
        for r in rs:
            m.merge_with(codec.json_to_ruamel(r))
            out.append({"ok": codec.node_to_json(m.data, anchors=False)})
    except mg.MergeTimeout:
        out.append({"err": "timeout"})
    except codec.OutOfModel:
        out.append({"oom": 1})
    except RecursionError as e:
        out.append({"err": "crash:RecursionError", "site": core.crash_site(e)})
    except Exception as e:  # noqa
        out.append(mg.classify_exc(e))
    finally:
        signal.setitimer(signal.ITIMER_VIRTUAL, 0)
        signal.signal(signal.SIGVTALRM, old)
    return out


def run_series(cases):
    """Worker: every step of a series is judged as the merge of the document as it stood before that step (the real
    Merger's own document, as data) with that step's right-hand document, against the model - which knows no earlier step."""
    stats, findings, hist, nontrivial = {"n": 0, "oom": 0}, [], {}, 0
    runs, reqs, ctx = [], [], []
    for (l, rs, cfg, via) in cases:
        ims = impl_series(l, rs, cfg, via)
        before = l
        for k, im in enumerate(ims):
            try:
                mc = mg.model_cfg(cfg, [before, rs[k]])
            except codec.OutOfModel:
                stats["oom"] += 1
                break
            reqs.append({"op": "C05.merge", "l": before, "r": rs[k], "cfg": mc})
            ctx.append((l, rs, cfg, via, k, before, im))
            if "ok" not in im:
                break
            before = im["ok"]
    model = core.Driver().ask(reqs) if reqs else []
    dead = set()
    for (l, rs, cfg, via, k, before, im), mo in zip(ctx, model):
        stats["n"] += 1
        key = "series:step%d" % (k + 1)
        hist[key] = hist.get(key, 0) + 1
        if id(rs) in dead:
            continue
        j = judge(before, rs[k], cfg, via, im, mo)
        if j is None:
            stats["oom"] += 1
            dead.add(id(rs))
            continue
        if j and rule_hits_twin(rs[k], cfg):
            keep = [x for x in j if "@" in x[1]]
            if len(keep) != len(j):
                stats["oom"] += 1
            j = keep
        if "ok" in im and im["ok"] != before:
            nontrivial += 1
        if j:
            dead.add(id(rs))      # later steps start from a document that is already wrong
        for kind_, sig, what in j:
            what = "series of %d merges by one Merger, step %d: %s  [left document at the start %s; right-hand documents %s]" % (
                len(rs), k + 1, what, _show(l), [_show(r) for r in rs])
            if len(findings) < 40:
                findings.append((kind_, "series:" + sig if k else sig, what,
                                 {"series": {"l": l, "rs": rs}, "cfg": cfg, "via": via, "step": k + 1, "impl": im, "model": mo}))
    return stats, findings, [], nontrivial, hist


def _series_job(job):
    _tag, seed, n = job
    rng = random.Random(seed)
    return run_series([series_case(rng) for _ in range(n)])


# --------------------------------------------------------------------------- left documents with YAML merge keys (<<: *anchor)

def _ytext(d, ind=0):
    """Block-style YAML text of a canonical document (maps, lists, scalars; no sets)."""
    pad = "  " * ind
    k = d["k"]
    if k == "map":
        if not d["e"]:
            return " {}\n"
        return "\n" + "".join("%s%s:%s" % (pad, kk, _ytext(v, ind + 1)) for kk, v in d["e"])
    if k == "seq":
        if not d["i"]:
            return " []\n"
        return "\n" + "".join("%s-%s" % (pad, _ytext(v, ind + 1)) for v in d["i"])
    return " %s\n" % json.dumps(codec.json_to_plain(d))


def _no_sets(d):
    k = d["k"]
    if k == "set":
        return mg.L(*[mg.S(m) for m in d["m"]])
    if k == "map":
        return {"k": "map", "e": [[kk, _no_sets(v)] for kk, v in d["e"] if isinstance(kk, str)]}
    if k == "seq":
        return {"k": "seq", "i": [_no_sets(v) for v in d["i"]]}
    return d


def mergekey_case(rng):
    """A left document in which two or three Hashes pull the keys of an anchored Hash in with a YAML merge key
    (`<<: *b`), some overriding / adding keys of their own; a right-hand document that names ONE of those Hashes and, in it,
    inherited keys (with Hash / Array / Scalar values), own keys and new keys in random order."""
    base = _no_sets(mg.rand_doc(rng, 2, "map"))
    base["e"] = [e for e in base["e"]][:3] + [["sub", mg.M(("p", mg.S(1)))], ["l", mg.L(mg.S(1))]]
    seen, es = set(), []
    for kk, v in base["e"]:
        if kk not in seen:
            seen.add(kk)
            es.append([kk, v])
    base["e"] = es
    users = rng.sample(["use", "other", "third"], rng.choice([2, 3]))
    own = {}
    text = "base: &b" + _ytext(base, 1)
    for u in users:
        mine = [[kk, _no_sets(mg.rand_doc(rng, 1))] for kk in rng.sample(["y", "own", "x2"], rng.randint(0, 2))]
        if rng.random() < 0.3:      # an own key that overrides an inherited one
            mine.append([rng.choice(base["e"])[0], _no_sets(mg.rand_doc(rng, 1))])
        own[u] = mine
        text += "%s:\n  <<: *b\n" % u + "".join("  %s:%s" % (kk, _ytext(v, 2)) for kk, v in mine)
    target = rng.choice(users)
    names = []
    for kk, v in base["e"]:
        if rng.random() < 0.6:
            names.append([kk, mg.mutate(rng, v, 2) if rng.random() < 0.8 else _no_sets(mg.rand_doc(rng, 1))])
    for kk, v in own[target]:
        if rng.random() < 0.5 and all(kk != n[0] for n in names):
            names.append([kk, mg.mutate(rng, v, 1)])
    if rng.random() < 0.4:
        names.append(["brandnew", mg.S(7)])
    rng.shuffle(names)
    if not names:
        names = [["sub", mg.M(("q", mg.S(2)))]]
    rhs = _no_sets(mg.M((target, {"k": "map", "e": names})))
    cfg = {"array": rng.choice(["all", "all", "unique", "left", "right"]), "aoh": rng.choice(["all", "deep", "unique"])}
    return {"ltext": text, "r": rhs, "cfg": cfg, "target": target}


def _plainview(n):
    if isinstance(n, dict):
        return {str(k): _plainview(v) for k, v in n.items()}
    if isinstance(n, (list, tuple)):
        return [_plainview(v) for v in n]
    if isinstance(n, bool) or n is None:
        return n
    if isinstance(n, int):
        return int(n)
    if isinstance(n, float):
        return float(n)
    return str(n)


def run_mergekey(case):
    """The clause 'left-hand content the right-hand document does not name keeps its value' on a document with YAML merge
    keys: every top-level Hash the right-hand document does not name reads (inherited keys included) as before - in memory
    and in the written document re-read by a plain YAML loader -, and so does every key of the named Hash that the
    right-hand document does not name (in the re-read document; the library drops the inherited view keys in memory)."""
    import io
    import signal
    from ruamel.yaml import YAML
    from yamlpath.common import Parsers
    from yamlpath.merger import Merger
    from yamlpath.merger.exceptions import MergeException
    old = signal.signal(signal.SIGVTALRM, mg._alarm)
    signal.setitimer(signal.ITIMER_VIRTUAL, 10.0)
    out = []
    desc = "merge of the document %r with %s under %s" % (case["ltext"], _show(case["r"]), json.dumps(case["cfg"], sort_keys=True))
    try:
        ed = Parsers.get_yaml_editor()
        lhs = ed.load(case["ltext"])
        before = _plainview(lhs)
        mc = mg.make_config(case["cfg"], "kw")
        m = Merger(mc.log, lhs, mc)
        try:
            m.merge_with(codec.json_to_ruamel(case["r"]))
        except MergeException:
            return out, False
        mem = _plainview(m.data)
        m.prepare_for_dump(ed)
        buf = io.StringIO()
        ed.dump(m.data, buf)
        reread = _plainview(YAML(typ="safe", pure=True).load(buf.getvalue()))
        named = {kk: v for kk, v in case["r"]["e"][0][1]["e"]}
        for top, val in before.items():
            if top != case["target"]:
                for view, doc in (("in memory", mem), ("re-read from the written document", reread)):
                    if doc.get(top) != val:
                        out.append(("violation", "mergekey:unnamed-hash-changed",
                                    "%s: /%s, which the right-hand document does not name, reads %s %s; it was %s" % (
                                        desc, top, json.dumps(doc.get(top)), view, json.dumps(val))))
                        break
            else:
                got = reread.get(top)
                for kk, v in val.items():
                    if kk not in named and (not isinstance(got, dict) or got.get(kk) != v):
                        out.append(("violation", "mergekey:unnamed-key-changed",
                                    "%s: /%s/%s, which the right-hand document does not name, reads %s in the written document; it was %s" % (
                                        desc, top, kk, json.dumps(got.get(kk) if isinstance(got, dict) else got), json.dumps(v))))
                        break
                for kk, v in named.items():
                    if v["k"] not in ("map", "seq", "set") and isinstance(got, dict) and got.get(kk) != _plainview(codec.json_to_plain(v)) \
                            and not isinstance(val.get(kk), (dict, list)):
                        out.append(("violation", "mergekey:named-scalar-not-taken",
                                    "%s: /%s/%s reads %s in the written document; the right-hand document sets %s" % (
                                        desc, top, kk, json.dumps(got.get(kk)), _show(v))))
                        break
            if out:
                break
        return out, True
    except mg.MergeTimeout:
        return [("violation", "timeout", desc + " did not finish")], False
    except Exception as e:  # noqa
        return [("violation", "mergekey:%s@%s" % (core.exc_class(e), core.crash_site(e)), "%s raised %s" % (desc, type(e).__name__))], False
    finally:
        signal.setitimer(signal.ITIMER_VIRTUAL, 0)
        signal.signal(signal.SIGVTALRM, old)


def _mergekey_job(job):
    _tag, seed, n = job
    rng = random.Random(seed)
    stats, findings, hist, nontrivial = {"n": 0, "oom": 0}, [], {}, 0
    for _ in range(n):
        c = mergekey_case(rng)
        v, nt = run_mergekey(c)
        stats["n"] += 1
        nontrivial += 1 if nt else 0
        hist["mergekey:" + ("merged" if nt else "refused-or-failed")] = hist.get("mergekey:" + ("merged" if nt else "refused-or-failed"), 0) + 1
        for kind_, sig, what in v:
            if len(findings) < 40:
                findings.append((kind_, sig, what, dict(c, mergekey=True)))
    return stats, findings, [], nontrivial, hist


# --------------------------------------------------------------------------- merges aimed at a path, rules written in either notation

AIM_KEYS = ["a", "b", "cfg", "svc", "k1", "items", "prod"]


def path_text(addr, slash):
    """The text of a path of plain keys and indices in forward-slash (`/a/b[0]/c`) or in dot (`a.b[0].c`) notation."""
    if not addr:
        return "/"
    out = ""
    for t, v in addr:
        if t == "k":
            out += ("/%s" % v) if slash else (("." if out else "") + str(v))
        else:
            out += "[%d]" % v
    if slash and not out.startswith("/"):
        out = "/" + out
    return out


def aimed_case(rng):
    """A left document that holds a Hash / Array / Array-of-Hashes `ls` under a path P of one or two plain keys (next to
    sibling content), a right-hand document `r` related to `ls` (same root kind) that is merged AT P, and per-path [rules] /
    [keys] that name nodes of the merged content by their path in the left document (P + the node's path in r).  The merge path
    and every rule path are written, independently, in forward-slash or in dot notation - both spell the same path."""
    while True:
        kind = rng.choice(["map", "map", "map", "map", "aoh", "seq"])
        depth = rng.choice([1, 2, 2])
        ls = mg.rand_doc(rng, depth, kind)
        r = mg.mutate(rng, ls, depth) if rng.random() < 0.85 else mg.rand_doc(rng, depth, kind)
        if r["k"] != ls["k"] or (r["k"] == "seq" and not r["i"]) or (r["k"] == "map" and not r["e"]):
            continue
        cfg = mg.rand_policy(rng, r, with_rules=True)
        if not cfg.get("rules") and not cfg.get("keys"):
            addrs = [(a, n) for a, n in mg.node_addrs(r) if a]
            if not addrs:
                continue
            a, n = rng.choice(addrs)
            cfg["rules"] = [[a, rng.choice(mg.valid_rule_names(n))]]
        if mg.rules_have_dups(cfg):
            continue
        break
    pre = [["k", k] for k in rng.sample(AIM_KEYS, rng.choice([1, 2, 2]))]
    inner = ls
    for i in range(len(pre) - 1, -1, -1):
        es = [(pre[i][1], inner)]
        if rng.random() < 0.6:
            sib = rng.choice([k for k in AIM_KEYS + ["zz"] if k != pre[i][1]])
            es.insert(rng.randint(0, 1), (sib, mg.mutate(rng, ls, 1) if rng.random() < 0.5 else mg.rand_scalar(rng)))
        inner = mg.M(*es)
    note = {"mergeat": rng.random() < 0.5,
            "rules": [rng.random() < 0.5 for _ in cfg.get("rules", [])],
            "keys": [rng.random() < 0.5 for _ in cfg.get("keys", [])]}
    via = "ini" if (mg.needs_ini(cfg) or rng.random() < 0.15) else "kw"
    return {"aimed": True, "l": inner, "pre": pre, "ls": ls, "r": r, "cfg": cfg, "slash": note, "via": via}


def aimed_texts(case):
    """(mergeat text, {rule path text: value}, {key path text: value}) as handed to the library."""
    pre, sl = case["pre"], case["slash"]
    rules = {path_text(pre + a, s): v for (a, v), s in zip(case["cfg"].get("rules", []), sl["rules"])}
    keys = {path_text(pre + a, s): v for (a, v), s in zip(case["cfg"].get("keys", []), sl["keys"])}
    return path_text(pre, sl["mergeat"]), rules, keys


def _aimed_config(case):
    from types import SimpleNamespace
    from yamlpath.merger import MergerConfig
    cfg = case["cfg"]
    mergeat, rules, keys = aimed_texts(case)
    ns = {"mergeat": mergeat}
    names = {"hash": "hashes", "array": "arrays", "aoh": "aoh", "set": "sets"}
    for n, attr in names.items():
        if cfg.get(n):
            ns[attr] = cfg[n]
    kw = {}
    if case["via"] == "ini" or mg.needs_ini(cfg):
        lines = []
        d = [(n, cfg["d" + n]) for n in ("hash", "array", "aoh", "set") if cfg.get("d" + n)]
        if d:
            lines.append("[defaults]")
            lines += ["%s = %s" % (names[n], v) for n, v in d]
        if rules:
            lines.append("[rules]")
            lines += ["%s = %s" % kv for kv in rules.items()]
        if keys:
            lines.append("[keys]")
            lines += ["%s = %s" % kv for kv in keys.items()]
        p = os.path.join(mg._tmpdir(), "aimed-%d.ini" % os.getpid())
        with open(p, "w") as fh:
            fh.write("\n".join(lines) + "\n")
        ns["config"] = p
    else:
        if rules:
            kw["rules"] = rules
        if keys:
            kw["keys"] = keys
    return MergerConfig(core.quiet_logger(), SimpleNamespace(**ns), **kw)


def _get_addr(d, addr):
    for t, v in addr:
        if t == "k":
            if d["k"] != "map":
                return None
            hit = [x for kk, x in d["e"] if kk == v]
            if not hit:
                return None
            d = hit[0]
        else:
            if d["k"] != "seq" or v >= len(d["i"]):
                return None
            d = d["i"][v]
    return d


def impl_aimed(case, limit_s=5.0):
    """Merger(l, mergeat=P, rules...).merge_with(r) -> the outcome, `ok` being the content found at P afterwards."""
    import signal
    from yamlpath.merger import Merger
    old = signal.signal(signal.SIGVTALRM, mg._alarm)
    signal.setitimer(signal.ITIMER_VIRTUAL, limit_s)
    try:
        mc = _aimed_config(case)
        m = Merger(mc.log, codec.json_to_ruamel(case["l"]), mc)
        m.merge_with(codec.json_to_ruamel(case["r"]))
        whole = codec.node_to_json(m.data, anchors=False)
        sub = _get_addr(whole, case["pre"])
        if sub is None:
            return {"err": "target-lost", "site": "-"}
        return {"ok": sub, "whole": whole}
    except mg.MergeTimeout:
        return {"err": "timeout"}
    except codec.OutOfModel:
        return {"oom": 1}
    except RecursionError as e:
        return {"err": "crash:RecursionError", "site": core.crash_site(e)}
    except Exception as e:  # noqa
        return mg.classify_exc(e)
    finally:
        signal.setitimer(signal.ITIMER_VIRTUAL, 0)
        signal.signal(signal.SIGVTALRM, old)


ELEMENT_RULE_SIG = "aimed:rule-at-element-of-target-array-ignored"


def _explained_by_element_rules(c, im):
    """Is the real result exactly the policy-defined result of the same merge WITHOUT the rules / keys whose path continues the
    merge path with an index (`/a[0]/v` under --mergeat /a)?  (Class of the known finding C05-K1.)"""
    if c["ls"]["k"] != "seq":
        return False
    cfg = c["cfg"]
    rest = {k: v for k, v in cfg.items() if k not in ("rules", "keys")}
    for sec in ("rules", "keys"):
        kept = [[a, v] for a, v in cfg.get(sec, []) if not (a and a[0][0] == "i")]
        if kept:
            rest[sec] = kept
    if rest == cfg:
        return False
    try:
        mo = core.Driver().ask([{"op": "C05.merge", "l": c["ls"], "r": c["r"], "cfg": mg.model_cfg(rest, [c["ls"], c["r"]])}])[0]
    except codec.OutOfModel:
        return False
    if "ok" in im:
        return mo.get("ok") == im["ok"]
    return im.get("err") in ("merge", "config") and mo.get("err") == im["err"]


def run_aimed(cases):
    """Worker: the content at P after the aimed merge is judged, with the ordinary `judge`, as the merge of `ls` (the content at
    P before) with `r` under the same policies, the rules / keys being addressed relative to P - the model `C05.merge`, which
    knows neither the merge path nor a notation."""
    stats, findings, hist, nontrivial = {"n": 0, "oom": 0}, [], {}, 0
    reqs, ctx = [], []
    for c in cases:
        try:
            mc = mg.model_cfg(c["cfg"], [c["ls"], c["r"]])
        except codec.OutOfModel:
            stats["oom"] += 1
            continue
        reqs.append({"op": "C05.merge", "l": c["ls"], "r": c["r"], "cfg": mc})
        ctx.append(c)
    model = core.Driver().ask(reqs) if reqs else []
    for c, mo in zip(ctx, model):
        im = impl_aimed(c)
        stats["n"] += 1
        mergeat, rules, keys = aimed_texts(c)
        mixed = any(("/" in t) != ("/" in mergeat) for t in list(rules) + list(keys))
        key = "aimed:%s-target:%s" % (mg.kind(c["ls"]), "rule-and-merge-path-in-different-notations" if mixed else "same-notation")
        hist[key] = hist.get(key, 0) + 1
        j = judge(c["ls"], c["r"], c["cfg"], c["via"], {k: v for k, v in im.items() if k != "whole"}, mo)
        if j is None:
            stats["oom"] += 1
            continue
        if j and rule_hits_twin(c["r"], c["cfg"]):
            keep = [x for x in j if "@" in x[1]]
            if len(keep) != len(j):
                stats["oom"] += 1
            j = keep
        if "ok" in im and im["ok"] != c["ls"] and im["ok"] != c["r"]:
            nontrivial += 1
        if j and _explained_by_element_rules(c, im):
            j = [(kind_, ELEMENT_RULE_SIG, what + "  [the result is exactly what the policies define when every rule / key whose path "
                  "continues the merge path with an element `[n]` of the targeted Array is left out: those entries were ignored]")
                 for kind_, _sig, what in j]
            findings.extend((kind_, sig, "merge AT %s of the left document %s, [rules] %s, [keys] %s (paths in the left document): for the content at that path, %s" % (
                mergeat, _show(c["l"]), json.dumps(rules, sort_keys=True), json.dumps(keys, sort_keys=True), what),
                dict(c, impl={k: v for k, v in im.items() if k != "whole"}, model=mo)) for kind_, sig, what in j if len(findings) < 40)
            continue
        for kind_, sig, what in j:
            what = "merge AT %s of the left document %s, [rules] %s, [keys] %s (paths in the left document): for the content at that path, %s" % (
                mergeat, _show(c["l"]), json.dumps(rules, sort_keys=True), json.dumps(keys, sort_keys=True), what)
            if len(findings) < 40:
                findings.append((kind_, "aimed:" + sig, what, dict(c, impl={k: v for k, v in im.items() if k != "whole"}, model=mo)))
    return stats, findings, [], nontrivial, hist


def _aimed_job(job):
    _tag, seed, n = job
    rng = random.Random(seed)
    return run_aimed([aimed_case(rng) for _ in range(n)])


def _job(job):
    if job[0] == "AIMED":
        return _aimed_job(job)
    if job[0] == "SERIES":
        return _series_job(job)
    if job[0] == "MERGEKEY":
        return _mergekey_job(job)
    if job[0] == "EXH":
        return _exh_job(job)
    if job[0] == "RAND":
        return _rand_job(job)
    return run_cases(job[1])


def table_checks(chk):
    """Finite tables compared completely: option names of the four enumerations, built-in defaults,
    and Python == against the model's pyEq on a grid of small values."""
    from yamlpath.merger.enums import HashMergeOpts, ArrayMergeOpts, AoHMergeOpts, SetMergeOpts
    from yamlpath.merger import MergerConfig
    from yamlpath.wrappers import NodeCoords
    from types import SimpleNamespace
    for enum, names in ((HashMergeOpts, mg.HASH), (ArrayMergeOpts, mg.ARRAY), (AoHMergeOpts, mg.AOH), (SetMergeOpts, mg.SETS)):
        chk.evaluations += 1
        if sorted(n.lower() for n in enum.get_names()) != sorted(names):
            chk.disagreement("table:" + enum.__name__, "option names of %s are %s, the model has %s" % (
                enum.__name__, enum.get_names(), names), {"enum": enum.__name__})
    mc = MergerConfig(core.quiet_logger(), SimpleNamespace())
    nc = NodeCoords(None, None, None)
    got = [mc.hash_merge_mode(nc).name, mc.array_merge_mode(nc).name, mc.aoh_merge_mode(nc).name, mc.set_merge_mode(nc).name]
    chk.evaluations += 1
    if got != ["DEEP", "ALL", "ALL", "UNIQUE"]:
        chk.disagreement("table:defaults", "built-in defaults are %s" % got, {"defaults": got})
    vals = mg.docs_up_to(2) + [mg.S(0), mg.S(False), mg.S(2.0), mg.S(1.5), mg.S("1"), mg.S(""),
                               mg.M(("a", mg.S(1)), ("b", mg.S(2))), mg.M(("b", mg.S(2)), ("a", mg.S(1))),
                               mg.M(("a", mg.S(1)), ("b", mg.S(3))), mg.L(mg.S(1), mg.S(2)), mg.L(mg.S(2), mg.S(1)),
                               mg.SET("a", "b"), mg.SET("b", "a"), mg.M(("a", mg.S(None))), mg.M((1, mg.S(1))), mg.M(("1", mg.S(1)))]
    reqs = [{"op": "C05.eq", "a": a, "b": b} for a in vals for b in vals]
    ans = core.Driver().ask(reqs)
    i = 0
    for a in vals:
        for b in vals:
            real = bool(codec.json_to_ruamel(a) == codec.json_to_ruamel(b))
            chk.evaluations += 1
            if real != ans[i]["eq"]:
                chk.disagreement("table:pyeq", "Python == of %s and %s is %s, the model says %s" % (
                    _show(a), _show(b), real, ans[i]["eq"]), {"a": a, "b": b})
            i += 1
    chk.count("table:pyeq_pairs", len(vals) ** 2)


def precedence_checks(chk, rng, n=400):
    """policy_precedence tied directly: the four *_merge_mode answers of a real, prepared MergerConfig
    for a node of the right-hand document equal the model's."""
    from yamlpath.wrappers import NodeCoords
    reqs, cases = [], []
    for _ in range(n):
        _l, r = mg.rand_pair(rng)
        if r["k"] == "null":
            continue        # an empty right-hand document is never looked up (merge_with returns at once)
        cfg = mg.rand_policy(rng, r, with_rules=True)
        addrs = mg.node_addrs(r)
        addr, _node = rng.choice(addrs)
        if cfg.get("rules") and rng.random() < 0.6:
            addr = rng.choice(cfg["rules"])[0]
        cases.append((r, cfg, addr))
        reqs.append({"op": "C05.mode", "r": r, "addr": addr, "cfg": cfg})
    ans = core.Driver().ask(reqs)
    for (r, cfg, addr), mo in zip(cases, ans):
        chk.evaluations += 1
        try:
            mc = mg.make_config(cfg, "ini" if rng.random() < 0.2 else "kw")
            data = codec.json_to_ruamel(r)
            mc.prepare(data)
            node, parent, pref = data, None, None
            for t, v in addr:
                parent, pref = node, v
                node = node[v]
            nc = NodeCoords(node, parent, pref)
            got = {}
            for name, fn in (("hash", mc.hash_merge_mode), ("array", mc.array_merge_mode), ("aoh", mc.aoh_merge_mode), ("set", mc.set_merge_mode)):
                try:
                    got[name] = fn(nc).name.lower()
                except NameError:
                    got[name] = {"err": "config"}
        except Exception as e:  # noqa
            chk.violation("%s@%s" % (core.exc_class(e), core.crash_site(e)), "policy lookup for %s at %s under %s raised %s" % (
                _show(r), mg.addr_to_path(addr), json.dumps(cfg), type(e).__name__), {"r": r, "cfg": cfg, "addr": addr})
            continue
        want = {k: mo.get(k) for k in ("hash", "array", "aoh", "set")}
        if got != want:
            chk.disagreements_checked += 1
            chk.disagreement("precedence", "policy lookup for %s at %s under %s: impl %s, model %s" % (
                _show(r), mg.addr_to_path(addr), json.dumps(cfg), got, want), {"r": r, "cfg": cfg, "addr": addr, "impl": got, "model": want})
    chk.count("precedence_lookups", n)


def run(chk: core.Check):
    core.use_repo()
    tier = chk.tier
    rng = random.Random(chk.seed)
    if chk.replay_in:
        rp = json.load(open(chk.replay_in))
        c = rp.get("case", rp)
        if c.get("mergekey"):
            v, _nt = run_mergekey(c)
            chk.evaluations += 1
            for kind_, sig, what in v:
                print("replay:", sig, "::", what[:800])
                chk.violation(sig, what, c)
            return chk
        if c.get("aimed"):
            results = [run_aimed([c])]
            for f in results[0][1]:
                print("replay:", f[1], "::", f[2][:1200])
            c = {}
        elif c.get("series"):
            results = [run_series([(c["series"]["l"], c["series"]["rs"], c.get("cfg", {}), c.get("via", "kw"))])]
            for f in results[0][1]:
                print("replay:", f[1], "::", f[2][:800])
            c = {}
        elif "l" not in c:
            print("replay: nothing to run for", json.dumps(c)[:300])
            return chk
    if chk.replay_in and "l" in c:
        case = (c["l"], c["r"], c.get("cfg", {}), c.get("via", "kw"))
        res = run_cases([case])
        im = mg.impl_merge(*case)
        mo = core.Driver().ask([{"op": "C05.merge", "l": case[0], "r": case[1], "cfg": mg.model_cfg(case[2], [case[0], case[1]])}])[0]
        print("replay:", json.dumps({"l": _show(case[0]), "r": _show(case[1]), "cfg": case[2],
                                     "impl": im if "err" in im else _show(im["ok"]),
                                     "model": mo if "err" in mo else _show(mo["ok"])}))
        results = [res]
    elif not chk.replay_in:
        table_checks(chk)
        precedence_checks(chk, rng, 400 if tier == "quick" else 4000)
        bound = int(os.environ.get("YPV_EXH_BOUND") or (2 if tier == "quick" else 3))   # override: developer runs only
        docs = mg.docs_up_to(bound)
        pairs = [(l, r) for l in docs for r in docs]
        rng.shuffle(pairs)
        jobs = [("CORPUS", [(l, r, cfg, "kw") for (l, r, cfg) in CORPUS] +
                 [(l, r, cfg, "ini") for (l, r, cfg) in CORPUS])]
        per = 40 if tier == "quick" else 150
        jobs += [("EXH", pairs[i:i + per]) for i in range(0, len(pairs), per)]
        nrand = int(os.environ.get("YPV_NRAND") or (300000 if tier == "quick" else 3000000))
        per_job = 2500
        jobs += [("RAND", chk.seed * 100003 + i, per_job) for i in range(nrand // per_job)]
        nser = int(os.environ.get("YPV_NSERIES") or (24000 if tier == "quick" else 240000))
        jobs += [("SERIES", chk.seed * 100019 + 3 + i, 1000) for i in range(nser // 1000)]
        nmk = int(os.environ.get("YPV_NMERGEKEY") or (4000 if tier == "quick" else 40000))
        jobs += [("MERGEKEY", chk.seed * 100043 + 9 + i, 250) for i in range(nmk // 250)]
        naim = int(os.environ.get("YPV_NAIMED") or (20000 if tier == "quick" else 200000))
        jobs += [("AIMED", chk.seed * 100057 + 17 + i, 1000) for i in range(naim // 1000)]
        chk.extra_cov["aimed_merges_with_rules"] = naim
        chk.extra_cov["series_of_merges"] = nser
        chk.extra_cov["merge_key_documents"] = nmk
        chk.exhaustive = True
        chk.extra_cov["exhaustive_bound"] = ("all %d x %d ordered pairs of documents with <= %d nodes x 180 policy combinations"
                                             % (len(docs), len(docs), bound))
        chk.extra_cov["random_pairs"] = nrand
        results = core.pmap(_job, jobs)
    for stats, findings, samples, nontrivial, hist in results:
        chk.evaluations += stats["n"]
        chk.out_of_model += stats["oom"]
        chk.nontrivial_extra += nontrivial
        for k, v in hist.items():
            chk.count(k, v)
        for s in samples:
            chk.sample(s)
        for kind_, sig, what, case in findings:
            if kind_ == "violation":
                chk.violation(sig, what, case)
            else:
                chk.disagreements_checked += 1
                chk.disagreement(sig, what, case)
    return chk
