"""C05 — merging two documents yields the policy-defined result for every option mix."""
from __future__ import annotations

import json
import os
import random

from harness import core, codec
from harness.props import merging as mg

RULE = ("every ordered pair of documents with <= 2 nodes each (quick; <= 3 nodes thorough) over scalars null 1 2 'a' "
        "true 1.0, keys a b, set members a b 1, each under all 180 hash x array x aoh x set policy combinations given as "
        "constructor (command-line) values; a corpus of past findings; seeded random pairs of larger documents (maps, "
        "lists, arrays-of-hashes with identity keys, sets, empty containers, kind clashes at equal keys, right-hand "
        "documents derived from the left-hand one) under random configurations: command-line values, [defaults] values, "
        "per-path [rules] and [keys] delivered through the rules=/keys= constructor arguments and, for a sample, through a "
        "real INI file.  Every case runs Merger(l).merge_with(r) on freshly built ruamel documents under a 5 s timer. "
        "Direct check on the real code: the outcome is a document or a MergeException (NameError from an enumeration's "
        "from_str for an invalid rule text is a configuration error); anything else is a violation.  Correspondence: "
        "Merger.data (canonical JSON, key order included) or the error class equals the Lean model's, whose content and key "
        "order are proved to meet the specification; a difference in content, outcome class or OrderOK is a violation, a "
        "difference in key interleaving only is a broken correspondence.  The finite tables (option names, defaults) and "
        "Python == on a grid of values are compared completely.  distinct_nontrivial = distinct (l, r, policy) cases whose "
        "result is a document different from both inputs.")

CORPUS = [
    # (l, r, cfg)
    (mg.M(("a", mg.S(5))), mg.M(("a", mg.L())), {}),
    (mg.M(("a", mg.M(("x", mg.S(1))))), mg.M(("a", mg.L())), {}),
    (mg.L(mg.S(1), mg.S(2)), mg.L(mg.S(3), mg.S(3)), {"array": "unique"}),
    (mg.L(mg.S(1), mg.S(1)), mg.L(mg.S(1), mg.S(3), mg.S(True), mg.S(1.0)), {"array": "unique"}),
    (mg.M(("a", mg.S(1))), mg.M(("a", mg.S(2))), {"aoh": "left"}),
    (mg.M(("a", mg.L(mg.S(1)))), mg.M(("a", mg.L(mg.S(2)))), {"aoh": "right", "array": "left"}),
    (mg.L(mg.M(("a", mg.S(1)))), mg.L(mg.M(("b", mg.S(2)))), {"aoh": "left"}),
    (mg.L(mg.M(("a", mg.S(1)))), mg.L(mg.M(("b", mg.S(2)))), {"aoh": "right"}),
    (mg.S(5), mg.S(7), {}),
    (mg.S(5), mg.M(("a", mg.S(1))), {"hash": "left"}),
    (mg.S(5), mg.SET("a"), {}),
    (mg.S("x"), mg.SET("a"), {"set": "unique"}),
    (mg.M(("a", mg.S(1))), mg.M(("a", mg.SET("x"))), {}),
    (mg.L(), mg.L(mg.M(("a", mg.S(1))), mg.S(5)), {"aoh": "deep"}),
    (mg.SET("a"), mg.L(mg.M()), {}),
    (mg.M(("a", mg.S(1)), ("b", mg.S(2)), ("c", mg.S(3))),
     mg.M(("x", mg.S(1)), ("b", mg.S(2)), ("y", mg.S(1)), ("c", mg.S(3)), ("z", mg.S(1))), {}),
    (mg.M(("a", mg.S(1)), ("b", mg.M()), ("c", mg.S(3))),
     mg.M(("x", mg.S(1)), ("b", mg.M()), ("y", mg.S(1)), ("c", mg.S(3)), ("z", mg.S(1))), {"rules": [[[["k", "b"]], "left"]]}),
    (mg.L(mg.M(("id", mg.S("1")), ("v", mg.S(1)))), mg.L(mg.M(("id", mg.S(1)), ("v", mg.S(2)))), {"aoh": "deep"}),
    (mg.M(("l", mg.L(mg.M(("n", mg.S(1)), ("id", mg.S(2)), ("v", mg.S(1)))))),
     mg.M(("l", mg.L(mg.M(("n", mg.S(9)), ("id", mg.S(2)), ("v", mg.S(2)))))), {"aoh": "deep", "keys": [[[["k", "l"]], "id"]]}),
    (mg.M(("force", mg.S(True))), mg.M(("force", mg.S(False))), {"rules": [[[["k", "force"]], "left"]]}),
]


def judge(l, r, cfg, via, im, mo):
    """-> list of ('violation'|'disagreement', sig, what).  im: impl outcome, mo: model outcome."""
    out = []
    desc = "%s <- %s under %s (%s)" % (_show(l), _show(r), json.dumps(cfg, sort_keys=True), via)
    if "oom" in im or mo.get("err") == "outOfModel":
        return None
    if "err" in im and im["err"] not in ("merge", "config"):
        sig = "%s@%s" % (im["err"], im.get("site", "?"))
        out.append(("violation", sig, "merge %s raised %s at %s" % (desc, im["err"], im.get("site"))))
        return out
    if "err" in im:
        if mo.get("err") != im["err"]:
            if "ok" in mo:
                out.append(("violation", "refused:%s<-%s" % (mg.kind(l), mg.kind(r)),
                            "merge %s raised a %s error; the policies define a result" % (desc, im["err"])))
            else:
                out.append(("disagreement", "errclass:%s-vs-%s" % (im["err"], mo.get("err")),
                            "merge %s: impl %s, model %s" % (desc, im["err"], mo.get("err"))))
        return out
    res = im["ok"]
    if "err" in mo:
        out.append(("violation", "accepted-%s:%s<-%s" % (mo["err"], mg.kind(l), mg.kind(r)),
                    "merge %s silently produced %s; the specification demands a %s error" % (desc, _show(res), mo["err"])))
        return out
    want = mo["ok"]
    if res == want:
        return out
    if not mg.content_eq(res, want):
        out.append(("violation", "content:%s<-%s:%s" % (mg.kind(l), mg.kind(r), _diff_site(res, want)),
                    "merge %s gave %s; the policies define %s" % (desc, _show(res), _show(want))))
    elif not _order_ok_deep(l, r, res):
        out.append(("violation", "order:%s<-%s" % (mg.kind(l), mg.kind(r)),
                    "merge %s gave %s: left-hand keys or right-only keys lost their relative order" % (desc, _show(res))))
    else:
        out.append(("disagreement", "interleaving",
                    "merge %s: key interleaving impl %s, model %s" % (desc, _show(res), _show(want))))
    return out


def _all_coords(d):
    """(addr, node, parent, ref) for every node of d below the root."""
    out = []

    def walk(n, addr):
        if n["k"] == "map":
            for kk, v in n["e"]:
                out.append((addr + [["k", kk]], v, n, kk))
                walk(v, addr + [["k", kk]])
        elif n["k"] == "seq":
            for i, v in enumerate(n["i"]):
                out.append((addr + [["i", i]], v, n, i))
                walk(v, addr + [["i", i]])
    walk(d, [])
    return out


def rule_hits_twin(r, cfg):
    """Does a configured rule / key path name a node of r that has an equal twin elsewhere in r (equal node, equal
    parent, same key / index - e.g. the same record twice in an array of hashes)?  `_get_config_for` compares by ==,
    so the rule holds for the twin too - as long as both stay equal.  The real merge appends right-hand records BY
    REFERENCE and merges later records into them, which changes the right-hand document the rules are registered against:
    whether the twin still matches then depends on which keys were merged before the lookup (`[{a: []}] <- [R, R]`,
    aoh=deep, rule `[0].n = right`: R[1].n finds the rule when `n` precedes `a` in R, not when `a` comes first).  The
    model has values, not objects; such inputs are outside its abstraction."""
    addrs = [a for a, _v in cfg.get("rules", [])] + [a for a, _v in cfg.get("keys", [])]
    if not addrs:
        return False
    coords = _all_coords(r)
    for a in addrs:
        mine = [c for c in coords if c[0] == a]
        if not mine:
            continue
        _a, node, parent, ref = mine[0]
        for b, n2, p2, ref2 in coords:
            if b != a and ref2 == ref and type(ref2) is type(ref) and mg.content_eq(n2, node) and mg.content_eq(p2, parent):
                return True
    return False


def _order_ok_deep(l, r, m):
    if not mg.order_ok(l, r, m):
        return False
    return True


def _diff_site(a, b):
    """Kind of the first differing sub-value (a stable, coarse location for the signature)."""
    if a["k"] != b["k"]:
        return "%s/%s" % (a["k"], b["k"])
    k = a["k"]
    if k == "map":
        da, db = {mg._hk(x[0]): x[1] for x in a["e"]}, {mg._hk(x[0]): x[1] for x in b["e"]}
        if da.keys() != db.keys():
            return "map-keys"
        for x in da:
            if not mg.content_eq(da[x], db[x]):
                return "map." + _diff_site(da[x], db[x])
        return "map"
    if k == "seq":
        if len(a["i"]) != len(b["i"]):
            return "seq-len"
        for x, y in zip(a["i"], b["i"]):
            if not mg.content_eq(x, y):
                return "seq." + _diff_site(x, y)
        return "seq"
    if k == "set":
        return "set-members"
    return "scalar"


def _show(d):
    def plain(j):
        k = j["k"]
        if k == "map":
            return {str(kk) if not isinstance(kk, str) else kk: plain(v) for kk, v in j["e"]}
        if k == "seq":
            return [plain(v) for v in j["i"]]
        if k == "set":
            return {"!!set": list(j["m"])}
        return codec.json_to_plain(j)
    return json.dumps(plain(d))


def run_cases(cases):
    """Worker: cases = [(l, r, cfg, via)] -> (stats, findings, samples, nontrivial keys)."""
    drv = core.Driver()
    reqs = []
    prepared = []
    stats = {"n": 0, "oom": 0}
    for (l, r, cfg, via) in cases:
        try:
            mc = mg.model_cfg(cfg, [l, r])
        except codec.OutOfModel:
            stats["oom"] += 1
            continue
        reqs.append({"op": "C05.merge", "l": l, "r": r, "cfg": mc})
        prepared.append((l, r, cfg, via))
    model = drv.ask(reqs)
    findings, samples = [], []
    nontrivial = 0
    hist = {}
    for (l, r, cfg, via), mo in zip(prepared, model):
        im = mg.impl_merge(l, r, cfg, via)
        stats["n"] += 1
        oc = "ok" if "ok" in im else ("oom" if "oom" in im else im["err"].split(":")[0])
        hist["impl_outcome:" + oc] = hist.get("impl_outcome:" + oc, 0) + 1
        hist["pair:%s<-%s" % (mg.kind(l), mg.kind(r))] = hist.get("pair:%s<-%s" % (mg.kind(l), mg.kind(r)), 0) + 1
        hist["via:" + via] = hist.get("via:" + via, 0) + 1
        sz = min(mg.size(l) + mg.size(r), 40) // 5 * 5
        hist["size:%02d+" % sz] = hist.get("size:%02d+" % sz, 0) + 1
        if cfg.get("rules"):
            hist["with_rules"] = hist.get("with_rules", 0) + 1
        if cfg.get("keys"):
            hist["with_keys"] = hist.get("with_keys", 0) + 1
        j = judge(l, r, cfg, via, im, mo)
        if j is None:
            stats["oom"] += 1
            continue
        if j and rule_hits_twin(r, cfg):
            # outside the model's abstraction (see rule_hits_twin); crashes are judged all the same
            keep = [x for x in j if "@" in x[1]]
            if len(keep) != len(j):
                hist["rule_names_node_with_equal_twin(differs; not judged)"] = hist.get("rule_names_node_with_equal_twin(differs; not judged)", 0) + 1
                stats["oom"] += 1
            j = keep
        if "ok" in im and im["ok"] != l and im["ok"] != r:
            nontrivial += 1
            if len(samples) < 1 and mg.size(l) > 3:
                samples.append({"l": l, "r": r, "cfg": cfg, "via": via, "impl": im, "model": mo})
        for kind_, sig, what in j:
            if len(findings) < 40:
                findings.append((kind_, sig, what, {"l": l, "r": r, "cfg": cfg, "via": via, "impl": im, "model": mo}))
    return stats, findings, samples, nontrivial, hist


def _exh_job(job):
    _tag, pairs = job
    cases = [(l, r, p, "kw") for (l, r) in pairs for p in mg.ALL_POLICIES]
    return run_cases(cases)


def _rand_job(job):
    _tag, seed, n = job
    rng = random.Random(seed)
    cases = []
    for _ in range(n):
        l, r = mg.rand_pair(rng)
        cfg = mg.rand_policy(rng, r, with_rules=rng.random() < 0.5)
        via = "ini" if (mg.needs_ini(cfg) or rng.random() < 0.03) else "kw"
        cases.append((l, r, cfg, via))
    return run_cases(cases)


def _job(job):
    if job[0] == "EXH":
        return _exh_job(job)
    if job[0] == "RAND":
        return _rand_job(job)
    return run_cases(job[1])


def table_checks(chk):
    """Finite tables compared completely: option names of the four enumerations, built-in defaults,
    and Python == against the model's pyEq on a grid of small values."""
    from yamlpath.merger.enums import HashMergeOpts, ArrayMergeOpts, AoHMergeOpts, SetMergeOpts
    from yamlpath.merger import MergerConfig
    from yamlpath.wrappers import NodeCoords
    from types import SimpleNamespace
    for enum, names in ((HashMergeOpts, mg.HASH), (ArrayMergeOpts, mg.ARRAY), (AoHMergeOpts, mg.AOH), (SetMergeOpts, mg.SETS)):
        chk.evaluations += 1
        if sorted(n.lower() for n in enum.get_names()) != sorted(names):
            chk.disagreement("table:" + enum.__name__, "option names of %s are %s, the model has %s" % (
                enum.__name__, enum.get_names(), names), {"enum": enum.__name__})
    mc = MergerConfig(core.quiet_logger(), SimpleNamespace())
    nc = NodeCoords(None, None, None)
    got = [mc.hash_merge_mode(nc).name, mc.array_merge_mode(nc).name, mc.aoh_merge_mode(nc).name, mc.set_merge_mode(nc).name]
    chk.evaluations += 1
    if got != ["DEEP", "ALL", "ALL", "UNIQUE"]:
        chk.disagreement("table:defaults", "built-in defaults are %s" % got, {"defaults": got})
    vals = mg.docs_up_to(2) + [mg.S(0), mg.S(False), mg.S(2.0), mg.S(1.5), mg.S("1"), mg.S(""),
                               mg.M(("a", mg.S(1)), ("b", mg.S(2))), mg.M(("b", mg.S(2)), ("a", mg.S(1))),
                               mg.M(("a", mg.S(1)), ("b", mg.S(3))), mg.L(mg.S(1), mg.S(2)), mg.L(mg.S(2), mg.S(1)),
                               mg.SET("a", "b"), mg.SET("b", "a"), mg.M(("a", mg.S(None))), mg.M((1, mg.S(1))), mg.M(("1", mg.S(1)))]
    reqs = [{"op": "C05.eq", "a": a, "b": b} for a in vals for b in vals]
    ans = core.Driver().ask(reqs)
    i = 0
    for a in vals:
        for b in vals:
            real = bool(codec.json_to_ruamel(a) == codec.json_to_ruamel(b))
            chk.evaluations += 1
            if real != ans[i]["eq"]:
                chk.disagreement("table:pyeq", "Python == of %s and %s is %s, the model says %s" % (
                    _show(a), _show(b), real, ans[i]["eq"]), {"a": a, "b": b})
            i += 1
    chk.count("table:pyeq_pairs", len(vals) ** 2)


def precedence_checks(chk, rng, n=400):
    """policy_precedence tied directly: the four *_merge_mode answers of a real, prepared MergerConfig
    for a node of the right-hand document equal the model's."""
    from yamlpath.wrappers import NodeCoords
    reqs, cases = [], []
    for _ in range(n):
        _l, r = mg.rand_pair(rng)
        if r["k"] == "null":
            continue        # an empty right-hand document is never looked up (merge_with returns at once)
        cfg = mg.rand_policy(rng, r, with_rules=True)
        addrs = mg.node_addrs(r)
        addr, _node = rng.choice(addrs)
        if cfg.get("rules") and rng.random() < 0.6:
            addr = rng.choice(cfg["rules"])[0]
        cases.append((r, cfg, addr))
        reqs.append({"op": "C05.mode", "r": r, "addr": addr, "cfg": cfg})
    ans = core.Driver().ask(reqs)
    for (r, cfg, addr), mo in zip(cases, ans):
        chk.evaluations += 1
        try:
            mc = mg.make_config(cfg, "ini" if rng.random() < 0.2 else "kw")
            data = codec.json_to_ruamel(r)
            mc.prepare(data)
            node, parent, pref = data, None, None
            for t, v in addr:
                parent, pref = node, v
                node = node[v]
            nc = NodeCoords(node, parent, pref)
            got = {}
            for name, fn in (("hash", mc.hash_merge_mode), ("array", mc.array_merge_mode), ("aoh", mc.aoh_merge_mode), ("set", mc.set_merge_mode)):
                try:
                    got[name] = fn(nc).name.lower()
                except NameError:
                    got[name] = {"err": "config"}
        except Exception as e:  # noqa
            chk.violation("%s@%s" % (core.exc_class(e), core.crash_site(e)), "policy lookup for %s at %s under %s raised %s" % (
                _show(r), mg.addr_to_path(addr), json.dumps(cfg), type(e).__name__), {"r": r, "cfg": cfg, "addr": addr})
            continue
        want = {k: mo.get(k) for k in ("hash", "array", "aoh", "set")}
        if got != want:
            chk.disagreements_checked += 1
            chk.disagreement("precedence", "policy lookup for %s at %s under %s: impl %s, model %s" % (
                _show(r), mg.addr_to_path(addr), json.dumps(cfg), got, want), {"r": r, "cfg": cfg, "addr": addr, "impl": got, "model": want})
    chk.count("precedence_lookups", n)


def run(chk: core.Check):
    core.use_repo()
    tier = chk.tier
    rng = random.Random(chk.seed)
    if chk.replay_in:
        rp = json.load(open(chk.replay_in))
        c = rp.get("case", rp)
        if "l" not in c:
            print("replay: nothing to run for", json.dumps(c)[:300])
            return chk
        case = (c["l"], c["r"], c.get("cfg", {}), c.get("via", "kw"))
        res = run_cases([case])
        im = mg.impl_merge(*case)
        mo = core.Driver().ask([{"op": "C05.merge", "l": case[0], "r": case[1], "cfg": mg.model_cfg(case[2], [case[0], case[1]])}])[0]
        print("replay:", json.dumps({"l": _show(case[0]), "r": _show(case[1]), "cfg": case[2],
                                     "impl": im if "err" in im else _show(im["ok"]),
                                     "model": mo if "err" in mo else _show(mo["ok"])}))
        results = [res]
    else:
        table_checks(chk)
        precedence_checks(chk, rng, 400 if tier == "quick" else 4000)
        bound = int(os.environ.get("YPV_EXH_BOUND") or (2 if tier == "quick" else 3))   # override: developer runs only
        docs = mg.docs_up_to(bound)
        pairs = [(l, r) for l in docs for r in docs]
        rng.shuffle(pairs)
        jobs = [("CORPUS", [(l, r, cfg, "kw") for (l, r, cfg) in CORPUS] +
                 [(l, r, cfg, "ini") for (l, r, cfg) in CORPUS])]
        per = 40 if tier == "quick" else 150
        jobs += [("EXH", pairs[i:i + per]) for i in range(0, len(pairs), per)]
        nrand = int(os.environ.get("YPV_NRAND") or (300000 if tier == "quick" else 3000000))
        per_job = 2500
        jobs += [("RAND", chk.seed * 100003 + i, per_job) for i in range(nrand // per_job)]
        chk.exhaustive = True
        chk.extra_cov["exhaustive_bound"] = ("all %d x %d ordered pairs of documents with <= %d nodes x 180 policy combinations"
                                             % (len(docs), len(docs), bound))
        chk.extra_cov["random_pairs"] = nrand
        results = core.pmap(_job, jobs)
    for stats, findings, samples, nontrivial, hist in results:
        chk.evaluations += stats["n"]
        chk.out_of_model += stats["oom"]
        chk.nontrivial_extra += nontrivial
        for k, v in hist.items():
            chk.count(k, v)
        for s in samples:
            chk.sample(s)
        for kind_, sig, what, case in findings:
            if kind_ == "violation":
                chk.violation(sig, what, case)
            else:
                chk.disagreements_checked += 1
                chk.disagreement(sig, what, case)
    return chk
