"""C12 — search operators compare values by the documented typed rules."""
from __future__ import annotations

import datetime
import itertools
import json
import random

from harness import core, codec
from harness.props import compare_common as cc

RULE = ("(1) Nodes.typed_value vs the model on every text of length <= L over 16 literal-significant characters "
        "(L=4 quick, 5 thorough) plus seeded random texts; (2) the complete grid 9 operators x %d haystacks x %d needles "
        "calling Searches.search_matches directly (null, booleans, ints, negative ints, floats, dates, numeric-looking / "
        "boolean-looking / empty / plain strings; needles include every spelling class and regular expressions, valid "
        "and invalid); (3) seeded random scalars x random terms x 9 operators; (4) inversion through the real "
        "Processor.get_nodes on every list of <= 3 scalars from an 8-value pool and on hashes (key names, attribute) and "
        "sets x operators x terms x plain/inverted; (4b) `[.OP term]` / `[.!OP term]` over lists of records: every list of <= 3 members (a sample of "
        "those of 4) over {null, three hashes, the empty hash, two scalars} with at least one hash (Arrays-of-Hashes, Arrays-of-Hashes with "
        "null members, records mixed with scalars), at the root and under a key, x 9 operators x terms naming a key of some / of no record, "
        "the text of null, the empty term - judged without a model: no exception but a YAML Path error, inverted = exactly the members the "
        "plain search does not yield, a null member selected exactly when the typed rules match null; (4c) searches on a NAMED attribute "
        "`[a OP term]` / `[a!OP term]` and on an attribute path `[a.b OP term]` over lists of records some of which have NO value at the "
        "attribute: every list of <= 3 members (and seeded random lists of 4-7) over {a record holding the attribute with one of 5 values "
        "(ints, text, Boolean, null), a record with other keys only, an empty record (for a.b: a record whose `a` lacks `b`), a null member, "
        "a stray scalar} with at least one record holding it, at the root and under a key, x 9 operators x 7 terms - each record is "
        "answered from its OWN value: the plain result must be exactly the records whose own value the typed rules match (model "
        "C12.attrscan, theorems attr_plain_is_filter / attr_inverted_is_complement), never a record without a value there whatever record "
        "precedes it (also judged without the model), the inverted result exactly the other members; (5) the same through collectors: documents of 3 collections of numbers whose "
        "text order differs from their numeric order (digit counts, negatives, floats; some with numeric-looking / plain "
        "strings), every grouping (X), ((X)), (X)+(Y), ((X)+(Y)), (((X)+(Y))+(Z)), ((X)+((Y)+(Z))) ... of their members, both "
        "notations, followed by [.OP term] plain and inverted: the result must be the collected members the typed rules "
        "select (model scan over the collected values; for all-numeric candidates and a numeric term also judged "
        "model-free: exactly the members numerically OP the term), inverted = the complement.  Regex answers for the model's oracle are computed by the harness "
        "with Python re on the model's own text.  A case counts as distinct & non-trivial when the operator answers "
        "True, or answers False on a numeric/boolean typed pair (the typed branches), or an inverted query yields a "
        "non-empty proper subset.")

D = datetime.date(2024, 1, 2)

HAYSTACKS = [None, True, False, 0, 1, -1, 5, 10, 42, -7, 100, 123456789,
             0.0, 1.0, 1.5, -2.5, 0.1, 5.0, 1e16, 1e-05, 100000.0, 0.98,
             "", "a", "abc", "ABC", "ab", "b", "a b", "True", "true", "FALSE", "None", "null", "5", "05", "5.0", "1.50",
             "-1", "1e5", " 5", "10", "9", "1_0", "é", "2024-01-02", D, "'abc'", "0x10", "(1,2)", "{[1]: 2}"]
NEEDLES = ["", "a", "abc", "ab", "bc", "b", "c", "ABC", "A", "True", "true", "TRUE", "tRuE", "False", "false", "None", "none",
           "null", "0", "1", "-1", "5", "05", "10", "9", "42", "100", "0.0", "1.0", "1.5", "1.50", "-2.5", "5.0", "5.", ".5",
           "0.1", "1e5", "1e16", "1e+16", "1e-05", "100000.0", " 5", "5 ", "1_0", "é", ".", "2024", "^a", "a$", "a|5", ".*",
           "^$", "[", "(", "*", "\\d+", "'abc'", "(1,2)", "0x10", "{[1]}"]
RULE = RULE % (len(HAYSTACKS), len(NEEDLES))

OPS = {"CONTAINS": "%", "ENDS_WITH": "$", "EQUALS": "=", "STARTS_WITH": "^", "GREATER_THAN": ">", "LESS_THAN": "<",
       "GREATER_THAN_OR_EQUAL": ">=", "LESS_THAN_OR_EQUAL": "<=", "REGEX": "=~"}


def hay_to_json(v):
    if isinstance(v, datetime.date):
        return {"k": "opaque", "v": str(v), "py": "date"}
    return codec.scalar_to_json(v)


def hay_from_json(j):
    if j.get("py") == "date":
        return datetime.date.fromisoformat(j["v"])
    v = codec.json_to_plain(j)
    if j.get("wrap"):
        # the objects ruamel's round-trip loader yields for anchored / quoted scalars
        from ruamel.yaml.scalarbool import ScalarBoolean
        from ruamel.yaml.scalarint import ScalarInt
        from ruamel.yaml.scalarfloat import ScalarFloat
        from ruamel.yaml.scalarstring import PlainScalarString, SingleQuotedScalarString
        if isinstance(v, bool):
            return ScalarBoolean(v, anchor="w")
        if isinstance(v, int):
            return ScalarInt(v, anchor="w")
        if isinstance(v, float):
            return ScalarFloat(v, width=len(repr(v)), prec=repr(v).find("."), anchor="w")
        if isinstance(v, str):
            return SingleQuotedScalarString(v) if j["wrap"] == 2 else PlainScalarString(v, anchor="w")
    return v


def impl_match(method_name, needle, haystack):
    from yamlpath.common import Searches
    from yamlpath.enums import PathSearchMethods
    m = PathSearchMethods[method_name]
    st, val = cc.guarded(lambda: Searches.search_matches(m, needle, haystack))
    if st == "ok":
        return {"ok": bool(val)} if isinstance(val, bool) else {"other": repr(val)}
    if st == "timeout":
        return {"timeout": 1}
    return {"exc": type(val).__name__, "site": core.crash_site(val)}


def judge_match(case, impl, mo, stats, viol, disag):
    """Compare one search_matches outcome with the model/specification answer."""
    m, t = case["m"], case["t"]
    model, spec = mo["model"], mo["spec"]
    if ("ok" in model) != ("ok" in spec) or ("ok" in model and model["ok"] != spec["ok"]):
        disag.append(("model-vs-spec", "model %s but specification %s for %s" % (model, spec, case), case))
    kinds = "%s~%s" % (mo["hk"], mo["tk"])
    if model.get("err") == "outOfModel":
        stats["oom"] += 1
        # fuzzing observation only: whatever the literal is, the comparison must not crash
        if "exc" in impl and not (m == "REGEX" and impl["exc"] == "YAMLPathException"):
            viol.append(("crash:%s@%s" % (impl["exc"], impl["site"]),
                         "search_matches(%s, %r, %r) raised %s" % (m, t, case["hv"], impl["exc"]), case))
        return
    if "timeout" in impl:
        viol.append(("timeout", "search_matches(%s, %r, %r) did not return in 5 s" % (m, t, case["hv"]), case))
        return
    if model.get("err") == "ypath:generic":
        # invalid regular expression: not a well-formed term; a YAML Path error on both sides (fix 149bd27)
        stats["rx_invalid"] += 1
        if impl.get("exc") != "YAMLPathException":
            disag.append(("regex-invalid-outcome", "invalid pattern %r: impl %s" % (t, impl), case))
        return
    want = model["ok"]
    if "exc" in impl:
        viol.append(("crash:%s@%s" % (impl["exc"], impl["site"]),
                     "search_matches(%s, %r, %r) raised %s for a well-formed term" % (m, t, case["hv"], impl["exc"]), case))
        return
    got = impl.get("ok")
    if got is not want:
        grp = "ordering" if m in ("GREATER_THAN", "LESS_THAN", "GREATER_THAN_OR_EQUAL", "LESS_THAN_OR_EQUAL") else m.lower()
        viol.append(("mismatch:%s:%s" % (grp, kinds),
                     "search_matches(%s, term %r, value %r) answered %s; the typed rules give %s (value kind %s, term kind %s)"
                     % (m, t, case["hv"], got, want, mo["hk"], mo["tk"]), case))
        return
    if want or (mo["hk"] in ("int", "float", "bool") and mo["tk"] in ("int", "float", "bool")):
        stats["nontrivial"] += 1
    stats["by_method"][m] = stats["by_method"].get(m, 0) + 1
    stats["kinds"][kinds] = stats["kinds"].get(kinds, 0) + 1


def match_chunk(cases):
    """cases: [{"m", "h" (scalar json), "t"}] -> stats, violations, disagreements, samples"""
    drv = core.Driver()
    # phase 1: the text the model searches in (for the regex oracle)
    texts = drv.ask([{"op": "C12.text", "h": c["h"]} for c in cases])
    reqs = []
    for c, tx in zip(cases, texts):
        r = {"op": "C12.match", "m": c["m"], "h": c["h"], "t": c["t"]}
        if c["m"] == "REGEX":
            r["rx"] = [[c["t"], tx["text"], cc.rx_answer(c["t"], tx["text"])]]
        reqs.append(r)
    model = drv.ask(reqs)
    stats = {"n": 0, "oom": 0, "nontrivial": 0, "rx_invalid": 0, "by_method": {}, "kinds": {}}
    viol, disag, samples = [], [], []
    for c, mo in zip(cases, model):
        hv = hay_from_json(c["h"])
        c = dict(c, kind="match", hv=repr(hv))
        impl = impl_match(c["m"], c["t"], hv)
        stats["n"] += 1
        judge_match(c, impl, mo, stats, viol, disag)
        if len(samples) < 1 and impl.get("ok") and c["m"] != "CONTAINS":
            samples.append({"case": c, "impl": impl, "model": mo["model"], "spec": mo["spec"]})
    return stats, viol[:40], disag[:40], samples


# --------------------------------------------------------------------------- random scalars

R_STR_ALPHA = ["a", "b", "A", "é", " ", "0", "1", "5", ".", "-", "e", "_", "T", "r", "u"]
R_WORDS = ["true", "True", "FALSE", "None", "null", "abc", "ab", "", "1.5", "1.50", "-3", "007", "1e3", "10", "9", "2.0", "2"]


def random_scalar(rng):
    k = rng.random()
    if k < 0.08:
        return None
    if k < 0.18:
        return rng.random() < 0.5
    if k < 0.38:
        return rng.choice([0, 1, -1, rng.randint(-20, 20), rng.randint(-10 ** 6, 10 ** 6), rng.randint(-10 ** 14, 10 ** 14)])
    if k < 0.58:
        digits = rng.randint(1, 8)
        f = float("%s%de%d" % (rng.choice(["", "-"]), rng.randint(0, 10 ** digits), rng.randint(-12, 12)))
        f = rng.choice([f, float(rng.randint(-20, 20)), rng.randint(-2000, 2000) / 100.0])
        return f if cc.float_in_domain(f) else 1.5
    return random_text(rng)


def random_text(rng):
    if rng.random() < 0.4:
        return rng.choice(R_WORDS)
    return "".join(rng.choice(R_STR_ALPHA) for _ in range(rng.randint(0, 5)))


def random_term(rng):
    k = rng.random()
    if k < 0.5:
        return random_text(rng)
    v = random_scalar(rng)
    if isinstance(v, str):
        return v
    s = str(v)
    if rng.random() < 0.2:
        s = s.lower() if rng.random() < 0.5 else s.upper()
    return s


# --------------------------------------------------------------------------- inversion through the Processor

INV_POOL = [None, True, 0, 1, 5, 1.5, "a", "ab", "5"]
INV_TERMS = ["a", "5", "1", "1.5", "true", "None", "", "b"]
KEY_POOL = ["a", "ab", "b", 1, 5, "5", "true"]


def build_doc(dj):
    return codec.json_to_ruamel(dj)


def run_query(doc, path):
    """(parsed terms | None, outcome) of Processor.get_nodes(path) on doc: outcome is
    {"refs": [...]} (parentref of each result, in order) or {"exc": type, "site": ...}."""
    from yamlpath import Processor, YAMLPath
    from yamlpath.path import SearchTerms

    def parse():
        yp = YAMLPath(path)
        segs = list(yp.escaped)
        return yp, (segs[0][1] if len(segs) == 1 and isinstance(segs[0][1], SearchTerms) else None)
    st, val = cc.guarded(parse)
    if st != "ok":
        return None, ({"timeout": 1} if st == "timeout" else {"exc": core.exc_class(val), "site": core.crash_site(val)})
    yp, terms = val
    res = []

    def go():
        proc = Processor(core.quiet_logger(), doc)
        for nc in proc.get_nodes(yp, mustexist=True):
            res.append(nc.parentref)
    st, val = cc.guarded(go)
    if st == "ok":
        return terms, {"refs": res}
    if st == "timeout":
        return terms, {"timeout": 1}
    if core.exc_class(val) == "ypath" and not res:
        return terms, {"refs": []}           # mustexist=True reports "no match" as a YAML Path error
    return terms, {"exc": core.exc_class(val), "site": core.crash_site(val), "partial": res}


def inv_chunk(cases):
    """cases: [{"site": "list"|"keys"|"attr"|"set", "doc": json, "cands": [scalar json], "refs": [...],
    "m": METHOD, "t": term}]; runs the plain and the inverted query on the real Processor."""
    drv = core.Driver()
    stats = {"n": 0, "oom": 0, "nontrivial": 0, "skipped": 0, "sites": {}}
    viol, disag, samples = [], [], []
    prepared = []
    for c in cases:
        attr = "." if c["site"] in ("list", "keys", "set") else "a"
        tt = "/%s/" % c["t"] if c["m"] == "REGEX" else c["t"]
        plain_path = "[%s%s%s]" % (attr, OPS[c["m"]], tt)
        inv_path = "[%s!%s%s]" % (attr, OPS[c["m"]], tt)
        doc = build_doc(c["doc"])
        terms, plain = run_query(doc, plain_path)
        doc2 = build_doc(c["doc"])
        terms2, inv = run_query(doc2, inv_path)
        stats["n"] += 2
        # a path whose parse is not the intended search (term text swallowed by the path syntax) is no test
        ok_parse = (terms is not None and terms2 is not None and terms.method.name == c["m"] and terms.term == c["t"]
                    and terms.attribute == attr and not terms.inverted and terms2.inverted and terms2.term == c["t"]
                    and terms2.method.name == c["m"])
        if not ok_parse and not ("exc" in plain and plain["exc"].startswith("crash")):
            stats["skipped"] += 1
            continue
        prepared.append((c, plain, inv))
    texts = drv.ask([{"op": "C12.text", "h": h} for (c, _, _) in prepared for h in c["cands"]])
    reqs, k = [], 0
    for (c, plain, inv) in prepared:
        rx = []
        if c["m"] == "REGEX":
            for h in c["cands"]:
                rx.append([c["t"], texts[k]["text"], cc.rx_answer(c["t"], texts[k]["text"])])
                k += 1
        else:
            k += len(c["cands"])
        for invflag in (False, True):
            reqs.append({"op": "C12.scan", "site": "list" if c["site"] == "list" else "seq", "inv": invflag,
                         "m": c["m"], "t": c["t"], "c": c["cands"], "rx": rx})
    model = drv.ask(reqs)
    for i, (c, plain, inv) in enumerate(prepared):
        mp, mi = model[2 * i], model[2 * i + 1]
        case = dict(c, kind="inversion")
        stats["sites"][c["site"]] = stats["sites"].get(c["site"], 0) + 1
        if mp["err"] == "outOfModel" or mi["err"] == "outOfModel":
            stats["oom"] += 1
            continue
        bad = False
        for which, im, mo in (("plain", plain, mp), ("inverted", inv, mi)):
            if "timeout" in im:
                viol.append(("timeout", "query did not return", case)); bad = True
                continue
            if "exc" in im:
                if mo["err"] is not None and mo["err"].startswith("crash") and im["exc"].startswith("crash"):
                    continue        # e.g. an invalid regular expression: the same crash class on both sides
                viol.append(("%s@%s" % (im["exc"], im["site"]),
                             "%s search %s %r over %s raised %s" % (which, c["m"], c["t"], c["site"], im["exc"]), case))
                bad = True
                continue
            want = [c["refs"][j] for j in mo["hits"]]
            if mo["err"] is not None or im["refs"] != want:
                viol.append(("scan-mismatch:%s:%s" % (c["site"], which),
                             "%s search %s %r over %s %s yielded %s; the typed rules give %s"
                             % (which, c["m"], c["t"], c["site"], [codec.json_to_plain(x) if x.get("py") is None else x["v"] for x in c["cands"]],
                                im["refs"], want), case))
                bad = True
        if bad:
            continue
        if "refs" in plain and "refs" in inv:
            # the property itself: inverted = candidates the plain search does not yield, in order
            compl = [r for r in c["refs"] if r not in plain["refs"]]
            if inv["refs"] != compl:
                viol.append(("inverted-not-complement:%s" % c["site"],
                             "inverted %s %r over %s yielded %s, plain yielded %s of %s" % (
                                 c["m"], c["t"], c["site"], inv["refs"], plain["refs"], c["refs"]), case))
                continue
            if plain["refs"] and inv["refs"]:
                stats["nontrivial"] += 1
                if len(samples) < 1:
                    samples.append({"case": case, "plain": plain["refs"], "inverted": inv["refs"]})
    return stats, viol[:40], disag[:40], samples


def inversion_cases(rng, tier):
    cases = []
    pool = [hay_to_json(v) for v in INV_POOL]
    maxlen = 3
    lists = [list(t) for n in range(0, maxlen + 1) for t in itertools.product(range(len(pool)), repeat=n)]
    for idxs in lists:
        cands = [pool[i] for i in idxs]
        if cands and all(c["k"] == "null" for c in cands):
            continue            # `term in None` (C15's domain): modelled as a crash, not judged here
        doc = {"k": "seq", "i": cands}
        for m in cc.METHODS:
            for t in (INV_TERMS if len(idxs) <= 2 else rng.sample(INV_TERMS, 2)):
                cases.append({"site": "list", "doc": doc, "cands": cands, "refs": list(range(len(cands))), "m": m, "t": t})
    # hashes: key names, and the attribute `a`
    for n in range(1, 4):
        for keys in itertools.permutations(KEY_POOL, n):
            if rng.random() > (1.0 if n < 3 else 0.25):
                continue
            if len({str(k) for k in keys}) < n:
                continue        # `5` next to `"5"`: outside WF documents
            doc = {"k": "map", "e": [[k, {"k": "int", "v": str(i)}] for i, k in enumerate(keys)]}
            cands = [codec.scalar_to_json(k) for k in keys]
            for m in cc.METHODS:
                for t in rng.sample(INV_TERMS, 3):
                    cases.append({"site": "keys", "doc": doc, "cands": cands, "refs": list(keys), "m": m, "t": t})
    for v in pool:
        doc = {"k": "map", "e": [["a", v], ["z", {"k": "int", "v": "0"}]]}
        for m in cc.METHODS:
            for t in INV_TERMS:
                cases.append({"site": "attr", "doc": doc, "cands": [v], "refs": ["a"], "m": m, "t": t})
    for n in range(1, 4):
        for mem in itertools.combinations(["a", "ab", "b", "5", 7], n):
            doc = {"k": "set", "m": list(mem)}
            cands = [codec.scalar_to_json(k) for k in mem]
            for m in cc.METHODS:
                for t in rng.sample(INV_TERMS, 3):
                    cases.append({"site": "set", "doc": doc, "cands": cands, "refs": list(mem), "m": m, "t": t})
    # random longer lists
    nrand = 1500 if tier == "quick" else 30000
    for _ in range(nrand):
        vals = [random_scalar(rng) for _ in range(rng.randint(4, 9))]
        vals = [v for v in vals if cc.scalar_in_domain(v)]
        if vals and all(v is None for v in vals):
            continue
        cands = [hay_to_json(v) for v in vals]
        t = random_term(rng)
        if any(ch in t for ch in "[]()'\"\\ ") or t != t.strip():
            t = "ab"
        cases.append({"site": "list", "doc": {"k": "seq", "i": cands}, "cands": cands, "refs": list(range(len(cands))),
                      "m": rng.choice(cc.METHODS), "t": t})
    return cases



# --------------------------------------------------------------------------- `.` searches over lists of records

REC_POOL = [{"k": "null"},
            {"k": "map", "e": [["name", {"k": "str", "v": "a"}]]},
            {"k": "map", "e": [["kind", {"k": "int", "v": "1"}], ["name", {"k": "str", "v": "b"}]]},
            {"k": "map", "e": [[5, {"k": "str", "v": "x"}]]},
            {"k": "map", "e": []},
            {"k": "int", "v": "5"}, {"k": "str", "v": "name"}]
REC_TERMS = ["name", "kind", "5", "absent", "None", "a", "1", "n", "", "true"]


def record_cases(rng, tier):
    """Lists of records: every list of <= 3 members (and a sample of the lists of 4) over {null, three hashes, the empty
    hash, two scalars} holding at least one hash - so: Arrays-of-Hashes, Arrays-of-Hashes with null members (a record
    left empty), lists mixing records and scalars - at the root and under a key x the nine operators x terms that name a
    key of some records, of none, that equal / order against the text of null, the empty term."""
    cases = []
    n_pool = len(REC_POOL)
    lists = [t for n in (1, 2, 3) for t in itertools.product(range(n_pool), repeat=n)]
    fours = list(itertools.product(range(5), repeat=4))
    lists += rng.sample(fours, 60 if tier == "quick" else len(fours))
    for idxs in lists:
        if not any(REC_POOL[i]["k"] == "map" for i in idxs):
            continue
        members = [REC_POOL[i] for i in idxs]
        for m in cc.METHODS:
            terms = REC_TERMS if len(idxs) <= 2 else rng.sample(REC_TERMS, 3)
            for t in terms:
                if m == "REGEX" and t == "":
                    continue
                cases.append({"members": members, "under": (len(idxs) + len(t)) % 2 == 1, "m": m, "t": t})
    return cases


def rec_chunk(cases):
    """`[.OP term]` and `[.!OP term]` over a list of records (hashes, null members, stray scalars), on the real Processor:
    the comparison never raises for a well-formed term; the inverted search yields exactly the members the plain search
    does not; a null member is a scalar candidate, selected exactly when the typed rules match null against the term
    (model).  Which records a `.` search selects is the evaluator's subject (C01), not judged here."""
    drv = core.Driver()
    stats = {"n": 0, "oom": 0, "nontrivial": 0, "skipped": 0, "sites": {}}
    viol = []
    prepared = []
    for c in cases:
        seq = {"k": "seq", "i": c["members"]}
        docj = {"k": "map", "e": [["records", seq], ["z", {"k": "int", "v": "0"}]]} if c["under"] else seq
        pre = "records" if c["under"] else ""
        tt = "/%s/" % c["t"] if c["m"] == "REGEX" else c["t"]
        outs = []
        okp = True
        for inv in ("", "!"):
            path = "%s[.%s%s%s]" % (pre, inv, OPS[c["m"]], tt)
            from yamlpath import YAMLPath
            from yamlpath.path import SearchTerms
            st, val = cc.guarded(lambda: list(YAMLPath(path).escaped)[-1][1])
            if st != "ok" or not (isinstance(val, SearchTerms) and val.method.name == c["m"] and val.term == c["t"]
                                  and val.attribute == "." and bool(val.inverted) == bool(inv)):
                okp = False
                break
            _terms, out = run_query(build_doc(docj), path)
            outs.append((path, out))
        stats["n"] += 2
        if not okp:
            stats["skipped"] += 1
            continue
        prepared.append((c, docj, outs))
    model = drv.ask([dict({"op": "C12.match", "m": c["m"], "h": {"k": "null"}, "t": c["t"]},
                          **({"rx": [[c["t"], "None", cc.rx_answer(c["t"], "None")]]} if c["m"] == "REGEX" else {}))
                     for (c, _d, _o) in prepared])
    for (c, docj, outs), mo in zip(prepared, model):
        case = dict(c, kind="records", doc=docj)
        shape = "aoh+null" if all(x["k"] in ("map", "null") for x in c["members"]) and any(x["k"] == "null" for x in c["members"]) \
            else "aoh" if all(x["k"] == "map" for x in c["members"]) else "records+scalars"
        stats["sites"]["records:" + shape] = stats["sites"].get("records:" + shape, 0) + 1
        n = len(c["members"])
        what = " over the list of records %s" % json.dumps(codec.json_to_plain(docj))
        bad = False
        for (path, out), which in zip(outs, ("plain", "inverted")):
            if "timeout" in out:
                viol.append(("timeout", path + what + " did not return", case)); bad = True
            elif "exc" in out:
                if c["m"] == "REGEX" and out["exc"] == "ypath":
                    bad = True          # an invalid regular expression is no well-formed term
                    continue
                viol.append(("%s@%s" % (out["exc"], out["site"]),
                             "%s search %s%s raised %s for a well-formed term (list of records: %s)" % (which, path, what, out["exc"], shape), case))
                bad = True
        if bad:
            continue
        plain, inv = outs[0][1]["refs"], outs[1][1]["refs"]
        compl = [i for i in range(n) if i not in plain]
        if inv != compl or any(i not in range(n) for i in plain):
            viol.append(("inverted-not-complement:records",
                         "%s yielded the members %s, %s the members %s of %d%s" % (outs[1][0], inv, outs[0][0], plain, n, what), case))
            continue
        if "ok" in mo.get("model", {}):
            nulls = [i for i, x in enumerate(c["members"]) if x["k"] == "null"]
            got = [i for i in nulls if i in plain]
            want = nulls if mo["model"]["ok"] else []
            if got != want:
                viol.append(("scan-mismatch:records:null-member",
                             "%s selected the null members %s of %s; the typed rules %s null against %r%s"
                             % (outs[0][0], got, nulls, "match" if mo["model"]["ok"] else "do not match", c["t"], what), case))
                continue
        else:
            stats["oom"] += 1
        if plain and inv:
            stats["nontrivial"] += 1
    return stats, viol[:40], [], []


# --------------------------------------------------------------------------- named-attribute searches over lists of records

ATTR_VALUES = [5, 1, "ab", True, None]                                  # a record's own value at the attribute
ATTR_ABSENT = [{"k": "map", "e": [["z", {"k": "int", "v": "5"}]]},       # a record with other keys only
               {"k": "map", "e": []},                                    # an empty record
               {"k": "null"},                                            # a null member
               {"k": "int", "v": "5"}]                                   # a stray scalar
ATTR_TERMS = ["5", "1", "ab", "true", "None", "a", "4"]


def attr_record_cases(rng, tier):
    """Searches on a NAMED attribute over lists of records in which some records have no value at the attribute: every
    list of <= 3 members (and seeded random lists of 4-7) over {a record holding the attribute with one of 5 values
    (int, int, text, Boolean, null), a record with other keys only, an empty record, a null member, a stray scalar} with
    at least one record holding the attribute, at the root and under a key, the attribute being a key of the record (`a`)
    or a path into it (`a.b`, the descendant search) x the nine operators x terms.  A member is {"v": scalar json} (its
    own value at the attribute) or {"absent": form}."""
    pool = [{"v": hay_to_json(v)} for v in ATTR_VALUES] + [{"absent": i} for i in range(len(ATTR_ABSENT))]
    lists = [list(t) for n in (1, 2, 3) for t in itertools.product(range(len(pool)), repeat=n)]
    nrand = 600 if tier == "quick" else 12000
    lists += [[rng.randrange(len(pool)) for _ in range(rng.randint(4, 7))] for _ in range(nrand)]
    cases = []
    for li, idxs in enumerate(lists):
        members = [pool[i] for i in idxs]
        if not any("v" in x for x in members):
            continue
        for m in cc.METHODS:
            terms = ATTR_TERMS if len(idxs) <= 2 else rng.sample(ATTR_TERMS, 2)
            for ti, t in enumerate(terms):
                if m == "REGEX" and t == "":
                    continue
                cases.append({"members": members, "under": (li + ti) % 2 == 1, "deep": (li + ti) % 4 >= 2 if len(idxs) > 2 else ti % 2 == 1,
                              "m": m, "t": t})
    return cases


def attr_doc(c):
    """The document of a named-attribute case, and the attribute text."""
    items = []
    for x in c["members"]:
        if "v" in x:
            val = {"k": "map", "e": [["b", x["v"]], ["c", {"k": "int", "v": "0"}]]} if c["deep"] else x["v"]
            items.append({"k": "map", "e": [["n", {"k": "str", "v": "r%d" % len(items)}], ["a", val]]})
        else:
            form = ATTR_ABSENT[x["absent"]]
            if c["deep"] and x["absent"] == 1:
                # the first key of the path is there, the value it leads to is not
                form = {"k": "map", "e": [["a", {"k": "map", "e": [["c", {"k": "int", "v": "5"}]]}]]}
            items.append(form)
    seq = {"k": "seq", "i": items}
    docj = {"k": "map", "e": [["records", seq], ["z", {"k": "int", "v": "0"}]]} if c["under"] else seq
    return docj, ("a.b" if c["deep"] else "a")


def attr_chunk(cases):
    """`[a OP term]` / `[a!OP term]` (and `[a.b OP term]`) over a list of records on the real Processor.  Each record is
    answered from its OWN value at the attribute: the plain search must yield exactly the records that have a value there
    which the typed rules match (model `C12.attrscan` = Props `attr_plain_is_filter`), never a record without one, and
    the inverted search exactly the other members (`attr_inverted_is_complement`); the complement clause is also judged
    directly on the two real results."""
    from yamlpath import YAMLPath
    from yamlpath.path import SearchTerms
    drv = core.Driver()
    stats = {"n": 0, "oom": 0, "nontrivial": 0, "skipped": 0, "sites": {}}
    viol, samples = [], []
    prepared = []
    for c in cases:
        docj, attr = attr_doc(c)
        pre = "records" if c["under"] else ""
        tt = "/%s/" % c["t"] if c["m"] == "REGEX" else c["t"]
        outs, okp = [], True
        for inv in ("", "!"):
            path = "%s[%s%s%s%s]" % (pre, attr, inv, OPS[c["m"]], tt)
            st, val = cc.guarded(lambda: list(YAMLPath(path).escaped)[-1][1])
            if st != "ok" or not (isinstance(val, SearchTerms) and val.method.name == c["m"] and val.term == c["t"]
                                  and val.attribute == attr and bool(val.inverted) == bool(inv)):
                okp = False
                break
            _terms, out = run_query(build_doc(docj), path)
            outs.append((path, out))
        stats["n"] += 2
        if not okp:
            stats["skipped"] += 1
            continue
        prepared.append((c, docj, outs))
    cands = [[x.get("v") for x in c["members"]] for (c, _d, _o) in prepared]
    texts = drv.ask([{"op": "C12.text", "h": h} for cs in cands for h in cs if h is not None])
    reqs, k = [], 0
    for (c, _d, _o), cs in zip(prepared, cands):
        rx = []
        for h in cs:
            if h is None:
                continue
            if c["m"] == "REGEX":
                rx.append([c["t"], texts[k]["text"], cc.rx_answer(c["t"], texts[k]["text"])])
            k += 1
        for invflag in (False, True):
            reqs.append({"op": "C12.attrscan", "inv": invflag, "m": c["m"], "t": c["t"], "c": cs, "rx": rx})
    model = drv.ask(reqs)
    for i, (c, docj, outs) in enumerate(prepared):
        case = dict(c, kind="attr-records", doc=docj)
        n = len(c["members"])
        site = "attr-records:" + ("descendant" if c["deep"] else "key")
        stats["sites"][site] = stats["sites"].get(site, 0) + 1
        what = " over the list of records %s" % json.dumps(codec.json_to_plain(docj))
        bad = False
        for (path, out), which in zip(outs, ("plain", "inverted")):
            if "timeout" in out:
                viol.append(("timeout", path + what + " did not return", case)); bad = True
            elif "exc" in out:
                bad = True
                if c["m"] == "REGEX" and out["exc"] == "ypath":
                    continue            # an invalid regular expression is no well-formed term
                viol.append(("%s@%s" % (out["exc"], out["site"]),
                             "%s search %s%s raised %s for a well-formed term" % (which, path, what, out["exc"]), case))
        if bad:
            continue
        plain, inv = outs[0][1]["refs"], outs[1][1]["refs"]
        absent = [j for j, x in enumerate(c["members"]) if "v" not in x]
        # the property's own clauses, without a model: a record with no value at the attribute offers the operator nothing
        # to answer from, and the inverted result is the complement of the plain one
        if any(j in plain for j in absent):
            viol.append(("attr-scan-mismatch:records:absent-selected",
                         "%s selected the members %s, of which %s have no value at the attribute%s" % (
                             outs[0][0], plain, [j for j in absent if j in plain], what), case))
            continue
        compl = [j for j in range(n) if j not in plain]
        if inv != compl or any(j not in range(n) for j in plain):
            viol.append(("inverted-not-complement:attr-records",
                         "%s yielded the members %s, %s the members %s of %d%s" % (outs[1][0], inv, outs[0][0], plain, n, what), case))
            continue
        mp, mi = model[2 * i], model[2 * i + 1]
        if mp["err"] == "outOfModel" or mi["err"] == "outOfModel":
            stats["oom"] += 1
            continue
        for which, got, mo in (("plain", plain, mp), ("inverted", inv, mi)):
            if mo["err"] is not None or got != mo["hits"]:
                viol.append(("attr-scan-mismatch:records:%s" % which,
                             "%s yielded the members %s; answering each record from its own value the typed rules give %s%s"
                             % (outs[0 if which == "plain" else 1][0], got, mo["hits"] if mo["err"] is None else mo["err"], what), case))
                bad = True
                break
        if bad:
            continue
        if plain and inv:
            stats["nontrivial"] += 1
            if len(samples) < 1 and absent:
                samples.append({"case": case, "plain": plain, "inverted": inv})
    return stats, viol[:40], [], samples


# --------------------------------------------------------------------------- searches over collector results

COLL_NUMS = [1, 9, 10, 100, 2, 20, 5, -3, -20, 1000, 0, 99]
COLL_FLOATS = [1.5, 10.25, 9.75, 100.5, -2.5, 9.5, 20.5, 0.5, -10.25, 1000.125]
COLL_STRS = ["9", "10", "05", "a", "ab", "10a", "100", "x"]
COLL_TERMS = ["9", "10", "9.8", "100", "5", "-3", "20", "1", "0", "99.5", "a", "10a", "1e1"]
# how the operands X, Y, Z are grouped: the reference (one level), and groups inside groups
COLL_SHAPES = {
    1: ["(X)", "((X))", "(((X)))"],
    2: ["(X)+(Y)", "((X)+(Y))", "(((X)+(Y)))", "((X))+((Y))"],
    3: ["(X)+(Y)+(Z)", "(((X)+(Y))+(Z))", "((X)+((Y)+(Z)))", "((X)+(Y)+(Z))", "((X)+(Y))+(Z)"],
}
ORDERING = {"GREATER_THAN": lambda a, b: a > b, "LESS_THAN": lambda a, b: a < b,
            "GREATER_THAN_OR_EQUAL": lambda a, b: a >= b, "LESS_THAN_OR_EQUAL": lambda a, b: a <= b}


def coll_expr(shape, operands, fslash):
    """`shape` with X, Y, Z replaced by the operand paths: `k.*` / `k` (dot) or `/k/*` / `/k` (forward slash)."""
    out = shape
    for name, (key, star) in zip("XYZ", operands):
        sub = ("/%s/*" if star else "/%s") % key if fslash else ("%s.*" if star else "%s") % key
        out = out.replace(name, sub)
    return ("/" + out) if fslash else out


def number_of(text):
    import re as _re
    if _re.fullmatch(r"-?[0-9]+", text):
        return int(text)
    if _re.fullmatch(r"-?[0-9]+\.[0-9]+", text):
        return float(text)
    return None


def ident(v):
    """A scalar as [kind, text]: 9 (int), 9.5 (float) and "9" (str) are three different members."""
    if isinstance(v, bool):
        return ["bool", str(bool(v))]
    if isinstance(v, int):
        return ["int", str(int(v))]
    if isinstance(v, float):
        return ["float", repr(float(v))]
    if isinstance(v, str):
        return ["str", str(v)]
    return ["other", repr(v)]


def run_coll(docj, keys, path, want_terms):
    """Results of `path` (a collector, then possibly one search segment) on the real Processor, each identified by the
    innermost value (values are distinct within these documents): [[kind, text], ...].  want_terms = (method, term, inverted) | None."""
    from yamlpath import Processor, YAMLPath
    from yamlpath.enums import PathSegmentTypes
    from yamlpath.path import SearchTerms
    from yamlpath.wrappers import NodeCoords
    doc = build_doc(docj)

    def parse():
        yp = YAMLPath(path)
        segs = list(yp.escaped)
        ok = bool(segs) and segs[0][0] is PathSegmentTypes.COLLECTOR
        if want_terms is None:
            return yp, ok and all(sg[0] is PathSegmentTypes.COLLECTOR for sg in segs)
        t = segs[-1][1]
        ok = (ok and isinstance(t, SearchTerms) and all(sg[0] is PathSegmentTypes.COLLECTOR for sg in segs[:-1])
              and t.method.name == want_terms[0] and t.term == want_terms[1] and bool(t.inverted) == want_terms[2]
              and t.attribute == ".")
        return yp, ok
    st, val = cc.guarded(parse)
    if st != "ok" or not val[1]:
        return None
    yp = val[0]
    res = []

    def flat(nc):
        # a collector hands over its members wrapped once per enclosing group; a bare list operand (`(k)`) is handed
        # over as its members.  Every value occurs once in the document, so the value identifies the member.
        node = nc
        while isinstance(node, NodeCoords):
            node = node.node
        if isinstance(node, list):
            for x in node:
                flat(x)
        else:
            res.append(ident(node))

    def go():
        proc = Processor(core.quiet_logger(), doc)
        for nc in proc.get_nodes(yp, mustexist=True):
            flat(nc)
    st, val = cc.guarded(go)
    if st == "ok":
        return {"ids": res}
    if st == "timeout":
        return {"timeout": 1}
    if core.exc_class(val) == "ypath" and not res:
        return {"ids": []}
    return {"exc": core.exc_class(val), "site": core.crash_site(val), "partial": res}


def coll_chunk(cases):
    """cases: [{"doc", "keys", "operands": [[key, star]], "shape", "fslash", "m", "t"}]: the nine operators, plain and
    inverted, applied to the result of a (nested) collector must select the members the typed rules select from the
    collected candidates."""
    drv = core.Driver()
    stats = {"n": 0, "oom": 0, "nontrivial": 0, "skipped": 0, "sites": {}}
    viol, disag, samples = [], [], []
    prepared = []
    for c in cases:
        expr = coll_expr(c["shape"], c["operands"], c["fslash"])
        plainj = codec.json_to_plain(c["doc"])
        cand_ids, cands = [], []
        for key, _star in c["operands"]:
            coll = plainj[key]
            refs = list(coll.keys()) if isinstance(coll, dict) else list(range(len(coll)))
            cand_ids += [ident(coll[r]) for r in refs]
            cands += [coll[r] for r in refs]
        stats["n"] += 2
        nested = "nested" if "((" in c["shape"] else "flat"
        keys = [k for k, _ in c["operands"]]
        # what the collector alone gathers is not C12's subject: searches are judged only when it gathers the operands' members
        base = run_coll(c["doc"], keys, expr, None)
        if base is None or base.get("ids") != cand_ids:
            stats["skipped"] += 1
            continue
        tt = "/%s/" % c["t"] if c["m"] == "REGEX" else c["t"]
        outs = []
        for inv in (False, True):
            outs.append(run_coll(c["doc"], keys, "%s[.%s%s%s]" % (expr, "!" if inv else "", OPS[c["m"]], tt), (c["m"], c["t"], inv)))
        if outs[0] is None or outs[1] is None:
            stats["skipped"] += 1
            continue
        prepared.append((c, expr, nested, cand_ids, cands, outs))
    texts = drv.ask([{"op": "C12.text", "h": hay_to_json(h)} for p_ in prepared for h in p_[4]])
    reqs, k = [], 0
    for (c, expr, nested, cand_ids, cands, outs) in prepared:
        rx = []
        if c["m"] == "REGEX":
            for h in cands:
                rx.append([c["t"], texts[k]["text"], cc.rx_answer(c["t"], texts[k]["text"])])
                k += 1
        else:
            k += len(cands)
        for inv in (False, True):
            reqs.append({"op": "C12.scan", "site": "list", "inv": inv, "m": c["m"], "t": c["t"],
                         "c": [hay_to_json(h) for h in cands], "rx": rx})
    model = drv.ask(reqs)
    for i, (c, expr, nested, cand_ids, cands, outs) in enumerate(prepared):
        case = dict(c, kind="collector", expr=expr)
        stats["sites"]["collector-" + nested] = stats["sites"].get("collector-" + nested, 0) + 1
        if any(model[2 * i + j]["err"] == "outOfModel" for j in (0, 1)):
            stats["oom"] += 1
            continue
        bad = False
        num = number_of(c["t"])
        numeric = (c["m"] in ORDERING and num is not None
                   and all(isinstance(v, (int, float)) and not isinstance(v, bool) for v in cands))
        for j, which in ((0, "plain"), (1, "inverted")):
            im, mo = outs[j], model[2 * i + j]
            what = "%s[.%s%s%s] over %s" % (expr, "!" if j else "", OPS[c["m"]], c["t"], json.dumps(codec.json_to_plain(c["doc"])))
            if "timeout" in im:
                viol.append(("timeout", what + " did not return", case)); bad = True
                continue
            if "exc" in im:
                if mo["err"] is not None and mo["err"].startswith("crash") and im["exc"].startswith("crash"):
                    continue
                viol.append(("%s@%s" % (im["exc"], im["site"]), what + " raised %s" % im["exc"], case)); bad = True
                continue
            if numeric:
                # ordering is numeric for numeric values: exactly the collected members numerically OP the term
                want = [cid for cid, v in zip(cand_ids, cands) if ORDERING[c["m"]](v, num) != bool(j)]
                if im["ids"] != want:
                    viol.append(("collector-ordering-not-numeric:%s:%s" % (nested, which),
                                 what + " yielded %s; the collected members numerically %s%s %s are %s"
                                 % (im["ids"], "not " if j else "", OPS[c["m"]], c["t"], want), case))
                    bad = True
                    continue
            if mo["err"] is not None:
                continue
            want = [cand_ids[h] for h in mo["hits"]]
            if im["ids"] != want:
                viol.append(("collector-scan-mismatch:%s:%s" % (nested, which),
                             what + " yielded %s; the typed rules select %s of the collected %s" % (im["ids"], want, cands), case))
                bad = True
        if bad:
            continue
        if "ids" in outs[0] and "ids" in outs[1]:
            compl = [cid for cid in cand_ids if cid not in outs[0]["ids"]]
            if outs[1]["ids"] != compl:
                viol.append(("inverted-not-complement:collector-" + nested,
                             "inverted %s %r behind %s yielded %s, plain yielded %s of %s"
                             % (c["m"], c["t"], expr, outs[1]["ids"], outs[0]["ids"], cand_ids), case))
                continue
            if outs[0]["ids"] and outs[1]["ids"]:
                stats["nontrivial"] += 1
                if len(samples) < 1 and nested == "nested":
                    samples.append({"case": case, "plain": outs[0]["ids"], "inverted": outs[1]["ids"]})
    return stats, viol[:40], disag[:40], samples


def collector_cases(rng, tier):
    """Documents {a: [...], b: [...], c: [...] | {...}} of numbers whose text order differs from their numeric order
    (different digit counts, negatives, floats), some with numeric-looking / plain strings mixed in; every grouping
    of COLL_SHAPES over 1-3 of the collections (members `k.*`, or the list itself `k`), both notations, x the nine
    operators x terms."""
    cases = []
    ndocs = 100 if tier == "quick" else 1000
    for d in range(ndocs):
        kind = ["ints", "ints", "floats", "nums", "mixed"][d % 5]
        pool = {"ints": COLL_NUMS, "floats": COLL_FLOATS, "nums": COLL_NUMS + COLL_FLOATS,
                "mixed": COLL_NUMS + COLL_FLOATS + COLL_STRS}[kind]
        colls = {}
        sizes = [rng.randint(1, 4) for _ in range(3)]
        while sum(sizes) > len(pool):
            sizes[sizes.index(max(sizes))] -= 1
        distinct = rng.sample(pool, sum(sizes))       # each value once per document: a value identifies its member
        for key in ("a", "b", "c"):
            vals = [distinct.pop() for _ in range(sizes.pop())]
            if key == "c" and rng.random() < 0.5:
                colls[key] = {"k": "map", "e": [["k%d" % i, hay_to_json(v)] for i, v in enumerate(vals)]}
            else:
                colls[key] = {"k": "seq", "i": [hay_to_json(v) for v in vals]}
        doc = {"k": "map", "e": [[k, colls[k]] for k in ("a", "b", "c")]}
        for n in (1, 2, 3):
            for shape in COLL_SHAPES[n]:
                keys = rng.sample(["a", "b", "c"], n)
                operands = [[k, True if colls[k]["k"] == "map" else rng.random() < 0.7] for k in keys]
                fslash = rng.random() < 0.3
                picks = [(m, rng.choice(COLL_TERMS)) for m in ORDERING] + \
                        [(m, rng.choice(COLL_TERMS)) for m in rng.sample([x for x in cc.METHODS if x not in ORDERING], 2)]
                for m, t in picks:
                    cases.append({"doc": doc, "keys": ["a", "b", "c"], "operands": operands, "shape": shape,
                                  "fslash": fslash, "m": m, "t": t})
    return cases

# --------------------------------------------------------------------------- run

def check_tables(chk):
    from yamlpath.enums import PathSearchMethods
    live = sorted(m.name for m in PathSearchMethods)
    if live != sorted(cc.METHODS):
        chk.disagreement("table:PathSearchMethods", "operators of the code %s differ from the model's %s" % (live, sorted(cc.METHODS)),
                         {"kind": "table", "live": live})
    for m in PathSearchMethods:
        if str(m) != OPS[m.name] and m.name in OPS:
            chk.disagreement("table:operator-spelling", "%s is spelled %r, model %r" % (m.name, str(m), OPS[m.name]),
                             {"kind": "table", "m": m.name})


def _typed_job(job):
    if job[0] == "EXH":
        _, pre, L = job
        texts = [pre + "".join(t) for n in range(0, L - len(pre) + 1) for t in itertools.product(cc.TYPED_ALPHABET, repeat=n)]
        if pre:
            return cc.compare_typed_chunk(texts)
        return cc.compare_typed_chunk([""])
    return cc.compare_typed_chunk(job[1])


def run(chk: core.Check):
    core.use_repo()
    tier = chk.tier
    rng = random.Random(chk.seed)
    if chk.replay_in:
        rp = json.load(open(chk.replay_in))
        c = rp.get("case", rp)
        if c.get("kind") == "inversion":
            res = [inv_chunk([c])]
        elif c.get("kind") == "collector":
            res = [coll_chunk([c])]
        elif c.get("kind") == "records":
            res = [rec_chunk([c])]
        elif c.get("kind") == "attr-records":
            res = [attr_chunk([c])]
        elif c.get("kind") == "typed" or "text" in c:
            res = [cc.compare_typed_chunk([c["text"]]) + ([],)]
        else:
            res = [match_chunk([{"m": c["m"], "h": c["h"], "t": c["t"]}])]
        for st, viol, disag, _s in res:
            print("replay:", json.dumps({"case": c, "violations": [v[:2] for v in viol], "disagreements": [d[:2] for d in disag]},
                                        default=str, ensure_ascii=False))
            _absorb(chk, "replay", st, viol, disag, [])
        return chk
    check_tables(chk)
    # (1) typed_value
    L = 4 if tier == "quick" else 5
    jobs = [("EXH", "", L)] + [("EXH", a, L) for a in cc.TYPED_ALPHABET]
    nrand = 60000 if tier == "quick" else 600000
    rnd = [cc.random_typed_text(rng) for _ in range(nrand)]
    jobs += [("LIST", c) for c in core.chunked(rnd, 32)]
    for st, viol, disag in core.pmap(_typed_job, jobs):
        _absorb(chk, "typed", st, [(s, w, dict(c, kind="typed")) for s, w, c in viol],
                [(s, w, dict(c, kind="typed")) for s, w, c in disag], [])
    # (2) the grid
    hj = [hay_to_json(h) for h in HAYSTACKS]
    # the same values as ruamel wrapper objects (anchored / quoted scalars): same answers expected
    hj += [dict(j, wrap=(2 if (j["k"] == "str" and i % 2) else 1)) for i, j in enumerate(list(hj))
           if j["k"] in ("bool", "int", "float", "str")]
    grid = [{"m": m, "h": h, "t": t} for m in cc.METHODS for h in hj for t in NEEDLES]
    for st, viol, disag, samples in core.pmap(match_chunk, core.chunked(grid, 48)):
        _absorb(chk, "grid", st, viol, disag, samples)
    # (3) random scalars
    nrand = 40000 if tier == "quick" else 600000
    rnd, seen = [], set()
    for _ in range(nrand):
        h = random_scalar(rng)
        t = random_term(rng)
        hjson = hay_to_json(h)
        key = (json.dumps(hjson, sort_keys=True), t)
        if key in seen:
            continue
        seen.add(key)
        for m in cc.METHODS:
            rnd.append({"m": m, "h": hjson, "t": t})
    for st, viol, disag, samples in core.pmap(match_chunk, core.chunked(rnd, 64)):
        _absorb(chk, "random", st, viol, disag, samples)
    # (4) inversion at the segment
    inv = inversion_cases(rng, tier)
    for st, viol, disag, samples in core.pmap(inv_chunk, core.chunked(inv, 64)):
        _absorb(chk, "inversion", st, viol, disag, samples)
    # (4b) `.` searches over lists of records (hashes, null members, stray scalars)
    recs = record_cases(random.Random(chk.seed * 3 + 1), tier)
    chk.extra_cov["record_list_cases"] = len(recs)
    for st, viol, disag, samples in core.pmap(rec_chunk, core.chunked(recs, 64)):
        _absorb(chk, "records", st, viol, disag, samples)
    # (4c) named-attribute searches over lists of records, some of which have no value at the attribute
    attrs = attr_record_cases(random.Random(chk.seed * 5 + 2), tier)
    chk.extra_cov["attr_record_cases"] = len(attrs)
    for st, viol, disag, samples in core.pmap(attr_chunk, core.chunked(attrs, 64)):
        _absorb(chk, "attr-records", st, viol, disag, samples)
    # (5) the operators behind (nested) collectors
    colls = collector_cases(random.Random(chk.seed * 13 + 5), tier)
    chk.extra_cov["collector_cases"] = len(colls)
    for st, viol, disag, samples in core.pmap(coll_chunk, core.chunked(colls, 64)):
        _absorb(chk, "collector", st, viol, disag, samples)
    chk.exhaustive = True
    chk.extra_cov["exhaustive_bound"] = (
        "typed_value: all texts of length <= %d over %d characters; search_matches: the complete %d x %d x 9 grid; "
        "inversion: every list of <= 3 members over %d values" % (L, len(cc.TYPED_ALPHABET), len(HAYSTACKS), len(NEEDLES), len(INV_POOL)))
    return chk


def _absorb(chk, part, st, viol, disag, samples):
    chk.evaluations += st["n"]
    chk.out_of_model += st.get("oom", 0)
    chk.nontrivial_extra += st.get("nontrivial", 0)
    chk.count(part + ":cases", st["n"])
    chk.count(part + ":out_of_model", st.get("oom", 0))
    for k, v in st.get("by_method", {}).items():
        chk.count("%s:method:%s" % (part, k), v)
    for k, v in st.get("kinds", {}).items():
        chk.count("%s:kinds:%s" % (part, k), v)
    for k, v in st.get("sites", {}).items():
        chk.count("%s:site:%s" % (part, k), v)
    if st.get("rx_invalid"):
        chk.count(part + ":invalid-regex", st["rx_invalid"])
    if st.get("skipped"):
        chk.count(part + ":path-not-expressible", st["skipped"])
    for s in samples:
        chk.sample(s)
    for sig, w, case in viol:
        chk.violation(sig, w, case)
    for sig, w, case in disag:
        chk.disagreements_checked += 1
        chk.disagreement(sig, w, case)
