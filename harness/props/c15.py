"""C15 — evaluating any path on any document fails only with YAML Path errors."""
from __future__ import annotations

from harness import core
from harness.props import evaluating as ev
from harness.props import c01

RULE = ("the C01 case set (complete small layer + seeded-random documents x guided/random paths incl. invalid regular "
        "expressions, nulls, mixed-type lists, integer and string keys side by side) plus the bound grid: every index in -9..9 as "
        "[n] and as bare key, and every slice bound pair in -9..9 (361 pairs), on sequences of length 0..4 (root, nested under a key, "
        "and Array-of-Hashes slices followed by a key).  Direct check on every query (required, exists, optional, dot and slash "
        "notation): the exception type escaping Processor.get_nodes()/exists() is in the YAMLPathException family (10 s timeout "
        "per query counts as a violation).  Additionally 12 000 (thorough: 300 000) seeded-random collector paths "
        "(1-3 operands joined by + - &, optional trailing segment) whose operands select scalars only are checked the same way "
        "(collectors are outside the Lean model; crashes with non-scalar operands are counted, not judged), and 12 000 (300 000) "
        "document-guided paths holding one keyword segment (unique/distinct/min/max/has_child/name/parent; modelled by C13, here only the "
        "exception type is checked), plus the keyword-parameter layer: every keyword, plain and inverted, x 46 parameter texts "
        "(bare / quoted / escaped blanks, empty quotes, a lone `&`, lone and unbalanced quotes, commas without values, padded names) "
        "x documents with blank and empty keys and values, anchors and nulls x 10 ways of reaching them, alone and followed by `*`, "
        "asked through get_nodes(mustexist=True), exists() and get_nodes(mustexist=False); the same items inside 3 000 guided paths.  Correspondence: the error class equals the Lean model's.  "
        "distinct_nontrivial = distinct (document, path) whose required query returns at least one node.")


def absorb15(chk, results):
    """C15 judges crashes; result differences are counted for the record (they belong to C01/C02)."""
    nontrivial = 0
    for stats, viol, disag, samples in results:
        chk.evaluations += stats["n"]
        nontrivial += stats["nontrivial"]
        chk.out_of_model += stats["oom"]
        for k in ("queries", "nonempty", "ypath", "crash", "unparsable", "opt_compared", "virtual"):
            chk.count(k, stats[k])
        for k, v in stats["kinds"].items():
            chk.count("segment:" + k, v)
        for s in samples:
            chk.sample(s)
        for sig, w, case in viol:
            if case.get("prop") == "C15":
                chk.violation(sig, w, case)
            else:
                chk.count("other-property-violations:" + case.get("prop", "?"))
        for sig, w, case in disag:
            chk.disagreements_checked += 1
            chk.disagreement(sig, w, case)
    chk.nontrivial_extra = nontrivial
    # the replay is the smallest failing input found
    chk.violations.sort(key=lambda v: ev.count_nodes(v["case"]["doc"]) * 10 + len(v["case"].get("path") or ""))


def keyword_param_docs():
    """(document, prefixes): maps / lists / Arrays-of-Hashes whose keys and values include the blank and the empty text,
    an anchored element, nulls."""
    S = lambda v: {"k": "str", "v": v}          # noqa: E731
    I = lambda v: {"k": "int", "v": str(v)}     # noqa: E731
    big = {"k": "map", "e": [
        ["hash", {"k": "map", "e": [[" ", S("blank key")], ["name", S("value")], ["", I(0)]]}],
        ["list", {"k": "seq", "i": [S(" "), S("word"), S(""), {"k": "null"}]}],
        ["aoh", {"k": "seq", "i": [{"k": "map", "e": [[" ", I(1)], ["a", I(1)]]}, {"k": "null"},
                                   {"k": "map", "e": [["other", I(2)], ["a", S(" ")]]}]}],
        ["anchored", {"k": "seq", "i": [dict(S("one"), a="x"), S("two")]}],
        ["hoh", {"k": "map", "e": [["p", {"k": "map", "e": [["a", I(1)], [" ", I(2)]]}], ["q", {"k": "map", "e": [["a", I(3)]]}]]}],
    ]}
    return [
        (big, [["hash"], ["list"], ["aoh"], ["anchored"], ["hoh"], [], ["*"], ["**"], ["aoh", "[0]"], ["hash", "name"]]),
        ({"k": "map", "e": [[" ", I(1)], ["a", I(2)]]}, [[]]),
        ({"k": "seq", "i": [S(" "), dict(S("a"), a="x")]}, [[]]),
        ({"k": "seq", "i": [{"k": "map", "e": [[" ", I(1)], ["a", I(1)]]}, {"k": "null"}, {"k": "map", "e": [["a", I(2)]]}]}, [[], ["[0:2]"]]),
        (S(" "), [[]]),
    ]


def run(chk: core.Check):
    core.use_repo()
    opts = {"c02": False, "slash": True}
    if chk.replay_in:
        import json
        rp = json.load(open(chk.replay_in))
        c = rp.get("case", rp)
        res = ev.compare_chunk(([(c["doc"], c.get("items") or [c["path"]])], opts))
        print("replay:", json.dumps({"path": c.get("path"), "violations": [(s, w) for s, w, _ in res[1]]}, default=str)[:3000])
        return absorb15(chk, [res])
    chk.exhaustive = True
    jobs = c01.build_jobs(chk, opts, nrand_quick=50000, grid=True)
    chk.extra_cov["bound_grid"] = "indexes and slice bounds -9..9 (all 361 pairs) on sequences of length 0..4"
    absorb15(chk, core.pmap(ev.compare_chunk, jobs))
    # collectors: outside the evaluator model; the exception type of the real queries is checked directly
    import random as _r
    rng = _r.Random(chk.seed + 15)
    ncoll = 12000 if chk.tier == "quick" else 300000
    cc = []
    for _ in range(ncoll):
        d = ev.random_doc(rng, rng.choice([6, 10, 15]))
        operands, text = ev.random_collector(rng)
        cc.append((d, operands, text))
    cc = c01.subsample(chk, cc)
    for stats, viol in core.pmap(ev.collector_chunk, [(c, opts) for c in core.chunked(cc, 64)]):
        chk.evaluations += stats["n"]
        chk.out_of_model += stats["n"]
        for k, v in stats.items():
            chk.count("collector:" + k, v)
        for sig, w, case in viol:
            chk.violation(sig, w, case)
    # keyword segments: modelled by C13; here only the exception type of the real queries is checked
    kk = []
    nkw = 12000 if chk.tier == "quick" else 300000
    for _ in range(nkw):
        d = ev.random_doc(rng, rng.choice([6, 10, 15]))
        items = ev.guided_path(rng, d, 3)
        items.insert(rng.randint(0, len(items)), rng.choice(ev.KEYWORD_ITEMS))
        kk.append((d, items))
    kk = c01.subsample(chk, kk)
    # keyword parameter texts: complete layer (every keyword, plain and inverted, x every parameter text x documents with
    # blank / empty keys and values, anchors, nulls x ways of reaching them), required / exists / optional queries
    pitems = ev.keyword_param_items()
    pcases = [(d, pre + [it] + tail) for it in pitems for d, pres in keyword_param_docs() for pre in pres
              for tail in ([], ["*"])]
    chk.extra_cov["keyword_parameter_layer"] = "%d keyword items x %d (document, prefix) pairs x 2 tails" % (
        len(pitems), sum(len(p) for _d, p in keyword_param_docs()))
    pcases = c01.subsample(chk, pcases)
    prand = []          # random paths may name missing nodes: the optional mode would create them (C09), so required / exists only
    for _ in range(nkw // 4):
        d = ev.random_doc(rng, rng.choice([6, 10, 15]))
        items = ev.guided_path(rng, d, 3)
        items.insert(rng.randint(0, len(items)), rng.choice(pitems))
        prand.append((d, items))
    prand = c01.subsample(chk, prand)
    for stats, viol in core.pmap(ev.keyword_chunk, [(c, dict(opts, kw_opt=True)) for c in core.chunked(pcases, 128)]
                                 + [(c, opts) for c in core.chunked(prand, 64)]):
        chk.evaluations += stats["n"]
        chk.out_of_model += stats["n"]
        for k, v in stats.items():
            chk.count("keyword-params:" + k, v)
        for sig, w, case in viol:
            chk.violation(sig, w, case)
    for stats, viol in core.pmap(ev.keyword_chunk, [(c, opts) for c in core.chunked(kk, 64)]):
        chk.evaluations += stats["n"]
        chk.out_of_model += stats["n"]
        for k, v in stats.items():
            chk.count("keyword:" + k, v)
        for sig, w, case in viol:
            chk.violation(sig, w, case)
    return chk
