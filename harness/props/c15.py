"""C15 — evaluating any path on any document fails only with YAML Path errors."""
from __future__ import annotations

from harness import core
from harness.props import evaluating as ev
from harness.props import c01

RULE = ("the C01 case set (complete small layer + seeded-random documents x guided/random paths incl. invalid regular "
        "expressions, nulls, mixed-type lists, integer and string keys side by side) plus the bound grid: every index in -9..9 as "
        "[n] and as bare key, and every slice bound pair in -9..9 (361 pairs), on sequences of length 0..4 (root, nested under a key, "
        "and Array-of-Hashes slices followed by a key).  Direct check on every query (required, exists, optional, dot and slash "
        "notation): the exception type escaping Processor.get_nodes()/exists() is in the YAMLPathException family (10 s timeout "
        "per query counts as a violation).  Additionally 12 000 (thorough: 300 000) seeded-random collector paths "
        "(1-3 operands joined by + - &, optional trailing segment) whose operands select scalars only are checked the same way "
        "(collectors are outside the Lean model; crashes with non-scalar operands are counted, not judged), and 12 000 (300 000) "
        "document-guided paths holding one keyword segment (unique/distinct/min/max/has_child/name/parent; modelled by C13, here only the "
        "exception type is checked), plus the keyword-parameter layer: every keyword, plain and inverted, x 46 parameter texts "
        "(bare / quoted / escaped blanks, empty quotes, a lone `&`, lone and unbalanced quotes, commas without values, padded names) "
        "x documents with blank and empty keys and values, anchors and nulls x 10 ways of reaching them, alone and followed by `*`, "
        "asked through get_nodes(mustexist=True), exists() and get_nodes(mustexist=False); the same items inside 3 000 guided paths; "
        "12 000 (200 000) collector SEQUENCES: hashes of scalars / lists of scalars / further hashes (depth <= 4), 1-3 operands drawn from the "
        "document (a scalar leaf, a real list of scalars below the root as itself / member by member / one element, a hash's members) joined "
        "by + (mostly) - &, FOLLOWED by an index into the collected result / min / max / unique / distinct / a search and then parent(n) "
        "(n absent, 0..5) / name() / has_child (an operand selecting a list of scalars counts as selecting scalars: the collector expands it); "
        "the complete Unicode-number key layer: 32 key texts of superscripts, subscripts, circled / parenthesised digits, fractions, Roman / "
        "CJK numerals, non-ASCII decimal digits, signs and mixes x Hashes lacking / owning the key, with integer keys, empty, an "
        "Array-of-Hashes (pass-through), a list, a set x direct / below a key / `*` / `**` / a slice, alone and followed by a key, "
        "through required / exists / optional queries.  Optional queries that would have to CREATE nodes (the model of C09 covers what they build) are run too, on a fresh copy, and only the type of an escaping exception is judged (signatures optcreate:...).  Correspondence: the error class equals the Lean model's.  "
        "distinct_nontrivial = distinct (document, path) whose required query returns at least one node.")


def absorb15(chk, results):
    """C15 judges crashes; result differences are counted for the record (they belong to C01/C02)."""
    nontrivial = 0
    for stats, viol, disag, samples in results:
        chk.evaluations += stats["n"]
        nontrivial += stats["nontrivial"]
        chk.out_of_model += stats["oom"]
        for k in ("queries", "nonempty", "ypath", "crash", "unparsable", "opt_compared", "virtual"):
            chk.count(k, stats[k])
        for k, v in stats["kinds"].items():
            chk.count("segment:" + k, v)
        for s in samples:
            chk.sample(s)
        for sig, w, case in viol:
            if case.get("prop") == "C15":
                chk.violation(sig, w, case)
            else:
                chk.count("other-property-violations:" + case.get("prop", "?"))
        for sig, w, case in disag:
            chk.disagreements_checked += 1
            chk.disagreement(sig, w, case)
    chk.nontrivial_extra = nontrivial
    # the replay is the smallest failing input found
    chk.violations.sort(key=lambda v: ev.count_nodes(v["case"]["doc"]) * 10 + len(v["case"].get("path") or ""))


def keyword_param_docs():
    """(document, prefixes): maps / lists / Arrays-of-Hashes whose keys and values include the blank and the empty text,
    an anchored element, nulls."""
    S = lambda v: {"k": "str", "v": v}          # noqa: E731
    I = lambda v: {"k": "int", "v": str(v)}     # noqa: E731
    big = {"k": "map", "e": [
        ["hash", {"k": "map", "e": [[" ", S("blank key")], ["name", S("value")], ["", I(0)]]}],
        ["list", {"k": "seq", "i": [S(" "), S("word"), S(""), {"k": "null"}]}],
        ["aoh", {"k": "seq", "i": [{"k": "map", "e": [[" ", I(1)], ["a", I(1)]]}, {"k": "null"},
                                   {"k": "map", "e": [["other", I(2)], ["a", S(" ")]]}]}],
        ["anchored", {"k": "seq", "i": [dict(S("one"), a="x"), S("two")]}],
        ["hoh", {"k": "map", "e": [["p", {"k": "map", "e": [["a", I(1)], [" ", I(2)]]}], ["q", {"k": "map", "e": [["a", I(3)]]}]]}],
    ]}
    return [
        (big, [["hash"], ["list"], ["aoh"], ["anchored"], ["hoh"], [], ["*"], ["**"], ["aoh", "[0]"], ["hash", "name"]]),
        ({"k": "map", "e": [[" ", I(1)], ["a", I(2)]]}, [[]]),
        ({"k": "seq", "i": [S(" "), dict(S("a"), a="x")]}, [[]]),
        ({"k": "seq", "i": [{"k": "map", "e": [[" ", I(1)], ["a", I(1)]]}, {"k": "null"}, {"k": "map", "e": [["a", I(2)]]}]}, [[], ["[0:2]"]]),
        (S(" "), [[]]),
    ]


def scalar_tree(rng, depth=0):
    """A hash of scalars, lists of scalars and further such hashes (depth <= 3), as canonical JSON."""
    S = [{"k": "int", "v": "1"}, {"k": "int", "v": "2"}, {"k": "int", "v": "10"}, {"k": "str", "v": "a"}, {"k": "str", "v": "b"},
         {"k": "float", "m": "15", "e": -1}, {"k": "null"}, {"k": "bool", "v": True}]
    es = []
    for k in rng.sample(["a", "b", "c", "x", "y", "z"], rng.randint(1, 4)):
        r = rng.random()
        if depth < 3 and r < 0.4:
            v = scalar_tree(rng, depth + 1)
        elif r < 0.75:
            v = {"k": "seq", "i": [dict(rng.choice(S)) for _ in range(rng.randint(0, 3))]}
        else:
            v = dict(rng.choice(S))
        es.append([k, v])
    return {"k": "map", "e": es}


def tree_operands(j, pre, out):
    """Operand paths into a scalar_tree: every scalar leaf `p`, every list of scalars as itself `p`, by its members `p.*`
    and by one element `p[i]`, every hash by its members `p.*`."""
    for k, v in j["e"]:
        p = (pre + "." if pre else "") + k
        if v["k"] == "map":
            out.append(p + ".*")
            tree_operands(v, p, out)
        elif v["k"] == "seq":
            out += [p, p, p + ".*"] + (["%s[%d]" % (p, len(v["i"]) - 1)] if v["i"] else [])
        else:
            out.append(p)
    return out


SEQ_TAILS = ["[parent(%s)]", "[%d][parent(%s)]", "[%d][parent(%s)]", "[%d][name()]", "[min()][parent(%s)]", "[max()][parent(%s)]",
             "[!min()][parent(%s)]", "[unique()][parent(%s)]", "[%d][parent(%s)][name()]", "[min()][name()]", "[%d][parent(%s)][parent(%s)]",
             "[%d:%d][parent(%s)]", "[%d][has_child(a)]", "[distinct()][%d][parent(%s)]", "[.>0][parent(%s)]", "[%d].*", "[%d][unique()]"]


def collector_seq_cases(rng, n):
    """Collector, THEN a short sequence of segments that work on what it gathered: an index into the collected result, a
    keyword selecting among it (min / max / unique / distinct, a search), then parent(n) (n absent, 0..5: fewer, as many
    and more levels than the gathered member has ancestors) / name() / has_child.  Operands are drawn from the document:
    scalar leaves at depth 1..4 and real lists of scalars below the root (gathered as themselves, member by member, by
    one element), joined by + (mostly), - or &."""
    out = []
    for _ in range(n):
        d = scalar_tree(rng)
        ops = tree_operands(d, "", [])
        operands = [rng.choice(ops) for _ in range(rng.randint(1, 3))]
        text = "(%s)" % operands[0]
        for o in operands[1:]:
            text += rng.choice(["+", "+", "+", "+", "-", "&"]) + "(%s)" % o
        t = rng.choice(SEQ_TAILS)
        args = []
        for m in __import__("re").findall(r"%[ds]", t):
            args.append(rng.randint(-2, 6) if m == "%d" else rng.choice(["", "0", "1", "2", "3", "4", "5"]))
        out.append((d, operands, text + t % tuple(args)))
    return out


# characters str.isdigit() / str.isnumeric() / str.isdecimal() disagree about, and text int() accepts beyond ASCII digits
UNICODE_NUMBER_KEYS = ["\u00b2", "\u00b9", "\u00b3", "1\u00b2", "-\u00b9", "\u00b23", "\u2460", "\u2469", "\u2474", "\u2080", "\u2075\u2076",
                       "\u00bd", "\u2162", "\u3007", "\u4e09", "\u0663", "-\u0663", "\u0664\u0662", "\uff13", "\u0967\u0968", "1\u0663", "\u0be7",
                       "\u0f33", "\u1369", "\U0001d7d8", "+3", "3_0", "-", "--1", "1e1", "0x1", "\u20783"]


def unicode_key_cases():
    """Complete: key segments made of Unicode number characters (superscripts, subscripts, circled / parenthesised digits,
    fractions, Roman numerals, CJK numerals, non-ASCII decimal digits, mixed with ASCII digits and a sign) x Hashes that
    lack the key (with string keys, integer keys - also the integer a decimal-digit text denotes -, an empty Hash), own it,
    an Array-of-Hashes, a Hash of Hashes, a list x reached directly, below a key, through the Array-of-Hashes pass-through,
    below `*` and `**`, followed by nothing / a key."""
    I = lambda v: {"k": "int", "v": str(v)}     # noqa: E731
    keys = [k.encode("ascii").decode("unicode_escape") if "\\" in repr(k) else k for k in UNICODE_NUMBER_KEYS]
    out = []
    for key in keys:
        plain = {"k": "map", "e": [["a", I(1)], [2, I(4)], [3, I(9)], ["42", I(0)]]}
        own = {"k": "map", "e": [["a", I(1)], [key, I(8)], [3, I(9)]]}
        aoh = {"k": "seq", "i": [plain, {"k": "null"}, own, {"k": "map", "e": []}]}
        docs = [
            (plain, [[]]), (own, [[]]), ({"k": "map", "e": []}, [[]]),
            ({"k": "map", "e": [["powers", plain], ["own", own], ["list", aoh], ["n", {"k": "seq", "i": [I(1), I(2), I(3), I(4)]}]]},
             [["powers"], ["own"], ["list"], ["*"], ["**"], ["n"], ["list", "[0]"], ["list", "*"]]),
            (aoh, [[], ["*"], ["**"], ["[0:3]"]]),
            ({"k": "seq", "i": [I(1), I(2), I(3), I(4)]}, [[]]),
            ({"k": "set", "m": ["a", 3]}, [[]]),
        ]
        for d, pres in docs:
            for pre in pres:
                for tail in ([], ["a"]):
                    out.append((d, pre + [key] + tail))
    return out


LITERAL_KEY_TEXTS = ["[]", "[1, 2]", "[[]]", "{}", "{1: [2]}", "{'a': 1}", "(1, 2)", "()", "None", "True", "1.5", "1e3", "0x10",
                     "-0", "1_0", "[1", "'a'", "b''", "...", "1j", "{1}", "[None]", "1 + 1", "-[]", "not 1"]


def literal_key_cases():
    """Complete: KEY segments whose TEXT reads as a Python literal (list, dict, tuple, set, None, numbers in every spelling; the
    string / integer key retry of `_get_nodes_by_key` and every helper that evaluates key text) - written demarcated and with
    backslash escapes - x Hashes that lack the key, own it as a text key, an Array-of-Hashes, a list x reached directly, below a
    key, through the Array-of-Hashes pass-through, below `*` / `**`, followed by nothing / a key."""
    I = lambda v: {"k": "int", "v": str(v)}     # noqa: E731
    out = []
    for text in LITERAL_KEY_TEXTS:
        spellings = []
        if "'" not in text:
            spellings.append("'" + text + "'")
        if '"' not in text:
            spellings.append('"' + text + '"')
        spellings.append("".join(("\\" + c) if c in " .[](){}'\"/^$%&*!=<>~,:+-" else c for c in text))
        plain = {"k": "map", "e": [["a", I(1)], [2, I(4)], ["42", I(0)]]}
        own = {"k": "map", "e": [["a", I(1)], [text, I(8)], [3, I(9)]]}
        aoh = {"k": "seq", "i": [plain, {"k": "null"}, own, {"k": "map", "e": []}]}
        docs = [
            (plain, [[]]), (own, [[]]), ({"k": "map", "e": []}, [[]]),
            ({"k": "map", "e": [["settings", plain], ["own", own], ["items", aoh]]},
             [["settings"], ["own"], ["items"], ["*"], ["**"], ["items", "[0]"], ["items", "*"]]),
            (aoh, [[], ["*"], ["[0:3]"]]),
            ({"k": "seq", "i": [I(1), I(2)]}, [[]]),
        ]
        for sp in spellings:
            for d, pres in docs:
                for pre in pres:
                    for tail in ([], ["a"]):
                        out.append((d, pre + [sp] + tail))
    return out


def run(chk: core.Check):
    core.use_repo()
    opts = {"c02": False, "slash": True, "opt_create": True}
    if chk.replay_in:
        import json
        rp = json.load(open(chk.replay_in))
        c = rp.get("case", rp)
        res = ev.compare_chunk(([(c["doc"], c.get("items") or [c["path"]])], opts))
        print("replay:", json.dumps({"path": c.get("path"), "violations": [(s, w) for s, w, _ in res[1]]}, default=str)[:3000])
        return absorb15(chk, [res])
    chk.exhaustive = True
    jobs = c01.build_jobs(chk, opts, nrand_quick=50000, grid=True)
    chk.extra_cov["bound_grid"] = "indexes and slice bounds -9..9 (all 361 pairs) on sequences of length 0..4"
    absorb15(chk, core.pmap(ev.compare_chunk, jobs))
    # collectors: outside the evaluator model; the exception type of the real queries is checked directly
    import random as _r
    rng = _r.Random(chk.seed + 15)
    ncoll = 12000 if chk.tier == "quick" else 300000
    cc = []
    for _ in range(ncoll):
        d = ev.random_doc(rng, rng.choice([6, 10, 15]))
        operands, text = ev.random_collector(rng)
        cc.append((d, operands, text))
    cc = c01.subsample(chk, cc)
    for stats, viol in core.pmap(ev.collector_chunk, [(c, opts) for c in core.chunked(cc, 64)]):
        chk.evaluations += stats["n"]
        chk.out_of_model += stats["n"]
        for k, v in stats.items():
            chk.count("collector:" + k, v)
        for sig, w, case in viol:
            chk.violation(sig, w, case)
    # collector, then segments working on the collected result (index, min/max/unique, parent(n), name()); operands may be
    # real lists of scalars below the root
    cs = collector_seq_cases(_r.Random(chk.seed * 7 + 151), 12000 if chk.tier == "quick" else 200000)
    cs = c01.subsample(chk, cs)
    for stats, viol in core.pmap(ev.collector_chunk, [(c, dict(opts, expand_lists=True)) for c in core.chunked(cs, 64)]):
        chk.evaluations += stats["n"]
        chk.out_of_model += stats["n"]
        for k, v in stats.items():
            chk.count("collector-sequence:" + k, v)
        for sig, w, case in viol:
            chk.violation(sig, w, case)
    # key segments of Unicode number characters against Hashes (the string / integer key retry of _get_nodes_by_key)
    uk = c01.subsample(chk, unicode_key_cases())
    chk.extra_cov["unicode_number_key_layer"] = "%d (document, path) cases x required / exists / optional" % len(uk)
    for stats, viol in core.pmap(ev.keyword_chunk, [(c, dict(opts, kw_opt=True, what="key segment of Unicode number characters"))
                                                    for c in core.chunked(uk, 64)]):
        chk.evaluations += stats["n"]
        chk.out_of_model += stats["n"]
        for k, v in stats.items():
            chk.count("unicode-number-keys:" + k, v)
        for sig, w, case in viol:
            chk.violation(sig, w, case)
    # key segments whose text reads as a Python literal (`settings."[]"`, `'{1: [2]}'`, `\\[3\\]`)
    lk = c01.subsample(chk, literal_key_cases())
    chk.extra_cov["literal_key_layer"] = "%d (document, path) cases x required / exists / optional" % len(lk)
    for stats, viol in core.pmap(ev.keyword_chunk, [(c, dict(opts, kw_opt=True, what="key segment whose text reads as a Python literal"))
                                                    for c in core.chunked(lk, 64)]):
        chk.evaluations += stats["n"]
        chk.out_of_model += stats["n"]
        for k, v in stats.items():
            chk.count("literal-keys:" + k, v)
        for sig, w, case in viol:
            chk.violation(sig, w, case)
    # keyword segments: modelled by C13; here only the exception type of the real queries is checked
    kk = []
    nkw = 12000 if chk.tier == "quick" else 300000
    for _ in range(nkw):
        d = ev.random_doc(rng, rng.choice([6, 10, 15]))
        items = ev.guided_path(rng, d, 3)
        items.insert(rng.randint(0, len(items)), rng.choice(ev.KEYWORD_ITEMS))
        kk.append((d, items))
    kk = c01.subsample(chk, kk)
    # keyword parameter texts: complete layer (every keyword, plain and inverted, x every parameter text x documents with
    # blank / empty keys and values, anchors, nulls x ways of reaching them), required / exists / optional queries
    pitems = ev.keyword_param_items()
    pcases = [(d, pre + [it] + tail) for it in pitems for d, pres in keyword_param_docs() for pre in pres
              for tail in ([], ["*"])]
    chk.extra_cov["keyword_parameter_layer"] = "%d keyword items x %d (document, prefix) pairs x 2 tails" % (
        len(pitems), sum(len(p) for _d, p in keyword_param_docs()))
    pcases = c01.subsample(chk, pcases)
    prand = []          # random paths may name missing nodes: the optional mode would create them (C09), so required / exists only
    for _ in range(nkw // 4):
        d = ev.random_doc(rng, rng.choice([6, 10, 15]))
        items = ev.guided_path(rng, d, 3)
        items.insert(rng.randint(0, len(items)), rng.choice(pitems))
        prand.append((d, items))
    prand = c01.subsample(chk, prand)
    for stats, viol in core.pmap(ev.keyword_chunk, [(c, dict(opts, kw_opt=True)) for c in core.chunked(pcases, 128)]
                                 + [(c, opts) for c in core.chunked(prand, 64)]):
        chk.evaluations += stats["n"]
        chk.out_of_model += stats["n"]
        for k, v in stats.items():
            chk.count("keyword-params:" + k, v)
        for sig, w, case in viol:
            chk.violation(sig, w, case)
    for stats, viol in core.pmap(ev.keyword_chunk, [(c, opts) for c in core.chunked(kk, 64)]):
        chk.evaluations += stats["n"]
        chk.out_of_model += stats["n"]
        for k, v in stats.items():
            chk.count("keyword:" + k, v)
        for sig, w, case in viol:
            chk.violation(sig, w, case)
    return chk
