"""C08 — path text and parsed segments round-trip in both notations."""
from __future__ import annotations

import itertools
import json
import re
import os
import random
import signal

from harness import core, codec
from harness.props import parsing

RULE = ("(i) every string of length <= L over the parser's 27 significant characters (L=4 quick, 5 thorough) plus seeded "
        "random longer strings: segments (escaped, unescaped), str() as is / after separator=DOT / after separator=FSLASH, "
        "the re-parse of each of those strings, str() of the re-parsed path, and == between the forms, implementation vs "
        "Lean model; whenever the parsed segments are well-formed (Lean wfSegs) the round trip itself is checked on the real "
        "code (re-parse gives the same segments, str is a fixed point, the forms compare equal).  (ii) every segment list of "
        "length <= 2 (quick) / <= 3 (thorough) over a vocabulary covering every segment kind (all nine search operators, "
        "inversion, all seven keywords, all four collector operators; text over letters, digits and every escapable "
        "character), and seeded random lists up to length 8 with random text: written by the Lean specification writer in "
        "dot and forward-slash notation, parsed by the REAL parser, compared with the list; the written text then goes through "
        "(i).  (iii) == on pairs of written lists (equal iff the lists are equal).  (iv) append / + / pop on written paths "
        "(pop returns the appended segment and restores text and segments).  (iv-b) search segments whose term is written between "
        "quotation marks (every operator but the regular expression, inverted or not, both quote kinds, both notations; the empty term, "
        "every one- and two-character term over blank / separators / punctuation, longer ones): parse = the segments, == the "
        "escape-written spelling, then (i).  (iv-c) sequences on ONE path object: 1-4 steps of reading escaped / unescaped / str / len "
        "and switching the separator to DOT / FSLASH; after every step, judged against the written list with fresh objects only: str "
        "re-parses to the list, ==/!= with its own text, its canonical string, fresh parses of both (both operand orders) and a "
        "different list, the copy YAMLPath(p), p + segment and pop() on the sum.  (v) ensure_escaped / escape_path_section / "
        "strip_path_prefix and the finite tables (operator, keyword, collector spellings, escape lists) against the live "
        "objects.  distinct_nontrivial = distinct segment lists of >= 2 segments (or texts parsing to >= 2 segments) whose "
        "round trip was checked on the real code.")

SPECIALS = ['\\', '.', '/', '(', ')', '[', ']', '^', '$', '%', ' ', "'", '"']
PLAIN = ['a', 'b', '1', '_', '-', ':', ',', '+', '&', '=', '~', '!', '<', '>', 'Z', '0']
CORE = ['a', '\\', '.', '/', "'", '"', ' ', '[', ')', '1']
EXTRA_TEXT = ["'a'", '"a"', "a.b", "a/b", "\\\\.", "\\/", "a b c", "''", "x*y", "*a", "a*", "&a", "+a", "-a", "\t", "a\\",
              "[1]", "(a)", "a=b", "has_child", "\\'", "/a", "./", "a.", ".a", " a", "a ", "  "]
METHODS = ["EQUALS", "STARTS_WITH", "ENDS_WITH", "CONTAINS", "LESS_THAN", "GREATER_THAN", "LESS_THAN_OR_EQUAL",
           "GREATER_THAN_OR_EQUAL", "REGEX"]
KEYWORDS = ["HAS_CHILD", "NAME", "MAX", "MIN", "PARENT", "UNIQUE", "DISTINCT"]
COLLOPS = ["NONE", "ADDITION", "SUBTRACTION", "INTERSECTION"]
ATTRS = [".", "a", "a.b", "a b", "/"]
TERMS = ["", "a", "1", "a b", "'a", "x/y", "\\", "a.b", '"', "'a'", "/|#@,;:_-", " x", "^a$", "a]", "\\d+/", "x ", " ", " a b "]
PARAMS = ["", "a", "a, b", "'x'", "a.b", "a)", "(", "\\"]
EXPRS = ["a", "a.b", "/a/b", "(a)+(b)", "a[1]", "a b", "&a", "a\\.b", ")", ""]
INTS = [0, 1, -1, 12, -30, 100]
SLICES = ["1:2", ":", "-1:", "0:-1", "10:20"]
ANCHORS = ["a", "a.b", "a b", "/", "'", "1", "", "a=b"]


def key(t):
    return ["KEY", t]


def search(inv, m, attr, term):
    return ["SEARCH", {"search": {"inv": inv, "m": m, "attr": attr, "term": term}}]


def keyword(inv, kw, params):
    return ["KEYWORD_SEARCH", {"keyword": {"inv": inv, "kw": kw, "params": params}}]


def collector(expr, op):
    return ["COLLECTOR", {"collector": {"expr": expr, "op": op}}]


def text_pool():
    pool = list(SPECIALS) + list(PLAIN)
    pool += [a + b for a in CORE for b in CORE]
    pool += EXTRA_TEXT
    seen, out = set(), []
    for t in pool:
        if t not in seen:
            seen.add(t)
            out.append(t)
    return out


def full_vocab():
    v = [key(t) for t in text_pool()] + [key("")]
    v += [["INDEX", {"int": str(i)}] for i in INTS] + [["INDEX", s] for s in SLICES]
    v += [["ANCHOR", a] for a in ANCHORS]
    v += [["MATCH_ALL", None], ["TRAVERSE", None]]
    v += [search(inv, m, attr, term) for m in METHODS for inv in (False, True) for attr in ATTRS for term in TERMS]
    v += [keyword(inv, kw, p) for kw in KEYWORDS for inv in (False, True) for p in PARAMS]
    v += [collector(e, op) for op in COLLOPS for e in EXPRS]
    return v


def pair_vocab():
    tp = list(SPECIALS) + ['a', '1', '-', '+', '&', ':', "a.b", "a/b", "\\\\.", "'a'", "a b", "\\/", "a\\", "/a"]
    v = [key(t) for t in tp]
    v += [["INDEX", {"int": "0"}], ["INDEX", {"int": "-12"}], ["INDEX", "1:2"], ["INDEX", ":"]]
    v += [["ANCHOR", "a"], ["ANCHOR", "a.b"], ["ANCHOR", "/"]]
    v += [["MATCH_ALL", None], ["TRAVERSE", None]]
    for i, m in enumerate(METHODS):
        v.append(search(bool(i % 2), m, ATTRS[i % len(ATTRS)], TERMS[(i * 3 + 1) % len(TERMS)]))
        v.append(search(not bool(i % 2), m, ".", TERMS[(i * 5 + 2) % len(TERMS)]))
    v += [search(False, "REGEX", ".", t) for t in ("x/y", "^a.*$", "a b")]
    v += [search(True, "EQUALS", "a", t) for t in ("", "a.b", "x/y")]
    for i, kw in enumerate(KEYWORDS):
        v.append(keyword(bool(i % 2), kw, PARAMS[i % len(PARAMS)]))
    v += [keyword(False, "HAS_CHILD", "a.b"), keyword(True, "MAX", "a)")]
    v += [collector("a", "NONE"), collector("a.b", "ADDITION"), collector("/a/b", "SUBTRACTION"),
          collector("(a)+(b)", "INTERSECTION"), collector("a[1]", "NONE"), collector(")", "NONE"),
          # finding C08-6: an empty collector keeps the anchor-mark position open; "&" operator / "&" expression behind it
          collector("", "NONE"), collector("b", "INTERSECTION"), collector("&a", "NONE")]
    return v


def triple_vocab():
    v = [key(t) for t in ['a', '.', '/', '\\', ' ', "'", '[', ')', '-', "a.b"]]
    v += [["INDEX", {"int": "-1"}], ["INDEX", "1:2"], ["ANCHOR", "a.b"], ["MATCH_ALL", None], ["TRAVERSE", None]]
    v += [search(True, "REGEX", ".", "x/y"), search(False, "GREATER_THAN_OR_EQUAL", "a.b", "a b"),
          search(False, "EQUALS", "a", "")]
    v += [keyword(True, "HAS_CHILD", "a.b"), keyword(False, "NAME", "")]
    v += [collector("a.b", "NONE"), collector("/a", "ADDITION"), collector("(a)-(b)", "SUBTRACTION"),
          collector("a", "INTERSECTION"), collector("", "NONE")]
    return v


def random_text(rng, maxlen=6):
    n = rng.randint(0, maxlen)
    out = []
    for _ in range(n):
        r = rng.random()
        if r < 0.45:
            out.append(rng.choice(SPECIALS))
        elif r < 0.9:
            out.append(rng.choice(PLAIN))
        else:
            out.append(rng.choice(["ab", "\\\\", "'x'", "é", "*"]))
    return "".join(out)


def random_seg(rng):
    r = rng.random()
    if r < 0.35:
        return key(random_text(rng) or "k")
    if r < 0.45:
        return ["INDEX", {"int": str(rng.randint(-1000, 1000))}]
    if r < 0.5:
        return ["INDEX", rng.choice(SLICES)]
    if r < 0.56:
        return ["ANCHOR", random_text(rng, 4)]
    if r < 0.6:
        return rng.choice([["MATCH_ALL", None], ["TRAVERSE", None]])
    if r < 0.8:
        return search(rng.random() < 0.4, rng.choice(METHODS), rng.choice(ATTRS + [random_text(rng, 3) or "."]),
                      rng.choice(TERMS + [random_text(rng)]))
    if r < 0.9:
        return keyword(rng.random() < 0.4, rng.choice(KEYWORDS), rng.choice(PARAMS + [random_text(rng)]))
    return collector(rng.choice(EXPRS + [random_text(rng)]), rng.choice(COLLOPS))


def random_segs(rng, maxlen=8):
    n = rng.randint(1, maxlen)
    out = []
    for _ in range(n):
        s = random_seg(rng)
        # make most lists well-formed: a collector operator only after a collector
        if s[0] == "COLLECTOR" and s[1]["collector"]["op"] != "NONE" and not (out and out[-1][0] == "COLLECTOR"):
            if rng.random() < 0.9:
                s = collector(s[1]["collector"]["expr"], "NONE")
        out.append(s)
    return out


# --------------------------------------------------------------------------- implementation side

class _Timeout(Exception):
    pass


def _alarm(_s, _f):
    raise _Timeout()


def _out(f):
    from yamlpath.exceptions import YAMLPathException
    try:
        return {"ok": f()}
    except _Timeout:
        raise
    except YAMLPathException:
        return {"ypath": 1}
    except RecursionError as e:
        return {"crash": "RecursionError", "site": core.crash_site(e)}
    except Exception as e:  # noqa
        return {"crash": type(e).__name__, "site": core.crash_site(e)}


def _then(o, f):
    return _out(lambda: f(o["ok"])) if "ok" in o else o


def _guard(f, limit_s=10.0):
    old = signal.signal(signal.SIGVTALRM, _alarm)
    signal.setitimer(signal.ITIMER_VIRTUAL, limit_s)
    try:
        return f()
    except _Timeout:
        return {"timeout": 1}
    finally:
        signal.setitimer(signal.ITIMER_VIRTUAL, 0)
        signal.signal(signal.SIGVTALRM, old)


def impl_text(t):
    from yamlpath import YAMLPath
    from yamlpath.enums import PathSeparators

    def strto(sep):
        p = YAMLPath(t)
        if sep is not None:
            p.separator = sep
        return str(p)

    def go():
        r = {"esc": _out(lambda: codec.segs_to_json(list(YAMLPath(t).escaped))),
             "unesc": _out(lambda: codec.segs_to_json(list(YAMLPath(t).unescaped)))}
        s0, sd, sf = _out(lambda: strto(None)), _out(lambda: strto(PathSeparators.DOT)), _out(lambda: strto(PathSeparators.FSLASH))
        r["str"], r["sd"], r["sf"] = s0, sd, sf
        r["re"] = [_then(s, lambda x: codec.segs_to_json(list(YAMLPath(x).escaped))) for s in (s0, sd, sf)]
        r["fix"] = [_then(s, lambda x: str(YAMLPath(x))) for s in (s0, sd, sf)]

        def eq(a, b):
            if "ok" not in a:
                return a
            if "ok" not in b:
                return b
            return _out(lambda: bool(YAMLPath(a["ok"]) == YAMLPath(b["ok"])))
        r["eq"] = [eq({"ok": t}, sd), eq({"ok": t}, sf), eq(sd, sf)]
        return r
    return _guard(go)


def norm(o):
    """Outcome with error codes / crash sites removed (message texts and raise sites are not compared)."""
    if isinstance(o, dict):
        if "ok" in o:
            return {"ok": o["ok"]}
        if "ypath" in o:
            return {"ypath": 1}
        if "crash" in o:
            return {"crash": o["crash"] if isinstance(o["crash"], str) else "model-crash"}
        if "timeout" in o:
            return {"timeout": 1}
    return o


FIELDS = ["esc", "unesc", "str", "sd", "sf"]


def check_text(t, im, mo, viol, disag, stats, origin="text"):
    """Compare one text record (implementation vs model) and check the round trip on the real code."""
    case = {"kind": "text", "text": t, "origin": origin}
    if "timeout" in im:
        viol.append(("timeout", "handling %r did not finish in 10 s" % t, case))
        return
    for k in FIELDS + ["re", "fix", "eq"]:
        vals = im[k] if isinstance(im[k], list) else [im[k]]
        for o in vals:
            if "crash" in o:
                viol.append(("crash:%s@%s" % (o["crash"], o.get("site")), "%s of %r raised %s" % (k, t, o["crash"]), case))
                return
    if not parsing.in_model_text(t):
        stats["out_of_model"] += 1
        return
    def correspondence():
        for k in FIELDS:
            if norm(im[k]) != norm(mo[k]):
                disag.append(("corr:" + k, "%s of %r: implementation %s, model %s" % (k, t, json.dumps(norm(im[k])), json.dumps(norm(mo[k]))),
                              dict(case, field=k, impl=norm(im[k]), model=norm(mo[k]))))
                return
        for k in ("re", "fix", "eq"):
            for i in range(3):
                if norm(im[k][i]) != norm(mo[k][i]):
                    disag.append(("corr:%s%d" % (k, i), "%s[%d] of %r: implementation %s, model %s" % (
                        k, i, t, json.dumps(norm(im[k][i])), json.dumps(norm(mo[k][i]))),
                        dict(case, field=k, idx=i, impl=norm(im[k][i]), model=norm(mo[k][i]))))
                    return

    correspondence()
    # direct check of the property on the real code, for well-formed parsed segments
    if "ok" not in im["esc"] or not mo.get("wf") or origin not in ("written", "quoted"):
        return
    segs = im["esc"]["ok"]
    stats["roundtrip"] += 1
    if len(segs) >= 2:
        stats["nontrivial"] += 1
    names = ["as-is", "dot", "fslash"]
    infer_fslash = t.strip()[:1] == "/"
    for i, k in enumerate(("str", "sd", "sf")):
        s = im[k]
        in_dot = (i == 1) or (i == 0 and not infer_fslash)
        if "ok" not in s:
            viol.append(("str-fails:" + names[i], "str() (%s) of %r raises although it parses" % (names[i], t), dict(case, form=names[i])))
            return
        if in_dot and s["ok"][:1] == "/":
            stats["dot_excluded"] += 1
            continue  # not a dot-notation text by the notation's own definition
        if norm(im["re"][i]) != {"ok": segs}:
            viol.append(("reparse:" + names[i] + ":" + seg_kinds(segs),
                         "str() (%s) of %r is %r which re-parses to %s, not to the path's segments %s" % (
                             names[i], t, s["ok"], json.dumps(norm(im["re"][i])), json.dumps(segs)),
                         dict(case, form=names[i], rendered=s["ok"])))
            return
        if norm(im["fix"][i]) != {"ok": s["ok"]}:
            viol.append(("fixed-point:" + names[i] + ":" + seg_kinds(segs),
                         "str() (%s) of %r is %r, whose own str() is %s" % (names[i], t, s["ok"], json.dumps(norm(im["fix"][i]))),
                         dict(case, form=names[i], rendered=s["ok"])))
            return
    dot_ok = "ok" in im["sd"] and im["sd"]["ok"][:1] != "/"
    for i, nm in enumerate(("text==dot", "text==fslash", "dot==fslash")):
        if i != 1 and not dot_ok:
            continue
        if norm(im["eq"][i]) != {"ok": True}:
            viol.append(("eq:" + nm + ":" + seg_kinds(segs), "%s is %s for %r although the segments are the same" % (
                nm, json.dumps(norm(im["eq"][i])), t), dict(case, pair=nm)))
            return


def seg_kinds(segs):
    ks = []
    for s in segs:
        k = s[0]
        if k == "SEARCH" and isinstance(s[1], dict) and "search" in s[1]:
            k = "SEARCH/" + s[1]["search"]["m"]
        if k not in ks:
            ks.append(k)
    return "+".join(sorted(ks))


def new_stats():
    return {"n": 0, "out_of_model": 0, "roundtrip": 0, "nontrivial": 0, "dot_excluded": 0, "wf_lists": 0,
            "nonwf_lists": 0, "appendpop": 0, "eqpairs": 0, "respelled": 0, "respelled_judged": 0}


def text_chunk(texts, origin="text"):
    drv = core.Driver()
    model = drv.ask([{"op": "C08.text", "t": t} for t in texts])
    stats = new_stats()
    viol, disag, samples = [], [], []
    for t, mo in zip(texts, model):
        im = impl_text(t)
        stats["n"] += 1
        check_text(t, im, mo, viol, disag, stats, origin)
        if len(samples) < 1 and "ok" in im.get("esc", {}) and len(im["esc"]["ok"]) >= 2:
            samples.append({"text": t, "impl_str": im["str"], "model_str": mo["str"], "segments": im["esc"]["ok"]})
    return stats, viol[:40], disag[:40], samples


QCHARS = ['a', '.', '/', '^', '$', '%', ' ', ')', '1', '-']


def quoted_texts(rng, n_random):
    """Keys written with demarcation instead of escapes: 'k' / "k" joined by the separator."""
    pool = list(QCHARS) + [a + b for a in QCHARS for b in QCHARS]
    lists = [[k] for k in pool] + [[a, b] for a in QCHARS + ['a.b', 'a/b', ' '] for b in QCHARS + ['a.b', 'a/b']]
    for _ in range(n_random):
        lists.append(["".join(rng.choice(QCHARS) for _ in range(rng.randint(1, 5))) for _ in range(rng.randint(1, 5))])
    out = []
    for keys in lists:
        for form in ("dot", "fslash"):
            parts = []
            for k in keys:
                q = '"' if "'" in k else "'"
                if q in k:
                    parts = None
                    break
                parts.append(q + k + q)
            if parts is None:
                continue
            sep = "." if form == "dot" else "/"
            out.append((keys, form, ("/" if form == "fslash" else "") + sep.join(parts)))
    return out


def quoted_chunk(cases):
    stats = new_stats()
    viol, follow = [], []
    for keys, form, text in cases:
        stats["n"] += 1
        im = impl_parse_esc(text)
        want = [["KEY", k] for k in keys]
        case = {"kind": "quoted", "keys": keys, "form": form, "text": text}
        if norm(im) != {"ok": want}:
            viol.append(("parse-demarcated:" + form, "keys %s written with demarcation as %r parse to %s" % (json.dumps(keys), text, json.dumps(norm(im))), case))
        else:
            follow.append(text)
    st2, v2, d2, sm = text_chunk(follow, origin="quoted")
    for k in ("out_of_model", "roundtrip", "dot_excluded", "nontrivial"):
        stats[k] += st2[k]
    return stats, (viol + v2)[:40], d2, sm


# --------------------------------------------------------------------------- search terms written with demarcation

QTERM_CHARS = ['a', '1', ' ', '.', '/', '-', '_', ':', ',']


def quoted_search_cases(rng, n_random):
    """SEARCH segments whose TERM is written between quotation marks (the documented demarcation) instead of with
    escapes: every operator x inverted x quote kind x notation, terms = the empty term, every one- and two-character
    text over QTERM_CHARS (blank, separators, punctuation the quotes protect), some longer ones; alone, after and
    before an ordinary key.  Returns (expected segments, form, text)."""
    from yamlpath.enums import PathSearchMethods
    terms = [""] + QTERM_CHARS + [a + b for a in QTERM_CHARS for b in QTERM_CHARS] + ["a b c", " a ", "x.y/z", "   ", "a/b.c d"]
    for _ in range(n_random):
        terms.append("".join(rng.choice(QTERM_CHARS) for _ in range(rng.randint(3, 8))))
    attrs = [".", "a", "k1", "a_b"]
    out = []
    i = 0
    for m in METHODS:
        if m == "REGEX":
            continue    # a regular expression is demarcated by its own delimiter (written by the Lean writer)
        op = str(PathSearchMethods[m])
        for inv in (False, True):
            for term in terms:
                for q in ("'", '"'):
                    for form in ("dot", "fslash"):
                        i += 1
                        attr = attrs[i % len(attrs)]
                        seg_t = "[%s%s%s%s%s%s]" % (attr, "!" if inv else "", op, q, term, q)
                        before = [[], ["k"], []][i % 3]
                        after = [[], [], ["z"]][(i // 3) % 3]
                        segs = [key(k) for k in before] + [search(inv, m, attr, term)] + [key(k) for k in after]
                        sep = "." if form == "dot" else "/"
                        text = ("/" if form == "fslash" else "") + "".join(before) + seg_t + "".join(sep + k for k in after)
                        out.append((segs, form, text))
    return out


def qsearch_chunk(cases):
    from yamlpath import YAMLPath
    drv = core.Driver()
    model = drv.ask([{"op": "C08.segs", "segs": segs} for segs, _, _ in cases])
    stats = new_stats()
    viol, follow = [], []
    for (segs, form, text), mo in zip(cases, model):
        stats["n"] += 1
        if not mo["wf"]:
            stats["nonwf_lists"] += 1
            continue
        case = {"kind": "qsearch", "segs": segs, "form": form, "text": text}
        im = impl_parse_esc(text)
        if norm(im) != {"ok": segs}:
            viol.append(("parse-demarcated-term:%s:%s" % (form, seg_kinds(segs)),
                         "segments %s with the search term written between quotation marks, %r, parse to %s" % (
                             json.dumps(segs), text, json.dumps(norm(im))), case))
            continue
        # the same segments written with escapes (Lean writer) compare equal
        bad = False
        for bform, bare in (("dot", mo["wd"]), ("fslash", mo["wf_"])):
            if bform == "dot" and not mo["dotx"]:
                continue
            stats["eqpairs"] += 1
            e1 = _guard(lambda: _out(lambda: bool(YAMLPath(text) == YAMLPath(bare))))
            e2 = _guard(lambda: _out(lambda: bool(YAMLPath(bare) != text)))
            if norm(e1) != {"ok": True} or norm(e2) != {"ok": False}:
                viol.append(("eq:demarcated-term-vs-%s:%s" % (bform, seg_kinds(segs)),
                             "YAMLPath(%r) == YAMLPath(%r) is %s (!= is %s) although both spell %s" % (
                                 text, bare, json.dumps(norm(e1)), json.dumps(norm(e2)), json.dumps(segs)), dict(case, other=bare)))
                bad = True
                break
        if not bad:
            follow.append(text)
    st2, v2, d2, sm = text_chunk(follow, origin="quoted")
    for k in ("out_of_model", "roundtrip", "dot_excluded", "nontrivial"):
        stats[k] += st2[k]
    return stats, (viol + v2)[:40], d2, sm


# --------------------------------------------------------------------------- sequences on one path object

SEQ_STEPS = ["esc", "unesc", "str", "len", "dot", "fslash", "dot", "fslash", "append", "pop", "str"]


def seq_chunk(cases):
    """cases: (segs, other segs, appended segment, form, steps).  One YAMLPath object is taken through `steps`
    (reading its caches, switching its separator to obtain the canonical string in either notation); after every
    step the clauses are judged on THAT object against the written list (the oracle; fresh objects only):
    its canonical string re-parses to the list; it compares equal to its own text, to its canonical string and to a
    fresh parse of either (both operand orders, != the opposite) and unequal to a different list; a copy
    YAMLPath(p) has the list's segments; p + segment has the list's segments followed by the segment, and pop() on
    that restores the list."""
    from yamlpath import YAMLPath
    from yamlpath.enums import PathSeparators
    drv = core.Driver()
    flat = []
    for segs, other, seg, form, steps in cases:
        flat += [segs, other, [seg], segs + [seg]]
    model = drv.ask([{"op": "C08.segs", "segs": x} for x in flat])
    stats = new_stats()
    viol = []
    for i, (segs, other, seg, form, steps) in enumerate(cases):
        mb, mo_, ms, mall = model[4 * i: 4 * i + 4]
        if not (mb["wf"] and mo_["wf"] and ms["wf"] and mall["wf"] and mb["dotx"] and mo_["dotx"] and ms["dotx"] and mall["dotx"]):
            stats["nonwf_lists"] += 1
            continue
        if not segs:
            continue
        t = mb["wd"] if form == "dot" else mb["wf_"]
        t_other = mo_["wf_"]
        st = None
        if "ok" in ms["rd"] and "ok" in ms["rf"] and ms["rd"]["ok"] == ms["rf"]["ok"][1:]:
            st = ms["rd"]["ok"]     # a segment text that reads the same in both notations
            if seg[0] == "ANCHOR" and segs[-1][0] == "COLLECTOR" and seg[1][:1] in ("+", "-", "&"):
                st = None
        stats["n"] += 1
        case = {"kind": "seq", "segs": segs, "other": other, "seg": seg, "form": form, "steps": steps, "text": t}
        kinds = seg_kinds(segs)

        def judge(p, done):
            """None or (signature, what)."""
            where = "after %s on YAMLPath(%r)" % (" -> ".join(done) or "construction", t)
            canon = _out(lambda: str(p))
            if "ok" not in canon:
                return ("seq:str-fails:" + kinds, "str() raises %s %s" % (json.dumps(norm(canon)), where))
            c = canon["ok"]
            if p.separator is PathSeparators.DOT and c[:1] == "/":
                return None      # not a dot-notation text by the notation's own definition
            re_ = _out(lambda: codec.segs_to_json(list(YAMLPath(c).escaped)))
            if norm(re_) != {"ok": segs}:
                return ("seq:reparse:" + kinds, "str() is %r %s; it re-parses to %s, not %s" % (c, where, json.dumps(norm(re_)), json.dumps(segs)))
            for nm, f, want in (("p==YAMLPath(str(p))", lambda: p == YAMLPath(c), True), ("YAMLPath(str(p))==p", lambda: YAMLPath(c) == p, True),
                                ("p==text", lambda: p == t, True), ("p==str(p)", lambda: p == c, True),
                                ("YAMLPath(text)==p", lambda: YAMLPath(t) == p, True),
                                ("p!=YAMLPath(str(p))", lambda: p != YAMLPath(c), False),
                                ("p==other", lambda: p == YAMLPath(t_other), segs == other),
                                ("p!=other", lambda: p != t_other, segs != other)):
                r = _out(lambda: bool(f()))
                if norm(r) != {"ok": want}:
                    return ("seq:eq:%s:%s" % (nm, kinds), "%s is %s (expected %s) %s; str(p) = %r, segments %s%s" % (
                        nm, json.dumps(norm(r)), want, where, c, json.dumps(segs), (", other = %r" % t_other) if "other" in nm else ""))
            r = _out(lambda: codec.segs_to_json(list(YAMLPath(p).escaped)))
            if norm(r) != {"ok": segs}:
                return ("seq:copy:" + kinds, "the copy YAMLPath(p) has segments %s, not %s, %s" % (json.dumps(norm(r)), json.dumps(segs), where))
            if st is not None:
                def addpop():
                    q = p + st
                    a = codec.segs_to_json(list(q.escaped))
                    popped = codec.seg_to_json(q.pop())
                    return {"app": a, "text": q.original, "after": codec.segs_to_json(list(q.escaped))}
                r = _out(addpop)
                if "ok" not in r or r["ok"]["app"] != segs + [seg]:
                    return ("seq:add:" + seg_kinds([seg]), "p + %r gives %s, not the segments %s followed by %s, %s" % (
                        st, json.dumps(norm(r)), json.dumps(segs), json.dumps(seg), where))
                if r["ok"]["after"] != segs:
                    return ("seq:add-pop:" + seg_kinds([seg]), "(p + %r).pop() leaves %s, not %s, %s" % (st, json.dumps(r["ok"]["after"]), json.dumps(segs), where))
            return None

        def judge_grown(p, done, want):
            """after append()/pop() on the object itself: escaped segments, canonical string and copy follow the object"""
            where = "after %s on YAMLPath(%r)" % (" -> ".join(done), t)
            e = _out(lambda: codec.segs_to_json(list(p.escaped)))
            if norm(e) != {"ok": want}:
                return ("seq:inplace:escaped:" + seg_kinds([seg]), "escaped is %s, not %s, %s" % (json.dumps(norm(e)), json.dumps(want), where))
            canon = _out(lambda: str(p))
            if "ok" not in canon:
                return ("seq:inplace:str-fails:" + seg_kinds([seg]), "str() raises %s %s" % (json.dumps(norm(canon)), where))
            c = canon["ok"]
            if not (p.separator is PathSeparators.DOT and c[:1] == "/"):
                re_ = _out(lambda: codec.segs_to_json(list(YAMLPath(c).escaped)))
                if norm(re_) != {"ok": want}:
                    return ("seq:inplace:str-stale:" + seg_kinds([seg]), "str() is %r %s; it re-parses to %s, not to the path's segments %s" % (
                        c, where, json.dumps(norm(re_)), json.dumps(want)))
                r = _out(lambda: bool(p == YAMLPath(c)))
                if norm(r) != {"ok": True}:
                    return ("seq:inplace:eq:" + seg_kinds([seg]), "p == YAMLPath(str(p)) is %s %s" % (json.dumps(norm(r)), where))
            r = _out(lambda: codec.segs_to_json(list(YAMLPath(p).escaped)))
            if norm(r) != {"ok": want}:
                return ("seq:inplace:copy:" + seg_kinds([seg]), "the copy YAMLPath(p) has segments %s, not %s, %s" % (json.dumps(norm(r)), json.dumps(want), where))
            u = _out(lambda: len(list(p.unescaped)))
            if norm(u) != {"ok": len(want)}:
                return ("seq:inplace:unescaped:" + seg_kinds([seg]), "unescaped holds %s segments, not %d, %s" % (json.dumps(norm(u)), len(want), where))
            return None

        def go():
            p = YAMLPath(t)
            done = []
            bad = judge(p, done)
            if bad:
                return bad
            switched = esc_cached = grown = False
            for step in steps:
                if step in ("esc", "len") and switched and not esc_cached:
                    # pinned behaviour, not judged here (see notes/C08.md): the first read of .escaped AFTER a separator
                    # switch parses the original text under the new separator
                    continue
                esc_cached = esc_cached or step in ("esc", "len")
                switched = switched or step in ("dot", "fslash")
                if step in ("append", "pop"):
                    # in-place lengthening / shortening of the SAME object whose caches the earlier steps filled
                    if switched or st is None or (step == "pop" and not grown) or (step == "append" and grown):
                        continue
                    if step == "append":
                        p.append(st); grown = True
                    else:
                        p.pop(); grown = False
                    done.append(step + ("(%r)" % st if step == "append" else "()"))
                    bad = judge_grown(p, done, segs + [seg] if grown else segs)
                    if bad:
                        return bad
                    continue
                if grown:
                    if step in ("dot", "fslash"):
                        continue
                    {"esc": lambda: p.escaped, "unesc": lambda: p.unescaped, "str": lambda: str(p), "len": lambda: len(p)}[step]()
                    done.append(step)
                    bad = judge_grown(p, done, segs + [seg])
                    if bad:
                        return bad
                    continue
                if step == "esc":
                    p.escaped
                elif step == "unesc":
                    p.unescaped
                elif step == "str":
                    str(p)
                elif step == "len":
                    len(p)
                elif step == "dot":
                    p.separator = PathSeparators.DOT
                else:
                    p.separator = PathSeparators.FSLASH
                done.append({"dot": "separator=DOT", "fslash": "separator=FSLASH"}.get(step, step))
                bad = judge(p, done)
                if bad:
                    return bad
            return None
        res = _guard(lambda: _out(go), 20.0)
        stats["appendpop"] += 1
        if "timeout" in res:
            viol.append(("timeout", "sequence on %r did not finish" % t, case))
        elif "crash" in res:
            viol.append(("crash:%s@%s" % (res["crash"], res.get("site")), "sequence %s on YAMLPath(%r) raised %s" % (steps, t, res["crash"]), case))
        elif "ypath" in res:
            viol.append(("seq:ypath:" + kinds, "sequence %s on YAMLPath(%r) raised a YAML Path error although the text parses" % (steps, t), case))
        elif res["ok"]:
            viol.append((res["ok"][0], res["ok"][1], case))
    return stats, viol[:40], [], []


def impl_parse_esc(t):
    from yamlpath import YAMLPath
    return _guard(lambda: _out(lambda: codec.segs_to_json(list(YAMLPath(t).escaped))))


def segs_chunk(lists, full=True):
    """lists of segments: write (Lean), parse (real), compare; then the text pipeline on the written forms."""
    drv = core.Driver()
    model = drv.ask([{"op": "C08.segs", "segs": s} for s in lists])
    stats = new_stats()
    viol, disag, samples = [], [], []
    follow = []
    for segs, mo in zip(lists, model):
        stats["n"] += 1
        ascii_ok = parsing.in_model_text(json.dumps(segs, ensure_ascii=False))
        for form, wkey, pkey in (("dot", "wd", "pd"), ("fslash", "wf_", "pf")):
            text = mo[wkey]
            if form == "dot" and not mo["dotx"]:
                stats["dot_excluded"] += 1
                continue
            case = {"kind": "segs", "segs": segs, "form": form, "text": text}
            im = impl_parse_esc(text)
            if "timeout" in im:
                viol.append(("timeout", "parsing %r did not finish" % text, case))
                continue
            if "crash" in im:
                viol.append(("crash:%s@%s" % (im["crash"], im.get("site")), "parsing %r raised %s" % (text, im["crash"]), case))
                continue
            if not ascii_ok:
                stats["out_of_model"] += 1
            elif norm(im) != norm(mo[pkey]):
                disag.append(("corr:parse-written", "segments of written text %r: implementation %s, model %s" % (
                    text, json.dumps(norm(im)), json.dumps(norm(mo[pkey]))), dict(case, impl=norm(im), model=norm(mo[pkey]))))
            if mo["wf"]:
                if norm(im) != {"ok": segs}:
                    viol.append(("parse-write:" + form + ":" + seg_kinds(segs),
                                 "segments %s written in %s notation as %r parse to %s" % (json.dumps(segs), form, text, json.dumps(norm(im))),
                                 case))
                    continue
                if ascii_ok and norm(mo[pkey]) != {"ok": segs}:
                    disag.append(("model:parse-write", "the model's parse of %r is %s, not the written list (theorem parse_write)" % (
                        text, json.dumps(norm(mo[pkey]))), case))
                    continue
                if full:
                    follow.append(text)
        if mo["wf"]:
            stats["wf_lists"] += 1
            if len(segs) >= 2:
                stats["nontrivial"] += 1
            if len(samples) < 1 and len(segs) >= 2:
                samples.append({"segments": segs, "written_dot": mo["wd"], "written_fslash": mo["wf_"], "model_parse": mo["pf"]})
        else:
            stats["nonwf_lists"] += 1
    if follow:
        st2, v2, d2, _ = text_chunk(follow, origin="written")
        for k in ("out_of_model", "roundtrip", "dot_excluded"):
            stats[k] += st2[k]
        viol += v2
        disag += d2
    return stats, viol[:40], disag[:40], samples


def eq_chunk(pairs):
    """pairs of (segs1, segs2): == of the written forms is True iff the lists are equal."""
    from yamlpath import YAMLPath
    drv = core.Driver()
    flat = []
    for a, b in pairs:
        flat += [a, b]
    model = drv.ask([{"op": "C08.segs", "segs": s} for s in flat])
    stats = new_stats()
    viol, disag = [], []
    reqs, meta = [], []
    for i, (a, b) in enumerate(pairs):
        ma, mb = model[2 * i], model[2 * i + 1]
        if not (ma["wf"] and mb["wf"]):
            continue
        for fa, ta in (("dot", ma["wd"]), ("fslash", ma["wf_"])):
            for fb, tb in (("dot", mb["wd"]), ("fslash", mb["wf_"])):
                if (fa == "dot" and not ma["dotx"]) or (fb == "dot" and not mb["dotx"]):
                    continue
                reqs.append({"op": "C08.eq", "a": ta, "b": tb})
                meta.append((a, b, fa, fb, ta, tb))
    ans = drv.ask(reqs)
    for (a, b, fa, fb, ta, tb), mo in zip(meta, ans):
        stats["n"] += 1
        stats["eqpairs"] += 1
        im = _guard(lambda: _out(lambda: bool(YAMLPath(ta) == YAMLPath(tb))))
        im2 = _guard(lambda: _out(lambda: bool(YAMLPath(ta) != tb)))
        case = {"kind": "eq", "a": ta, "b": tb, "segs_a": a, "segs_b": b}
        want = (a == b)
        if norm(im) != {"ok": want} or norm(im2) != {"ok": not want}:
            viol.append(("eq:%s-vs-%s:%s" % (fa, fb, seg_kinds(a)), "YAMLPath(%r) == YAMLPath(%r) is %s (and != is %s); the segment lists are %s" % (
                ta, tb, json.dumps(norm(im)), json.dumps(norm(im2)), "equal" if want else "different"), case))
        elif parsing.in_model_text(ta + tb) and norm(mo) != norm(im):
            disag.append(("corr:eq", "== of %r and %r: implementation %s, model %s" % (ta, tb, json.dumps(norm(im)), json.dumps(norm(mo))), case))
    return stats, viol[:40], disag[:40], []


def impl_appendpop(t, seg, via_add):
    from yamlpath import YAMLPath

    def go():
        r = {}
        try:
            p = YAMLPath(t)
            p = (p + seg) if via_add else p.append(seg)
            r["app"] = p.original
        except Exception as e:  # noqa
            return {"crash": type(e).__name__, "site": core.crash_site(e)}
        r["app_esc"] = _out(lambda: codec.segs_to_json(list(p.escaped)))

        def pop():
            s = p.pop()
            return {"seg": codec.seg_to_json(s), "after": p.original,
                    "after_esc": _out(lambda: codec.segs_to_json(list(p.escaped)))}
        r["pop"] = _out(pop)
        return r
    return _guard(go)


def respellings(seg, st):
    """Other spellings of one segment's canonical text `st` (the caller checks that a spelling parses to the segment)."""
    out = []
    kind = seg[0]
    if st.startswith("[") and st.endswith("]") and len(st) > 2:
        out.append("[ " + st[1:-1] + " ]")
        for op in ("!=", "=~", "<=", ">=", "=", "<", ">", "^", "$", "%", ":"):
            i = st.find(op, 1)
            if i > 0:
                out.append(st[:i] + " " + op + " " + st[i + len(op):])
                break
    if kind == "ANCHOR" and st.startswith("&"):
        out.append("[" + st + "]")
    if kind == "KEY":
        raw = re.sub(r"\\(.)", r"\1", st)
        for q in ("'", '"'):
            if q not in raw and "\\" not in raw and raw:
                out.append(q + raw + q)
    if kind == "COLLECTOR" and "(" in st:
        i = st.index("(")
        if st.endswith(")"):
            out.append(st[:i + 1] + " " + st[i + 1:-1] + " )")
    return out[:3]


def appendpop_chunk(cases):
    """cases: (base segs, appended segment, form, via_add)."""
    drv = core.Driver()
    flat = []
    for base, seg, form, via_add in cases:
        flat += [base, [seg], base + [seg]]
    model = drv.ask([{"op": "C08.segs", "segs": s} for s in flat])
    stats = new_stats()
    viol, disag = [], []
    reqs, meta = [], []
    for i, (base, seg, form, via_add) in enumerate(cases):
        mb, ms, mall = model[3 * i], model[3 * i + 1], model[3 * i + 2]
        if not (mb["wf"] and ms["wf"] and mall["wf"]):
            continue
        if form == "dot" and not (mb["dotx"] and ms["dotx"] and mall["dotx"] and base):
            continue
        if seg[0] == "ANCHOR" and base and base[-1][0] == "COLLECTOR" and seg[1][:1] in ("+", "-", "&"):
            continue  # "&name" right after a collector: a name starting with an operator character is outside the notation
        t = mb["wd"] if form == "dot" else mb["wf_"]
        # the appended text: the library's own rendering of the segment on its own in the base's notation
        # (what pop() looks for), without the leading separator of forward-slash notation
        r = ms["rd"] if form == "dot" else ms["rf"]
        if "ok" not in r:
            continue
        st = r["ok"] if form == "dot" else r["ok"][1:]
        reqs.append({"op": "C08.appendpop", "t": t, "seg": st, "add": via_add})
        meta.append((base, seg, form, via_add, t, st, False))
        # the same segment spelled another way the notation allows (demarcated key, bracketed anchor, padding inside
        # brackets and parentheses): append() takes any segment text, pop() has to take the segment off again
        for alt in respellings(seg, st):
            reqs.append({"op": "C08.appendpop", "t": t, "seg": alt, "add": via_add})
            meta.append((base, seg, form, via_add, t, alt, True))
    ans = drv.ask(reqs)
    for (base, seg, form, via_add, t, st, respelled), mo in zip(meta, ans):
        stats["n"] += 1
        stats["appendpop"] += 1
        im = impl_appendpop(t, st, via_add)
        case = {"kind": "appendpop", "text": t, "seg_text": st, "add": via_add, "base": base, "seg": seg}
        if respelled:
            stats["respelled"] = stats.get("respelled", 0) + 1
            if "crash" in im or "timeout" in im or norm(im.get("app_esc")) != {"ok": base + [seg]}:
                continue    # this respelling does not denote the segment here (not append's fault): nothing to judge
            stats["respelled_judged"] = stats.get("respelled_judged", 0) + 1
            p = im["pop"]
            if "crash" in p:
                viol.append(("crash:%s@%s" % (p["crash"], p.get("site")), "pop() after append(%r) to %r raised %s" % (st, t, p["crash"]), case))
            elif "ok" not in p or norm(p["ok"]["after_esc"]) != {"ok": base} or p["ok"]["seg"][0] != seg[0]:
                viol.append(("append-pop:respelled:" + form + ":" + seg_kinds([seg]),
                             "append(%r) then pop() on %r leaves %s: the path is not restored (segments %s expected)" % (st, t, json.dumps(p), json.dumps(base)), case))
            elif parsing.in_model_text(t + st) and "ok" in mo.get("pop", {}):
                mm = {"after": mo["pop"]["ok"]["after"], "after_esc": norm(mo["pop"]["ok"]["after_esc"])}
                ii = {"after": p["ok"]["after"], "after_esc": norm(p["ok"]["after_esc"])}
                if mm != ii:
                    disag.append(("corr:appendpop-respelled", "append/pop of %r on %r: implementation %s, model %s" % (st, t, json.dumps(ii), json.dumps(mm)), case))
            continue
        if "crash" in im or "timeout" in im:
            viol.append(("crash:append", "append(%r) to %r raised %s" % (st, t, im), case))
            continue
        if "crash" in im["pop"]:
            viol.append(("crash:%s@%s" % (im["pop"]["crash"], im["pop"].get("site")), "pop() after append(%r) to %r raised %s" % (st, t, im["pop"]["crash"]), case))
            continue
        if norm(im["app_esc"]) != {"ok": base + [seg]}:
            viol.append(("append:" + form + ":" + seg_kinds([seg]), "%r with %r appended is %r, which parses to %s, not to the path's segments followed by %s" % (
                t, st, im["app"], json.dumps(norm(im["app_esc"])), json.dumps(seg)), case))
            continue
        p = im["pop"]
        if "ok" not in p or norm(p["ok"]["after_esc"]) != {"ok": base} or (base and p["ok"]["after"] != t):
            sig = "append-pop:" + form + ":" + seg_kinds([seg])
            if form == "fslash" and t.endswith("\\/"):
                sig = "append-pop:fslash:base-ends-with-escaped-slash"
            viol.append((sig, "append(%r) then pop() on %r leaves %s" % (st, t, json.dumps(p)), case))
            continue
        if parsing.in_model_text(t + st):
            mm = {"app": mo["app"], "app_esc": norm(mo["app_esc"]),
                  "pop": ({"ok": {"seg": mo["pop"]["ok"]["seg"], "after": mo["pop"]["ok"]["after"],
                                  "after_esc": norm(mo["pop"]["ok"]["after_esc"])}} if "ok" in mo["pop"] else norm(mo["pop"]))}
            ii = {"app": im["app"], "app_esc": norm(im["app_esc"]),
                  "pop": ({"ok": {"seg": p["ok"]["seg"], "after": p["ok"]["after"], "after_esc": norm(p["ok"]["after_esc"])}})}
            if mm != ii:
                disag.append(("corr:appendpop", "append/pop of %r on %r: implementation %s, model %s" % (st, t, json.dumps(ii), json.dumps(mm)), case))
    return stats, viol[:40], disag[:40], []


def misc_chunk(cases):
    """cases: ("escape", value) | ("strip", text, prefix) | ("pop", text, to)."""
    from yamlpath import YAMLPath
    from yamlpath.enums import PathSeparators
    drv = core.Driver()
    reqs = []
    for c in cases:
        if c[0] == "escape":
            reqs += [{"op": "C08.escape", "v": c[1], "sep": "dot"}, {"op": "C08.escape", "v": c[1], "sep": "fslash"}]
        elif c[0] == "strip":
            reqs.append({"op": "C08.strip", "t": c[1], "pre": c[2]})
        else:
            reqs.append({"op": "C08.pop", "t": c[1], "to": c[2]})
    ans = iter(drv.ask(reqs))
    stats = new_stats()
    viol, disag = [], []
    keysyms = ['(', ')', '[', ']', '^', '$', '%', ' ', "'", '"']
    for c in cases:
        stats["n"] += 1
        if not parsing.in_model_text("".join(c[1:])):
            for _ in range(2 if c[0] == "escape" else 1):
                next(ans)
            stats["out_of_model"] += 1
            continue
        if c[0] == "escape":
            for sepname, sep in (("dot", PathSeparators.DOT), ("fslash", PathSeparators.FSLASH)):
                mo = next(ans)
                im = _guard(lambda: _out(lambda: {"section": YAMLPath.escape_path_section(c[1], sep),
                                                  "key": YAMLPath.ensure_escaped(c[1], str(sep), *keysyms)}))
                case = {"kind": "escape", "v": c[1], "sep": sepname}
                if "ok" not in im or im["ok"]["section"] != mo["section"] or im["ok"]["key"] != mo["key"]:
                    disag.append(("corr:escape", "escaping %r (%s): implementation %s, model %s" % (c[1], sepname, json.dumps(im), json.dumps(mo)), case))
                    continue
                # direct: an escaped section is one KEY segment with that text (when it is a well-formed key)
                v = c[1]
                if v and "*" not in v and "\\" not in v and v[0] != "&" and v.strip() and not (sepname == "dot" and im["ok"]["section"][:1] == "/"):
                    got = impl_parse_esc(("/" if sepname == "fslash" else "") + im["ok"]["section"])
                    if norm(got) != {"ok": [["KEY", v]]}:
                        viol.append(("escape-section:" + sepname, "escape_path_section(%r, %s) is %r which parses to %s" % (
                            v, sepname, im["ok"]["section"], json.dumps(norm(got))), case))
        elif c[0] == "strip":
            mo = next(ans)

            def go():
                r = YAMLPath.strip_path_prefix(YAMLPath(c[1]), YAMLPath(c[2]))
                return {"original": r.original, "str": _out(lambda: str(r))}
            im = _guard(lambda: _out(go))
            mm = norm(mo)
            if "ok" in mm:
                mm = {"ok": {"original": mm["ok"]["original"], "str": norm(mm["ok"]["str"])}}
            if norm(im) != mm:
                disag.append(("corr:strip", "strip_path_prefix(%r, %r): implementation %s, model %s" % (c[1], c[2], json.dumps(norm(im)), json.dumps(mm)),
                              {"kind": "strip", "text": c[1], "prefix": c[2]}))
        else:
            mo = next(ans)

            def go():
                p = YAMLPath(c[1])
                if c[2] != "auto":
                    p.separator = PathSeparators.DOT if c[2] == "dot" else PathSeparators.FSLASH
                s = p.pop()
                return {"seg": codec.seg_to_json(s), "after": p.original}
            im = _guard(lambda: _out(go))
            if norm(im) != norm(mo):
                disag.append(("corr:pop", "pop() of %r (separator %s): implementation %s, model %s" % (c[1], c[2], json.dumps(norm(im)), json.dumps(norm(mo))),
                              {"kind": "pop", "text": c[1], "to": c[2]}))
    return stats, viol[:40], disag[:40], []


def check_tables(chk):
    """Finite tables of the model against the live objects: complete comparison."""
    from yamlpath.enums import PathSearchMethods, PathSearchKeywords, CollectorOperators, PathSeparators
    from yamlpath import YAMLPath
    mo = core.Driver().ask([{"op": "C08.tables"}])[0]
    live = {
        "methods": {m.name: str(m) for m in PathSearchMethods},
        "collops": {m.name: str(m) for m in CollectorOperators},
        "keywords": {m.name: str(m) for m in PathSearchKeywords},
    }
    for k, v in live.items():
        chk.evaluations += 1
        if mo[k] != v:
            chk.disagreement("table:" + k, "table %s: live %s, model %s" % (k, v, mo[k]), {"kind": "table", "table": k})
    probe = "".join(chr(c) for c in range(32, 127))
    esc = YAMLPath.escape_path_section(probe, PathSeparators.DOT)
    live_special = "".join(ch for i, ch in enumerate(probe) if ("\\" + ch) in esc and (ch != "\\" or "\\\\" in esc))
    if sorted(live_special) != sorted(mo["special"]):
        chk.disagreement("table:special", "characters escaped by escape_path_section: live %r, model %r" % (live_special, mo["special"]),
                         {"kind": "table", "table": "special"})
    chk.evaluations += 1


# --------------------------------------------------------------------------- jobs

def _job(job):
    kind = job[0]
    if kind == "EXH":
        _, pre, L = job
        texts = [pre + "".join(t) for n in range(0, L - 1) for t in itertools.product(parsing.ALPHABET, repeat=n)]
        return text_chunk(texts)
    if kind == "TEXTS":
        return text_chunk(job[1])
    if kind == "SEGS":
        return segs_chunk(job[1], full=job[2])
    if kind == "PAIRS":
        _, firsts, vocab, full = job
        return segs_chunk([[a, b] for a in firsts for b in vocab], full=full)
    if kind == "TRIPLES":
        _, firsts, vocab = job
        return segs_chunk([[a, b, c] for a in firsts for b in vocab for c in vocab], full=False)
    if kind == "QUOTED":
        return quoted_chunk(job[1])
    if kind == "EQ":
        return eq_chunk(job[1])
    if kind == "APPENDPOP":
        return appendpop_chunk(job[1])
    if kind == "MISC":
        return misc_chunk(job[1])
    if kind == "QSEARCH":
        return qsearch_chunk(job[1])
    if kind == "SEQ":
        return seq_chunk(job[1])
    raise ValueError(kind)


CORPUS_TEXTS = ["a\\.b", "/a.b", "a[.=~_x/y_]", "a[.=~/x\\/y/]", "'a\\\\.b'", "\\\\/", "/a\\\\/b", "(a)+(b)-(c)", "/(a)/b", "a[b=\\'c\\']",
                "a.'-x'", "(a).'-x'", "&a.b", "/&a/b", "a[&b].c", "a['b.c']", "a.*", "a.**.b", "a*b*c", "[.!=x]", "[a >= 1]",
                "a[has_child(b)]", "a[!name()]", "a[1:2]", "a[-1]", "/", ".", "", " ", "a.", "/a/", "a b.c", "a\\ b.c", "//a", "a..b",
                # collectors directly behind a separator / behind empty collectors (finding C08-6)
                "/()&(b)", "()&(b)", "/()()&(b)", "/(&a)", "x.(&a)", "x/(&a)", "(a).&(b)", "/(a)/&(b)", "a.(b)", "/()", "()"]


def run(chk: core.Check):
    core.use_repo()
    tier = chk.tier
    rng = random.Random(chk.seed)
    jobs = []
    if chk.replay_in:
        rp = json.load(open(chk.replay_in))
        c = rp.get("case", rp)
        kind = c.get("kind", "text")
        if kind == "segs":
            jobs = [("SEGS", [c["segs"]], True)]
        elif kind == "quoted":
            jobs = [("QUOTED", [(c["keys"], c["form"], c["text"])])]
        elif kind == "eq":
            jobs = [("EQ", [(c["segs_a"], c["segs_b"])])]
        elif kind == "appendpop":
            jobs = [("APPENDPOP", [(c["base"], c["seg"], "fslash" if c["text"][:1] == "/" else "dot", c.get("add", False))])]
        elif kind == "escape":
            jobs = [("MISC", [("escape", c["v"])])]
        elif kind == "strip":
            jobs = [("MISC", [("strip", c["text"], c["prefix"])])]
        elif kind == "pop":
            jobs = [("MISC", [("pop", c["text"], c["to"])])]
        elif kind == "qsearch":
            jobs = [("QSEARCH", [(c["segs"], c["form"], c["text"])])]
        elif kind == "seq":
            jobs = [("SEQ", [(c["segs"], c["other"], c["seg"], c["form"], c["steps"])])]
        else:
            jobs = [("TEXTS", [c["text"]])]
            print("replay:", json.dumps({"text": c["text"], "impl": impl_text(c["text"]),
                                         "model": core.Driver().ask([{"op": "C08.text", "t": c["text"]}])[0]}))
    else:
        check_tables(chk)
        L = 4 if tier == "quick" else 5
        # (i) texts
        jobs.append(("TEXTS", CORPUS_TEXTS + ["", "/", "."] + list(parsing.ALPHABET)))
        for a in parsing.ALPHABET:
            for b in parsing.ALPHABET:
                jobs.append(("EXH", a + b, L))
        nrand = 30000 if tier == "quick" else 600000
        rnd = [parsing.random_text(rng) for _ in range(nrand)]
        jobs += [("TEXTS", c) for c in core.chunked(rnd, 64)]
        # (ii) segment lists
        fv, pv, tv = full_vocab(), pair_vocab(), triple_vocab()
        jobs += [("SEGS", c, True) for c in core.chunked([[]] + [[s] for s in fv], 32)]
        jobs += [("PAIRS", [a], pv, True) for a in pv]
        if tier != "quick":
            jobs += [("PAIRS", [a], fv, False) for a in pv]
            jobs += [("PAIRS", c, pv, False) for c in core.chunked(fv, 64)]
            jobs += [("TRIPLES", [a], pv) for a in pv]
        else:
            jobs += [("TRIPLES", [a], tv) for a in tv]
        nlists = 12000 if tier == "quick" else 300000
        rl = [random_segs(rng) for _ in range(nlists)]
        jobs += [("SEGS", c, True) for c in core.chunked(rl, 64)]
        jobs += [("QUOTED", c) for c in core.chunked(quoted_texts(rng, 2000 if tier == "quick" else 40000), 32)]
        jobs += [("QSEARCH", c) for c in core.chunked(quoted_search_cases(rng, 10 if tier == "quick" else 200), 32)]
        # (ii-b) sequences on one object: caches read, separator switched, then ==, !=, copy, +, pop
        simple = [s_ for s_ in pv if s_[0] in ("KEY", "INDEX", "SEARCH", "KEYWORD_SEARCH", "ANCHOR")]
        seqs = []
        seq_pool = [[s_] for s_ in pv] + [[key("a"), key("b"), key("c")], [key("a"), key("b.c")], [key("a/b"), ["INDEX", {"int": "0"}]]]
        seq_pool += [random_segs(rng, 4) for _ in range(300 if tier == "quick" else 5000)]
        for _ in range(3000 if tier == "quick" else 60000):
            a = rng.choice(seq_pool)
            b = rng.choice(seq_pool) if rng.random() < 0.8 else [list(x) for x in a]
            steps = [rng.choice(SEQ_STEPS) for _ in range(rng.randint(1, 4))]
            seqs.append((a, b, rng.choice(simple), rng.choice(["dot", "fslash"]), steps))
        jobs += [("SEQ", c) for c in core.chunked(seqs, 32)]
        # (iii) equality on pairs
        pool = [[s] for s in pv] + [random_segs(rng, 3) for _ in range(400 if tier == "quick" else 4000)]
        pairs = []
        for _ in range(6000 if tier == "quick" else 100000):
            a = rng.choice(pool)
            b = rng.choice(pool) if rng.random() < 0.7 else [list(x) for x in a]
            pairs.append((a, b))
        pairs += [([x], [y]) for x in pv[:40] for y in pv[:40]]
        jobs += [("EQ", c) for c in core.chunked(pairs, 32)]
        # (iv) append / pop
        ap = []
        bases = [[]] + [[s] for s in pv] + [random_segs(rng, 3) for _ in range(300 if tier == "quick" else 3000)]
        for _ in range(8000 if tier == "quick" else 150000):
            ap.append((rng.choice(bases), rng.choice(pv) if rng.random() < 0.7 else random_seg(rng), rng.choice(["dot", "fslash"]),
                       rng.random() < 0.3))
        jobs += [("APPENDPOP", c) for c in core.chunked(ap, 32)]
        # (v) helpers
        misc = [("escape", t) for t in text_pool()] + [("escape", random_text(rng, 8)) for _ in range(3000 if tier == "quick" else 60000)]
        texts = CORPUS_TEXTS + [parsing.random_text(rng, 10) for _ in range(2000 if tier == "quick" else 40000)]
        for t in texts:
            misc.append(("pop", t, rng.choice(["auto", "auto", "dot", "fslash"])))
        for _ in range(2000 if tier == "quick" else 40000):
            t = rng.choice(texts)
            pre = t[:rng.randint(0, len(t))] if rng.random() < 0.6 else rng.choice(texts)
            misc.append(("strip", t, pre))
        jobs += [("MISC", c) for c in core.chunked(misc, 16)]
        chk.exhaustive = True
        chk.extra_cov["exhaustive_bound"] = ("all strings of length <= %d over %d characters; all segment lists of length <= 2 over a %d-segment "
                                             "vocabulary (singletons over %d), length 3 over %d" % (L, len(parsing.ALPHABET), len(pv), len(fv),
                                                                                                   len(tv) if tier == "quick" else len(pv)))
    rng.shuffle(jobs)
    results = core.pmap(_job, jobs)
    tot = new_stats()
    for stats, viol, disag, samples in results:
        for k, v in stats.items():
            tot[k] += v
        for s in samples:
            chk.sample(s)
        for sig, w, case in viol:
            chk.violation(sig, w, case)
        for sig, w, case in disag:
            chk.disagreements_checked += 1
            chk.disagreement(sig, w, case)
    chk.evaluations += tot["n"]
    chk.out_of_model += tot["out_of_model"]
    chk.nontrivial_extra = tot["nontrivial"]
    for k in ("roundtrip", "dot_excluded", "wf_lists", "nonwf_lists", "appendpop", "eqpairs", "respelled", "respelled_judged"):
        chk.count(k, tot[k])
    return chk
