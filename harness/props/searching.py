"""Helpers of C07 (yaml-paths search): documents with anchors / aliases / anchored keys / YAML merge
keys built as ruamel objects, their canonical JSON for the Lean model (lean/Ypv/Drv/C07.lean), the
guarded runner of the real search_for_paths, the re-resolution of printed paths by the real
Processor, and the generators.

Source document JSON (what the generators produce) = the common document JSON plus
  * map entries [key, node] or [key, node, keyAnchor];
  * "merge": [anchor names of maps defined earlier] on a map (its `<<:` references);
  * set members  key  or  [key, anchor].
A node or key whose anchor name was already built is an alias: the one Python object is reused.
Model JSON (what the driver gets) is read back from the BUILT objects: own entries under "e"
(non_merged_items()), inherited entries under "me" (items() minus the own ones, in items() order),
"refs" = the anchor names the merge-key block of search_for_paths finds for the merge references
(loop over data.merge x all_anchors.items() by identity, on the real objects)."""
from __future__ import annotations

import signal

from harness import core, codec

METHODS = ["CONTAINS", "ENDS_WITH", "EQUALS", "STARTS_WITH", "GREATER_THAN", "LESS_THAN",
           "GREATER_THAN_OR_EQUAL", "LESS_THAN_OR_EQUAL", "REGEX"]
OPS = {"CONTAINS": "%", "ENDS_WITH": "$", "EQUALS": "=", "STARTS_WITH": "^", "GREATER_THAN": ">", "LESS_THAN": "<",
       "GREATER_THAN_OR_EQUAL": ">=", "LESS_THAN_OR_EQUAL": "<=", "REGEX": "=~"}
KEYMODES = {"values": (True, False), "keys": (True, True), "keysonly": (False, True)}
ALIASMODES = {"anchorsonly": (False, False), "keyaliases": (True, False), "valuealiases": (False, True),
              "allaliases": (True, True)}


class Timeout(Exception):
    pass


def _alarm(_s, _f):
    raise Timeout()


def guarded(fn, limit_s=10.0):
    old = signal.signal(signal.SIGVTALRM, _alarm)
    signal.setitimer(signal.ITIMER_VIRTUAL, limit_s)
    try:
        return ("ok", fn())
    except Timeout:
        return ("timeout", None)
    except BaseException as e:  # noqa
        if isinstance(e, (KeyboardInterrupt, SystemExit)):
            raise
        return ("exc", e)
    finally:
        signal.setitimer(signal.ITIMER_VIRTUAL, 0)
        signal.signal(signal.SIGVTALRM, old)


# --------------------------------------------------------------------------- building real documents

def _build_key(k, ka, env):
    from ruamel.yaml.scalarstring import PlainScalarString
    from ruamel.yaml.scalarint import ScalarInt
    if ka is None:
        return k
    tag = ("key", ka)
    if tag in env:
        return env[tag]
    if isinstance(k, int):
        out = ScalarInt(k, anchor=ka)
    else:
        out = PlainScalarString(k, anchor=ka)
    out.yaml_anchor().always_dump = True
    env[tag] = out
    return out


def build(j, env=None):
    """source JSON -> ruamel objects (one object per anchor name)."""
    from ruamel.yaml.comments import CommentedMap, CommentedSeq, CommentedSet
    if env is None:
        env = {}
    a = j.get("a")
    if a is not None and a in env:
        return env[a]
    k = j["k"]
    if k == "map":
        out = CommentedMap()
        if a is not None:
            out.yaml_set_anchor(a, always_dump=True)
            env[a] = out
        for ent in j["e"]:
            key = _build_key(ent[0], ent[2] if len(ent) > 2 else None, env)
            out[key] = build(ent[1], env)
        if j.get("merge"):
            out.add_yaml_merge([(0, env[name]) for name in j["merge"]])
        return out
    if k == "seq":
        out = CommentedSeq()
        if a is not None:
            out.yaml_set_anchor(a, always_dump=True)
            env[a] = out
        for v in j["i"]:
            out.append(build(v, env))
        return out
    if k == "set":
        out = CommentedSet()
        for m in j["m"]:
            if isinstance(m, list):
                out.add(_build_key(m[0], m[1], env))
            else:
                out.add(m)
        if a is not None:
            out.yaml_set_anchor(a, always_dump=True)
            env[a] = out
        return out
    return codec.json_to_ruamel(j, env)


def ymk_names(cm, all_anchors):
    """what the merge-key block iterates: for every merge reference, the names under which
    all_anchors holds that very node (identity, as after fixes/C07-7)."""
    out = []
    for (_, ref) in (cm.merge if hasattr(cm, "merge") else []):
        for name, node in all_anchors.items():
            if node is ref:
                out.append(name)
    return out


def to_model_json(n, all_anchors):
    """built / loaded ruamel data -> model JSON (see module docstring)."""
    from ruamel.yaml.comments import CommentedSet, CommentedMap

    def keyj(k):
        kj = codec.key_to_json(k)
        ka = codec.anchor_of(k)
        return kj, ka

    if isinstance(n, (CommentedSet, set, frozenset)):
        ms = []
        for m in n:
            kj, ka = keyj(m)
            ms.append([kj, ka] if ka else kj)
        out = {"k": "set", "m": ms}
    elif isinstance(n, dict):
        own, own_keys = [], set()
        if isinstance(n, CommentedMap):
            for k, v in n.non_merged_items():
                kj, ka = keyj(k)
                own.append([kj, to_model_json(v, all_anchors), ka])
                own_keys.add((type(kj).__name__, kj))
            me = []
            for k, v in n.items():
                kj, ka = keyj(k)
                if (type(kj).__name__, kj) in own_keys:
                    continue
                me.append([kj, to_model_json(v, all_anchors), ka])
            out = {"k": "map", "e": own}
            if me:
                out["me"] = me
            refs = ymk_names(n, all_anchors)
            if refs:
                out["refs"] = refs
            if n.merge:
                out["nmerge"] = len(n.merge)
                out["merge_anchors"] = [codec.anchor_of(r) for (_, r) in n.merge]
        else:
            out = {"k": "map", "e": [[keyj(k)[0], to_model_json(v, all_anchors), None] for k, v in n.items()]}
    elif isinstance(n, (list, tuple)):
        out = {"k": "seq", "i": [to_model_json(v, all_anchors) for v in n]}
    else:
        out = codec.scalar_to_json(n)
    a = codec.anchor_of(n)
    if a:
        out["a"] = a
    return out


def real_all_anchors(root):
    from yamlpath.common import Anchors
    d = {}
    Anchors.scan_for_anchors(root, d)
    return d


# --------------------------------------------------------------------------- running the real search

def separator_of(opts):
    """the PathSeparators member a case hands to the search: FSLASH / DOT by `fslash`, AUTO when `sep` says so
    (`--pathsep auto`: what argparse makes of it with PathSeparators.from_str)"""
    from yamlpath.enums import PathSeparators
    if opts.get("sep") == "auto":
        return PathSeparators.AUTO
    return PathSeparators.FSLASH if opts["fslash"] else PathSeparators.DOT


def pathsep_arg(opts):
    """the --pathsep argument of a case"""
    return "--pathsep=" + ("auto" if opts.get("sep") == "auto" else "/" if opts["fslash"] else ".")


MODEL_OPT_KEYS = ("sv", "sk", "sa", "ika", "iva", "expand", "fslash", "sep")


def model_opts(opts):
    """the options of a C07.search request"""
    return {k: opts[k] for k in MODEL_OPT_KEYS if k in opts}


def impl_search(root, all_anchors, term, opts):
    """The real search_for_paths -> {"paths": [str(path)…]} | {"exc": type, "site": …, "paths": prefix} | {"timeout"}"""
    from yamlpath.commands import yaml_paths as yp
    from yamlpath.enums import PathSearchMethods, PathSeparators
    from yamlpath.path import SearchTerms
    from yamlpath.eyaml import EYAMLProcessor
    log = core.quiet_logger()
    terms = SearchTerms(term["inv"], PathSearchMethods[term["m"]], "*", term["term"])
    sep = separator_of(opts)
    proc = EYAMLProcessor(log, root)
    out = []

    def go():
        for p in yp.search_for_paths(log, proc, root, terms, sep, search_values=opts["sv"], search_keys=opts["sk"],
                                     search_anchors=opts["sa"], include_key_aliases=opts["ika"],
                                     include_value_aliases=opts["iva"], decrypt_eyaml=False,
                                     expand_children=opts["expand"], all_anchors=all_anchors):
            out.append(str(p))
        return True
    st, val = guarded(go)
    if st == "ok":
        return {"paths": out}
    if st == "timeout":
        return {"timeout": 1, "paths": out}
    return {"exc": core.exc_class(val), "site": core.crash_site(val), "paths": out}


def dedup(paths):
    seen, out = set(), []
    for p in paths:
        if p not in seen:
            seen.add(p)
            out.append(p)
    return out


# --------------------------------------------------------------------------- node identity / re-resolution

def _is_container(n):
    from ruamel.yaml.comments import CommentedSet
    return isinstance(n, (dict, list, CommentedSet, set))


def node_key(node, parent, ref):
    """Identity of a node under YAML alias semantics: a container or an anchored scalar is its
    Python object; an unanchored scalar is its slot (parent object, reference)."""
    if _is_container(node) or codec.anchor_of(node):
        return ("obj", id(node))
    if isinstance(ref, (str, int)) and not isinstance(ref, bool):
        ref = (type(ref).__name__ if isinstance(ref, int) else "str", str(ref) if not isinstance(ref, int) else int(ref))
    return ("slot", id(parent) if parent is not None else None, ref)


def node_at(root, addr, anchors=None):
    """(node, parent, ref) at a model address in the real document; None if the address does not exist."""
    from ruamel.yaml.comments import CommentedSet
    node, parent, ref = root, None, None
    for (t, x) in addr:
        parent = node
        if t == "k":
            if not isinstance(node, dict):
                return None
            found = [kk for kk in node.keys() if type(codec.key_to_json(kk)) is type(x) and codec.key_to_json(kk) == x]
            if not found:
                return None
            ref = found[0]
            node = node[found[0]]
        elif t == "i":
            if not isinstance(node, list) or x >= len(node):
                return None
            ref, node = x, node[x]
        elif t == "m":
            if not isinstance(node, (CommentedSet, set)):
                return None
            found = [m for m in node if type(codec.key_to_json(m)) is type(x) and codec.key_to_json(m) == x]
            if not found:
                return None
            ref, node = found[0], found[0]
        elif t == "r":
            # the x-th merge reference that all_anchors knows by name (the model's `refs` list)
            named = [r for (_, r) in (node.merge if hasattr(node, "merge") else [])
                     for nm, n in (anchors or {}).items() if n is r]
            if x >= len(named):
                return None
            ref, node = ("mref", x), named[x]
        else:
            return None
    return node, parent, ref


def key_of_addr(root, addr, anchors=None):
    r = node_at(root, addr, anchors)
    if r is None:
        return None
    node, parent, ref = r
    if isinstance(ref, tuple):      # merge reference: the referenced map itself
        return ("obj", id(node))
    return node_key(node, parent, ref)


def resolve(root, text):
    """The real Processor.get_nodes(text, mustexist=True) -> ("ok", [node keys]) | ("exc", class, site)"""
    from yamlpath import Processor, YAMLPath
    log = core.quiet_logger()

    def go():
        proc = Processor(log, root)
        res = []
        for nc in proc.get_nodes(YAMLPath(text), mustexist=True):
            res.append(node_key(nc.node, nc.parent, nc.parentref))
        return res
    st, val = guarded(go)
    if st == "ok":
        return ("ok", val)
    if st == "timeout":
        return ("timeout",)
    return ("exc", core.exc_class(val), core.crash_site(val))


# --------------------------------------------------------------------------- generators

def S(v, a=None):
    if v is None:
        j = {"k": "null"}
    elif isinstance(v, bool):
        j = {"k": "bool", "v": v}
    elif isinstance(v, int):
        j = {"k": "int", "v": str(v)}
    elif isinstance(v, float):
        m, e = codec.float_to_me(v)
        j = {"k": "float", "m": str(m), "e": e}
    else:
        j = {"k": "str", "v": v}
    if a:
        j["a"] = a
    return j


def M(*es, a=None, merge=None):
    j = {"k": "map", "e": [list(e) for e in es]}
    if a:
        j["a"] = a
    if merge:
        j["merge"] = list(merge)
    return j


def L(*items, a=None):
    j = {"k": "seq", "i": list(items)}
    if a:
        j["a"] = a
    return j


def SET(*ms, a=None):
    j = {"k": "set", "m": [list(m) if isinstance(m, tuple) else m for m in ms]}
    if a:
        j["a"] = a
    return j


VALUES = [None, True, False, 0, 1, 2, 1.5, "a", "ab", "", "b", "x", "1", "ba"]
PLAIN_KEYS = ["a", "b", "ab", "k", "x", "ba"]
ODD_KEYS = ["a.b", "a/b", "a b", "x[0]", "1", 1, -1, "a\\b", "a'b", "é", "(a)", "a%", "^a", "$", "a.", ".a", "/a", "a*",
            "&a", "*", "", " a", "a ", "a&b", "a=b", "!a", "a,b", "#a", "a\"b", "[", "]", "0", 0, "01", "a\tb", "\\"]
ANCHOR_NAMES = ["x", "y", "ab", "a", "b", "z", "k1"]
ODD_ANCHOR_NAMES = ["a.b", "a/b", "a b", "1"]
TERMS = ["a", "ab", "b", "1", "x", "", "k", "y", "ba", "True", "None", "1.5", "0", "z", "a.b"]
REGEX_TERMS = ["^a", "b$", "a|1", ".", "^$", "[ab]+", "x?y", "\\d"]


def wf_key_text(k):
    """Lean `wfKeyText` (Spec/Write.lean): text of a key the path notation can express."""
    t = str(k)
    ctl = set("\t\n\r\x0b\x0c\x1c\x1d\x1e\x1f")
    return t != "" and "*" not in t and not t.startswith("&") and not all(c in ctl for c in t)


def gen_doc(rng, depth=3, odd=0.10, merge_p=0.5):
    """Random source document with anchors, aliases, anchored keys, merge keys, sets."""
    st = {"nodes": {}, "keys": {}, "n": 0, "reserved": set()}       # anchor name -> source JSON ; key anchor -> key

    def fresh():
        pool = ANCHOR_NAMES + (ODD_ANCHOR_NAMES if rng.random() < odd else [])
        cand = [a for a in pool if a not in st["nodes"] and a not in st["keys"] and a not in st["reserved"]]
        if not cand:
            return None
        a = rng.choice(cand)
        st["reserved"].add(a)        # a name is given out once (an enclosing node is registered only when complete)
        return a

    def key(used):
        for _ in range(20):
            k = rng.choice(ODD_KEYS) if rng.random() < odd else rng.choice(PLAIN_KEYS)
            if all(not (type(k) is type(u) and k == u) for u in used):
                # Python dict: 1 and True collide, 1 and "1" do not
                return k
        return "k%d" % len(used)

    def akey(used):
        # alias of an anchored key, a newly anchored key, or a plain key
        r = rng.random()
        if st["keys"] and r < 0.18:
            ka = rng.choice(sorted(st["keys"]))
            k = st["keys"][ka]
            if all(not (type(k) is type(u) and k == u) for u in used):
                return k, ka
        k = key(used)
        if r > 0.86 and isinstance(k, str):
            ka = fresh()
            if ka:
                st["keys"][ka] = k
                return k, ka
        return k, None

    def scalar():
        if st["nodes"] and rng.random() < 0.25:
            return dict_copy(st["nodes"][rng.choice(sorted(st["nodes"]))])
        v = rng.choice(VALUES)
        j = S(v)
        if v is not None and not isinstance(v, float) and rng.random() < 0.22:
            a = fresh()
            if a:
                j["a"] = a
                st["nodes"][a] = j
        return j

    def node(d):
        r = rng.random()
        if d < depth and (d <= 0 or r < 0.30):
            return scalar()
        if st["nodes"] and r < 0.42:
            return dict_copy(st["nodes"][rng.choice(sorted(st["nodes"]))])
        n_children = rng.choice([0, 1, 2, 2, 3, 3, 4]) if d < depth else rng.choice([2, 3, 3, 4, 5])
        if r < 0.64:
            a = fresh() if rng.random() < 0.3 else None
            j = L(*[node(d - 1) for _ in range(n_children)])
        elif r < 0.93:
            a = fresh() if rng.random() < 0.45 else None
            used, es = [], []
            for _ in range(n_children):
                k, ka = akey(used)
                used.append(k)
                es.append([k, node(d - 1), ka] if ka else [k, node(d - 1)])
            j = M(*es)
            maps = [n for n, v in st["nodes"].items() if v["k"] == "map"]
            if maps and rng.random() < merge_p:
                j["merge"] = rng.sample(sorted(maps), 1 if rng.random() < 0.8 else min(2, len(maps)))
        else:
            a = fresh() if rng.random() < 0.2 else None
            used, ms = [], []
            for _ in range(rng.randint(0, 3)):
                k, ka = akey(used)
                if isinstance(k, int) and ka:
                    ka = None
                used.append(k)
                ms.append([k, ka] if ka else k)
            j = {"k": "set", "m": ms}
        if a:
            j["a"] = a
            st["nodes"][a] = j
        return j

    r = rng.random()
    if r < 0.04:
        return scalar()
    top = node(depth)
    while top["k"] not in ("map", "seq", "set"):
        top = node(depth)
    return top


def dict_copy(j):
    import copy
    return copy.deepcopy(j)


def all_opts():
    out = []
    for km, (sv, sk) in KEYMODES.items():
        for am, (ika, iva) in ALIASMODES.items():
            for sa in (False, True):
                for ex in (False, True):
                    for fs in (False, True):
                        out.append({"sv": sv, "sk": sk, "sa": sa, "ika": ika, "iva": iva, "expand": ex, "fslash": fs,
                                    "km": km, "am": am})
                    # the third member of PathSeparators the tool accepts: AUTO (renders dot notation)
                    out.append({"sv": sv, "sk": sk, "sa": sa, "ika": ika, "iva": iva, "expand": ex, "fslash": False,
                                "sep": "auto", "km": km, "am": am})
    return out


def doc_flags(j, acc=None):
    """shape features of a model-JSON document, for histograms and signatures"""
    if acc is None:
        acc = {"anchors": 0, "alias": 0, "keyanchor": 0, "merge": 0, "set": 0, "oddkey": 0, "clash": 0, "names": set(),
               "nodes": 0}
    acc["nodes"] += 1
    a = j.get("a")
    if a:
        if a in acc["names"]:
            acc["alias"] += 1
        else:
            acc["names"].add(a)
            acc["anchors"] += 1
    k = j["k"]
    if k == "map":
        ents = j["e"] + j.get("me", [])
        if j.get("me") or j.get("refs") or j.get("nmerge"):
            acc["merge"] += 1
        texts = [str(e[0]) for e in ents]
        if len(set(texts)) < len(texts):
            acc["clash"] += 1
        for e in ents:
            if len(e) > 2 and e[2]:
                if ("key", e[2]) in acc["names"]:
                    acc["alias"] += 1
                else:
                    acc["names"].add(("key", e[2]))
                acc["keyanchor"] += 1
            if not wf_key_text(e[0]) or (isinstance(e[0], str) and e[0].startswith("/")):
                acc["oddkey"] += 1
            doc_flags(e[1], acc)
    elif k == "seq":
        for v in j["i"]:
            doc_flags(v, acc)
    elif k == "set":
        acc["set"] += 1
        texts = [str(m[0] if isinstance(m, list) else m) for m in j["m"]]
        if len(set(texts)) < len(texts):
            acc["clash"] += 1
        for m in j["m"]:
            kk = m[0] if isinstance(m, list) else m
            if isinstance(m, list) and m[1]:
                acc["keyanchor"] += 1
            if not wf_key_text(kk) or (isinstance(kk, str) and kk.startswith("/")):
                acc["oddkey"] += 1
    return acc
