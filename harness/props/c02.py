"""C02 — every result locates its node: coordinates, ancestry and reported path re-resolve."""
from __future__ import annotations

import json
import random

from harness import core
from harness.props import evaluating as ev
from harness.props import c01

RULE = ("the C01 complete small layer (documents <= 3 nodes x 1-segment vocabulary) plus seeded-random documents (<= 25 nodes; 60% with "
        "keys drawn from the escapable punctuation set  . / \\ ( ) [ ] ^ $ % ' \" space) x document-guided paths of <= 5 segments "
        "(keyword segments included) plus documents with a spine of depth 3..5 x `<prefix>[parent(n)]`, n in 0..4 or absent, "
        "the prefix made of key / index / wildcard / `**` / search segments along the spine.  For every real result of every required query: parent[parentref] is the very node returned "
        "(set: member in parent), the parent's address + reference is the node's address, the ancestry is the chain of "
        "(prefix, next reference) pairs from the root, and str(result.path) evaluated by the real Processor on the same document "
        "returns exactly that node (or every node bearing the anchor when the path ends in [&name]).  Paths with keyword "
        "segments other than [name()] (whose result is a key, not a node) are judged on the real code alone: parent[parentref] "
        "is the node, the ancestry walks from the root to it, str(path) re-resolves to it.  Virtual results (slice "
        "lists) are checked member by member.  Every reported path is ALSO rendered in dot and in forward-slash notation through "
        "the library's `separator` setter + str() and each rendering is re-queried (keys with a backslash - also last, also before "
        "another mark - and keys beginning with `/` are in the punctuation layer).  Whenever the required query succeeds the same path is "
        "asked in the DEFAULT optional mode (get_nodes(mustexist=False)) on a fresh copy and, unless that created nodes, every result's "
        "coordinates, ancestry chain and reported path are judged the same way.  Further layers: 8 000 spine documents x paths in which "
        "a segment advances several levels (key passing through a list of maps, `**`) or climbs (`[parent(n)]` in mid-path) and is "
        "FOLLOWED by further segments (re-descent, a second `[parent(m)]`); the complete set of lists of <= 4 elements over "
        "{null, {a: &x 1}, {a: 2}, {b: *x, a: 3}} (root / under a key / in a list) x `[has_child(&x)]`, `[!has_child(&x)]` alone and "
        "followed by a key / `*` / `[parent()]`, plus 6 000 random lists of maps with null elements, maps of maps and plain lists "
        "with anchored / aliased children x `[(!)has_child(&name)]`; 6 000 Hashes of Hashes (child keys from the punctuation set, also "
        "dotted host names / keys with a slash) and Arrays-of-Hashes, with null / scalar members, at the root / under a (punctuation) key / "
        "in a list x `[min|max|unique|distinct|has_child(NAME)]` plain and inverted, alone or followed by the attribute / `*` / `[parent(n)]` / `**`.  "
        "BOTH NOTATIONS OF THE QUERY: every query with a keyword segment and a third of the others is also WRITTEN in forward-slash "
        "notation (when the real parser reads the same segments); every result it reports differently from the dot query (other path "
        "text, other coordinates) is judged on the real code: parent[parentref] is the node, the ancestry walks from the root, the reported "
        "path - as it is and rendered in either notation - re-resolves to the node.  distinct_nontrivial = distinct (document, path) with a non-empty result; "
        "results at depth >= 2 are counted in the histogram (deep_results).")


def absorb02(chk, results):
    nontrivial = 0
    for stats, viol, disag, samples in results:
        chk.evaluations += stats["n"]
        nontrivial += stats["nontrivial"]
        chk.out_of_model += stats["oom"]
        for k in ("queries", "nonempty", "ypath", "crash", "unparsable", "virtual", "deep_results", "requeries", "kw_judged", "kw_results",
                  "opt_judged", "opt_created", "opt_results", "rendered_requeries", "unmodelled_judged", "unmodelled_results",
                  "fslash_judged", "fslash_skipped", "fslash_results", "fslash_fresh_results"):
            chk.count(k, stats.get(k, 0))
        for k, v in stats["kinds"].items():
            chk.count("segment:" + k, v)
        for s in samples:
            chk.sample(s)
        for sig, w, case in viol:
            if case.get("prop") == "C02":
                chk.violation(sig, w, case)
            elif case.get("prop") == "C02-model":
                chk.disagreements_checked += 1
                chk.disagreement(sig, w, case)
            else:
                chk.count("other-property-violations:" + case.get("prop", "?"))
        for sig, w, case in disag:
            chk.disagreements_checked += 1
            chk.disagreement(sig, w, case)
    chk.nontrivial_extra = nontrivial
    # the replay is the smallest failing input found
    chk.violations.sort(key=lambda v: ev.count_nodes(v["case"]["doc"]) * 10 + len(v["case"].get("path") or ""))


def deep_doc(rng, depth, keys, anchors=None):
    """A document holding at least one node at the given depth: maps, lists and Arrays-of-Hashes along the spine,
    small random documents beside it."""
    if anchors is None:
        anchors = {}                # one anchor table per document (an anchor name is defined once)
    if depth <= 0:
        return ev.random_doc(rng, 3, 3, anchors, keys)
    spine = deep_doc(rng, depth - 1, keys, anchors)
    sides = [ev.random_doc(rng, rng.choice([1, 1, 3, 5]), 3, anchors, keys) for _ in range(rng.randint(0, 2))]
    kids = sides + [spine]
    rng.shuffle(kids)
    if rng.random() < 0.55:
        ks = rng.sample([k for k in keys if k != "1"], len(kids))
        return {"k": "map", "e": [[k, v] for k, v in zip(ks, kids)]}
    return {"k": "seq", "i": kids}


def deep_prefix(rng, doc, minlen):
    """A prefix of key / index / wildcard / `**` (/ search) segments that follows the deepest branch of the document."""
    out, cur = [], doc
    while cur["k"] in ("map", "seq"):
        kids = cur["e"] if cur["k"] == "map" else list(enumerate(cur["i"]))
        if not kids:
            break
        best = max(_depth(v) for _k, v in kids)
        ref, v = rng.choice([(k, v) for k, v in kids if _depth(v) == best])
        r = rng.random()
        if r < 0.12 and len(out) < minlen:
            out.append("*")
        elif r < 0.2 and (not out or out[-1] != "**"):
            out.append("**")
            if rng.random() < 0.5:
                continue            # `**` stands for this and maybe further steps
        elif cur["k"] == "map":
            out.append(ev.key_text(ref))
        elif r < 0.6:
            out.append("[%d]" % (ref if rng.random() < 0.7 else ref - len(cur["i"])))
        else:
            out.append(str(ref))
        cur = v
    if cur["k"] not in ("map", "seq", "set") and rng.random() < 0.25:
        out.append("[.%s%s]" % (rng.choice(["=", "!=", ">=", "<="]), ev.scalar_term(cur)))
    return out


def _depth(j):
    if j["k"] == "map":
        return 1 + max([_depth(v) for _k, v in j["e"]] + [0])
    if j["k"] == "seq":
        return 1 + max([_depth(v) for v in j["i"]] + [0])
    return 0


def parent_cases(rng, n):
    """`<prefix>[parent(n)]`, n in 0..4 (and the bare `[parent()]`), after prefixes that reach depth >= 3."""
    out = []
    for _ in range(n):
        d = deep_doc(rng, rng.randint(3, 5), PUNCT2 if rng.random() < 0.3 else ev.RKEYS)
        pre = deep_prefix(rng, d, 3)
        for lv in rng.sample(["", "0", "1", "2", "3", "4"], 3):
            tail = ["[parent(%s)]" % lv]
            if rng.random() < 0.15:
                tail.append(rng.choice(["*", "[parent()]", "[parent(2)]", "[has_child(a)]", "[0]", "a"]))
            out.append((d, pre + tail))
    return out


def spine_of(rng, doc):
    """The deepest branch of a document: [(container, reference, child)] from the root down."""
    out, cur = [], doc
    while cur["k"] in ("map", "seq"):
        kids = cur["e"] if cur["k"] == "map" else list(enumerate(cur["i"]))
        if not kids:
            break
        best = max(_depth(v) for _k, v in kids)
        ref, v = rng.choice([(k, v) for k, v in kids if _depth(v) == best])
        out.append((cur, ref, v))
        cur = v
    return out


def concrete_seg(rng, cont, ref):
    if cont["k"] == "map":
        return ev.key_text(ref)
    r = rng.random()
    if r < 0.6:
        return "[%d]" % (ref if rng.random() < 0.7 else ref - len(cont["i"]))
    return str(ref)


def multilevel_cases(rng, n):
    """Segments that advance more than one level FOLLOWED by further segments: a key passing through a list of maps
    (the index is left out), `**` standing for one or more levels, and `[parent(n)]` in mid-path followed by the segments
    that descend again (and sometimes by another `[parent(m)]`)."""
    out = []
    for _ in range(n):
        d = deep_doc(rng, rng.randint(3, 5), PUNCT2 if rng.random() < 0.3 else ev.RKEYS)
        sp = spine_of(rng, d)
        if len(sp) < 2:
            continue
        pre, multi, i = [], 0, 0
        while i < len(sp):
            cont, ref, child = sp[i]
            r = rng.random()
            if cont["k"] == "seq" and child["k"] == "map" and i + 1 < len(sp) and r < 0.45:
                multi += 1                      # pass-through: the next key is looked up in every map of this list
            elif r < 0.6 and i + 1 < len(sp) and (not pre or pre[-1] != "**"):
                pre.append("**")
                multi += 1
                i += rng.randint(0, min(2, len(sp) - 2 - i))   # `**` stands for this and maybe further levels ...
                cont, ref, child = sp[i]
                if not (cont["k"] == "seq" and child["k"] == "map" and i + 1 < len(sp) and rng.random() < 0.5):
                    pre.append(concrete_seg(rng, cont, ref))     # ... and is followed by a concrete segment
            elif r < 0.68:
                pre.append("*")
            else:
                pre.append(concrete_seg(rng, cont, ref))
            i += 1
        if not pre:
            continue
        tail = []
        r = rng.random()
        if r < 0.7:
            up = rng.randint(1, len(sp))
            tail.append("[parent(%s)]" % ("" if up == 1 and rng.random() < 0.5 else up))
            down = rng.randint(0, up)
            for cont, ref, _c in sp[len(sp) - up:len(sp) - up + down]:
                tail.append(concrete_seg(rng, cont, ref))
            if rng.random() < 0.35:
                tail.append("[parent(%d)]" % rng.randint(0, len(sp) - up + down))
        out.append((d, pre + tail))
    return out


PUNCT2 = ev.PUNCT_KEYS + ["/a", "a\\", "a\\.b"]      # also: the escape mark at the end / before a mark, a leading slash

AOH_ELEMENTS = [
    {"k": "null"},
    {"k": "map", "e": [["a", {"k": "int", "v": "1", "a": "x"}]]},              # defines / aliases &x
    {"k": "map", "e": [["a", {"k": "int", "v": "2"}]]},
    {"k": "map", "e": [["b", {"k": "int", "v": "1", "a": "x"}], ["a", {"k": "int", "v": "3"}]]},
]
HAS_CHILD_ANCHOR = ["[has_child(&x)]", "[!has_child(&x)]"]


def has_child_anchor_small():
    """Complete: every list of <= 4 elements over {null, {a: &x 1}, {a: 2}, {b: *x, a: 3}} (at the root, under a key,
    inside a list) x [has_child(&x)] / [!has_child(&x)], alone and followed by a key / [parent()] / *."""
    import itertools
    out = []
    for n in range(1, 5):
        for els in itertools.product(AOH_ELEMENTS, repeat=n):
            if not any("e" in e for e in els):
                continue
            lst = {"k": "seq", "i": [json.loads(json.dumps(e)) for e in els]}
            for kw in HAS_CHILD_ANCHOR:
                out.append((lst, [kw]))
                out.append(({"k": "map", "e": [["r", lst]]}, ["r", kw]))
                if n <= 3:
                    out.append((lst, [kw, "a"]))
                    out.append(({"k": "map", "e": [["r", lst]]}, ["*", kw, "[parent()]"]))
                    out.append(({"k": "seq", "i": [{"k": "null"}, lst]}, ["[1]", kw, "*"]))
                    out.append(({"k": "map", "e": [["r", lst]]}, ["**", kw]))
    return out


def has_child_anchor_cases(rng, n):
    """Seeded-random: lists of maps with null elements (and, sometimes, stray scalars - then the list is no Array of
    Hashes), maps of maps and plain lists, in which scalar or container children carry the anchors x / y or alias them;
    reached by key / index / * / ** ; x [has_child(&name)] / [!has_child(&name)], sometimes followed by one more segment."""
    out = []
    for _ in range(n):
        anchors = {}
        names = rng.sample(["x", "y", "z"], rng.randint(1, 2))

        def child():
            r = rng.random()
            if r < 0.45:
                nm = rng.choice(names)
                if nm in anchors:
                    return json.loads(json.dumps(anchors[nm]))
                v = dict(rng.choice([v for v in ev.RVALS if v["k"] != "null"])) if rng.random() < 0.8 else \
                    {"k": "map", "e": [["a", {"k": "int", "v": "1"}]]}
                v["a"] = nm
                anchors[nm] = v
                return v
            return ev.random_doc(rng, rng.choice([1, 1, 3]), 3, anchors, ev.RKEYS)

        def amap():
            ks = rng.sample(["a", "b", "c", 1], rng.randint(1, 3))
            return {"k": "map", "e": [[k, child()] for k in ks]}

        shape = rng.random()
        if shape < 0.7:
            items = []
            for _i in range(rng.randint(2, 6)):
                q = rng.random()
                items.append({"k": "null"} if q < 0.3 else dict(rng.choice(ev.RVALS)) if q < 0.34 else amap())
            target = {"k": "seq", "i": items}
        elif shape < 0.85:
            target = {"k": "map", "e": [[k, amap() if rng.random() < 0.7 else child()] for k in rng.sample(["a", "b", "c", "k"], rng.randint(1, 3))]}
        else:
            target = {"k": "seq", "i": [child() for _i in range(rng.randint(1, 4))]}
        w = rng.random()
        if w < 0.3:
            d, pre = target, []
        elif w < 0.6:
            d, pre = {"k": "map", "e": [["r", target], ["s", ev.random_doc(rng, 3, 3, anchors, ev.RKEYS)]]}, [rng.choice(["r", "r", "*", "**"])]
        elif w < 0.8:
            d, pre = {"k": "seq", "i": [{"k": "null"}, target]}, [rng.choice(["[1]", "[-1]", "1"])]
        else:
            d, pre = {"k": "map", "e": [["r", {"k": "seq", "i": [{"k": "map", "e": [["t", target]]}]}]]}, \
                rng.choice([["r", "[0]", "t"], ["r", "t"], ["**", "t"], ["r", "*", "t"]])
        kw = "[%shas_child(&%s)]" % ("!" if rng.random() < 0.35 else "", rng.choice(names + (["q"] if rng.random() < 0.1 else [])))
        tail = []
        if rng.random() < 0.35:
            tail.append(rng.choice(["a", "b", "*", "[parent()]", "[parent(2)]", "[0]", "**", "[has_child(a)]"]))
        out.append((d, pre + [kw] + tail))
    return out


KW_NAMED = ["min(%s)", "max(%s)", "!min(%s)", "!max(%s)", "unique(%s)", "!unique(%s)", "distinct(%s)", "has_child(%s)", "!has_child(%s)",
            "min(%s)", "max(%s)"]


def kw_collection_cases(rng, n):
    """Keywords that take an attribute NAME (min / max / unique / distinct / has_child, plain and inverted) applied to the
    collections they scan member by member - a Hash of Hashes (child keys drawn from the escapable punctuation set: the
    reported path of a selected child ends in its escaped key), an Array-of-Hashes, sometimes with null / scalar members -
    at the root, under a (punctuation) key, inside a list, reached by key / `*` / `**`; alone or followed by one more
    segment (the attribute, `*`, `[parent()]`, `[parent(2)]`).  Values: small ints with ties, a null, a missing attribute."""
    out = []
    I = lambda v: {"k": "int", "v": str(v)}     # noqa: E731
    for _ in range(n):
        attrs = rng.sample(["a", "b", "c"], rng.randint(1, 2))

        def member():
            q = rng.random()
            if q < 0.08:
                return {"k": "null"}
            if q < 0.13:
                return I(rng.randint(0, 3))
            es = []
            for at in attrs:
                r = rng.random()
                if r < 0.75:
                    es.append([at, I(rng.randint(0, 3))])
                elif r < 0.85:
                    es.append([at, {"k": "null"}])
            if rng.random() < 0.3:
                es.append([rng.choice(PUNCT2[:-3] + ["z"]), I(7)])
            return {"k": "map", "e": es}
        nm = rng.randint(1, 5)
        if rng.random() < 0.65:
            keys = rng.sample([k for k in PUNCT2 + ["web.example.com", "cache/01", "x.y/z", "k"] if k not in attrs and k != 1], nm)
            coll = {"k": "map", "e": [[k, member()] for k in keys]}
        else:
            coll = {"k": "seq", "i": [member() for _i in range(nm)]}
        w = rng.random()
        if w < 0.3:
            d, pre = coll, []
        elif w < 0.75:
            k = rng.choice(["hosts", "r"] + [k for k in PUNCT2 if isinstance(k, str)])
            d = {"k": "map", "e": [[k, coll], ["s", I(1)]]}
            pre = [rng.choice([ev.key_text(k)] * 3 + ["*", "**"])]
        else:
            d = {"k": "seq", "i": [I(0), {"k": "map", "e": [["t", coll]]}]}
            pre = rng.choice([["[1]", "t"], ["t"], ["**", "t"], ["[-1]", "*"]])
        kw = "[%s]" % (rng.choice(KW_NAMED) % rng.choice(attrs + ["a"]))
        tail = []
        if rng.random() < 0.4:
            tail.append(rng.choice([attrs[0], "*", "[parent()]", "[parent(2)]", "**"]))
        out.append((d, pre + [kw] + tail))
    return out


def run(chk: core.Check):
    core.use_repo()
    opts = {"c02": True, "slash": False, "c02_fslash": True}
    if chk.replay_in:
        rp = json.load(open(chk.replay_in))
        c = rp.get("case", rp)
        res = ev.compare_chunk(([(c["doc"], c.get("items") or [c["path"]])], opts))
        print("replay:", json.dumps({"path": c.get("path"), "violations": [(s, w) for s, w, _ in res[1]]}, default=str)[:3000])
        return absorb02(chk, [res])
    rng = random.Random(chk.seed)
    docs3 = ev.small_docs(3)
    cases = [(d, [v]) for d in docs3 for v in ev.VOCAB]
    chk.extra_cov["exhaustive_bound"] = "%d documents (<= 3 nodes) x %d one-segment paths" % (len(docs3), len(ev.VOCAB))
    # every escapable punctuation key, alone and nested, under every way of reaching it
    one = {"k": "int", "v": "1"}
    for k in PUNCT2 + [".", "/", "\\", "(", ")", "[", "]", "^", "$", "%", " ", "'", '"', "a b.c/d", "/a/b", "a\\/b", "\\a"]:
        if not isinstance(k, str):
            continue
        shapes = [{"k": "map", "e": [[k, one]]},
                  {"k": "map", "e": [[k, {"k": "map", "e": [["a", one], [k, one]]}]]},
                  {"k": "map", "e": [[k, {"k": "seq", "i": [one, {"k": "map", "e": [[k, one]]}]}]]},
                  {"k": "seq", "i": [{"k": "map", "e": [[k, one]]}]},
                  {"k": "map", "e": [["s", {"k": "set", "m": [k]}]]}]
        kt = ev.key_text(k)
        for sh in shapes:
            for p in (["*"], ["**"], [kt], ["*", "*"], ["**", "*"], [kt, "*"], [kt, kt], ["*", kt], ["[.!=zz]"], ["**", "[.=1]"],
                      ["s", "*"], ["s", kt], ["[0]", kt], [kt, "[1]", kt]):
                cases.append((sh, p))
    nrand = 110000 if chk.tier == "quick" else 2000000
    for _ in range(nrand):
        d = ev.random_doc(rng, rng.choice([6, 10, 15, 25]), keys=PUNCT2 if rng.random() < 0.6 else None)
        cases.append((d, ev.guided_path(rng, d)))
    cases += parent_cases(rng, 4000 if chk.tier == "quick" else 40000)
    cases += multilevel_cases(rng, 8000 if chk.tier == "quick" else 80000)
    # [min()] / [max()] over a slice result (known finding C02-K6), so that it is reproduced by every run
    k6 = {"k": "seq", "i": [{"k": "map", "e": [["c", {"k": "int", "v": str(v)}]]} for v in (1, 2, 2)]}
    cases += [(k6, p) for p in (["[1:3]", "[max(c)]"], ["[0:1]", "[!max(a)]", "c"], ["[0:2]", "[min(c)]"])]
    hcs = has_child_anchor_small()
    chk.extra_cov["has_child_anchor_layer"] = "%d cases: lists of <= 4 elements over {null, {a: &x 1}, {a: 2}, {b: *x, a: 3}}" % len(hcs)
    cases += hcs
    cases += has_child_anchor_cases(rng, 6000 if chk.tier == "quick" else 60000)
    cases += kw_collection_cases(random.Random(chk.seed * 5 + 2), 6000 if chk.tier == "quick" else 60000)
    rng.shuffle(cases)
    chk.exhaustive = True
    cases = c01.subsample(chk, cases)
    absorb02(chk, core.pmap(ev.compare_chunk, [(c, opts) for c in core.chunked(cases, 256)]))
    return chk
