"""C02 — every result locates its node: coordinates, ancestry and reported path re-resolve."""
from __future__ import annotations

import json
import random

from harness import core
from harness.props import evaluating as ev
from harness.props import c01

RULE = ("the C01 complete small layer (documents <= 3 nodes x 1-segment vocabulary) plus seeded-random documents (<= 25 nodes; 60% with "
        "keys drawn from the escapable punctuation set  . / \\ ( ) [ ] ^ $ % ' \" space) x document-guided paths of <= 5 segments "
        "(keyword segments included) plus documents with a spine of depth 3..5 x `<prefix>[parent(n)]`, n in 0..4 or absent, "
        "the prefix made of key / index / wildcard / `**` / search segments along the spine.  For every real result of every required query: parent[parentref] is the very node returned "
        "(set: member in parent), the parent's address + reference is the node's address, the ancestry is the chain of "
        "(prefix, next reference) pairs from the root, and str(result.path) evaluated by the real Processor on the same document "
        "returns exactly that node (or every node bearing the anchor when the path ends in [&name]).  Paths with keyword "
        "segments other than [name()] (whose result is a key, not a node) are judged on the real code alone: parent[parentref] "
        "is the node, the ancestry walks from the root to it, str(path) re-resolves to it.  Virtual results (slice "
        "lists) are checked member by member.  distinct_nontrivial = distinct (document, path) with a non-empty result; "
        "results at depth >= 2 are counted in the histogram (deep_results).")


def absorb02(chk, results):
    nontrivial = 0
    for stats, viol, disag, samples in results:
        chk.evaluations += stats["n"]
        nontrivial += stats["nontrivial"]
        chk.out_of_model += stats["oom"]
        for k in ("queries", "nonempty", "ypath", "crash", "unparsable", "virtual", "deep_results", "requeries", "kw_judged", "kw_results"):
            chk.count(k, stats.get(k, 0))
        for k, v in stats["kinds"].items():
            chk.count("segment:" + k, v)
        for s in samples:
            chk.sample(s)
        for sig, w, case in viol:
            if case.get("prop") == "C02":
                chk.violation(sig, w, case)
            elif case.get("prop") == "C02-model":
                chk.disagreements_checked += 1
                chk.disagreement(sig, w, case)
            else:
                chk.count("other-property-violations:" + case.get("prop", "?"))
        for sig, w, case in disag:
            chk.disagreements_checked += 1
            chk.disagreement(sig, w, case)
    chk.nontrivial_extra = nontrivial
    # the replay is the smallest failing input found
    chk.violations.sort(key=lambda v: ev.count_nodes(v["case"]["doc"]) * 10 + len(v["case"].get("path") or ""))


def deep_doc(rng, depth, keys, anchors=None):
    """A document holding at least one node at the given depth: maps, lists and Arrays-of-Hashes along the spine,
    small random documents beside it."""
    if anchors is None:
        anchors = {}                # one anchor table per document (an anchor name is defined once)
    if depth <= 0:
        return ev.random_doc(rng, 3, 3, anchors, keys)
    spine = deep_doc(rng, depth - 1, keys, anchors)
    sides = [ev.random_doc(rng, rng.choice([1, 1, 3, 5]), 3, anchors, keys) for _ in range(rng.randint(0, 2))]
    kids = sides + [spine]
    rng.shuffle(kids)
    if rng.random() < 0.55:
        ks = rng.sample([k for k in keys if k != "1"], len(kids))
        return {"k": "map", "e": [[k, v] for k, v in zip(ks, kids)]}
    return {"k": "seq", "i": kids}


def deep_prefix(rng, doc, minlen):
    """A prefix of key / index / wildcard / `**` (/ search) segments that follows the deepest branch of the document."""
    out, cur = [], doc
    while cur["k"] in ("map", "seq"):
        kids = cur["e"] if cur["k"] == "map" else list(enumerate(cur["i"]))
        if not kids:
            break
        best = max(_depth(v) for _k, v in kids)
        ref, v = rng.choice([(k, v) for k, v in kids if _depth(v) == best])
        r = rng.random()
        if r < 0.12 and len(out) < minlen:
            out.append("*")
        elif r < 0.2 and (not out or out[-1] != "**"):
            out.append("**")
            if rng.random() < 0.5:
                continue            # `**` stands for this and maybe further steps
        elif cur["k"] == "map":
            out.append(ev.key_text(ref))
        elif r < 0.6:
            out.append("[%d]" % (ref if rng.random() < 0.7 else ref - len(cur["i"])))
        else:
            out.append(str(ref))
        cur = v
    if cur["k"] not in ("map", "seq", "set") and rng.random() < 0.25:
        out.append("[.%s%s]" % (rng.choice(["=", "!=", ">=", "<="]), ev.scalar_term(cur)))
    return out


def _depth(j):
    if j["k"] == "map":
        return 1 + max([_depth(v) for _k, v in j["e"]] + [0])
    if j["k"] == "seq":
        return 1 + max([_depth(v) for v in j["i"]] + [0])
    return 0


def parent_cases(rng, n):
    """`<prefix>[parent(n)]`, n in 0..4 (and the bare `[parent()]`), after prefixes that reach depth >= 3."""
    out = []
    for _ in range(n):
        d = deep_doc(rng, rng.randint(3, 5), ev.PUNCT_KEYS if rng.random() < 0.3 else ev.RKEYS)
        pre = deep_prefix(rng, d, 3)
        for lv in rng.sample(["", "0", "1", "2", "3", "4"], 3):
            tail = ["[parent(%s)]" % lv]
            if rng.random() < 0.15:
                tail.append(rng.choice(["*", "[parent()]", "[parent(2)]", "[has_child(a)]", "[0]", "a"]))
            out.append((d, pre + tail))
    return out


def run(chk: core.Check):
    core.use_repo()
    opts = {"c02": True, "slash": False}
    if chk.replay_in:
        rp = json.load(open(chk.replay_in))
        c = rp.get("case", rp)
        res = ev.compare_chunk(([(c["doc"], c.get("items") or [c["path"]])], opts))
        print("replay:", json.dumps({"path": c.get("path"), "violations": [(s, w) for s, w, _ in res[1]]}, default=str)[:3000])
        return absorb02(chk, [res])
    rng = random.Random(chk.seed)
    docs3 = ev.small_docs(3)
    cases = [(d, [v]) for d in docs3 for v in ev.VOCAB]
    chk.extra_cov["exhaustive_bound"] = "%d documents (<= 3 nodes) x %d one-segment paths" % (len(docs3), len(ev.VOCAB))
    # every escapable punctuation key, alone and nested, under every way of reaching it
    one = {"k": "int", "v": "1"}
    for k in ev.PUNCT_KEYS + [".", "/", "\\", "(", ")", "[", "]", "^", "$", "%", " ", "'", '"', "a b.c/d"]:
        if not isinstance(k, str):
            continue
        shapes = [{"k": "map", "e": [[k, one]]},
                  {"k": "map", "e": [[k, {"k": "map", "e": [["a", one], [k, one]]}]]},
                  {"k": "map", "e": [[k, {"k": "seq", "i": [one, {"k": "map", "e": [[k, one]]}]}]]},
                  {"k": "seq", "i": [{"k": "map", "e": [[k, one]]}]},
                  {"k": "map", "e": [["s", {"k": "set", "m": [k]}]]}]
        kt = ev.key_text(k)
        for sh in shapes:
            for p in (["*"], ["**"], [kt], ["*", "*"], ["**", "*"], [kt, "*"], [kt, kt], ["*", kt], ["[.!=zz]"], ["**", "[.=1]"],
                      ["s", "*"], ["s", kt], ["[0]", kt], [kt, "[1]", kt]):
                cases.append((sh, p))
    nrand = 150000 if chk.tier == "quick" else 2000000
    for _ in range(nrand):
        d = ev.random_doc(rng, rng.choice([6, 10, 15, 25]), keys=ev.PUNCT_KEYS if rng.random() < 0.6 else None)
        cases.append((d, ev.guided_path(rng, d)))
    cases += parent_cases(rng, 4000 if chk.tier == "quick" else 40000)
    rng.shuffle(cases)
    chk.exhaustive = True
    cases = c01.subsample(chk, cases)
    absorb02(chk, core.pmap(ev.compare_chunk, [(c, opts) for c in core.chunked(cases, 256)]))
    return chk
