"""C02 — every result locates its node: coordinates, ancestry and reported path re-resolve."""
from __future__ import annotations

import json
import random

from harness import core
from harness.props import evaluating as ev
from harness.props import c01

RULE = ("the C01 complete small layer (documents <= 3 nodes x 1-segment vocabulary) plus seeded-random documents (<= 25 nodes; 60% with "
        "keys drawn from the escapable punctuation set  . / \\ ( ) [ ] ^ $ % ' \" space) x document-guided paths of <= 5 segments "
        "(non-keyword fragment).  For every real result of every required query: parent[parentref] is the very node returned "
        "(set: member in parent), the parent's address + reference is the node's address, the ancestry is the chain of "
        "(prefix, next reference) pairs from the root, and str(result.path) evaluated by the real Processor on the same document "
        "returns exactly that node (or every node bearing the anchor when the path ends in [&name]).  Virtual results (slice "
        "lists) are checked member by member.  distinct_nontrivial = distinct (document, path) with a non-empty result; "
        "results at depth >= 2 are counted in the histogram (deep_results).")


def absorb02(chk, results):
    nontrivial = 0
    for stats, viol, disag, samples in results:
        chk.evaluations += stats["n"]
        nontrivial += stats["nontrivial"]
        chk.out_of_model += stats["oom"]
        for k in ("queries", "nonempty", "ypath", "crash", "unparsable", "virtual", "deep_results", "requeries"):
            chk.count(k, stats[k])
        for k, v in stats["kinds"].items():
            chk.count("segment:" + k, v)
        for s in samples:
            chk.sample(s)
        for sig, w, case in viol:
            if case.get("prop") == "C02":
                chk.violation(sig, w, case)
            elif case.get("prop") == "C02-model":
                chk.disagreements_checked += 1
                chk.disagreement(sig, w, case)
            else:
                chk.count("other-property-violations:" + case.get("prop", "?"))
        for sig, w, case in disag:
            chk.disagreements_checked += 1
            chk.disagreement(sig, w, case)
    chk.nontrivial_extra = nontrivial
    # the replay is the smallest failing input found
    chk.violations.sort(key=lambda v: ev.count_nodes(v["case"]["doc"]) * 10 + len(v["case"].get("path") or ""))


def run(chk: core.Check):
    core.use_repo()
    opts = {"c02": True, "slash": False}
    if chk.replay_in:
        rp = json.load(open(chk.replay_in))
        c = rp.get("case", rp)
        res = ev.compare_chunk(([(c["doc"], c.get("items") or [c["path"]])], opts))
        print("replay:", json.dumps({"path": c.get("path"), "violations": [(s, w) for s, w, _ in res[1]]}, default=str)[:3000])
        return absorb02(chk, [res])
    rng = random.Random(chk.seed)
    docs3 = ev.small_docs(3)
    cases = [(d, [v]) for d in docs3 for v in ev.VOCAB]
    chk.extra_cov["exhaustive_bound"] = "%d documents (<= 3 nodes) x %d one-segment paths" % (len(docs3), len(ev.VOCAB))
    # every escapable punctuation key, alone and nested, under every way of reaching it
    one = {"k": "int", "v": "1"}
    for k in ev.PUNCT_KEYS + [".", "/", "\\", "(", ")", "[", "]", "^", "$", "%", " ", "'", '"', "a b.c/d"]:
        if not isinstance(k, str):
            continue
        shapes = [{"k": "map", "e": [[k, one]]},
                  {"k": "map", "e": [[k, {"k": "map", "e": [["a", one], [k, one]]}]]},
                  {"k": "map", "e": [[k, {"k": "seq", "i": [one, {"k": "map", "e": [[k, one]]}]}]]},
                  {"k": "seq", "i": [{"k": "map", "e": [[k, one]]}]},
                  {"k": "map", "e": [["s", {"k": "set", "m": [k]}]]}]
        kt = ev.key_text(k)
        for sh in shapes:
            for p in (["*"], ["**"], [kt], ["*", "*"], ["**", "*"], [kt, "*"], [kt, kt], ["*", kt], ["[.!=zz]"], ["**", "[.=1]"],
                      ["s", "*"], ["s", kt], ["[0]", kt], [kt, "[1]", kt]):
                cases.append((sh, p))
    nrand = 150000 if chk.tier == "quick" else 2000000
    for _ in range(nrand):
        d = ev.random_doc(rng, rng.choice([6, 10, 15, 25]), keys=ev.PUNCT_KEYS if rng.random() < 0.6 else None)
        cases.append((d, ev.guided_path(rng, d)))
    rng.shuffle(cases)
    chk.exhaustive = True
    cases = c01.subsample(chk, cases)
    absorb02(chk, core.pmap(ev.compare_chunk, [(c, opts) for c in core.chunked(cases, 256)]))
    return chk
