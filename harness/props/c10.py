"""C10 — anchor conflicts in a merge follow the chosen policy and the result reloads."""
from __future__ import annotations

import io
import itertools
import json
import random
import signal
from types import SimpleNamespace

from harness import core, codec

RULE = ("pairs of YAML documents (root mapping or sequence, one nested sequence) whose slots hold plain scalars, "
        "scalar anchor definitions and aliases from a pool of three anchor names (x, y, x_1 - so a renamed name can "
        "collide) and values 1, 2, 1.0, true, 'a', custom-tagged texts, values Python reads as false, and quoted texts that "
        "spell another type's literal ('1', 'true', '1.0' next to 1, true, 1.0; !t 1.0 next to !t 1.00 - different values "
        "although a type-coercing comparison would call them equal); all valid 3-slot documents are enumerated and paired (complete in the "
        "thorough tier, seeded sample in the quick tier) plus seeded larger documents; x 4 anchor policies x sampled "
        "array policies.  Per case: (1) the real Merger._resolve_anchor_conflicts on the loaded documents vs the Lean "
        "model `resolve` (documents compared with anchor names and object-identity classes); (2) directly on the real "
        "merge_with: stop refuses iff a conflict exists, left/right make every node of a conflicting name read the "
        "left/right value, rename keeps both under distinct names, the dump (tool's own editor) has no duplicate "
        "anchor and strict-reloads to the merged data.  The policy as the yaml-merge command receives it (--anchors, "
        "[defaults] anchors of --config, both, none) for a sample of pairs; and SERIES of 3-4 documents condensed by one "
        "yaml-merge run (multi-document left file, multi-document right file, one file of three documents, three files; "
        "documents from the pools plus anchor-free ones): under stop the command must refuse iff at some step of the series "
        "- first, middle or last - a same-name anchor differs from the one accumulated so far; otherwise its output is that of "
        "the same series of merges through the API.  For 30 % of the random pairs either side is drawn from further shapes: slots "
        "inside an ANCHORED Hash / Array (nested anchors), anchors defined ON keys and aliases used AS keys (`&x 1: 7`, `*x : 8`), "
        "Hashes with a YAML merge key to an equal anchored Hash on both sides; anchored keys count as nodes of their name in "
        "every clause.  distinct_nontrivial = distinct (left, right, mode) with at "
        "least one anchor name present in both documents.")

NAMES = ["x", "y", "x_1"]
VALUES = ["1", "2", "1.0", "true", "a", "!t a", "!u a", "!t b", "false", "''", "0.0",   # incl. values Python reads as false
          # text that spells another type's literal: '1' / 1 / 1.0 / true, 'true' / true, '1.0' / 1.0 are DIFFERENT values
          # (a string is not a number), as are two texts behind one custom tag
          "'1'", "'true'", "'1.0'", "!t 1.0", "!t 1.00"]
MODES = ["stop", "left", "right", "rename"]


class Timeout(Exception):
    pass


def _alarm(_s, _f):
    raise Timeout()


# --------------------------------------------------------------------------- document generation

def slot_options():
    opts = [("plain", None, "7")]
    for n in NAMES:
        for v in VALUES:
            opts.append(("def", n, v))
        opts.append(("alias", n, None))
    return opts


def valid(slots):
    defined = set()
    for kind, n, _v in slots:
        if kind == "def":
            if n in defined:
                return False
            defined.add(n)
        elif kind == "alias":
            if n not in defined:
                return False
    return True


def render_slot(s):
    kind, n, v = s
    if kind == "plain":
        return v
    if kind == "def":
        return "&%s %s" % (n, v)
    return "*%s" % n


def render_doc(shape, keys, slots):
    """shape 'map': k0: s0, k1: [s1, ...], k2: s_last ; shape 'seq': [s0, {k: s1}, s2...]"""
    r = [render_slot(s) for s in slots]
    if shape == "map":
        lines = ["%s: %s" % (keys[0], r[0])]
        if len(r) > 2:
            lines.append("%s: [%s]" % (keys[1], ", ".join(r[1:-1])))
        if len(r) > 1:
            lines.append("%s: %s" % (keys[2], r[-1]))
        return "\n".join(lines) + "\n"
    if shape == "seq":
        lines = ["- %s" % r[0]]
        if len(r) > 2:
            lines.append("- {%s: %s}" % (keys[1], ", q: ".join(r[1:-1])) if len(r) == 3 else
                         "- [%s]" % ", ".join(r[1:-1]))
        if len(r) > 1:
            lines.append("- %s" % r[-1])
        return "\n".join(lines) + "\n"
    if shape == "mapnest":      # aliases inside a list of lists
        lines = ["%s: %s" % (keys[0], r[0]), "%s: [[%s], 7]" % (keys[1], ", ".join(r[1:]))]
        return "\n".join(lines) + "\n"
    if shape == "seqnest":
        lines = ["- %s" % r[0], "- [[%s], 7]" % ", ".join(r[1:])]
        return "\n".join(lines) + "\n"
    if shape == "mapkeyanch":   # slots sit under ANCHORED keys (`&ka k: <slot>`)
        lines = ["&q%s%d %s: %s" % (keys[0], i, keys[i % 3] + str(i), x) for i, x in enumerate(r)]
        return "\n".join(lines) + "\n"
    if shape == "scalar":
        return r[0] + "\n"
    if shape == "mapbox":       # slots inside an ANCHORED Hash (nested anchors); a third slot outside it
        lines = ["box: &box%s" % keys[0], "  p: %s" % r[0], "  q: %s" % r[1]] + (["%s: %s" % (keys[2], r[2])] if len(r) > 2 else [])
        return "\n".join(lines) + "\n"
    if shape == "maplbox":      # slots inside an ANCHORED Array
        lines = ["lst: &box%s [%s, %s]" % (keys[0], r[0], r[1])] + (["%s: %s" % (keys[2], r[2])] if len(r) > 2 else [])
        return "\n".join(lines) + "\n"
    if shape == "seqbox":
        lines = ["- &box%s [%s, %s]" % (keys[0], r[0], r[1])] + (["- %s" % r[2]] if len(r) > 2 else [])
        return "\n".join(lines) + "\n"
    if shape == "mapkeydef":    # the first two slots are KEYS: `&x 1: 7` defines the anchor on a key, `*x : 8` uses it as a key
        lines = []
        for i, sl in enumerate(slots[:2]):
            lines.append("m%d:" % i)
            lines.append("  %s: %d" % (render_key_slot(sl), 7 + i))
        if len(r) > 2:
            lines.append("%s: %s" % (keys[2], r[2]))
        return "\n".join(lines) + "\n"
    if shape == "mapmk":        # Hashes that pull an anchored Hash in with a YAML merge key; both documents carry an EQUAL &base
        lines = ["base: &base {p: 1, q: 2}", "u%s:" % keys[0], "  <<: *base", "  k: %s" % r[0]]
        if len(r) > 2:
            lines.append("  j: %s" % r[1])
        lines.append("%s: %s" % (keys[2], r[-1]))
        return "\n".join(lines) + "\n"
    raise ValueError(shape)


KEYABLE = {"1", "2", "1.0", "true", "a", "false", "0.0"}


def render_key_slot(s):
    """A slot at a key position; values that do not make a plain key keep the slot as a value under a fixed key."""
    kind, n, v = s
    if kind == "plain":
        return "p" + v
    if kind == "alias":
        return "*%s " % n
    if v in KEYABLE:
        return "&%s %s" % (n, v)
    return "kv: %s\n  k%s" % (render_slot(s), n)


def all_docs(nslots):
    opts = slot_options()
    out = []
    for slots in itertools.product(opts, repeat=nslots):
        if valid(slots) and any(k != "plain" for k, _n, _v in slots):
            out.append(slots)
    return out


# --------------------------------------------------------------------------- canonical forms

def is_tagged(v):
    return type(v).__name__ == "TaggedScalar"


def vj(v):
    """Value of a scalar node as model JSON; a tagged scalar is opaque text `<tag> <value>`."""
    if is_tagged(v):
        return {"k": "opaque", "v": "%s %s" % (v.tag.value, v.value)}
    return codec.scalar_to_json(v)


def veq(a, b):
    """Equality of two anchored values as the property means it (tagged: same tag and value)."""
    if is_tagged(a) or is_tagged(b):
        return is_tagged(a) and is_tagged(b) and a.tag.value == b.tag.value and a.value == b.value
    return a == b


def adoc(node, ids):
    """ruamel data -> model JSON with anchor names and object-identity classes."""
    from ruamel.yaml.comments import CommentedMap, CommentedSeq, CommentedSet
    if isinstance(node, CommentedSet):
        raise codec.OutOfModel("set")
    if isinstance(node, dict):
        if codec.anchor_of(node):
            raise codec.OutOfModel("anchored map")
        es = []
        for k, v in node.items():
            if codec.anchor_of(k):
                raise codec.OutOfModel("anchored key")
            es.append([codec.key_to_json(k), adoc(v, ids)])
        return {"k": "map", "e": es}
    if isinstance(node, list):
        if codec.anchor_of(node):
            raise codec.OutOfModel("anchored seq")
        return {"k": "seq", "i": [adoc(v, ids) for v in node]}
    j = vj(node)
    a = codec.anchor_of(node)
    if a:
        j["a"] = a
        j["o"] = ids.setdefault(id(node), len(ids) + 1)
    return j


def canon_oids(pair):
    """Renumber object ids by first occurrence over (left, right)."""
    m = {}

    def go(j):
        if j["k"] == "map":
            return {"k": "map", "e": [[k, go(v)] for k, v in j["e"]]}
        if j["k"] == "seq":
            return {"k": "seq", "i": [go(v) for v in j["i"]]}
        if "o" in j:
            j = dict(j)
            j["o"] = m.setdefault(j["o"], len(m) + 1)
        return j
    return [go(pair[0]), go(pair[1])]


def kj(k):
    """A key as comparable data (text / integer keys as they are; Boolean, float, tagged keys as their scalar JSON text)."""
    try:
        return codec.key_to_json(k)
    except codec.OutOfModel:
        return json.dumps(vj(k), sort_keys=True)


def plain_json(node):
    """Data of a document for the reload comparison (tags kept as text, anchors dropped)."""
    if isinstance(node, dict):
        return {"k": "map", "e": [[kj(k), plain_json(v)] for k, v in node.items()]}
    if isinstance(node, list):
        return {"k": "seq", "i": [plain_json(v) for v in node]}
    return vj(node)


def anchored_nodes(node, acc=None):
    """(name, value-json, id) of every anchored scalar occurrence of real data."""
    if acc is None:
        acc = []
    if isinstance(node, dict):
        for k, v in node.items():
            if codec.anchor_of(k):      # an anchor defined on (or an alias used as) a key
                acc.append((codec.anchor_of(k), k, id(k)))
            anchored_nodes(v, acc)
    elif isinstance(node, list):
        for v in node:
            anchored_nodes(v, acc)
    else:
        a = codec.anchor_of(node)
        if a:
            acc.append((a, node, id(node)))
    return acc


# --------------------------------------------------------------------------- running one case

def load(text, log):
    from yamlpath.common import Parsers
    y = Parsers.get_yaml_editor()
    data, ok = Parsers.get_yaml_data(y, log, text, literal=True)
    if not ok:
        raise core.Infra("generated document does not load: %r" % text)
    return data


def run_case(case, log, drv_reqs, drv_ctx):
    """Runs the real code for one case; queues the model request; returns partial record."""
    from yamlpath.merger import Merger, MergerConfig
    from yamlpath.merger.exceptions import MergeException
    from yamlpath.common import Parsers
    ltxt, rtxt, mode, arrays = case.get("l"), case.get("r"), case["mode"], case.get("arrays", "all")
    rec = {"case": case, "viol": [], "skip": False}
    chain = case.get("r0")      # an earlier right-hand document merged first by the same Merger
    mergeat = case.get("mergeat")
    if chain is not None:
        return run_chain(case, log, rec)
    if case.get("files"):
        return run_cli_multi(case, log, rec)
    if case.get("via"):
        return run_cli(case, log, rec)
    # ---- (1) resolution step alone
    lhs, rhs = load(ltxt, log), load(rtxt, log)
    ids = {}
    try:
        req = {"op": "C10.resolve", "mode": mode, "l": adoc(lhs, ids), "r": adoc(rhs, ids)}
    except codec.OutOfModel:
        # anchored keys / containers: outside the Lean model; the property's clauses are still judged on the real code
        rec["oom"] = True
        lhs, rhs = load(ltxt, log), load(rtxt, log)
        merger = Merger(log, lhs, MergerConfig(log, SimpleNamespace(anchors=mode, arrays=arrays)))
        return judge_merge(merger, rhs, rtxt, mode, rec)
    merger = Merger(log, lhs, MergerConfig(log, SimpleNamespace(anchors=mode, arrays=arrays)))
    try:
        ret = merger._resolve_anchor_conflicts(rhs)
        if ret is not None:   # since fix e47a211 the (possibly replaced) right-hand document is returned
            rhs = ret
        ids2 = dict(ids)
        rec["impl_resolve"] = {"ok": canon_oids([adoc(merger.data, ids2), adoc(rhs, ids2)])}
    except MergeException:
        rec["impl_resolve"] = {"err": "merge"}
    except Exception as e:  # noqa
        rec["impl_resolve"] = {"err": core.exc_class(e)}
        rec["viol"].append(("resolve-" + core.exc_class(e) + "@" + core.crash_site(e),
                            "anchor resolution raised %s" % type(e).__name__))
    drv_reqs.append(req)
    drv_ctx.append(rec)
    # ---- (2) the property on the whole merge
    lhs, rhs = load(ltxt, log), load(rtxt, log)
    merger = Merger(log, lhs, MergerConfig(log, SimpleNamespace(anchors=mode, arrays=arrays)))
    return judge_merge(merger, rhs, rtxt, mode, rec)


def run_chain(case, log, rec):
    """One Merger merges r0 and then r at a non-root path: the clauses are judged for the second
    merge against the document as it stands after the first."""
    from yamlpath.merger import Merger, MergerConfig
    from yamlpath.merger.exceptions import MergeException
    lhs, r0, rhs = load(case["l"], log), load(case["r0"], log), load(case["r"], log)
    merger = Merger(log, lhs, MergerConfig(log, SimpleNamespace(
        anchors=case["mode"], arrays=case.get("arrays", "all"), mergeat=case["mergeat"])))
    try:
        merger.merge_with(r0)
    except MergeException:
        rec["skip"] = True
        return rec
    except Exception as e:  # noqa
        rec["viol"].append(("merge-" + core.exc_class(e) + "@" + core.crash_site(e),
                            "first merge_with raised %s" % type(e).__name__))
        return rec
    return judge_merge(merger, rhs, case["r"], case["mode"], rec)


def run_cli(case, log, rec):
    """The policy as the yaml-merge command receives it: -a/--anchors on the command line (via='cli'), [defaults] anchors
    of a --config file (via='config'), both with the command line overriding (via='both': `cfgmode` in the file), or none
    (via='none': built-in stop).  Clauses judged on the command's own outcome: it refuses iff the effective policy is stop
    and a same-name anchor differs; otherwise its output is the document the merge under the effective policy defines
    (the same merge through the API, whose clauses are judged by the other cases)."""
    import os
    from yamlpath.merger import Merger, MergerConfig
    from yamlpath.merger.exceptions import MergeException
    from yamlpath.common import Parsers
    from harness.props import cli_common as cc
    via, mode = case["via"], case["mode"]
    rec["cli"] = True
    d = cc.tmpdir()
    lf, rf, cf = (os.path.join(d, "c10-%d-%s" % (os.getpid(), n)) for n in ("l.yaml", "r.yaml", "m.ini"))
    for p, t in ((lf, case["l"]), (rf, case["r"])):
        with open(p, "w") as fh:
            fh.write(t)
    argv = ["--nostdin"]
    if via in ("config", "both"):
        with open(cf, "w") as fh:
            fh.write("[defaults]\nanchors = %s\n" % (case["cfgmode"] if via == "both" else mode))
        argv += ["--config", cf]
    if via in ("cli", "both"):
        argv += ["--anchors", mode]
    if case.get("arrays"):
        argv += ["--arrays", case["arrays"]]
    argv += [lf, rf]
    lhs, rhs = load(case["l"], log), load(case["r"], log)
    lanch = {n: nd for n, nd, _i in anchored_nodes(lhs)}
    ranch = {n: nd for n, nd, _i in anchored_nodes(rhs)}
    common = [n for n in ranch if n in lanch]
    conflicts = [n for n in common if not veq(lanch[n], ranch[n])]
    rec["common"], rec["conflicts"] = len(common), len(conflicts)
    res = cc.run_inproc("merge", argv)
    if res.get("timeout"):
        rec["viol"].append(("timeout", "yaml-merge did not finish"))
        return rec
    if "crash" in res:
        rec["viol"].append(("cli-" + res["crash"] + "@" + res.get("site", "?"), "yaml-merge %s let %s escape" % (argv[:-2], res["crash"])))
        return rec
    refused = res["rc"] != 0
    want_refused = mode == "stop" and bool(conflicts)
    how = {"cli": "--anchors=%s" % mode, "config": "[defaults] anchors = %s in --config" % mode,
           "both": "--anchors=%s over [defaults] anchors = %s" % (mode, case.get("cfgmode")), "none": "no anchor policy given (stop)"}[via]
    if refused and not want_refused:
        # an exit status other than the refusal may be a structural merge error: the API decides
        merger = Merger(log, lhs, MergerConfig(log, SimpleNamespace(anchors=mode, arrays=case.get("arrays", "all"))))
        try:
            merger.merge_with(rhs)
        except MergeException:
            return rec
        except Exception:  # noqa: judged by the API cases
            return rec
        rec["viol"].append(("policy-delivery:%s:refused-under-%s" % (via, mode),
                            "yaml-merge with %s exits %d (%s) on a merge the policy %s resolves" % (
                                how, res["rc"], res["err"].strip().split("\n")[-1][:120], mode)))
        return rec
    if want_refused and not refused:
        rec["viol"].append(("policy-delivery:%s:stop-accepts-conflict" % via,
                            "yaml-merge with %s merged although %s differ" % (how, conflicts)))
        return rec
    if refused:
        return rec
    merger = Merger(log, lhs, MergerConfig(log, SimpleNamespace(anchors=mode, arrays=case.get("arrays", "all"))))
    try:
        merger.merge_with(rhs)
        y = Parsers.get_yaml_editor()
        merger.prepare_for_dump(y, "out.yaml")
        buf = io.StringIO()
        y.dump(merger.data, buf)
    except Exception:  # noqa: judged by the API cases
        return rec
    got, ok = Parsers.get_yaml_data(Parsers.get_yaml_editor(), log, res["out"], literal=True)
    exp, ok2 = Parsers.get_yaml_data(Parsers.get_yaml_editor(), log, buf.getvalue(), literal=True)
    if not ok2:
        return rec
    def view(dt):
        return [plain_json(dt), sorted((n, json.dumps(vj(nd), sort_keys=True)) for n, nd, _i in anchored_nodes(dt))]
    if not ok or view(got) != view(exp):
        rec["viol"].append(("policy-delivery:%s:not-%s" % (via, mode),
                            "yaml-merge with %s wrote %r; the policy %s defines %r" % (how, res["out"], mode, buf.getvalue())))
    return rec


def run_cli_multi(case, log, rec):
    """Several documents condensed by one yaml-merge run (default multi-document mode): `files` is a list of files, each a
    list of document texts (a multi-document left file, a multi-document right file, one file of three documents, three
    files).  The command merges them in file order, document order, into the first.  Clauses judged on the command's own
    outcome: under stop (given by --anchors, by the configuration file or by default) it refuses (non-zero exit status)
    iff at SOME step a same-name anchor of the document merged in differs from the one accumulated so
    far, wherever in the series that step is; otherwise its output is the document the same series of merges through the
    API gives (whose single steps are judged by the clause checks of the other cases)."""
    import os
    from yamlpath.merger import Merger, MergerConfig
    from yamlpath.merger.exceptions import MergeException
    from yamlpath.common import Parsers
    from harness.props import cli_common as cc
    via, mode, files = case["via"], case["mode"], case["files"]
    rec["cli"] = True
    d = cc.tmpdir()
    paths = []
    for i, docs in enumerate(files):
        p = os.path.join(d, "c10m-%d-%d.yaml" % (os.getpid(), i))
        with open(p, "w") as fh:
            fh.write("".join("---\n" + t for t in docs) if len(docs) > 1 else docs[0])
        paths.append(p)
    argv = ["--nostdin"]
    if via == "config":
        cf = os.path.join(d, "c10m-%d.ini" % os.getpid())
        with open(cf, "w") as fh:
            fh.write("[defaults]\nanchors = %s\n" % mode)
        argv += ["--config", cf]
    elif via == "cli":
        argv += ["--anchors", mode]
    if case.get("arrays"):
        argv += ["--arrays", case["arrays"]]
    argv += paths
    # the series through the API, step by step
    texts = [t for docs in files for t in docs]
    acc = Merger(log, load(texts[0], log), MergerConfig(log, SimpleNamespace(anchors=mode, arrays=case.get("arrays", "all"))))
    refusing_step, ncommon, nconf = None, 0, 0
    for k, t in enumerate(texts[1:], 1):
        doc = load(t, log)
        lanch = {n: nd for n, nd, _i in anchored_nodes(acc.data)}
        ranch = {n: nd for n, nd, _i in anchored_nodes(doc)}
        common = [n for n in ranch if n in lanch]
        conflicts = [n for n in common if not veq(lanch[n], ranch[n])]
        ncommon += len(common)
        nconf += len(conflicts)
        if mode == "stop" and conflicts:
            refusing_step = (k, conflicts)
            break
        try:
            acc.merge_with(doc)
        except Exception:  # noqa: a structural refusal or a crash of a single step is judged by the API cases
            rec["skip"] = True
            return rec
    rec["common"], rec["conflicts"] = ncommon, nconf
    rec["multi"] = "refusal-demanded-at-%s-step" % ("last" if refusing_step and refusing_step[0] == len(texts) - 1 else "an-earlier") \
        if refusing_step else "accepted"
    res = cc.run_inproc("merge", argv)
    if res.get("timeout"):
        rec["viol"].append(("timeout", "yaml-merge did not finish"))
        return rec
    if "crash" in res:
        rec["viol"].append(("cli-" + res["crash"] + "@" + res.get("site", "?"), "yaml-merge %s let %s escape" % (argv[:-len(paths)], res["crash"])))
        return rec
    how = {"cli": "--anchors=%s" % mode, "config": "[defaults] anchors = %s in --config" % mode, "none": "no anchor policy given (stop)"}[via]
    shape = "files of %s documents" % "+".join(str(len(x)) for x in files)
    if refusing_step is not None:
        if res["rc"] == 0:
            rec["viol"].append(("multidoc:stop-accepts-conflict",
                                "yaml-merge with %s condensing %s exits 0 and writes %r although document %d of the series defines %s "
                                "with another value than the documents before it" % (how, shape, res["out"][:200],
                                                                                      refusing_step[0] + 1, refusing_step[1])))
        return rec
    if res["rc"] != 0:
        rec["viol"].append(("multidoc:refused-under-%s" % mode,
                            "yaml-merge with %s condensing %s exits %d (%s); every step of the series is accepted by the policy" % (
                                how, shape, res["rc"], res["err"].strip().split("\n")[-1][:120])))
        return rec
    try:
        y = Parsers.get_yaml_editor()
        acc.prepare_for_dump(y, "out.yaml")
        buf = io.StringIO()
        y.dump(acc.data, buf)
    except Exception:  # noqa: judged by the API cases
        return rec
    got, ok = Parsers.get_yaml_data(Parsers.get_yaml_editor(), log, res["out"], literal=True)
    exp, ok2 = Parsers.get_yaml_data(Parsers.get_yaml_editor(), log, buf.getvalue(), literal=True)
    if not ok2:
        return rec

    def view(dt):
        return [plain_json(dt), sorted((n, json.dumps(vj(nd), sort_keys=True)) for n, nd, _i in anchored_nodes(dt))]
    if not ok or view(got) != view(exp):
        rec["viol"].append(("multidoc:not-%s" % mode,
                            "yaml-merge with %s condensing %s wrote %r; the series of merges under %s defines %r" % (
                                how, shape, res["out"], mode, buf.getvalue())))
    return rec


def judge_merge(merger, rhs, rtxt, mode, rec):
    """The property's clauses for merging `rhs` into merger.data (as it stands now)."""
    from yamlpath.merger.exceptions import MergeException
    from yamlpath.common import Parsers
    log = merger.logger
    lhs = merger.data
    lanch, ranch = {}, {}
    for n, node, _i in anchored_nodes(lhs):
        lanch[n] = node
    rocc = anchored_nodes(rhs)
    for n, node, _i in rocc:
        ranch[n] = node
    common = [n for n in ranch if n in lanch]
    conflicts = [n for n in common if not veq(lanch[n], ranch[n])]
    rec["common"] = len(common)
    rec["conflicts"] = len(conflicts)
    lvals = {n: vj(lanch[n]) for n in common}
    rvals = {n: vj(ranch[n]) for n in common}
    r_ids = {n: {i for (m, _nd, i) in rocc if m == n} for n in conflicts}
    all_names = set(lanch) | set(ranch)
    try:
        merger.merge_with(rhs)
        merged_ok = True
    except MergeException:
        merged_ok = False
    except Exception as e:  # noqa
        rec["viol"].append(("merge-" + core.exc_class(e) + "@" + core.crash_site(e),
                            "merge_with raised %s" % type(e).__name__))
        return rec
    rec["merged_ok"] = merged_ok
    if mode == "stop":
        if merged_ok and conflicts:
            rec["viol"].append(("stop-accepts-conflict", "anchors=stop merged although %s differ" % conflicts))
        if not merged_ok and not conflicts:
            rec["viol"].append(("refused-without-conflict", "merge refused although no same-name anchor differs"))
    elif not merged_ok:
        rec["viol"].append(("refused-under-" + mode, "merge refused under anchors=%s" % mode))
    if not merged_ok:
        return rec
    res = anchored_nodes(merger.data)
    for n in conflicts:
        here = [(nd, i) for (m, nd, i) in res if m == n]
        if mode == "left":
            bad = [nd for nd, _i in here if vj(nd) != lvals[n]]
            if bad:
                rec["viol"].append(("left-not-left", "anchors=left: a node named %s reads %r, not the left value" % (n, bad[0])))
        elif mode == "right":
            bad = [nd for nd, _i in here if vj(nd) != rvals[n]]
            if bad:
                rec["viol"].append(("right-not-right", "anchors=right: a node named %s reads %r, not the right value" % (n, bad[0])))
        elif mode == "rename":
            bad = [nd for nd, _i in here if vj(nd) != lvals[n]]
            if bad:
                rec["viol"].append(("rename-left-changed", "anchors=rename: a node named %s no longer reads the left value" % n))
            newnames = {m for (m, _nd, i) in res if i in r_ids[n]}
            if len(newnames) > 1:
                rec["viol"].append(("rename-inconsistent", "right-hand %s renamed inconsistently: %s" % (n, sorted(newnames))))
            if newnames & all_names:
                rec["viol"].append(("rename-collides", "right-hand %s renamed to an existing name %s" % (n, sorted(newnames & all_names))))
            for (m, nd, i) in res:
                if i in r_ids[n] and vj(nd) != rvals[n]:
                    rec["viol"].append(("rename-right-changed", "renamed right-hand %s lost its value" % n))
    # serialisation: no duplicate anchor, strict reload gives the same data
    try:
        y = Parsers.get_yaml_editor()
        merger.prepare_for_dump(y, "out.yaml")
        buf = io.StringIO()
        y.dump(merger.data, buf)
        text = buf.getvalue()
    except Exception as e:  # noqa
        rec["viol"].append(("dump-" + core.exc_class(e), "dumping the merged document raised %s" % type(e).__name__))
        return rec
    defs = [w for w in text.replace("[", " ").replace(",", " ").split() if w.startswith("&")]
    if len(defs) != len(set(defs)):
        rec["viol"].append(("duplicate-anchor:" + mode + (":scalar-root-rhs" if not rtxt.lstrip().startswith(("-", "{", "[")) and ":" not in rtxt.split("\n")[0] else ""),
                            "the merged document serialises with a duplicate anchor: %r" % text))
    else:
        y2 = Parsers.get_yaml_editor()
        d2, ok = Parsers.get_yaml_data(y2, log, text, literal=True)
        if not ok:
            rec["viol"].append(("reload-fails", "the merged document does not reload: %r" % text))
        elif plain_json(d2) != plain_json(merger.data):
            rec["viol"].append(("reload-differs", "the merged document reloads to different data: %r" % text))
    return rec


def worker(cases):
    core.use_repo()
    log = core.quiet_logger()
    reqs, ctx, recs = [], [], []
    old = signal.signal(signal.SIGVTALRM, _alarm)
    try:
        for c in cases:
            signal.setitimer(signal.ITIMER_VIRTUAL, 10.0)
            try:
                recs.append(run_case(c, log, reqs, ctx))
            except Timeout:
                recs.append({"case": c, "viol": [("timeout", "merge did not finish in 10 s")], "skip": False})
            finally:
                signal.setitimer(signal.ITIMER_VIRTUAL, 0)
    finally:
        signal.signal(signal.SIGVTALRM, old)
    model = core.Driver().ask(reqs)
    out = {"n": 0, "skip": 0, "nontrivial": set(), "viol": [], "disag": [], "hist": {}, "samples": []}
    for rec, mo in zip(ctx, model):
        if "ok" in mo:
            mo_c = {"ok": canon_oids(mo["ok"])}
        else:
            mo_c = {"err": mo["err"]}
        rec["model_resolve"] = mo_c
    for rec in recs:
        out["n"] += 1
        c = rec["case"]
        if rec.get("skip"):
            out["skip"] += 1
            continue
        if rec.get("oom"):
            out["skip"] += 1     # counted as out of model; the direct clauses below were still judged
        key = "%s|%s|%s|%s|%s|%s" % (c.get("l"), c.get("r0"), c.get("r"), c["mode"], c.get("via"), c.get("files"))
        if c.get("via"):
            out["hist"]["policy via " + c["via"]] = out["hist"].get("policy via " + c["via"], 0) + 1
        if rec.get("multi"):
            hk = "multidoc %s mode=%s: %s" % ("+".join(str(len(x)) for x in c["files"]), c["mode"], rec["multi"])
            out["hist"][hk] = out["hist"].get(hk, 0) + 1
        if rec.get("common"):
            out["nontrivial"].add(hash(key))
        h = "mode=%s conflicts=%s" % (c["mode"], min(rec.get("conflicts", 0), 2))
        out["hist"][h] = out["hist"].get(h, 0) + 1
        for sig, what in rec["viol"]:
            out["viol"].append((sig, what, c))
        ir, mr = rec.get("impl_resolve"), rec.get("model_resolve")
        if ir is not None and mr is not None and ir != mr:
            out["disag"].append(("resolve-differs:" + c["mode"], "resolution of %r / %r under %s: impl %s model %s" % (
                c["l"], c["r"], c["mode"], json.dumps(ir)[:300], json.dumps(mr)[:300]), c))
        if len(out["samples"]) < 2 and rec.get("conflicts"):
            out["samples"].append({"case": c, "resolved": ir})
    out["viol"] = out["viol"][:40]
    out["disag"] = out["disag"][:40]
    return out


CORPUS = [
    {"l": "a: &x 1\nb: *x\nc: [*x, 2]\n", "r": "d: &x 2\ne: *x\nf: [*x]\n"},
    {"l": "a: &x 1\nb: &x_1 5\nc: *x\n", "r": "d: &x 2\ne: *x\n"},
    {"l": "a: &x 1\n", "r": "d: &x 2\ne: &x_1 7\nf: [*x, *x_1]\n"},
    {"l": "- &x 1\n- *x\n", "r": "&x 2\n"},
    {"l": "- &x 1\n- *x\n", "r": "- &x 1.0\n- *x\n"},
    {"l": "k: &x 1\nl: [*x, 3]\n", "r": "j: &x true\nl: [*x, 4]\n"},
    {"l": "a: &x 1\nb: *x\n", "r": "b: &x 2\n"},
]


def gen_cases(chk):
    rng = random.Random(chk.seed)
    cases = []
    for c in CORPUS:
        for m in MODES:
            cases.append(dict(c, mode=m))
    docs3 = all_docs(3)
    docs2 = all_docs(2)
    docs1 = all_docs(1)
    def mk(shape, keys, slots):
        return render_doc(shape, keys, slots)
    lkeys, rkeys = ["a", "b", "c"], ["c", "b", "e"]
    # only structurally mergeable pairs: map + map, seq + seq, seq + scalar
    pools = {
        "map": ([mk("map", lkeys, s) for s in docs3] + [mk("map", lkeys, s) for s in docs2]
                + [mk("mapnest", lkeys, s) for s in docs3] + [mk("mapkeyanch", lkeys, s) for s in docs2],
                [mk("map", rkeys, s) for s in docs3] + [mk("map", rkeys, s) for s in docs2]
                + [mk("mapnest", rkeys, s) for s in docs3] + [mk("mapkeyanch", rkeys, s) for s in docs2]),
        "seq": ([mk("seq", lkeys, s) for s in docs3] + [mk("seq", lkeys, s) for s in docs2]
                + [mk("seqnest", lkeys, s) for s in docs3],
                [mk("seq", rkeys, s) for s in docs3] + [mk("seq", rkeys, s) for s in docs2]
                + [mk("seqnest", rkeys, s) for s in docs3]
                + [mk("scalar", rkeys, s) for s in docs1] * 20),
    }
    chk.extra_cov["document_pool"] = {k: [len(v[0]), len(v[1])] for k, v in pools.items()}
    # nested anchors (slots inside an anchored Hash / Array), anchors defined on keys and aliases used as keys, Hashes with
    # YAML merge keys to an (equal) anchored Hash: all 2-slot documents and a seeded sample of the 3-slot ones
    some3 = rng.sample(docs3, min(len(docs3), 12000))
    extra = {
        "map": tuple([mk(sh, ks, sl) for sh in ("mapbox", "maplbox", "mapkeydef", "mapmk") for sl in docs2 + some3]
                     for ks in (lkeys, rkeys)),
        "seq": tuple([mk("seqbox", ks, sl) for sl in docs2 + some3] for ks in (lkeys, rkeys)),
    }
    chk.extra_cov["nested_key_mergekey_pool"] = {k: [len(v[0]), len(v[1])] for k, v in extra.items()}
    if chk.tier == "thorough":
        p2l = [mk("map", lkeys, s) for s in docs2]
        p2r = [mk("map", rkeys, s) for s in docs2]
        for l in p2l:
            for r in p2r:
                for m in MODES:
                    cases.append({"l": l, "r": r, "mode": m})
        s2l = [mk("seq", lkeys, s) for s in docs2]
        s1r = [mk("scalar", rkeys, s) for s in docs1]
        for l in s2l:
            for r in s1r:
                for m in MODES:
                    cases.append({"l": l, "r": r, "mode": m})
        n = 400000
        chk.exhaustive = True
        chk.extra_cov["exhaustive_bound"] = "all pairs of 2-slot mapping documents, and all 2-slot sequences x scalar-root right documents, x 4 policies"
    else:
        n = 36000
    # one Merger merging two right-hand documents in turn at a non-root path
    pl_map, pr_map = pools["map"]
    for _ in range(n // 6):
        cases.append({"l": "sub: {k0: 0}\n" + rng.choice(pl_map), "r0": rng.choice(pr_map), "r": rng.choice(pr_map),
                      "mode": rng.choice(MODES), "mergeat": "sub", "arrays": rng.choice(["all", "unique"])})
    for _ in range(n):
        kind = rng.choice(["map", "map", "seq"])
        pl, pr = pools[kind]
        if rng.random() < 0.3:
            pl = extra[kind][0]
        if rng.random() < 0.3:
            pr = extra[kind][1]
        cases.append({"l": rng.choice(pl), "r": rng.choice(pr), "mode": rng.choice(MODES),
                      "arrays": rng.choice(["all", "all", "unique", "left", "right"])})
    # the policy as the yaml-merge command receives it: command line, configuration file, both, none
    for c in CORPUS:
        for m in MODES:
            for via in ("cli", "config", "both"):
                cases.append(dict(c, mode=m, via=via, cfgmode=MODES[(MODES.index(m) + 1) % 4]))
        cases.append(dict(c, mode="stop", via="none"))
    for _ in range(n // 12):
        kind = rng.choice(["map", "map", "seq"])
        pl, pr = pools[kind]
        via = rng.choice(["cli", "config", "config", "both", "none"])
        m = "stop" if via == "none" else rng.choice(MODES)
        c = {"l": rng.choice(pl), "r": rng.choice(pr), "mode": m, "via": via, "arrays": rng.choice(["all", "unique"])}
        if via == "both":
            c["cfgmode"] = rng.choice(MODES)
        cases.append(c)
    # several documents condensed by ONE yaml-merge run: the refusal under stop wherever in the series the conflict is
    plm, prm = pools["map"]
    benign = ["z: 5\n", "c: 7\nz: [1]\n", "e: {q: 1}\n"]
    for i in range(n // 18):
        def pick(first=False):
            if not first and rng.random() < 0.35:
                return rng.choice(benign)
            return rng.choice(plm if first else prm)
        shape = rng.choice([(1, 2), (1, 3), (2, 1), (3, 1), (3,), (1, 1, 1), (2, 2), (1, 2, 1)])
        files, first = [], True
        for cnt in shape:
            files.append([pick(first and j == 0) for j in range(cnt)])
            first = False
        via = rng.choice(["cli", "cli", "config", "none"])
        m = "stop" if via == "none" else rng.choice(["stop", "stop", "left", "right", "rename"])
        cases.append({"files": files, "mode": m, "via": via, "arrays": rng.choice(["all", "unique"])})
    return cases


def run(chk: core.Check):
    core.use_repo()
    if chk.replay_in:
        rp = json.load(open(chk.replay_in))
        cases = [rp.get("case", rp)]
    else:
        cases = gen_cases(chk)
    results = core.pmap(worker, core.chunked(cases, 64))
    nontrivial = set()
    for out in results:
        chk.evaluations += out["n"]
        chk.out_of_model += out["skip"]
        nontrivial |= out["nontrivial"]
        for k, v in out["hist"].items():
            chk.count(k, v)
        for s in out["samples"]:
            chk.sample(s)
        for sig, what, c in out["viol"]:
            chk.violation(sig, what, c)
        for sig, what, c in out["disag"]:
            chk.disagreements_checked += 1
            chk.disagreement(sig, what, c)
    chk.nontrivial_extra = len(nontrivial)
    return chk
