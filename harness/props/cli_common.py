"""Running the real console entry points of yamlpath (C16): in-process with argv / stdin / stdout
replaced, and as subprocesses; parsing their output back to data."""
from __future__ import annotations

import importlib
import io
import json
import os
import shutil
import signal
import subprocess
import sys
import tempfile

from harness import codec, core

TOOLS = {"get": "yaml_get", "set": "yaml_set", "merge": "yaml_merge", "diff": "yaml_diff",
         "validate": "yaml_validate", "paths": "yaml_paths"}


class Timeout(Exception):
    pass


def _alarm(_s, _f):
    raise Timeout()


class FakeStdin(io.StringIO):
    """Stands for the process's standard input: text content + tty flag."""

    def __init__(self, text="", tty=False):
        super().__init__(text)
        self._tty = tty

    def isatty(self):
        return self._tty


_TMP = None
_TMP_PID = None


def tmpdir():
    """A private scratch directory per worker process (removed at exit)."""
    global _TMP, _TMP_PID
    if _TMP is None or _TMP_PID != os.getpid() or not os.path.isdir(_TMP):
        _TMP = tempfile.mkdtemp(prefix="ypv-cli-")
        _TMP_PID = os.getpid()
        import atexit
        d, pid = _TMP, _TMP_PID
        atexit.register(lambda: os.getpid() == pid and shutil.rmtree(d, ignore_errors=True))
    return _TMP


def cleanup_tmp():
    global _TMP
    if _TMP is not None and _TMP_PID == os.getpid():
        shutil.rmtree(_TMP, ignore_errors=True)
        _TMP = None


def run_inproc(tool, argv, stdin_text="", tty=False, limit_s=20.0):
    """Call yamlpath.commands.<tool>.main() in this process.
    -> {"rc": exit status, "out": stdout text, "err": stderr text} | {"crash": class, "site": …, "out": …}
       | {"timeout": True}"""
    import yamlpath.common.parsers as parsers_mod
    mod = importlib.import_module("yamlpath.commands." + TOOLS[tool])
    fake = FakeStdin(stdin_text, tty)
    out, err = io.StringIO(), io.StringIO()
    saved = (sys.argv, sys.stdout, sys.stderr, sys.stdin, parsers_mod.stdin)
    old = signal.signal(signal.SIGVTALRM, _alarm)
    signal.setitimer(signal.ITIMER_VIRTUAL, limit_s)
    try:
        sys.argv = ["yaml-" + tool] + list(argv)
        sys.stdout, sys.stderr, sys.stdin = out, err, fake
        parsers_mod.stdin = fake
        try:
            mod.main()
            rc = 0
        except SystemExit as se:
            rc = se.code if isinstance(se.code, int) else (0 if se.code is None else 1)
        return {"rc": rc, "out": out.getvalue(), "err": err.getvalue()}
    except Timeout:
        return {"timeout": True}
    except RecursionError as e:
        return {"crash": "crash:RecursionError", "site": core.crash_site(e), "out": out.getvalue()}
    except Exception as e:  # noqa: the tool let an exception escape
        return {"crash": core.exc_class(e), "site": core.crash_site(e), "out": out.getvalue(),
                "msg": str(e)[:200]}
    finally:
        signal.setitimer(signal.ITIMER_VIRTUAL, 0)
        signal.signal(signal.SIGVTALRM, old)
        sys.argv, sys.stdout, sys.stderr, sys.stdin, parsers_mod.stdin = saved


def run_subproc(tool, argv, stdin_text=None, limit_s=240.0):
    """The tool as a separate process (`python -m yamlpath.commands.<tool>`), stdin a pipe (never a TTY);
    `stdin_text=None` closes it empty."""
    env = dict(os.environ)
    env["PYTHONPATH"] = core.REPO
    env[core.GUARD] = "1"
    try:
        p = subprocess.run([sys.executable, "-m", "yamlpath.commands." + TOOLS[tool]] + list(argv),
                           input=(stdin_text or "").encode("utf-8"), stdout=subprocess.PIPE, stderr=subprocess.PIPE,
                           timeout=limit_s, env=env, cwd=tmpdir())
    except subprocess.TimeoutExpired:
        return {"timeout": True}
    out = p.stdout.decode("utf-8", "replace")
    err = p.stderr.decode("utf-8", "replace")
    if "Traceback (most recent call last)" in err:
        last = [l for l in err.strip().split("\n") if l.strip()][-1]
        site = "?"
        for l in err.split("\n"):
            if "/yamlpath/" in l and l.strip().startswith("File"):
                try:
                    site = "%s:%s" % (os.path.basename(l.split('"')[1]), l.rsplit(" in ", 1)[1].strip())
                except Exception:
                    pass
        return {"crash": "crash:" + last.split(":")[0].split(".")[-1], "site": site, "out": out, "rc": p.returncode}
    return {"rc": p.returncode, "out": out, "err": err}


# --------------------------------------------------------------------------- documents <-> text

def plain_json(j):
    """canonical document JSON -> the data `json.dumps(Parsers.jsonify_yaml_data(node))` prints, re-read
    by `json.loads` (sets become {member: null}, keys become text)."""
    k = j["k"]
    if k == "map":
        return {_jkey(kk): plain_json(v) for kk, v in j["e"]}
    if k == "seq":
        return [plain_json(v) for v in j["i"]]
    if k == "set":
        return {_jkey(m): None for m in j["m"]}
    return codec.json_to_plain(j)


def _jkey(k):
    if isinstance(k, bool):
        return "true" if k else "false"
    return str(k)


def dump_yaml(docs, path=None, explicit_start=True):
    """Write canonical documents as one YAML stream (ruamel round-trip dumper, as the tools use it)."""
    from yamlpath.common import Parsers
    ed = Parsers.get_yaml_editor(explicit_start=explicit_start)
    data = [codec.json_to_ruamel(d) for d in docs]
    buf = io.StringIO()
    if len(data) == 1:
        ed.dump(data[0], buf)
    else:
        ed.dump_all(data, buf)
    text = buf.getvalue()
    if path is not None:
        with open(path, "w", encoding="utf-8") as fh:
            fh.write(text)
    return text


def dump_json(docs, path=None):
    """Write canonical documents as JSON text (several documents: one per line)."""
    text = "\n".join(json.dumps(_json_ready(d)) for d in docs) + "\n"
    if path is not None:
        with open(path, "w", encoding="utf-8") as fh:
            fh.write(text)
    return text


def _json_ready(j):
    k = j["k"]
    if k == "map":
        return {str(kk): _json_ready(v) for kk, v in j["e"]}
    if k == "seq":
        return [_json_ready(v) for v in j["i"]]
    if k == "set":
        raise codec.OutOfModel("set in JSON input")
    return codec.json_to_plain(j)


def json_safe(j):
    """True when the document survives a JSON round trip as data (text keys, no sets)."""
    k = j["k"]
    if k == "map":
        return all(isinstance(kk, str) for kk, _ in j["e"]) and all(json_safe(v) for _, v in j["e"])
    if k == "seq":
        return all(json_safe(v) for v in j["i"])
    if k == "set":
        return False
    return k != "opaque"


def load_text(text):
    """All documents of a YAML/JSON text through the tools' own loader settings -> canonical JSON list."""
    from yamlpath.common import Parsers
    ed = Parsers.get_yaml_editor()
    return [codec.node_to_json(d, anchors=False) for d in ed.load_all(text)]


def data_of(j):
    """canonical JSON -> comparable plain data (anchors dropped; sets as frozensets; floats by repr)."""
    k = j["k"]
    if k == "map":
        return ("map", tuple((kk if not isinstance(kk, bool) else str(kk), data_of(v)) for kk, v in j["e"]))
    if k == "seq":
        return ("seq", tuple(data_of(v) for v in j["i"]))
    if k == "set":
        return ("set", frozenset(j["m"]))
    if k == "float":
        return ("float", j["m"], j["e"])
    if k == "null":
        return ("null",)
    return (k, j["v"])
