"""Shared machinery of every check: Lean build + axiom audit, model driver, verdict logic,
known findings, evidence.  Run with /venv/bin/python.  Nothing here is property specific."""
from __future__ import annotations

import fcntl
import hashlib
import json
import os
import random
import re
import subprocess
import sys
import time
import traceback

HERE = os.path.dirname(os.path.abspath(__file__))
VERIF = os.path.dirname(HERE)
LEAN_DIR = os.path.join(VERIF, "lean")
REPO = os.environ.get("YPV_REPO", "/repo")
DRIVER = os.path.join(LEAN_DIR, ".lake", "build", "bin", "ypv-driver")
EVIDENCE_DIR = os.environ.get("YPV_EVIDENCE_DIR") or os.path.join(VERIF, "evidence")   # overridden by tools/run_seeded.py only
REPLAY_DIR = os.path.join(VERIF, "out", "replays")
KNOWN_FILE = os.path.join(VERIF, "known_findings.json")
CORPUS_DIR = os.path.join(VERIF, "corpus")
GUARD = "YAMLPATH_VERIF"

ALLOWED_AXIOMS = {"propext", "Classical.choice", "Quot.sound"}
FORBIDDEN = re.compile(
    r"\bsorry\b|\badmit\b|^\s*axiom\s|native_decide|bv_decide|implemented_by|\bunsafe\s|maxHeartbeats\s+0\b")

TRUSTED_BASE = [
    "Lean 4.33.0 kernel (leanchecker re-check in the thorough tier)",
    "axioms allowed: propext, Classical.choice, Quot.sound (audited per theorem by #print axioms on every run); no sorry/native_decide/bv_decide/own axioms",
    "the statements in lean/Ypv/Props/*.lean as the reading of the property",
    "hand-written Lean model of the anchored yamlpath code, tied to /repo's working tree by the differential correspondence run of this check (differential testing, not proof)",
    "Lean compiler/runtime executing the model in the ypv-driver executable",
    "Python 3.12 / ruamel.yaml 0.17.21 as installed in /venv",
]


class Infra(Exception):
    """Infrastructure failure: exit 2, never a verdict."""


def use_repo():
    """Import yamlpath from /repo's current working tree (hooks guard on)."""
    os.environ[GUARD] = "1"
    if REPO not in sys.path:
        sys.path.insert(0, REPO)
    for name in list(sys.modules):
        if name == "yamlpath" or name.startswith("yamlpath."):
            mod = sys.modules[name]
            f = getattr(mod, "__file__", "") or ""
            if not f.startswith(REPO):
                del sys.modules[name]
    import yamlpath  # noqa
    f = os.path.abspath(yamlpath.__file__)
    if not f.startswith(os.path.abspath(REPO)):
        raise Infra("yamlpath imported from %s, not from %s" % (f, REPO))


# --------------------------------------------------------------------------- Lean side

def _strip_comments(text: str) -> str:
    text = re.sub(r"/-.*?-/", lambda m: "\n" * m.group(0).count("\n"), text, flags=re.S)
    return "\n".join(line.split("--", 1)[0] for line in text.split("\n"))


def forbidden_scan():
    hits = []
    for root, _dirs, files in os.walk(LEAN_DIR):
        if ".lake" in root:
            continue
        for fn in files:
            if not fn.endswith(".lean"):
                continue
            p = os.path.join(root, fn)
            body = _strip_comments(open(p, encoding="utf-8").read())
            for i, line in enumerate(body.split("\n"), 1):
                if FORBIDDEN.search(line):
                    hits.append("%s:%d: %s" % (os.path.relpath(p, VERIF), i, line.strip()[:120]))
    return hits


def lake_build(targets=("Ypv", "ypv-driver"), timeout=3000):
    """Build under a file lock (several checks may start together). Returns (ok, log)."""
    os.makedirs(os.path.join(LEAN_DIR, ".lake"), exist_ok=True)
    lock = open(os.path.join(LEAN_DIR, ".lake", "ypv.lock"), "w")
    fcntl.flock(lock, fcntl.LOCK_EX)
    try:
        t0 = time.time()
        try:
            p = subprocess.run(["lake", "build", *targets], cwd=LEAN_DIR, stdout=subprocess.PIPE,
                               stderr=subprocess.STDOUT, text=True, timeout=timeout)
        except subprocess.TimeoutExpired:
            raise Infra("lake build timed out")
        except FileNotFoundError:
            raise Infra("lake not on PATH")
        return p.returncode == 0, p.stdout, time.time() - t0
    finally:
        fcntl.flock(lock, fcntl.LOCK_UN)
        lock.close()


def audit(pid: str, timeout=900):
    """Run lean on Ypv/Audit/<pid>.lean; returns {theorem: [axioms]} for every `#print axioms`."""
    path = os.path.join(LEAN_DIR, "Ypv", "Audit", pid + ".lean")
    if not os.path.exists(path):
        return None, "no audit file for " + pid
    try:
        p = subprocess.run(["lake", "env", "lean", path], cwd=LEAN_DIR, stdout=subprocess.PIPE,
                           stderr=subprocess.STDOUT, text=True, timeout=timeout)
    except subprocess.TimeoutExpired:
        raise Infra("axiom audit timed out")
    out = p.stdout
    res = {}
    for m in re.finditer(r"'([^']+)' depends on axioms: \[([^\]]*)\]", out, flags=re.S):
        res[m.group(1)] = [a.strip() for a in m.group(2).replace("\n", " ").split(",") if a.strip()]
    for m in re.finditer(r"'([^']+)' does not depend on any axioms", out):
        res[m.group(1)] = []
    if p.returncode != 0:
        return res, out
    return res, ""


def audit_targets(pid: str):
    path = os.path.join(LEAN_DIR, "Ypv", "Audit", pid + ".lean")
    if not os.path.exists(path):
        return []
    body = _strip_comments(open(path, encoding="utf-8").read())
    return re.findall(r"#print\s+axioms\s+(\S+)", body)


class Driver:
    """Batch access to the compiled Lean model driver (one JSON per line each way)."""

    def __init__(self):
        if not os.path.exists(DRIVER):
            raise Infra("model driver not built: " + DRIVER)

    def ask(self, reqs, timeout=1800):
        if not reqs:
            return []
        data = "\n".join(json.dumps(r, ensure_ascii=False) for r in reqs) + "\n"
        try:
            p = subprocess.run([DRIVER], input=data.encode("utf-8"), stdout=subprocess.PIPE,
                               stderr=subprocess.PIPE, timeout=timeout)
        except subprocess.TimeoutExpired:
            raise Infra("model driver timed out")
        lines = p.stdout.decode("utf-8").split("\n")
        if lines and lines[-1] == "":
            lines.pop()
        if p.returncode != 0 or len(lines) != len(reqs):
            raise Infra("model driver failed (rc=%s, %d answers for %d requests): %s" % (
                p.returncode, len(lines), len(reqs), p.stderr.decode("utf-8", "replace")[-400:]))
        out = [json.loads(x) for x in lines]
        for r, o in zip(reqs, out):
            if isinstance(o, dict) and "driver_error" in o:
                raise Infra("model driver rejected %s: %s" % (json.dumps(r)[:300], o["driver_error"]))
        return out


# --------------------------------------------------------------------------- known findings

def load_known(pid):
    if not os.path.exists(KNOWN_FILE):
        return []
    data = json.load(open(KNOWN_FILE))
    return [f for f in data.get("findings", []) if f.get("property") == pid]


# --------------------------------------------------------------------------- the check object

class Check:
    """Verdict logic shared by all properties (DESIGN.md 2.4)."""

    def __init__(self, pid, tier, seed, rule, level="proof", replay=None):
        self.pid, self.tier, self.seed, self.rule, self.level = pid, tier, seed, rule, level
        self.replay_in = replay
        self.t0 = time.time()
        self.rng = random.Random(seed)
        self.evaluations = 0
        self.nontrivial = set()
        self.nontrivial_extra = 0
        self.hist = {}
        self.samples = []
        self.violations = []        # concrete failing inputs on the real code
        self.disagreements = []     # impl vs model where the property predicate was not decided
        self.known_hits = {}
        self.out_of_model = 0
        self.exhaustive = False
        self.notes = []
        self.proof_ok = True
        self.proof_problems = []
        self.obligations = []
        self.discharged = 0
        self.known = load_known(pid)
        self.extra_cov = {}
        self.disagreements_checked = 0

    # ---- proof phase
    def proof_phase(self, build=True):
        if build:
            ok, log, secs = lake_build()
            self.extra_cov["lake_build_s"] = round(secs, 1)
            if not ok:
                self.proof_ok = False
                errs = [l for l in log.split("\n") if "error" in l][:8]
                self.proof_problems.append({"kind": "build", "detail": errs or log[-800:].split("\n")})
        hits = forbidden_scan()
        if hits:
            self.proof_ok = False
            self.proof_problems.append({"kind": "forbidden-token", "detail": hits[:10]})
        targets = audit_targets(self.pid)
        self.obligations = targets
        if self.proof_ok:
            res, err = audit(self.pid)
            if res is None:
                self.proof_ok = False
                self.proof_problems.append({"kind": "audit", "detail": err})
                res = {}
            for t in targets:
                ax = res.get(t)
                if ax is None:
                    self.proof_ok = False
                    self.proof_problems.append({"kind": "theorem-missing", "theorem": t,
                                                "detail": (err or "")[-600:]})
                elif not set(ax) <= ALLOWED_AXIOMS:
                    self.proof_ok = False
                    self.proof_problems.append({"kind": "axioms", "theorem": t, "detail": ax})
                else:
                    self.discharged += 1
        if not targets:
            self.proof_ok = False
            self.proof_problems.append({"kind": "no-obligations", "detail": "empty audit file"})
        if self.proof_ok and self.tier == "thorough":
            # independent re-check of the compiled theorems by leanchecker
            t0 = time.time()
            try:
                p = subprocess.run(["lake", "env", "leanchecker", "Ypv.Props." + self.pid], cwd=LEAN_DIR,
                                   stdout=subprocess.PIPE, stderr=subprocess.STDOUT, text=True, timeout=3000)
                self.extra_cov["leanchecker"] = {"rc": p.returncode, "wall_s": round(time.time() - t0, 1)}
                if p.returncode != 0:
                    self.proof_ok = False
                    self.proof_problems.append({"kind": "leanchecker", "detail": p.stdout[-600:]})
            except subprocess.TimeoutExpired:
                raise Infra("leanchecker timed out")
            except FileNotFoundError:
                self.extra_cov["leanchecker"] = "not available"
        return self.proof_ok

    # ---- bookkeeping
    def count(self, key, n=1):
        self.hist[key] = self.hist.get(key, 0) + n

    def seen(self, nontrivial_key=None):
        self.evaluations += 1
        if nontrivial_key is not None:
            self.nontrivial.add(nontrivial_key if isinstance(nontrivial_key, (str, int)) else
                                hashlib.blake2b(repr(nontrivial_key).encode(), digest_size=8).hexdigest())

    def sample(self, case, limit=6):
        if len(self.samples) < limit:
            self.samples.append(case)

    def _known_match(self, sig):
        for f in self.known:
            if f.get("status") != "known":
                continue
            pat = f.get("signature")
            if pat is not None and (pat == sig or (f.get("signature_regex") and re.fullmatch(pat, sig))):
                return f
        return None

    def violation(self, sig, what, case):
        """A concrete input on which the real code breaks the property."""
        f = self._known_match(sig)
        if f is not None:
            k = self.known_hits.setdefault(f["id"], {"finding": f, "n": 0, "example": case})
            k["n"] += 1
            return False
        self.violations.append({"signature": sig, "what": what, "case": case})
        return True

    def disagreement(self, sig, what, case):
        """Model and implementation differ on an observable; the property itself was not
        (or could not be) decided directly for this case."""
        f = self._known_match(sig)
        if f is not None:
            k = self.known_hits.setdefault(f["id"], {"finding": f, "n": 0, "example": case})
            k["n"] += 1
            return False
        self.disagreements.append({"signature": sig, "what": what, "case": case})
        return True

    # ---- verdict
    def _write_replay(self, payload):
        os.makedirs(REPLAY_DIR, exist_ok=True)
        h = hashlib.blake2b(json.dumps(payload, sort_keys=True, default=str).encode(), digest_size=6).hexdigest()
        p = os.path.join(REPLAY_DIR, "%s-%s.json" % (self.pid, h))
        with open(p, "w") as fh:
            json.dump(payload, fh, indent=1, sort_keys=True, default=str, ensure_ascii=False)
        return p

    def write_evidence(self, verdict):
        os.makedirs(EVIDENCE_DIR, exist_ok=True)
        cov = {
            "evaluations": self.evaluations,
            "distinct_nontrivial": len(self.nontrivial) + self.nontrivial_extra,
            "rule": self.rule,
            "samples": self.samples[:8] or [{"note": "no case executed"}],
            "obligations": len(self.obligations),
            "discharged": self.discharged,
            "obligation_names": self.obligations,
            "checker_cmd": "cd lean && lake build && lake env lean Ypv/Audit/%s.lean  (#print axioms per theorem; forbidden-token scan of lean/Ypv)" % self.pid,
            "trusted_base": TRUSTED_BASE,
            "disagreements_checked": self.disagreements_checked,
            "exhaustive": bool(self.exhaustive),
            "histogram": dict(sorted(self.hist.items())),
            "out_of_model": self.out_of_model,
            "known_findings_reproduced": {k: v["n"] for k, v in self.known_hits.items()},
            "proof_ok": self.proof_ok,
            "proof_problems": self.proof_problems,
            "verdict": verdict,
            "violation_details": [
                {"signature": v["signature"], "what": v["what"]} for v in (self.violations + self.disagreements)[:20]
            ],
        }
        cov.update(self.extra_cov)
        ev = {
            "property_id": self.pid,
            "tier": self.tier,
            "seed": int(self.seed),
            "level": self.level,
            "coverage": cov,
            "assumptions": self.notes,
            "wall_s": round(time.time() - self.t0, 2),
            "violations": len(self.violations) + len(self.disagreements) + (0 if self.proof_ok else 1),
        }
        with open(os.path.join(EVIDENCE_DIR, self.pid + ".json"), "w") as fh:
            json.dump(ev, fh, indent=1, default=str, ensure_ascii=False)

    def finish(self, widen=None):
        """Decide. `widen` is an optional callable running a larger failing-input search;
        it is invoked only when a proof obligation or the correspondence no longer checks and
        no concrete failing input is known yet."""
        for k, v in sorted(self.known_hits.items()):
            print("KNOWN-FINDING: property=%s %s [%s; reproduced on %d case(s) this run]" % (
                self.pid, v["finding"].get("what", k), k, v["n"]))
        for f in self.known:
            if f.get("status") == "known" and f["id"] not in self.known_hits:
                print("KNOWN-FINDING: property=%s %s [%s; listed, not reproduced by this run's inputs]" % (
                    self.pid, f.get("what", f["id"]), f["id"]))
        if not self.violations and (self.disagreements or not self.proof_ok) and widen is not None:
            try:
                widen()
            except Infra:
                raise
            except Exception:  # the search is best effort
                self.notes.append("widened search failed: " + traceback.format_exc()[-400:])
        if self.violations:
            v = self.violations[0]
            path = self._write_replay({"property": self.pid, "kind": "failing-input",
                                       "signature": v["signature"], "what": v["what"], "case": v["case"],
                                       "rerun": "./check %s --replay <this file>" % self.pid,
                                       "more": [{"signature": x["signature"], "what": x["what"], "case": x["case"]}
                                                for x in self.violations[1:10]]})
            self.write_evidence("violation")
            for x in self.violations[:5]:
                print("  failing input: %s :: %s" % (x["signature"], x["what"]))
            print("VIOLATION property=%s replay=%s" % (self.pid, path))
            return 1
        if self.disagreements or not self.proof_ok:
            payload = {"property": self.pid, "kind": "no-failing-input-found",
                       "unchecked_theorems": self.proof_problems,
                       "broken_correspondence": self.disagreements[:10],
                       "note": "a proof obligation or the model/implementation correspondence no longer "
                               "checks; the widened search found no input on which the property itself fails"}
            path = self._write_replay(payload)
            self.write_evidence("unproven")
            for x in self.disagreements[:5]:
                print("  correspondence broken: %s :: %s" % (x["signature"], x["what"]))
            for x in self.proof_problems[:5]:
                print("  proof problem: %s" % json.dumps(x)[:400])
            print("VIOLATION property=%s replay=%s no-failing-input-found" % (self.pid, path))
            return 1
        self.write_evidence("held")
        print("OK property=%s tier=%s evaluations=%d distinct_nontrivial=%d obligations=%d/%d wall=%.1fs" % (
            self.pid, self.tier, self.evaluations, len(self.nontrivial) + self.nontrivial_extra,
            self.discharged, len(self.obligations), time.time() - self.t0))
        return 0


# --------------------------------------------------------------------------- helpers

def _abort_file():
    return os.environ.get("YPV_ABORT_FILE") or os.path.join(VERIF, "out", "abort-%d" % os.getppid())


def signal_abort():
    """A worker found a hang: tell the other workers of this run to stop generating cases (each
    further hanging case would cost a full time limit)."""
    try:
        os.makedirs(os.path.dirname(_abort_file()), exist_ok=True)
        open(_abort_file(), "w").close()
    except OSError:
        pass


def aborted():
    return os.path.exists(_abort_file())


def exc_class(e: BaseException) -> str:
    """Map an exception from the implementation to the small outcome enum."""
    from yamlpath.exceptions import YAMLPathException
    try:
        from yamlpath.merger.exceptions import MergeException
    except Exception:  # pragma: no cover
        MergeException = ()
    try:
        from yamlpath.eyaml.exceptions import EYAMLCommandException
    except Exception:  # pragma: no cover
        EYAMLCommandException = ()
    if isinstance(e, YAMLPathException):
        return "ypath"
    if MergeException and isinstance(e, MergeException):
        return "merge"
    if EYAMLCommandException and isinstance(e, EYAMLCommandException):
        return "eyaml"
    return "crash:" + type(e).__name__


def crash_site(e: BaseException) -> str:
    """file:function of the innermost yamlpath frame of a traceback (a call-site signature)."""
    tb = e.__traceback__
    site = "?"
    while tb is not None:
        fn = tb.tb_frame.f_code.co_filename
        if "/yamlpath/" in fn:
            site = "%s:%s" % (os.path.basename(fn), tb.tb_frame.f_code.co_name)
        tb = tb.tb_next
    return site


def quiet_logger():
    from types import SimpleNamespace
    from yamlpath.wrappers import ConsolePrinter
    return ConsolePrinter(SimpleNamespace(quiet=True, verbose=False, debug=False))


def pmap(func, chunks, procs=None):
    """Map over chunks in worker processes (fork; the implementation is imported before)."""
    import multiprocessing as mp
    procs = procs or min(16, os.cpu_count() or 4)
    if len(chunks) <= 1 or procs <= 1:
        return [func(c) for c in chunks]
    ctx = mp.get_context("fork")
    # The parent holds the whole case list (millions of small objects in the thorough tier).  Without freezing, every
    # full garbage collection in a worker walks that inherited heap (seconds of CPU - enough to trip a 10 s hang guard
    # around a harmless call, seen in C15 thorough) and dirties its copy-on-write pages.
    import gc
    gc.collect()
    gc.freeze()
    try:
        with ctx.Pool(procs) as pool:
            return pool.map(func, chunks, chunksize=1)
    finally:
        gc.unfreeze()


def chunked(seq, n):
    seq = list(seq)
    k = max(1, (len(seq) + n - 1) // n)
    return [seq[i:i + k] for i in range(0, len(seq), k)]
