"""Entry point of every check:  run.py <Cxx> [--tier quick|thorough] [--replay file] [--no-build]"""
from __future__ import annotations

import argparse
import importlib
import os
import sys
import time
import traceback

sys.path.insert(0, os.path.dirname(os.path.dirname(os.path.abspath(__file__))))
from harness import core  # noqa: E402


def main():
    ap = argparse.ArgumentParser()
    ap.add_argument("pid")
    ap.add_argument("--tier", default=os.environ.get("VERIF_TIER", "quick"))
    ap.add_argument("--replay", default=None)
    ap.add_argument("--no-build", action="store_true")
    a = ap.parse_args()
    tier = a.tier if a.tier in ("quick", "thorough") else "quick"
    seed = int(os.environ.get("VERIF_SEED", "20260929") or 0)
    pid = a.pid.upper()
    abort_file = os.path.join(core.VERIF, "out", "abort-%d" % os.getpid())
    os.environ["YPV_ABORT_FILE"] = abort_file
    try:
        mod = importlib.import_module("harness.props." + pid.lower())
        chk = core.Check(pid, tier, seed, getattr(mod, "RULE", ""), replay=a.replay)
        chk.proof_phase(build=not a.no_build)
        if not os.path.exists(core.DRIVER):
            raise core.Infra("model driver missing after build: " + str(chk.proof_problems)[:600])
        mod.run(chk)
        rc = chk.finish(getattr(mod, "widen", None) and (lambda: mod.widen(chk)))
    except core.Infra as e:
        print("INFRASTRUCTURE-ERROR property=%s %s" % (pid, e))
        sys.exit(2)
    except Exception:
        print("INFRASTRUCTURE-ERROR property=%s unexpected harness failure" % pid)
        traceback.print_exc()
        sys.exit(2)
    try:
        os.remove(abort_file)
    except OSError:
        pass
    sys.exit(rc)


if __name__ == "__main__":
    main()
