#!/usr/bin/env python3-vt
"""Validate MANIFEST.json and every evidence file against the schemas in /root/.vp."""
import glob, json, sys, jsonschema
ok = True
m = json.load(open('/verif/MANIFEST.json'))
try:
    jsonschema.validate(m, json.load(open('/root/.vp/MANIFEST.schema.json'))); print("MANIFEST ok")
except Exception as e:
    ok = False; print("MANIFEST INVALID", str(e)[:500])
s = json.load(open('/root/.vp/EVIDENCE.schema.json'))
for f in sorted(glob.glob('/verif/evidence/*.json')):
    try:
        jsonschema.validate(json.load(open(f)), s); print(f, "ok")
    except Exception as e:
        ok = False; print(f, "INVALID", str(e)[:500])
ids = {json.loads(l)["id"] for l in open('/verif/properties.jsonl')}
got = {c["property_id"] for c in m["checks"]} | {c["property_id"] for c in m.get("not_applicable", [])}
if ids != got: ok = False; print("property coverage mismatch", ids ^ got)
sys.exit(0 if ok else 1)
