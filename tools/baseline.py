#!/venv/bin/python
"""Run /repo's pinned test suite with the verification guard OFF and compare the set of passing
tests with /root/.vp/BASELINE.json (stable_pass).  Exit 0 iff every stable_pass test still passes."""
import json, os, subprocess, sys, tempfile, xml.etree.ElementTree as ET
repo = sys.argv[1] if len(sys.argv) > 1 else "/repo"
base = json.load(open("/root/.vp/BASELINE.json"))
env = dict(os.environ); env.pop("YAMLPATH_VERIF", None)
with tempfile.TemporaryDirectory() as d:
    x = os.path.join(d, "j.xml")
    subprocess.run(["/venv/bin/python", "-m", "pytest", "-q", "-p", "no:cacheprovider", "--timeout=900",
                    "--continue-on-collection-errors", "--junitxml=" + x], cwd=repo, env=env,
                   stdout=subprocess.DEVNULL, stderr=subprocess.DEVNULL)
    passed = set()
    for tc in ET.parse(x).getroot().iter("testcase"):
        if not any(c.tag in ("failure", "error", "skipped") for c in tc):
            passed.add("%s::%s" % (tc.get("classname"), tc.get("name")))
want = set(base["stable_pass"])
missing = sorted(want - passed)
print("baseline stable_pass=%d passed_now=%d missing=%d" % (len(want), len(passed), len(missing)))
for m in missing[:20]: print("  MISSING", m)
sys.exit(1 if missing else 0)
