#!/usr/bin/env python3
"""Assemble MANIFEST.json from manifest.d/ (base.json + one <Cxx>.json per claimed property) and
known_findings.json from known.d/*.json.  Properties without a fragment are listed under
not_applicable with the reason given in manifest.d/not_applicable.json (or a default)."""
import glob, json, os
V = os.path.dirname(os.path.dirname(os.path.abspath(__file__)))
ids = [json.loads(l)["id"] for l in open(os.path.join(V, "properties.jsonl"))]
base = json.load(open(os.path.join(V, "manifest.d", "base.json")))
na_reasons = {}
p = os.path.join(V, "manifest.d", "not_applicable.json")
if os.path.exists(p):
    na_reasons = json.load(open(p))
checks, na = [], []
for pid in ids:
    f = os.path.join(V, "manifest.d", pid + ".json")
    if os.path.exists(f):
        checks.append(json.load(open(f)))
    else:
        na.append({"property_id": pid, "reason": na_reasons.get(pid, "not yet built in this round (model and check under construction; see DESIGN.md section 4)")})
m = dict(base)
m["engines"] = [{"name": "ypv", "path": "lean/", "serves_properties": [c["property_id"] for c in checks],
                 "kind_free_text": "Lean 4 model + theorems (lean/Ypv), compiled model driver (lean/Main.lean), Python differential harness (harness/)"}]
m["checks"] = checks
m["not_applicable"] = na
json.dump(m, open(os.path.join(V, "MANIFEST.json"), "w"), indent=1)
finds = []
for f in sorted(glob.glob(os.path.join(V, "known.d", "*.json"))):
    finds += json.load(open(f))
json.dump({"comment": "Genuine defects of the pinned wwkimball/yamlpath tree found by these checks (assembled from known.d/). status=known entries are matched by signature and reported as KNOWN-FINDING; status=fixed entries suppress nothing. Read-only at run time.",
           "findings": finds}, open(os.path.join(V, "known_findings.json"), "w"), indent=1)
print("assembled: %d checks, %d not_applicable, %d findings" % (len(checks), len(na), len(finds)))
