#!/venv/bin/python
"""Which lines and branches of the real code does a property's correspondence run reach?

The theorems are about the model; the correspondence ties the model to /repo only on the inputs the
harness generates.  A branch of the anchored Python code that no generated case executes is a place
where the code could change without the check noticing.  This tool runs `./check Cxx --tier quick`
under coverage.py (branch coverage, worker processes included), restricted to the files the property
is anchored in (properties.jsonl `anchors.files`, plus whatever `EXTRA` names), and writes
`notes/coverage/Cxx.txt`: the unreached lines / branch arcs with their source text.  It is a
generator-quality instrument (not registered in MANIFEST.json, it decides nothing).

usage: tools/impl_coverage.py C04 [C05 ...]        (default: all)
"""
import glob, json, os, shutil, subprocess, sys, fnmatch
V = os.path.dirname(os.path.dirname(os.path.abspath(__file__)))
REPO = os.environ.get("YPV_REPO", "/repo")
props = {json.loads(l)["id"]: json.loads(l) for l in open(os.path.join(V, "properties.jsonl"))}
ids = [] if sys.argv[1:] == ["--union"] else (sys.argv[1:] or sorted(props))
# helpers shared by every property's anchored code
EXTRA = ["yamlpath/common/nodes.py", "yamlpath/common/searches.py", "yamlpath/common/anchors.py",
         "yamlpath/wrappers/nodecoords.py", "yamlpath/yamlpath.py"]
outdir = os.path.join(V, "notes", "coverage")
os.makedirs(outdir, exist_ok=True)
for pid in ids:
    work = "/tmp/ypv-cov-%s-%d" % (pid, os.getpid())
    shutil.rmtree(work, ignore_errors=True); os.makedirs(work)
    rc = os.path.join(work, "coveragerc")
    open(rc, "w").write("[run]\nbranch = True\nparallel = True\nconcurrency = multiprocessing\nsigterm = True\n"
                        "source = %s/yamlpath\ndata_file = %s/cov\n" % (REPO, work))
    # subprocesses (console tools) start coverage through sitecustomize
    open(os.path.join(work, "sitecustomize.py"), "w").write("import coverage\ncoverage.process_startup()\n")
    env = dict(os.environ, YPV_EVIDENCE_DIR=os.path.join(work, "ev"), COVERAGE_PROCESS_START=rc, COVERAGE_RCFILE=rc,
               PYTHONPATH=work + os.pathsep + os.environ.get("PYTHONPATH", ""), YPV_COVERAGE="1")
    p = subprocess.run(["/venv/bin/python", "-m", "coverage", "run", "--rcfile", rc, os.path.join(V, "harness", "run.py"),
                        pid, "--tier", "quick", "--no-build"], cwd=V, env=env, stdout=subprocess.PIPE, stderr=subprocess.STDOUT, text=True)
    tail = p.stdout.strip().split("\n")[-3:]
    subprocess.run(["/venv/bin/python", "-m", "coverage", "combine", "--rcfile", rc, "-q"], cwd=work, env=env,
                   stdout=subprocess.DEVNULL, stderr=subprocess.DEVNULL)
    js = os.path.join(work, "cov.json")
    subprocess.run(["/venv/bin/python", "-m", "coverage", "json", "--rcfile", rc, "-q", "-o", js], cwd=work, env=env,
                   stdout=subprocess.DEVNULL, stderr=subprocess.DEVNULL)
    if not os.path.exists(js):
        print(pid, "no coverage data; check exit", p.returncode, tail); continue
    data = json.load(open(js))
    os.makedirs(os.path.join(V, "out", "coverage"), exist_ok=True)
    # keep the executed lines per file for the union report (out/ is not committed)
    json.dump({(os.path.relpath(f, REPO) if os.path.isabs(f) else f): {"executed": d["executed_lines"], "missing": d["missing_lines"],
               "executed_branches": d.get("executed_branches", []), "missing_branches": d.get("missing_branches", [])}
               for f, d in data["files"].items()}, open(os.path.join(V, "out", "coverage", pid + ".json"), "w"))
    pats = list(props[pid].get("anchors", {}).get("files", [])) + EXTRA
    lines = ["# %s: code of /repo not reached by `./check %s --tier quick` (exit %s)" % (pid, pid, p.returncode), ""]
    tot_missing = tot_stmt = tot_mb = tot_b = 0
    for f, d in sorted(data["files"].items()):
        rel = os.path.relpath(f, REPO) if os.path.isabs(f) else f
        if not any(fnmatch.fnmatch(rel, pat) for pat in pats):
            continue
        s = d["summary"]
        tot_missing += s["missing_lines"]; tot_stmt += s["num_statements"]
        tot_mb += s.get("missing_branches", 0); tot_b += s.get("num_branches", 0)
        src = open(os.path.join(REPO, rel)).read().split("\n")
        lines.append("## %s  statements %d, missing %d; branches %d, missing %d" % (
            rel, s["num_statements"], s["missing_lines"], s.get("num_branches", 0), s.get("missing_branches", 0)))
        # by function
        for fn, fd in sorted(d.get("functions", {}).items(), key=lambda kv: (kv[1].get("missing_lines") or [0])[0] if kv[1].get("missing_lines") else 0):
            ml = fd.get("missing_lines", []); mb = fd.get("missing_branches", [])
            if not ml and not mb:
                continue
            if not fd.get("executed_lines"):
                lines.append("  %s: never entered (%d statements)" % (fn or "<module>", fd["summary"]["num_statements"]))
                continue
            lines.append("  %s:" % (fn or "<module>"))
            for ln in ml:
                lines.append("    line %4d  %s" % (ln, src[ln - 1].strip()[:110]))
            for a, b in mb:
                if a in ml or b in ml:
                    continue
                lines.append("    arc  %4d -> %s   %s" % (a, b if b > 0 else "exit", src[a - 1].strip()[:90]))
        lines.append("")
    lines.insert(1, "totals over the anchored files: statements %d, missing %d; branches %d, missing %d" % (tot_stmt, tot_missing, tot_b, tot_mb))
    open(os.path.join(outdir, pid + ".txt"), "w").write("\n".join(lines) + "\n")
    print(pid, "exit", p.returncode, "missing lines %d/%d branches %d/%d" % (tot_missing, tot_stmt, tot_mb, tot_b), "|", tail[-1] if tail else "")
    shutil.rmtree(work, ignore_errors=True)

# union over every property run so far: code of yamlpath/ that NO check's correspondence run executes
cov = {}
for f in sorted(glob.glob(os.path.join(V, "out", "coverage", "C*.json"))):
    pid = os.path.basename(f)[:-5]
    for rel, d in json.load(open(f)).items():
        c = cov.setdefault(rel, {"executed": {}, "all": set(), "arcs": {}, "allarcs": set()})
        for ln in d["executed"]:
            c["executed"].setdefault(ln, []).append(pid)
        c["all"].update(d["executed"]); c["all"].update(d["missing"])
        for a in d["executed_branches"]:
            c["arcs"].setdefault(tuple(a), []).append(pid)
        c["allarcs"].update(tuple(a) for a in d["executed_branches"]); c["allarcs"].update(tuple(a) for a in d["missing_branches"])
if cov:
    have = sorted(os.path.basename(f)[:-5] for f in glob.glob(os.path.join(V, "out", "coverage", "C*.json")))
    out = ["# Code of /repo/yamlpath that no check's quick correspondence run executes", "",
           "runs combined: " + " ".join(have), ""]
    T = M = TA = MA = 0
    for rel in sorted(cov):
        c = cov[rel]
        miss = sorted(ln for ln in c["all"] if ln not in c["executed"])
        marcs = sorted(a for a in c["allarcs"] if a not in c["arcs"] and a[0] not in miss and a[1] not in miss)
        T += len(c["all"]); M += len(miss); TA += len(c["allarcs"]); MA += len([a for a in c["allarcs"] if a not in c["arcs"]])
        if not miss and not marcs:
            continue
        src = open(os.path.join(REPO, rel)).read().split("\n")
        out.append("## %s  statements %d, never executed %d; branch arcs %d, never taken %d" % (rel, len(c["all"]), len(miss), len(c["allarcs"]), len([a for a in c["allarcs"] if a not in c["arcs"]])))
        for ln in miss:
            out.append("    line %4d  %s" % (ln, src[ln - 1].strip()[:110]))
        for a, b in marcs:
            out.append("    arc  %4d -> %s   %s" % (a, b if b > 0 else "exit", src[a - 1].strip()[:90]))
        out.append("")
    out.insert(3, "totals: statements %d, never executed %d (%.1f %%); branch arcs %d, never taken %d (%.1f %%)" % (T, M, 100.0 * M / max(T, 1), TA, MA, 100.0 * MA / max(TA, 1)))
    open(os.path.join(outdir, "UNION.txt"), "w").write("\n".join(out) + "\n")
    print("union:", out[3])
