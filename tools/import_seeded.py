#!/usr/bin/env python3
"""Import the output of a seeded-change author (dir with v1/, v2/ each holding patch.diff, demo.py, meta.json)
as seeded/<Cxx>-<letter><k>/.   usage: tools/import_seeded.py <outdir> <Cxx> <letter>"""
import json, os, shutil, sys
V = os.path.dirname(os.path.dirname(os.path.abspath(__file__)))
src, pid, letter = sys.argv[1:4]
for k in (1, 2, 3):
    d = os.path.join(src, "v%d" % k)
    if not all(os.path.exists(os.path.join(d, f)) for f in ("patch.diff", "demo.py", "meta.json")):
        continue
    dst = os.path.join(V, "seeded", "%s-%s%d" % (pid, letter, k))
    os.makedirs(dst, exist_ok=True)
    for f in ("patch.diff", "demo.py"):
        shutil.copy(os.path.join(d, f), os.path.join(dst, f))
    meta = json.load(open(os.path.join(d, "meta.json")))
    meta["property"] = pid
    meta.pop("confirmed", None)
    json.dump(meta, open(os.path.join(dst, "meta.json"), "w"), indent=1)
    print("imported", dst)
