#!/usr/bin/env python3
"""Run the registered quick check of each seeded change's property against a scratch worktree of /repo
with the change applied (YPV_REPO), and record whether it is caught.
usage: tools/run_seeded.py [ids...]   (default: all of seeded/*)"""
import json, os, subprocess, sys, time
V = os.path.dirname(os.path.dirname(os.path.abspath(__file__)))
ids = sys.argv[1:] or sorted(x for x in os.listdir(os.path.join(V, "seeded")) if os.path.isdir(os.path.join(V, "seeded", x)))
wt = "/tmp/seedtest-%d" % os.getpid()
subprocess.run(["git", "-C", "/repo", "worktree", "add", "-q", "--detach", wt, "HEAD"], check=True)
results = {}
try:
    for sid in ids:
        d = os.path.join(V, "seeded", sid)
        meta = json.load(open(os.path.join(d, "meta.json")))
        pid = meta["property"]
        subprocess.run(["git", "-C", wt, "checkout", "-q", "--", "."], check=True)
        a = subprocess.run(["git", "-C", wt, "apply", os.path.join(d, "patch.diff")])
        if a.returncode != 0:
            results[sid] = "patch-does-not-apply"; continue
        t0 = time.time()
        env = dict(os.environ, YPV_REPO=wt, YPV_EVIDENCE_DIR=os.path.join(V, "out", "seeded_evidence"))
        p = subprocess.run([os.path.join(V, "check"), pid, "--no-build"], env=env, cwd=V, stdout=subprocess.PIPE, stderr=subprocess.STDOUT, text=True)
        lines = [l for l in p.stdout.split("\n") if l.startswith("VIOLATION") or l.startswith("  failing input")]
        results[sid] = {"exit": p.returncode, "caught": p.returncode == 1, "concrete_input": p.returncode == 1 and "no-failing-input-found" not in p.stdout,
                        "first": lines[:2], "wall_s": round(time.time() - t0, 1)}
        print(sid, json.dumps(results[sid]))
finally:
    subprocess.run(["git", "-C", "/repo", "worktree", "remove", "--force", wt])
# cumulative record + human-readable table
rp = os.path.join(V, "seeded", "results.json")
allres = json.load(open(rp)) if os.path.exists(rp) else {}
head = subprocess.run(["git", "-C", "/repo", "rev-parse", "--short", "HEAD"], stdout=subprocess.PIPE, text=True).stdout.strip()
vhead = subprocess.run(["git", "-C", V, "rev-parse", "--short", "HEAD"], stdout=subprocess.PIPE, text=True).stdout.strip()
for k, v in results.items():
    if isinstance(v, dict):
        v["repo_head"] = head; v["verif_head"] = vhead
    allres[k] = v
json.dump(allres, open(rp, "w"), indent=1, sort_keys=True)
with open(os.path.join(V, "seeded", "RESULTS.md"), "w") as fh:
    fh.write("# Seeded changes and the outcome of the property's quick check against each\n\n")
    fh.write("(written by tools/run_seeded.py; `concrete` = the VIOLATION line came with a concrete failing input)\n\n")
    fh.write("| seeded change | property | what it breaks | caught | concrete | first report |\n|---|---|---|---|---|---|\n")
    for sid in sorted(allres):
        r = allres[sid]
        try:
            meta = json.load(open(os.path.join(V, "seeded", sid, "meta.json")))
        except Exception:
            continue
        if not isinstance(r, dict):
            fh.write("| %s | %s | %s | %s | | |\n" % (sid, meta.get("property"), str(meta.get("title", ""))[:90], r)); continue
        first = (r.get("first") or [""])[0].replace("|", "/").strip()[:110]
        fh.write("| %s | %s | %s | %s | %s | %s |\n" % (sid, meta.get("property"), str(meta.get("title", "")).replace("|", "/")[:90],
                 "yes" if r.get("caught") else ("INFRA" if r.get("exit") == 2 else "NO"), "yes" if r.get("concrete_input") else "no", first))
