#!/usr/bin/env python3
"""Run the registered quick check of each seeded change's property against a scratch worktree of /repo
with the change applied (YPV_REPO), and record whether it is caught.
usage: tools/run_seeded.py [ids...]   (default: all of seeded/*)"""
import json, os, subprocess, sys, time
V = os.path.dirname(os.path.dirname(os.path.abspath(__file__)))
ids = sys.argv[1:] or sorted(os.listdir(os.path.join(V, "seeded")))
wt = "/tmp/seedtest-%d" % os.getpid()
subprocess.run(["git", "-C", "/repo", "worktree", "add", "-q", "--detach", wt, "HEAD"], check=True)
results = {}
try:
    for sid in ids:
        d = os.path.join(V, "seeded", sid)
        meta = json.load(open(os.path.join(d, "meta.json")))
        pid = meta["property"]
        subprocess.run(["git", "-C", wt, "checkout", "-q", "--", "."], check=True)
        a = subprocess.run(["git", "-C", wt, "apply", os.path.join(d, "patch.diff")])
        if a.returncode != 0:
            results[sid] = "patch-does-not-apply"; continue
        t0 = time.time()
        env = dict(os.environ, YPV_REPO=wt)
        p = subprocess.run([os.path.join(V, "check"), pid, "--no-build"], env=env, cwd=V, stdout=subprocess.PIPE, stderr=subprocess.STDOUT, text=True)
        lines = [l for l in p.stdout.split("\n") if l.startswith("VIOLATION") or l.startswith("  failing input")]
        results[sid] = {"exit": p.returncode, "caught": p.returncode == 1, "concrete_input": p.returncode == 1 and "no-failing-input-found" not in p.stdout,
                        "first": lines[:2], "wall_s": round(time.time() - t0, 1)}
        print(sid, json.dumps(results[sid]))
finally:
    subprocess.run(["git", "-C", "/repo", "worktree", "remove", "--force", wt])
json.dump(results, open(os.path.join(V, "out", "seeded_results.json"), "w"), indent=1)
