#!/usr/bin/env python3
"""Refresh the generated tables inside DESIGN.md (8.1 status, 8.4 seeded changes)."""
import json, os, re, subprocess
V = os.path.dirname(os.path.dirname(os.path.abspath(__file__)))
p = os.path.join(V, "DESIGN.md")
s = open(p).read()
tab = subprocess.run(["python3", os.path.join(V, "tools", "status_table.py")], stdout=subprocess.PIPE, text=True).stdout
s = re.sub(r"<!-- STATUS-TABLE-BEGIN -->.*?<!-- STATUS-TABLE-END -->", "<!-- STATUS-TABLE-BEGIN -->\n" + tab + "<!-- STATUS-TABLE-END -->", s, flags=re.S)
rp = os.path.join(V, "seeded", "results.json")
res = json.load(open(rp)) if os.path.exists(rp) else {}
rows = ["| seeded change | what it breaks (title) | caught by the quick check | with a concrete failing input |", "|---|---|---|---|"]
n = c = k = 0
for sid in sorted(d for d in os.listdir(os.path.join(V, "seeded")) if os.path.isdir(os.path.join(V, "seeded", d))):
    try:
        meta = json.load(open(os.path.join(V, "seeded", sid, "meta.json")))
    except Exception:
        continue
    r = res.get(sid)
    n += 1
    if isinstance(r, dict):
        c += bool(r.get("caught")); k += bool(r.get("concrete_input"))
        rows.append("| %s | %s | %s | %s |" % (sid, str(meta.get("title", "")).replace("|", "/")[:100], "yes" if r.get("caught") else "NO", "yes" if r.get("concrete_input") else "no"))
    else:
        rows.append("| %s | %s | not run | |" % (sid, str(meta.get("title", "")).replace("|", "/")[:100]))
rows.append("")
rows.append("%d seeded changes; %d caught by the property's quick check, %d of them with a concrete failing input." % (n, c, k))
s = re.sub(r"<!-- SEEDED-TABLE-BEGIN -->.*?<!-- SEEDED-TABLE-END -->", "<!-- SEEDED-TABLE-BEGIN -->\n" + "\n".join(rows) + "\n<!-- SEEDED-TABLE-END -->", s, flags=re.S)
open(p, "w").write(s)
print("DESIGN.md tables refreshed: %d seeded, %d caught, %d concrete" % (n, c, k))
