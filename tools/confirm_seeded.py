#!/usr/bin/env python3
"""Confirm a seeded change independently: demo passes on the clean tree, fails with the patch, and the
988-test baseline still passes with the patch.  Records the outcome in seeded/<id>/meta.json ("confirmed")."""
import json, os, subprocess, sys
V = os.path.dirname(os.path.dirname(os.path.abspath(__file__)))
ids = sys.argv[1:] or sorted(x for x in os.listdir(os.path.join(V, "seeded")) if os.path.isdir(os.path.join(V, "seeded", x)))
wt = "/tmp/seedconfirm-%d" % os.getpid()
subprocess.run(["git", "-C", "/repo", "worktree", "add", "-q", "--detach", wt, "HEAD"], check=True)
try:
    for sid in ids:
        d = os.path.join(V, "seeded", sid)
        meta = json.load(open(os.path.join(d, "meta.json")))
        if meta.get("confirmed", {}).get("ok"):
            continue
        subprocess.run(["git", "-C", wt, "checkout", "-q", "--", "."], check=True)
        env = dict(os.environ, PYTHONPATH=wt)
        def demo():
            try:
                return subprocess.run(["/venv/bin/python", os.path.join(d, "demo.py")], env=env, cwd=d, stdout=subprocess.PIPE, stderr=subprocess.STDOUT, timeout=300).returncode
            except subprocess.TimeoutExpired:
                return "timeout"
        clean = demo()
        ap = subprocess.run(["git", "-C", wt, "apply", os.path.join(d, "patch.diff")]).returncode
        patched = demo()
        base = subprocess.run(["/venv/bin/python", os.path.join(V, "tools", "baseline.py"), wt], stdout=subprocess.PIPE, text=True)
        ok = clean == 0 and ap == 0 and patched not in (0, "timeout") and base.returncode == 0
        meta["confirmed"] = {"ok": ok, "demo_clean_exit": clean, "patch_applies": ap == 0, "demo_patched_exit": patched,
                             "baseline": base.stdout.strip().split("\n")[0], "repo_head": subprocess.run(["git", "-C", "/repo", "rev-parse", "--short", "HEAD"], stdout=subprocess.PIPE, text=True).stdout.strip()}
        json.dump(meta, open(os.path.join(d, "meta.json"), "w"), indent=1)
        print(sid, meta["confirmed"])
finally:
    subprocess.run(["git", "-C", "/repo", "worktree", "remove", "--force", wt])
