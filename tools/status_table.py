#!/usr/bin/env python3
"""Print the per-property status table for DESIGN.md 8.1 from Audit files, evidence and known.d."""
import json, os, re
V = os.path.dirname(os.path.dirname(os.path.abspath(__file__)))
ids = [json.loads(l)["id"] for l in open(os.path.join(V, "properties.jsonl"))]
print("| prop | obligations | theorems still named `_partial` | quick evaluations | distinct non-trivial | quick wall (s) | known findings | fixed findings |")
print("|---|---|---|---|---|---|---|---|")
for pid in ids:
    a = os.path.join(V, "lean", "Ypv", "Audit", pid + ".lean")
    names = re.findall(r"#print\s+axioms\s+(\S+)", open(a).read()) if os.path.exists(a) else []
    partial = [n.split(".")[-1] for n in names if n.endswith("_partial")]
    ev = {}
    e = os.path.join(V, "evidence", pid + ".json")
    if os.path.exists(e):
        ev = json.load(open(e))
    k = os.path.join(V, "known.d", pid + ".json")
    kn = json.load(open(k)) if os.path.exists(k) else []
    known = [f["id"] for f in kn if f.get("status") == "known"]
    fixed = [f.get("commit", "?") for f in kn if f.get("status") == "fixed"]
    cov = ev.get("coverage", {})
    print("| %s | %d | %s | %s | %s | %s | %s | %s |" % (pid, len(names), ", ".join(partial) or "–", cov.get("evaluations", "?"),
          cov.get("distinct_nontrivial", "?"), ev.get("wall_s", "?"), ", ".join(known) or "–", ", ".join(fixed) or "–"))
