import Ypv.Lemmas.ParserSim
/-!
# The specification writer (`Spec/Write.lean`) produces loosely written segments

`toL sep seg` is the way `writeSeg` writes `seg`: every special character escaped.  For well-formed
segments the text is `writeSeg`, the `strip = true` reading is `seg`, the `strip = false` reading is
`keepEsc sep seg`, and `LSeg.WF` holds.
-/
namespace Ypv.Sim
open Ypv

def tokenize (sep : Char) (k : Str) : List Tok := k.map (fun c => (special sep c, c))

theorem tokText_tokenize (sep : Char) (k : Str) : tokText (tokenize sep k) = escText sep k := by
  induction k with
  | nil => rfl
  | cons c k ih =>
    simp only [tokenize, tokText, escText, List.map_cons, List.flatMap_cons] at ih ⊢
    rw [ih]
    simp [Tok.text, escChar]

theorem tokChars_tokenize (sep : Char) (k : Str) : tokChars (tokenize sep k) = k := by
  simp only [tokChars, tokenize, List.map_map]
  exact List.map_id' k

theorem tokView_tokenize (sep : Char) (strip : Bool) (k : Str) :
    tokView strip (tokenize sep k) = if strip then k else escText sep k := by
  cases strip <;> simp [tokView, tokText_tokenize, tokChars_tokenize]

theorem tokenize_ne {sep : Char} {k : Str} (h : k ≠ []) : tokenize sep k ≠ [] := by
  simpa [tokenize] using h

theorem hard_of_special {sep c : Char} (h : special sep c = false) : hard c = false ∧ c ≠ sep := by
  simp only [special, Bool.or_eq_false_iff, decide_eq_false_iff_not] at h
  obtain ⟨⟨⟨⟨⟨⟨⟨⟨⟨⟨⟨h1, h2⟩, h3⟩, h4⟩, h5⟩, h6⟩, h7⟩, h8⟩, h9⟩, h10⟩, h11⟩, h12⟩ := h
  refine ⟨?_, h2⟩
  simp [hard, *]

theorem allBare_top (sep : Char) (k : Str) : allBare sep [] (tokenize sep k) := by
  intro t ht
  simp only [tokenize, List.mem_map] at ht
  obtain ⟨c, _, rfl⟩ := ht
  by_cases hs : special sep c = true
  · exact Or.inl hs
  · have := hard_of_special (sep := sep) (c := c) (by simpa using hs)
    exact Or.inr ⟨this.1, fun _ => this.2, by simp⟩

theorem allBare_br (sep : Char) {k : Str} (h : k.any opChar = false) :
    allBare sep ['['] (tokenize sep k) := by
  intro t ht
  simp only [tokenize, List.mem_map] at ht
  obtain ⟨c, hc, rfl⟩ := ht
  by_cases hs : special sep c = true
  · exact Or.inl hs
  · have hs' : special sep c = false := by simpa using hs
    have := hard_of_special hs'
    have ho : opChar c = false := by
      simp only [List.any_eq_false] at h
      simpa using h c hc
    exact Or.inr ⟨this.1, by simp, by simp [isOp_of hs' ho]⟩

theorem allBare_deep (sep : Char) (stk : List Char) (k : Str) (h1 : stk ≠ [])
    (h2 : ¬ (stk.length = 1 ∧ stk.head? = some '[')) : allBare sep stk (tokenize sep k) := by
  intro t ht
  simp only [tokenize, List.mem_map] at ht
  obtain ⟨c, _, rfl⟩ := ht
  by_cases hs : special sep c = true
  · exact Or.inl hs
  · have := hard_of_special (sep := sep) (c := c) (by simpa using hs)
    exact Or.inr ⟨this.1, fun h => absurd h h1, fun h => h2 ⟨h.1, h.2.1⟩⟩

theorem headNotAmp_tokenize {sep : Char} {k : Str} (h : k.head? ≠ some '&') :
    headNotAmp (tokenize sep k) := by
  intro t ht
  cases k with
  | nil => simp [tokenize] at ht
  | cons c k =>
    simp [tokenize] at ht
    subst ht
    right
    simpa using h

/-- how the specification writer writes a segment -/
def toL (sep : Char) : Seg → LSeg
  | (.key, .str k) => .key (tokenize sep k)
  | (.matchAll, .none) => .matchAll
  | (.traverse, .none) => .traverse
  | (.index, .int i) => .index i
  | (.index, .str sl) => .slice sl
  | (.anchor, .str a) => .anchor false (tokenize sep a)
  | (.search, .search inv m attr term) =>
    if m = .regex then .regex inv (tokenize sep attr) ((pickDelim term).getD '/') term
    else .search inv m (tokenize sep attr) (tokenize sep term)
  | (.keywordSearch, .keyword inv kw ps) => .keyword inv kw (tokenize sep ps)
  | (.collector, .collector e op) => .collector (tokenize sep e) op
  | _ => .matchAll

theorem pickDelim_spec {term : Str} {d : Char} (h : pickDelim term = some d) :
    d ≠ '\\' ∧ d ≠ ' ' ∧ d ∉ term := by
  unfold pickDelim at h
  have hm := List.mem_of_find?_eq_some h
  have hp := List.find?_some h
  refine ⟨?_, ?_, by simpa using hp⟩
  · rintro rfl; revert hm; decide
  · rintro rfl; revert hm; decide

theorem toL_text {sep : Char} {ac : Bool} (lead : Bool) (seg : Seg) (hwf : wfSeg ac seg = true) :
    (toL sep seg).text sep lead = writeSeg sep lead seg := by
  obtain ⟨t, a⟩ := seg
  cases t <;> cases a <;> simp only [wfSeg, Bool.false_eq_true] at hwf
  case key.str k => simp [toL, LSeg.text, writeSeg, sepIf, tokText_tokenize]
  case matchAll.none => simp [toL, LSeg.text, writeSeg, sepIf]
  case traverse.none => simp [toL, LSeg.text, writeSeg, sepIf]
  case index.int i => simp [toL, LSeg.text, writeSeg]
  case index.str s => simp [toL, LSeg.text, writeSeg]
  case anchor.str s => simp [toL, LSeg.text, writeSeg, tokText_tokenize]
  case search.search inv m attr term =>
    by_cases hm : m = .regex
    · subst hm
      simp only [Bool.and_eq_true, ↓reduceIte] at hwf
      obtain ⟨d, hd⟩ := Option.isSome_iff_exists.mp hwf.2
      simp [toL, LSeg.text, writeSeg, tokText_tokenize, hd, invText]
    · simp [toL, LSeg.text, writeSeg, tokText_tokenize, hm, invText]
  case keywordSearch.keyword inv kw p =>
    simp [toL, LSeg.text, writeSeg, tokText_tokenize, invText]
  case collector.collector e op => simp [toL, LSeg.text, writeSeg, tokText_tokenize]

theorem toL_seg {sep : Char} {ac : Bool} (strip : Bool) (seg : Seg) (hwf : wfSeg ac seg = true) :
    (toL sep seg).seg strip = if strip then seg else keepEsc sep seg := by
  obtain ⟨t, a⟩ := seg
  cases t <;> cases a <;> simp only [wfSeg, Bool.false_eq_true] at hwf
  case search.search inv m attr term =>
    by_cases hm : m = .regex
    · subst hm; cases strip <;> simp [toL, LSeg.seg, keepEsc, tokView_tokenize]
    · cases strip <;> simp [toL, LSeg.seg, keepEsc, tokView_tokenize, hm]
  all_goals cases strip <;> simp [toL, LSeg.seg, keepEsc, tokView_tokenize]

theorem toL_flags {ac : Bool} (sep : Char) (seg : Seg) (hwf : wfSeg ac seg = true) :
    (toL sep seg).isColl = isColl seg ∧ (toL sep seg).isInter = isInterColl seg ∧
    (toL sep seg).isTop = false := by
  obtain ⟨t, a⟩ := seg
  cases t <;> cases a <;> simp only [wfSeg, Bool.false_eq_true] at hwf
  case search.search inv m attr term =>
    by_cases hm : m = .regex <;>
      simp [toL, hm, LSeg.isColl, LSeg.isInter, LSeg.isTop, isColl, isInterColl]
  case collector.collector e op =>
    cases op <;> simp [toL, LSeg.isColl, LSeg.isInter, LSeg.isTop, isColl, isInterColl]
  all_goals simp [toL, LSeg.isColl, LSeg.isInter, LSeg.isTop, isColl, isInterColl]

theorem star_tokenize {sep : Char} {k : Str} (h : k.contains '*' = false) :
    '*' ∉ tokChars (tokenize sep k) := by
  rw [tokChars_tokenize]; simpa using h

theorem toL_wf {sep : Char} {ac : Bool} (seg : Seg) (hwf : wfSeg ac seg = true) :
    (toL sep seg).WF sep ac := by
  obtain ⟨t, a⟩ := seg
  cases t <;> cases a <;> simp only [wfSeg, Bool.false_eq_true] at hwf
  case key.str k =>
    simp only [wfKeyText, Bool.and_eq_true, Bool.not_eq_true', decide_eq_true_eq,
      Bool.or_eq_true, Bool.and_eq_false_imp] at hwf
    obtain ⟨⟨⟨⟨hne, hstar⟩, hamp⟩, _⟩, hpm⟩ := hwf
    refine ⟨tokenize_ne hne, headNotAmp_tokenize hamp, ?_, allBare_top sep k, star_tokenize hstar⟩
    intro ha t ht
    cases k with
    | nil => simp [tokenize] at ht
    | cons c k =>
      simp [tokenize] at ht
      subst ht
      right
      simpa using hpm ha
  case matchAll.none => trivial
  case traverse.none => trivial
  case index.int i => trivial
  case index.str s => exact hwf
  case anchor.str s =>
    simp only [Bool.and_eq_true, Bool.not_eq_true', decide_eq_true_eq] at hwf
    exact ⟨tokenize_ne hwf.1.1, allBare_br sep hwf.2⟩
  case search.search inv m attr term =>
    simp only [Bool.and_eq_true, Bool.not_eq_true', decide_eq_true_eq] at hwf
    obtain ⟨⟨⟨⟨hne, hamp⟩, hop⟩, hq⟩, hterm⟩ := hwf
    by_cases hm : m = .regex
    · subst hm
      simp only [↓reduceIte] at hterm
      obtain ⟨d, hd⟩ := Option.isSome_iff_exists.mp hterm
      obtain ⟨h1, h2, h3⟩ := pickDelim_spec hd
      simp only [toL, ↓reduceIte, hd, Option.getD_some]
      exact ⟨tokenize_ne hne, headNotAmp_tokenize hamp, allBare_br sep hop, h1, h2, h3, hq⟩
    · simp only [hm, ↓reduceIte, Bool.not_eq_true'] at hterm
      simp only [toL, hm, ↓reduceIte]
      exact ⟨hm, tokenize_ne hne, headNotAmp_tokenize hamp, allBare_br sep hop,
        allBare_br sep hterm, by rw [tokChars_tokenize]; exact hq⟩
  case keywordSearch.keyword inv kw p =>
    exact allBare_deep sep _ p (by simp) (by simp)
  case collector.collector e op =>
    simp only [Bool.or_eq_true, decide_eq_true_eq] at hwf
    exact ⟨hwf, allBare_deep sep _ e (by simp) (by simp)⟩

theorem toL_wfFrom {sep : Char} : ∀ (segs : List Seg) (ac : Bool), wfFrom ac segs = true →
    wfFromL sep ac (segs.map (toL sep)) := by
  intro segs
  induction segs with
  | nil => intro _ _; trivial
  | cons s r ih =>
    intro ac hwf
    simp only [wfFrom, Bool.and_eq_true] at hwf
    refine ⟨toL_wf s hwf.1, ?_⟩
    rw [(toL_flags sep s hwf.1).1]
    exact ih _ hwf.2

theorem textFrom_toL {sep : Char} : ∀ (segs : List Seg) (ac lead : Bool), wfFrom ac segs = true →
    textFrom sep lead (segs.map (toL sep)) = writeFrom sep lead segs := by
  intro segs
  induction segs with
  | nil => intro _ _ _; rfl
  | cons s r ih =>
    intro ac lead hwf
    simp only [wfFrom, Bool.and_eq_true] at hwf
    simp only [List.map_cons, textFrom, writeFrom, toL_text lead s hwf.1, ih _ true hwf.2]

theorem textAll_toL (fslash : Bool) (segs : List Seg) (hwf : wfSegs segs = true) :
    textAll fslash (segs.map (toL (if fslash then '/' else '.'))) = write fslash segs := by
  cases fslash <;> simp [textAll, write, textFrom_toL segs false false hwf]

theorem map_seg_toL {sep : Char} (strip : Bool) : ∀ (segs : List Seg) (ac : Bool),
    wfFrom ac segs = true →
    (segs.map (toL sep)).map (LSeg.seg strip) = if strip then segs else segs.map (keepEsc sep) := by
  intro segs
  induction segs with
  | nil => intro _ _; cases strip <;> rfl
  | cons s r ih =>
    intro ac hwf
    simp only [wfFrom, Bool.and_eq_true] at hwf
    have h1 := toL_seg (sep := sep) strip s hwf.1
    have h2 := ih _ hwf.2
    cases strip <;> simp_all

theorem write_nonblank (fslash : Bool) (segs : List Seg) (hwf : wfSegs segs = true) :
    normOriginal (write fslash segs) = write fslash segs := by
  cases fslash with
  | true => exact normOriginal_of_nonblank ⟨'/', by simp [write], by decide⟩
  | false =>
    cases segs with
    | nil => simp [write, writeFrom, normOriginal]
    | cons s r =>
      simp only [wfSegs, wfFrom, Bool.and_eq_true] at hwf
      apply normOriginal_of_nonblank
      obtain ⟨c, hc, hw⟩ := writeSeg_nonblank (sep := '.') s hwf.1
      exact ⟨c, by simp [write, writeFrom, hc], hw⟩

/-- **parse ∘ write, either value of `strip`**, every well-formed list, both notations. -/
theorem parseWith_write (fslash strip : Bool) (segs : List Seg) (hwf : wfSegs segs = true) :
    parseWith fslash strip (write fslash segs) =
      .ok (if strip then segs else segs.map (keepEsc (if fslash then '/' else '.'))) := by
  have := parseWith_texts fslash strip (segs.map (toL (if fslash then '/' else '.')))
    (toL_wfFrom segs false hwf)
    (by rw [textAll_toL fslash segs hwf]; exact write_nonblank fslash segs hwf)
  rw [textAll_toL fslash segs hwf, map_seg_toL strip segs false hwf] at this
  exact this

end Ypv.Sim
