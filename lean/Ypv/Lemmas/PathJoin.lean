import Ypv.Lemmas.PathSim
/-!
# Path text appended section by section (`YAMLPath.__add__` / `append`, any number of times)

`parseWith_texts_snoc` (C08) reads a canonical text to which ONE section was appended behind a
separator.  The evaluator builds the reported path by appending a section per step
(`translated_path + escape_path_section(key)`, `+ "[{}]".format(idx)`, `+ "[&{}]"…`), each append
inserting a separator — also in front of a bracketed section (`a.[0].b.[&x]`).  `parseWith_texts_join`
is the general form: a loosely written prefix followed by ANY number of appended sections.
-/
namespace Ypv.Acc
open Ypv Ypv.Sim

/-- sections appended one by one: each behind a separator -/
def joinFrom (sep : Char) : List LSeg → Str
  | [] => []
  | l :: r => sep :: (l.text sep false ++ joinFrom sep r)

theorem joinFrom_append (sep : Char) (a b : List LSeg) :
    joinFrom sep (a ++ b) = joinFrom sep a ++ joinFrom sep b := by
  induction a with
  | nil => rfl
  | cons l r ih => simp [joinFrom, ih]

theorem lastAc_append (ms : List LSeg) : ∀ (ls : List LSeg) (ac : Bool),
    lastAc ac (ls ++ ms) = lastAc (lastAc ac ls) ms := by
  intro ls
  induction ls with
  | nil => intro ac; rfl
  | cons l r ih => intro ac; simp [lastAc, ih]

theorem wfFromL_append {sep : Char} (ms : List LSeg) : ∀ (ls : List LSeg) (ac : Bool),
    wfFromL sep ac (ls ++ ms) ↔ (wfFromL sep ac ls ∧ wfFromL sep (lastAc ac ls) ms) := by
  intro ls
  induction ls with
  | nil => intro ac; simp [wfFromL, lastAc]
  | cons l r ih => intro ac; simp [wfFromL, lastAc, ih, and_assoc]

/-- **The parser loop over appended sections**: from a between-segments state, each appended section
(a separator, then the section's own text) is read back as its segment.  After the separator the
parser looks for an anchor mark, so no appended section may be an `&` collector. -/
theorem run_joinFrom {sep : Char} (hsep : sep = '.' ∨ sep = '/') (strip : Bool) :
    ∀ (ls : List LSeg) (ac : Bool) (st : PState) (ss : List Seg), Inv ac st ss →
    wfFromL sep ac ls → (∀ l ∈ ls, l.isInter = false) →
    ∃ st', run sep strip st (joinFrom sep ls) = .ok st' ∧
      Inv (lastAc ac ls) st' (ss ++ ls.map (LSeg.seg strip)) := by
  intro ls
  induction ls with
  | nil => intro ac st ss h _ _; exact ⟨st, by simp [joinFrom, run], by simpa [lastAc] using h⟩
  | cons l r ih =>
    intro ac st ss h hwf hni
    obtain ⟨hw1, hw2⟩ := hwf
    obtain ⟨st1, hs1, hi1, h11, h12, h13⟩ := step_sep hsep strip h
    obtain ⟨st2, hr2, hi2, _⟩ := sim_any hsep strip hi1 false l (fun _ => ⟨h11, h12, fun _ => h13⟩)
      (fun hi => by rw [hni l (by simp)] at hi; cases hi) hw1
    obtain ⟨st3, hr3, hi3⟩ := ih l.isColl st2 (ss ++ [l.seg strip]) hi2 hw2
      (fun x hx => hni x (by simp [hx]))
    refine ⟨st3, ?_, by simpa [lastAc] using hi3⟩
    simp only [joinFrom, run, hs1]
    rw [run_append_ok hr2]
    exact hr3

/-- **A loosely written prefix followed by any number of appended sections** parses to the segments of
the prefix followed by the segments of the sections (what `YAMLPath.append`, applied repeatedly,
builds); `parseWith_texts_snoc` is the case of one section. -/
theorem parseWith_texts_join (fslash strip : Bool) (ls ms : List LSeg)
    (hwf : wfFromL (if fslash then '/' else '.') false (ls ++ ms)) (hne : ls ≠ [])
    (hni : ∀ l ∈ ms, l.isInter = false) (o1 : Str)
    (ho : o1 = textAll fslash ls ++ joinFrom (if fslash then '/' else '.') ms)
    (hn : normOriginal o1 = o1) :
    parseWith fslash strip o1 = .ok ((ls ++ ms).map (LSeg.seg strip)) := by
  have hsep : (if fslash then '/' else '.') = '.' ∨ (if fslash then '/' else '.') = '/' := by
    cases fslash <;> simp
  obtain ⟨hwl, hwm⟩ := (wfFromL_append ms ls false).mp hwf
  have hT := textAll_ne fslash ls hwl hne
  have ho1 : o1 ≠ [] := by rw [ho]; simp [hT]
  unfold parseWith
  simp only [hn]
  simp only [ho1, ↓reduceIte]
  obtain ⟨st2, hr2, hi2⟩ := run_textAll fslash strip ls hwl
    (o1[if fslash = true ∧ o1.length > 1 then 1 else 0]? = some '&') (by
      intro hf; subst hf
      cases ls with
      | nil => exact absurd rfl hne
      | cons l0 r =>
        simp only [Bool.false_eq_true, ↓reduceIte] at hwl
        have h1 := textAll_head l0 r hwl.1 []
        have h2 := textAll_head l0 r hwl.1 (joinFrom '.' ms)
        simp only [List.append_nil] at h1
        simp only [Bool.false_eq_true, false_and, ↓reduceIte, ho, h1, h2])
  obtain ⟨st3, hr3, hi3⟩ := run_joinFrom hsep strip ms _ st2 _ hi2 hwm hni
  have : run (if fslash then '/' else '.') strip
      { seekingAnchorMark := o1[if fslash = true ∧ o1.length > 1 then 1 else 0]? = some '&' } o1
      = .ok st3 := by
    conv => lhs; arg 4; rw [ho]
    rw [run_append_ok hr2]
    exact hr3
  simp only [this]
  simpa using finish_of_inv hi3

end Ypv.Acc
