import Ypv.Lemmas.Eval
/-!
# The matcher of the comparison model and the keyword handler never crash — except C15-K1
(helpers of `Props/C15`, `Props/C01`)
-/
namespace Ypv
namespace W1
open Ypv.Eval Gen

/-- An outcome that is a value or a non-crash error. -/
def SafeE {α : Type} (r : Except Err α) : Prop := ∀ e, r = .error e → e.isCrash = false

theorem safeE_ok {α : Type} (x : α) : SafeE (.ok x : Except Err α) := by intro e h; cases h
theorem safeE_err {α : Type} {e : Err} (h : e.isCrash = false) : SafeE (.error e : Except Err α) := by
  intro e' h'; cases h'; exact h

/-! ## `search_matches` -/

/-- The body of `Searches.search_matches` never ends in a crash outcome, whatever the two typed
values are (text term: `searchMatches`; scalar needle, as `max`/`min` call it: `searchMatchesScalar`). -/
theorem safe_searchTyped (rx : Str → Str → Option Bool) (m : Method) (th tn : Typed) (hay needle : Str) :
    SafeE (searchTyped rx m th tn hay needle) := by
  intro e h
  unfold searchTyped at h
  split at h
  · cases h; rfl
  · cases m
    case regex =>
      cases hr : rx needle hay with
      | none => rw [hr] at h; cases h; rfl
      | some b => rw [hr] at h; cases h
    case equals =>
      revert h
      cases th <;> cases tn <;> intro h <;> cases h
    all_goals cases h

theorem mtSafe_mtCompare (rx : Str → Str → Option Bool) {orc : Matcher} (horc : MtSafe orc) :
    MtSafe (mtCompare rx orc) := by
  intro m n t e h
  unfold mtCompare at h
  split at h
  · rename_i a v
    split at h
    · exact horc _ _ _ _ h
    · exact safe_searchTyped rx m _ _ _ _ e h
  · exact horc _ _ _ _ h

theorem mtSafe_noOracle : MtSafe noOracle := by
  intro m n t e h
  cases h
  rfl

/-! ## `max` / `min`, `has_child`, `name`, `parent` -/

theorem safe_mmStep (better : Method) (st : MM) (c : Cand) : SafeE (mmStep better st c) := by
  intro e h
  unfold mmStep at h
  split at h
  · cases h
  · split at h
    · cases h
    · split at h
      · rename_i e' he'
        cases h
        exact safe_searchTyped _ _ _ _ _ _ e he'
      · cases h
      · split at h
        · rename_i e' he'
          cases h
          exact safe_searchTyped _ _ _ _ _ _ e he'
        · cases h
        · cases h

theorem safe_mmScan (better : Method) : ∀ (cs : List Cand) (st : MM), SafeE (mmScan better st cs) := by
  intro cs
  induction cs with
  | nil => intro st e h; cases h
  | cons c cs ih =>
    intro st e h
    unfold mmScan at h
    split at h
    · rename_i e' he'
      cases h
      exact safe_mmStep better st c e he'
    · exact ih _ e h

theorem safe_comparable (n : Node) : SafeE (comparable n) := by
  intro e h
  cases n with
  | scalar a v => cases v <;> cases h
  | _ => cases h; rfl

theorem safe_aohVal (name : Str) (n : Node) :
    SafeE (match n with
      | .map _ es => match attrOf es name with
        | some x => comparable x
        | none => .ok none
      | _ => (.ok none : Except Err (Option Scalar))) := by
  cases n with
  | map an es =>
    simp only []
    cases hx : attrOf es name with
    | some x => exact safe_comparable x
    | none => exact safeE_ok _
  | _ => exact safeE_ok _

theorem safe_candsAoh (name : Str) (a : Addr) : ∀ (items : List Node) (i : Nat), SafeE (candsAoh name a items i) := by
  intro items
  induction items with
  | nil => intro i e h; cases h
  | cons n rest ih =>
    intro i e h
    unfold candsAoh at h
    simp only [] at h
    have hv := safe_aohVal name n
    split at h
    · rename_i heq
      cases h
      exact hv e heq
    · rename_i heq
      cases h
      exact ih (i + 1) e heq
    · cases h

theorem safe_candsMap (name : Str) (inData : Bool) (a : Addr) : ∀ (es : List (Key × Node)), SafeE (candsMap name inData a es) := by
  intro es
  induction es with
  | nil => intro e h; cases h
  | cons kv rest ih =>
    obtain ⟨k, n⟩ := kv
    intro e h
    unfold candsMap at h
    simp only [] at h
    split at h
    · rename_i e' he'
      cases h
      revert he'
      cases n with
      | map an es' =>
        simp only []
        cases hx : attrOf es' name with
        | some x => simp only []; intro he'; exact safe_comparable x e he'
        | none => simp only []; intro he'; cases he'
      | _ =>
        simp only []
        split
        · intro he'; cases he'; rfl
        · intro he'; cases he'
    · split at h
      · rename_i e' he'
        cases h
        exact ih e he'
      · cases h

theorem safe_candsList (a : Addr) : ∀ (items : List Node) (i : Nat), SafeE (candsList a items i) := by
  intro items
  induction items with
  | nil => intro i e h; cases h
  | cons n rest ih =>
    intro i e h
    unfold candsList at h
    split at h
    · rename_i e' he'
      cases h
      exact safe_comparable n e he'
    · split at h
      · rename_i e' he'
        cases h
        exact ih (i + 1) e he'
      · cases h

theorem safe_map {α β : Type} (f : α → β) {r : Except Err α} (h : SafeE r) : SafeE (r.map f) := by
  intro e he
  cases r with
  | ok x => cases he
  | error e' => cases he; exact h e rfl

theorem safe_mmCands (data : Node) (a : Addr) (scan : Option Str) : SafeE (mmCands data a scan) := by
  unfold mmCands
  cases data with
  | scalar an v => exact safeE_ok _
  | set an ms => exact safeE_err rfl
  | seq an items =>
    simp only []
    split
    · cases scan with
      | none => exact safeE_err rfl
      | some name => exact safe_map _ (safe_candsAoh name a items 0)
    · cases scan with
      | some name => exact safeE_err rfl
      | none => exact safe_map _ (safe_candsList a items 0)
  | map an es =>
    cases scan with
    | none => exact safeE_err rfl
    | some name => exact safe_map _ (safe_candsMap name _ a es)

theorem safe_kwMinMax (better : Method) (data : Node) (a : Addr) (inv : Bool) (ps : List Str) :
    SafeE (kwMinMax better data a inv ps) := by
  intro e h
  unfold kwMinMax at h
  split at h
  · cases h; rfl
  · split at h
    · rename_i e' he'
      cases h
      exact safe_mmCands _ _ _ e he'
    · cases h
    · split at h
      · rename_i e' he'
        cases h
        exact safe_mmScan _ _ _ e he'
      · cases h

theorem safe_hasChild (data : Node) (a : Addr) (inv : Bool) (ps : List Str) : SafeE (hasChild data a inv ps) := by
  intro e h
  unfold hasChild at h
  split at h
  · split at h
    · cases h; rfl
    · cases h; rfl
    · revert h
      unfold hasConcreteChild
      cases data with
      | scalar an v => cases v <;> intro h <;> cases h <;> rfl
      | seq an items => simp only []; split <;> intro h <;> cases h
      | map an es => intro h; cases h
      | set an ms => intro h; cases h; rfl
  · cases h; rfl

theorem safe_kwName (a : Addr) (inv : Bool) (ps : List Str) : SafeE (kwName a inv ps) := by
  intro e h
  unfold kwName at h
  split at h
  · cases h; rfl
  · split at h
    · cases h; rfl
    · cases h

theorem safe_kwParent (a : Addr) (inv : Bool) (ps : List Str) : SafeE (kwParent a inv ps) := by
  intro e h
  unfold kwParent at h
  split at h
  · cases h; rfl
  · split at h
    · cases h; rfl
    · simp only [] at h
      split at h
      · cases h; rfl
      · split at h
        · cases h; rfl
        · split at h <;> cases h

/-! ## `unique` / `distinct`: the class of C15-K1 -/

/-- A value Python cannot hash: a hash or a list (a `CommentedMap` / `CommentedSeq`). -/
def unhashable : Node → Bool
  | .seq .. => true
  | .map .. => true
  | _ => false

/-- The member is a hash whose attribute `name` is unhashable. -/
def attrUnhashable (name : Str) : Node → Bool
  | .map _ es => match attrOf es name with
    | some x => unhashable x
    | none => false
  | _ => false

/-- **The input class of the known finding C15-K1**: the collection `n`, grouped by
`unique([scan])` / `distinct([scan])`, has a member whose compared value is unhashable — a plain
list holding a hash or a list; an Array-of-Hashes or a hash of hashes one of whose members has a
hash or a list under the scanned attribute. -/
def K1Node (n : Node) (scan : Option Str) : Bool :=
  match n with
  | .seq _ items =>
    if isAoh true items then
      match scan with
      | some name => items.any (attrUnhashable name)
      | none => false
    else
      match scan with
      | none => items.any unhashable
      | some _ => false
  | .map _ es =>
    match scan with
    | some name => es.any (fun kv => attrUnhashable name kv.2)
    | none => false
  | _ => false

/-- The segment is `[unique(…)]` / `[distinct(…)]` and the node is in the class of C15-K1 for its
parameter. -/
def K1Class (s : ESeg) (n : Node) : Bool :=
  match s with
  | .keyword _ k p =>
    (k == .unique || k == .distinct) &&
      (match splitParams p with
       | .ok ps => K1Node n ps.head?
       | .error _ => false)
  | _ => false

/-- A crash outcome is `TypeError`, and the condition `P` holds. -/
def CrashK1 {α : Type} (r : Except Err α) (P : Prop) : Prop :=
  ∀ e, r = .error e → e.isCrash = true → e = .crash .typeError ∧ P

theorem crash_groupKey (x : Node) : CrashK1 (groupKey x) (unhashable x = true) := by
  intro e h hc
  cases x with
  | scalar a v => cases h
  | seq a items => cases h; exact ⟨rfl, rfl⟩
  | map a es => cases h; exact ⟨rfl, rfl⟩
  | set a ms => cases h; cases hc

theorem crash_groupAoh (name : Str) (a : Addr) : ∀ (items : List Node) (g : Groups) (i : Nat),
    CrashK1 (groupAoh name a g items i) (items.any (attrUnhashable name) = true) := by
  intro items
  induction items with
  | nil => intro g i e h; cases h
  | cons n rest ih =>
    intro g i e h hc
    have tail : ∀ g', groupAoh name a g' rest (i + 1) = .error e →
        e = .crash .typeError ∧ (n :: rest).any (attrUnhashable name) = true := by
      intro g' h'
      obtain ⟨h1, h2⟩ := ih g' (i + 1) e h' hc
      exact ⟨h1, by simp [h2]⟩
    cases n with
    | map an es =>
      simp only [groupAoh] at h
      cases hx : attrOf es name with
      | none => rw [hx] at h; exact tail _ h
      | some x =>
        rw [hx] at h
        simp only [] at h
        cases hk : groupKey x with
        | error e' =>
          rw [hk] at h
          cases h
          obtain ⟨h1, h2⟩ := crash_groupKey x e hk hc
          exact ⟨h1, by simp [attrUnhashable, hx, h2]⟩
        | ok v => rw [hk] at h; exact tail _ h
    | scalar an v => simp only [groupAoh] at h; exact tail _ h
    | seq an l => simp only [groupAoh] at h; exact tail _ h
    | set an l => simp only [groupAoh] at h; exact tail _ h

theorem crash_groupMap (name : Str) (inData : Bool) (a : Addr) : ∀ (es : List (Key × Node)) (g : Groups),
    CrashK1 (groupMap name inData a g es) (es.any (fun kv => attrUnhashable name kv.2) = true) := by
  intro es
  induction es with
  | nil => intro g e h; cases h
  | cons kv rest ih =>
    obtain ⟨k, n⟩ := kv
    intro g e h hc
    have tail : ∀ g', groupMap name inData a g' rest = .error e →
        e = .crash .typeError ∧ ((k, n) :: rest).any (fun kv => attrUnhashable name kv.2) = true := by
      intro g' h'
      obtain ⟨h1, h2⟩ := ih g' e h' hc
      exact ⟨h1, by simp only [List.any_cons, h2, Bool.or_true]⟩
    cases n with
    | map an es' =>
      simp only [groupMap] at h
      cases hx : attrOf es' name with
      | none => rw [hx] at h; exact tail _ h
      | some x =>
        rw [hx] at h
        simp only [] at h
        cases hk : groupKey x with
        | error e' =>
          rw [hk] at h
          cases h
          obtain ⟨h1, h2⟩ := crash_groupKey x e hk hc
          exact ⟨h1, by simp [attrUnhashable, hx, h2]⟩
        | ok v => rw [hk] at h; exact tail _ h
    | scalar an v =>
      simp only [groupMap] at h
      split at h
      · cases h; cases hc
      · exact tail _ h
    | seq an l =>
      simp only [groupMap] at h
      split at h
      · cases h; cases hc
      · exact tail _ h
    | set an l =>
      simp only [groupMap] at h
      split at h
      · cases h; cases hc
      · exact tail _ h

theorem crash_groupList (a : Addr) : ∀ (items : List Node) (g : Groups) (i : Nat),
    CrashK1 (groupList a g items i) (items.any unhashable = true) := by
  intro items
  induction items with
  | nil => intro g i e h; cases h
  | cons n rest ih =>
    intro g i e h hc
    simp only [groupList] at h
    cases hk : groupKey n with
    | error e' =>
      rw [hk] at h
      cases h
      obtain ⟨h1, h2⟩ := crash_groupKey n e hk hc
      exact ⟨h1, by simp [h2]⟩
    | ok v =>
      rw [hk] at h
      obtain ⟨h1, h2⟩ := ih _ (i + 1) e h hc
      exact ⟨h1, by simp [h2]⟩

theorem crash_map {α β : Type} (f : α → β) {r : Except Err α} {P : Prop} (h : CrashK1 r P) : CrashK1 (r.map f) P := by
  intro e he hc
  cases r with
  | ok x => cases he
  | error e' => cases he; exact h e rfl hc

theorem crash_kwGroups (data : Node) (a : Addr) (scan : Option Str) :
    CrashK1 (kwGroups data a scan) (K1Node data scan = true) := by
  unfold kwGroups K1Node
  cases data with
  | scalar an v => intro e h; cases h
  | set an ms => intro e h hc; cases h; cases hc
  | seq an items =>
    simp only []
    split
    · cases scan with
      | none => intro e h hc; cases h; cases hc
      | some name => exact crash_map _ (crash_groupAoh name a items [] 0)
    · cases scan with
      | some name => intro e h hc; cases h; cases hc
      | none => exact crash_map _ (crash_groupList a items [] 0)
  | map an es =>
    cases scan with
    | none => intro e h hc; cases h; cases hc
    | some name => exact crash_map _ (crash_groupMap name _ a es [])

theorem crash_kwDistinct (data : Node) (a : Addr) (inv : Bool) (ps : List Str) :
    CrashK1 (kwDistinct data a inv ps) (K1Node data ps.head? = true) := by
  intro e h hc
  unfold kwDistinct at h
  split at h
  · cases h; cases hc
  · split at h
    · cases h; cases hc
    · split at h
      · rename_i e' he'
        cases h
        exact crash_kwGroups _ _ _ e he' hc
      · cases h
      · cases h

theorem crash_kwUnique (data : Node) (a : Addr) (inv : Bool) (ps : List Str) :
    CrashK1 (kwUnique data a inv ps) (K1Node data ps.head? = true) := by
  intro e h hc
  unfold kwUnique at h
  split at h
  · cases h; cases hc
  · split at h
    · rename_i e' he'
      cases h
      exact crash_kwGroups _ _ _ e he' hc
    · cases h
    · cases h

theorem safe_of_crashK1 {α : Type} {r : Except Err α} {P : Prop} (h : CrashK1 r P) (hP : ¬ P) : SafeE r := by
  intro e he
  cases hc : e.isCrash with
  | false => rfl
  | true => exact absurd (h e he hc).2 hP

/-- **Where `KeywordSearches.search_matches` can crash**: only `unique` / `distinct`, only with
`TypeError`, only on a collection in the class of C15-K1. -/
theorem crash_kwSearch (data : Node) (a : Addr) (inv : Bool) (k : Keyword) (p : Str) :
    CrashK1 (kwSearch data a inv k p) (K1Class (.keyword inv k p) data = true) := by
  intro e h hc
  unfold kwSearch at h
  cases hs : splitParams p with
  | error e' => rw [hs] at h; cases h; cases hc
  | ok ps =>
    rw [hs] at h
    simp only [] at h
    cases k with
    | distinct =>
      obtain ⟨h1, h2⟩ := crash_kwDistinct data a inv ps e h hc
      exact ⟨h1, by simp [K1Class, hs, h2]⟩
    | unique =>
      obtain ⟨h1, h2⟩ := crash_kwUnique data a inv ps e h hc
      exact ⟨h1, by simp [K1Class, hs, h2]⟩
    | hasChild => rw [safe_hasChild data a inv ps e h] at hc; cases hc
    | name => rw [safe_kwName a inv ps e h] at hc; cases hc
    | max => rw [safe_kwMinMax .gt data a inv ps e h] at hc; cases hc
    | min => rw [safe_kwMinMax .lt data a inv ps e h] at hc; cases hc
    | parent => rw [safe_kwParent a inv ps e h] at hc; cases hc

/-- The same for the handler of the evaluator. -/
theorem crash_kwStep (rt : Node) (inv : Bool) (k : Keyword) (p : Str) (n : Node) (c : Ctx) (e : Err)
    (h : (kwStep rt inv k p n c).2 = some e) (hc : e.isCrash = true) :
    e = .crash .typeError ∧ K1Class (.keyword inv k p) n = true := by
  unfold kwStep at h
  split at h
  · rename_i e' he'
    simp only [Gen.fail, Option.some.injEq] at h
    subst h
    exact crash_kwSearch n c.addr inv k p _ he' hc
  · simp [Gen.one] at h
  · split at h
    · simp [Gen.ofList] at h
    · simp only [Gen.fail, Option.some.injEq] at h
      subst h
      cases hc

/-- A keyword segment outside the class of C15-K1 at every node never crashes. -/
theorem kwOk_of_not_grouping (rt : Node) (s : ESeg) (hs : s.grouping = false) : KwOk rt s := by
  intro inv k p hsk n c e he
  subst hsk
  cases hc : e.isCrash with
  | false => rfl
  | true =>
    obtain ⟨_, h2⟩ := crash_kwStep rt inv k p n c e he hc
    cases k <;> simp_all [K1Class, ESeg.grouping]

end W1
end Ypv
