import Ypv.Lemmas.WriteSim
import Ypv.Lemmas.RenderSim
/-!
# Written path → `unescaped` → `str()` in either notation → parsed again
-/
namespace Ypv.Sim
open Ypv

def sepOf (fslash : Bool) : Char := if fslash then '/' else '.'

theorem sepOf_ok (f : Bool) : sepOf f = '.' ∨ sepOf f = '/' := by cases f <;> simp [sepOf]

/-- the written text of the segment holds a character that is not white space -/
def LSeg.NB : LSeg → Prop
  | .key ts => ∃ t ∈ ts, t.1 = true ∨ isPyWs t.2 = false
  | _ => True

theorem text_nonblank {sep : Char} (l : LSeg) (hnb : l.NB) :
    ∃ c ∈ l.text sep false, isPyWs c = false := by
  cases l with
  | key ts =>
    obtain ⟨t, ht, h⟩ := hnb
    obtain ⟨e, c⟩ := t
    cases e with
    | true =>
      refine ⟨'\\', ?_, by decide⟩
      simp only [LSeg.text, sepIf, Bool.false_eq_true, ↓reduceIte, List.nil_append, tokText,
        List.mem_flatMap]
      exact ⟨_, ht, by simp [Tok.text]⟩
    | false =>
      refine ⟨c, ?_, by simpa using h⟩
      simp only [LSeg.text, sepIf, Bool.false_eq_true, ↓reduceIte, List.nil_append, tokText,
        List.mem_flatMap]
      exact ⟨_, ht, by simp [Tok.text]⟩
  | matchAll => exact ⟨'*', by simp [LSeg.text, sepIf], by decide⟩
  | traverse => exact ⟨'*', by simp [LSeg.text, sepIf], by decide⟩
  | index i => exact ⟨'[', by simp [LSeg.text], by decide⟩
  | slice sl => exact ⟨'[', by simp [LSeg.text], by decide⟩
  | anchor top ts =>
    cases top
    · exact ⟨'[', by simp [LSeg.text], by decide⟩
    · exact ⟨'&', by simp [LSeg.text, sepIf], by decide⟩
  | search inv m attr term => exact ⟨'[', by simp [LSeg.text], by decide⟩
  | regex inv attr d term => exact ⟨'[', by simp [LSeg.text], by decide⟩
  | keyword inv kw ps => exact ⟨'[', by simp [LSeg.text], by decide⟩
  | collector e op => exact ⟨'(', by simp [LSeg.text], by decide⟩

theorem remark1_nb (sep : Char) (a : Bool) (l : LSeg) (h : l.NB) : (remark1 sep a l).NB := by
  cases l <;> try trivial
  case key ts =>
    obtain ⟨t, ht, h1⟩ := h
    refine ⟨markAll (keySyms sep) t, by simp only [remarkT, List.mem_map]; exact ⟨t, ht, rfl⟩, ?_⟩
    rcases h1 with h1 | h1
    · left; simp [markAll, h1]
    · right; exact h1

theorem toL_nb {sep : Char} {ac : Bool} (seg : Seg) (hwf : wfSeg ac seg = true) : (toL sep seg).NB := by
  obtain ⟨t, a⟩ := seg
  cases t <;> cases a <;> simp only [wfSeg, Bool.false_eq_true] at hwf
  case key.str k =>
    simp only [wfKeyText, Bool.and_eq_true, Bool.not_eq_true', List.all_eq_false] at hwf
    obtain ⟨⟨_, c, hc, hcw⟩, _⟩ := hwf
    refine ⟨(special sep c, c), by simp only [tokenize, List.mem_map]; exact ⟨c, hc, rfl⟩, ?_⟩
    by_cases hs : special sep c = true
    · exact Or.inl hs
    · right
      simp only [isCtlWs, Bool.and_eq_true, not_and, Bool.not_eq_true, decide_eq_true_eq] at hcw
      by_cases hw : isPyWs c = true
      · have := hcw hw
        simp only [ne_eq, Decidable.not_not] at this
        subst this
        simp [special] at hs
      · simpa using hw
  case search.search inv m attr term => by_cases hm : m = .regex <;> simp [toL, hm, LSeg.NB]
  all_goals simp [toL, LSeg.NB]

theorem toL_renderOK {sep : Char} {ac : Bool} (seg : Seg) (hwf : wfSeg ac seg = true) :
    RenderOK (toL sep seg) := by
  obtain ⟨t, a⟩ := seg
  cases t <;> cases a <;> simp only [wfSeg, Bool.false_eq_true] at hwf
  case anchor.str s =>
    simp only [Bool.and_eq_true, Bool.not_eq_true', decide_eq_true_eq] at hwf
    exact star_tokenize hwf.1.2
  case search.search inv m attr term =>
    by_cases hm : m = .regex
    · subst hm
      simp only [Bool.and_eq_true, ↓reduceIte] at hwf
      obtain ⟨d, hd⟩ := Option.isSome_iff_exists.mp hwf.2
      simp only [toL, ↓reduceIte, hd, Option.getD_some, RenderOK]
      exact hd
    · simp [toL, hm, RenderOK]
  all_goals simp [toL, RenderOK]

theorem remarkFrom_length (sep : Char) : ∀ (ls : List LSeg) (a : Bool),
    (remarkFrom sep a ls).length = ls.length := by
  intro ls
  induction ls with
  | nil => intro _; rfl
  | cons l r ih => intro a; simp [remarkFrom, ih]

theorem parseWith_nil (f s : Bool) : parseWith f s [] = .ok [] := by
  simp [parseWith, normOriginal]

/-- everything about one written list `segs`, the unescaped reading `u` of its text in notation `f`,
and the rendering `S` of `u` in notation `f'` -/
theorem render_roundtrip (f f' : Bool) (segs : List Seg) (hwf : wfSegs segs = true) :
    let u := segs.map (keepEsc (sepOf f))
    let S := render f' u
    parseWith f' true S = .ok segs ∧ normOriginal S = S ∧
    ∃ u', parseWith f' false S = .ok u' ∧ render f' u' = S ∧ u'.length = segs.length := by
  intro u S
  let L := segs.map (toL (sepOf f))
  have hu : u = L.map (LSeg.seg false) := by
    have := map_seg_toL (sep := sepOf f) false segs false hwf
    simp only [Bool.false_eq_true, ↓reduceIte] at this
    exact this.symm
  have hok : ∀ l ∈ L, RenderOK l ∧ l.NB := by
    have : ∀ (ss : List Seg) (ac : Bool), wfFrom ac ss = true →
        ∀ l ∈ ss.map (toL (sepOf f)), RenderOK l ∧ l.NB := by
      intro ss
      induction ss with
      | nil => intro _ _ l hl; simp at hl
      | cons s r ih =>
        intro ac hw l hl
        simp only [wfFrom, Bool.and_eq_true] at hw
        simp only [List.map_cons, List.mem_cons] at hl
        rcases hl with rfl | hl
        · exact ⟨toL_renderOK s hw.1, toL_nb s hw.1⟩
        · exact ih _ hw.2 l hl
    exact this segs false hwf
  have hnotop : ∀ l ∈ L, l.isTop = false := by
    have : ∀ (ss : List Seg) (ac : Bool), wfFrom ac ss = true →
        ∀ l ∈ ss.map (toL (sepOf f)), l.isTop = false := by
      intro ss
      induction ss with
      | nil => intro _ _ l hl; simp at hl
      | cons s r ih =>
        intro ac hw l hl
        simp only [wfFrom, Bool.and_eq_true] at hw
        simp only [List.map_cons, List.mem_cons] at hl
        rcases hl with rfl | hl
        · exact (toL_flags _ s hw.1).2.2
        · exact ih _ hw.2 l hl
    exact this segs false hwf
  let L' := remarkFrom (sepOf f') false L
  have hW0 : wfFromL (sepOf f) false L := toL_wfFrom segs false hwf
  have hS : S = textAll f' L' := by
    have := render_eq f' L false hW0 (fun l hl => (hok l hl).1)
    rw [← hu] at this
    exact this
  have hW1 : wfFromL (sepOf f') false L' :=
    remarkFrom_wf L false false hW0 (fun l hl => (hok l hl).1) (fun _ => rfl)
      (fun l hl => hnotop l (by
        simp only [Bool.false_eq_true, ↓reduceIte] at hl
        exact List.mem_of_mem_tail hl))
  have hnb : normOriginal (textAll f' L') = textAll f' L' := by
    cases f' with
    | true => exact normOriginal_of_nonblank ⟨'/', by simp [textAll], by decide⟩
    | false =>
      cases hL : L with
      | nil => simp [L', hL, remarkFrom, textAll, textFrom, normOriginal]
      | cons l r =>
        apply normOriginal_of_nonblank
        obtain ⟨c, hc, hw⟩ := text_nonblank (sep := '.') (remark1 '.' false l)
          (remark1_nb _ _ l (hok l (by simp [hL])).2)
        exact ⟨c, by simp [L', hL, remarkFrom, textAll, textFrom, sepOf, hc], hw⟩
  have hsep : (if f' then '/' else '.') = sepOf f' := rfl
  have key : ∀ strip, parseWith f' strip S = .ok (L'.map (LSeg.seg strip)) := by
    intro strip
    rw [hS]
    exact parseWith_texts f' strip L' (by rw [hsep]; exact hW1) hnb
  refine ⟨?_, by rw [hS]; exact hnb, L'.map (LSeg.seg false), key false, ?_, ?_⟩
  · rw [key true, remarkFrom_seg_true]
    have := map_seg_toL (sep := sepOf f) true segs false hwf
    simpa [L] using this
  · have := render_eq f' L' false hW1 (remarkFrom_ok _ L false (fun l hl => (hok l hl).1))
    rw [this, hsep, remarkFrom_idem, hS]
  · simp [L', L, remarkFrom_length]

/-! ## `append` -/

/-- the library's own rendering of one segment as it is appended (the leading `/` of forward-slash
notation left off), given in its unescaped form -/
def segText (f : Bool) (sg : Seg) : Str := renderFrom (sepOf f) false [keepEsc (sepOf f) sg]

theorem wfFrom_append (sg : Seg) : ∀ (segs : List Seg) (ac : Bool),
    wfFrom ac (segs ++ [sg]) = (wfFrom ac segs && wfSeg (lastIsColl ac segs) sg) := by
  intro segs
  induction segs with
  | nil => intro ac; simp [wfFrom, lastIsColl]
  | cons s r ih => intro ac; simp [wfFrom, lastIsColl, ih, Bool.and_assoc]

theorem lastAc_toL {sep : Char} : ∀ (segs : List Seg) (ac : Bool), wfFrom ac segs = true →
    lastAc ac (segs.map (toL sep)) = lastIsColl ac segs := by
  intro segs
  induction segs with
  | nil => intro _ _; rfl
  | cons s r ih =>
    intro ac hw
    simp only [wfFrom, Bool.and_eq_true] at hw
    simp only [List.map_cons, lastAc, lastIsColl, (toL_flags sep s hw.1).1]
    exact ih _ hw.2

theorem remarkT_tokenize (sep : Char) (k : Str) : remarkT sep (tokenize sep k) = tokenize sep k := by
  simp only [remarkT, tokenize, List.map_map]
  apply List.map_congr_left
  intro c _
  simp only [Function.comp, markAll, Prod.mk.injEq, and_true]
  by_cases hs : special sep c = true
  · simp [hs]
  · have hs' : special sep c = false := by simpa using hs
    rw [hs', Bool.false_or]
    simp only [special, Bool.or_eq_false_iff, decide_eq_false_iff_not] at hs'
    obtain ⟨⟨⟨⟨⟨⟨⟨⟨⟨⟨⟨h1, h2⟩, h3⟩, h4⟩, h5⟩, h6⟩, h7⟩, h8⟩, h9⟩, h10⟩, h11⟩, h12⟩ := hs'
    simp [keySyms, *]

theorem remark1_toL_seg (sep : Char) (a strip : Bool) (sg : Seg) :
    (remark1 sep a (toL sep sg)).seg strip = (toL sep sg).seg strip := by
  obtain ⟨t, x⟩ := sg
  cases t <;> cases x <;> try simp [toL, remark1, LSeg.seg, remarkT_tokenize]
  case search.search inv m attr term => by_cases hm : m = .regex <;> simp [toL, hm, remark1]

theorem normOriginal_append {t : Str} (x : Str) (hn : normOriginal t = t) (hne : t ≠ []) :
    normOriginal (t ++ x) = t ++ x := by
  unfold normOriginal at hn ⊢
  split
  · rename_i hall
    have : t.all isPyWs = true := by
      simp only [List.all_append, Bool.and_eq_true] at hall
      exact hall.1
    simp [this] at hn
    exact absurd hn hne
  · rfl

/-- the text `append` builds for a written path and the canonical text of one more segment, read
back without stripping the escapes -/
theorem append_parse (f : Bool) (segs : List Seg) (sg : Seg) (hne : segs ≠ [])
    (hwf : wfSegs (segs ++ [sg]) = true) (happ : appendable (lastIsColl false segs) sg = true) :
    let o1 := write f segs ++ sepOf f :: segText f sg
    normOriginal o1 = o1 ∧
    parseWith f false o1 = .ok (segs.map (keepEsc (sepOf f)) ++ [keepEsc (sepOf f) sg]) := by
  intro o1
  simp only [wfSegs, wfFrom_append, Bool.and_eq_true] at hwf
  obtain ⟨hw, hwsg⟩ := hwf
  have hw' : wfSegs segs = true := hw
  let L := segs.map (toL (sepOf f))
  let l := toL (sepOf f) sg
  have hlw : l.WF (sepOf f) (lastIsColl false segs) := toL_wf sg hwsg
  have hlo : RenderOK l := toL_renderOK sg hwsg
  have hseg : segText f sg = (remark1 (sepOf f) false l).text (sepOf f) false := by
    have h1 : keepEsc (sepOf f) sg = l.seg false := by
      have := toL_seg (sep := sepOf f) false sg hwsg
      simpa using this.symm
    simp only [segText, renderFrom, List.append_nil, h1]
    exact render_seg (sepOf_ok f) false l hlw hlo
  have hfl := toL_flags (sepOf f) sg hwsg
  have hl''w : (remark1 (sepOf f) false l).WF (sepOf f) (lastIsColl false segs) := by
    apply remark1_wf false l hlw hlo _ (by simp)
    intro _ hac top ts hl t ht
    obtain ⟨ty, x⟩ := sg
    cases ty <;> cases x <;> simp only [wfSeg, Bool.false_eq_true] at hwsg
    case anchor.str a =>
      simp only [l, toL, LSeg.anchor.injEq] at hl
      obtain ⟨_, rfl⟩ := hl
      simp only [appendable, hac, Bool.true_and, Bool.not_eq_true', Bool.or_eq_false_iff,
        decide_eq_false_iff_not] at happ
      cases a with
      | nil => simp [tokenize] at ht
      | cons c k =>
        simp [tokenize] at ht
        subst ht
        right
        simpa [and_assoc] using happ
    case search.search inv m attr term =>
      by_cases hm : m = .regex <;> simp [l, toL, hm] at hl
    all_goals simp [l, toL] at hl
  have hni : (remark1 (sepOf f) false l).isInter = false := by
    rw [(remark1_flags _ _ l).2, hfl.2.1]
    obtain ⟨ty, x⟩ := sg
    cases ty <;> cases x <;> try rfl
    case collector.collector e op => cases op <;> simp_all [appendable, isInterColl]
  have hLw : wfFromL (if f then '/' else '.') false L := toL_wfFrom segs false hw'
  have hT : textAll f L = write f segs := textAll_toL f segs hw'
  have hLne : L ≠ [] := by simpa [L] using hne
  have hwne : write f segs ≠ [] := by
    rw [← hT]; exact textAll_ne f L hLw hLne
  have hn : normOriginal o1 = o1 := normOriginal_append _ (write_nonblank f segs hw') hwne
  refine ⟨hn, ?_⟩
  have := parseWith_texts_snoc f false L (remark1 (sepOf f) false l) hLw hLne
    (by rw [lastAc_toL segs false hw]; exact hl''w) hni o1
    (by simp only [o1, hT, hseg]; rfl) hn
  rw [this, map_seg_toL false segs false hw, remark1_toL_seg]
  have h1 := toL_seg (sep := sepOf f) false sg hwsg
  simp only [Bool.false_eq_true, ↓reduceIte] at h1 ⊢
  rw [h1]

end Ypv.Sim
