import Ypv.Model.Anchors
/-! Helper lemmas for the anchor-conflict model (C10). -/
namespace Ypv.Anchors
open Ypv

/-! ### `_calc_unique_anchor` terminates and returns a fresh name -/

theorem suffixed_length (a : Str) (aid : Nat) : a.length < (suffixed a aid).length := by
  simp [suffixed]

theorem calcUniqueFuel_fresh : ∀ (fuel : Nat) (a : Str) (aid : Nat) (known : List Str) (f : Str),
    calcUniqueFuel fuel a aid known = some f → known.contains f = false := by
  intro fuel
  induction fuel with
  | zero => intro a aid known f h; simp [calcUniqueFuel] at h
  | succ n ih =>
    intro a aid known f h
    unfold calcUniqueFuel at h
    split at h
    · exact ih _ _ _ _ h
    · cases h; simpa using ‹¬known.contains a = true›

theorem countP_lt_of_imp {α} (p q : α → Bool) (l : List α) (himp : ∀ x, p x = true → q x = true)
    (x : α) (hx : x ∈ l) (hq : q x = true) (hp : p x = false) : l.countP p < l.countP q := by
  induction l with
  | nil => cases hx
  | cons y ys ih =>
    have hle : ys.countP p ≤ ys.countP q := List.countP_mono_left (fun z _ hz => himp z hz)
    rcases List.mem_cons.1 hx with rfl | hmem
    · simp [List.countP_cons, hq, hp]; omega
    · have := ih hmem
      simp only [List.countP_cons]
      by_cases hpy : p y = true
      · simp [hpy, himp y hpy]; exact this
      · by_cases hqy : q y = true
        · simp [hpy, hqy]; omega
        · simp [hpy, hqy]; exact this

/-- The loop ends within as many rounds as there are known names at least as long as the
current candidate (candidates grow strictly, so none is visited twice). -/
theorem calcUniqueFuel_isSome : ∀ (fuel : Nat) (a : Str) (aid : Nat) (known : List Str),
    known.countP (fun k => decide (a.length ≤ k.length)) < fuel →
    (calcUniqueFuel fuel a aid known).isSome = true := by
  intro fuel
  induction fuel with
  | zero => intro a aid known h; omega
  | succ n ih =>
    intro a aid known h
    unfold calcUniqueFuel
    split
    · rename_i hc
      apply ih
      have hmem : a ∈ known := by simpa using hc
      have hlt := countP_lt_of_imp (fun k => decide ((suffixed a aid).length ≤ k.length))
        (fun k => decide (a.length ≤ k.length)) known
        (by intro x hx; have := suffixed_length a aid; simp at hx ⊢; omega)
        a hmem (by simp) (by have := suffixed_length a aid; simp; omega)
      omega
    · rfl

theorem calcUnique_isSome (a : Str) (known : List Str) : (calcUnique a known).isSome = true := by
  unfold calcUnique
  apply calcUniqueFuel_isSome
  have := List.countP_le_length (p := fun k => decide (a.length ≤ k.length)) (l := known)
  omega

theorem calcUnique_fresh (a : Str) (known : List Str) (f : Str) (h : calcUnique a known = some f) :
    f ∉ known := by
  have := calcUniqueFuel_fresh _ _ _ _ _ h
  simpa using this

/-! ### The emitter defines each name once when each name has one object -/

/-- All occurrences of one anchor name are the same object with the same value. -/
def OneObj (l : List Anchored) : Prop := ∀ a ∈ l, ∀ b ∈ l, a.1.name = b.1.name → a = b

theorem mem_defsFrom : ∀ (l : List Anchored) (seen : List Nat) (n : Str),
    n ∈ defsFrom seen l → ∃ a ∈ l, a.1.name = n ∧ a.1.oid ∉ seen := by
  intro l
  induction l with
  | nil => intro seen n h; simp [defsFrom] at h
  | cons x xs ih =>
    intro seen n h
    obtain ⟨t, v⟩ := x
    unfold defsFrom at h
    split at h
    · obtain ⟨a, ha, h1, h2⟩ := ih seen n h
      exact ⟨a, List.mem_cons_of_mem _ ha, h1, h2⟩
    · rename_i hns
      rcases List.mem_cons.1 h with rfl | h'
      · exact ⟨(t, v), List.mem_cons_self, rfl, by simpa using hns⟩
      · obtain ⟨a, ha, h1, h2⟩ := ih (t.oid :: seen) n h'
        exact ⟨a, List.mem_cons_of_mem _ ha, h1, fun hm => h2 (List.mem_cons_of_mem _ hm)⟩

theorem defsFrom_nodup : ∀ (l : List Anchored) (seen : List Nat), OneObj l → (defsFrom seen l).Nodup := by
  intro l
  induction l with
  | nil => intro seen _; simp [defsFrom]
  | cons x xs ih =>
    intro seen h
    obtain ⟨t, v⟩ := x
    have hxs : OneObj xs := fun a ha b hb hab =>
      h a (List.mem_cons_of_mem _ ha) b (List.mem_cons_of_mem _ hb) hab
    unfold defsFrom
    split
    · exact ih seen hxs
    · refine List.nodup_cons.2 ⟨?_, ih _ hxs⟩
      intro hmem
      obtain ⟨a, ha, h1, h2⟩ := mem_defsFrom xs (t.oid :: seen) t.name hmem
      have := h a (List.mem_cons_of_mem _ ha) (t, v) List.mem_cons_self h1
      apply h2
      rw [this]; exact List.mem_cons_self

end Ypv.Anchors
