import Ypv.Spec.Anchors
/-! Helper lemmas for the anchor-conflict model (C10). -/
namespace Ypv.Anchors
open Ypv

/-! ### `_calc_unique_anchor` terminates and returns a fresh name -/

theorem suffixed_length (a : Str) (aid : Nat) : a.length < (suffixed a aid).length := by
  simp [suffixed]

theorem calcUniqueFuel_fresh : ∀ (fuel : Nat) (a : Str) (aid : Nat) (known : List Str) (f : Str),
    calcUniqueFuel fuel a aid known = some f → known.contains f = false := by
  intro fuel
  induction fuel with
  | zero => intro a aid known f h; simp [calcUniqueFuel] at h
  | succ n ih =>
    intro a aid known f h
    unfold calcUniqueFuel at h
    split at h
    · exact ih _ _ _ _ h
    · cases h; simpa using ‹¬known.contains a = true›

theorem countP_lt_of_imp {α} (p q : α → Bool) (l : List α) (himp : ∀ x, p x = true → q x = true)
    (x : α) (hx : x ∈ l) (hq : q x = true) (hp : p x = false) : l.countP p < l.countP q := by
  induction l with
  | nil => cases hx
  | cons y ys ih =>
    have hle : ys.countP p ≤ ys.countP q := List.countP_mono_left (fun z _ hz => himp z hz)
    rcases List.mem_cons.1 hx with rfl | hmem
    · simp [List.countP_cons, hq, hp]; omega
    · have := ih hmem
      simp only [List.countP_cons]
      by_cases hpy : p y = true
      · simp [hpy, himp y hpy]; exact this
      · by_cases hqy : q y = true
        · simp [hpy, hqy]; omega
        · simp [hpy, hqy]; exact this

/-- The loop ends within as many rounds as there are known names at least as long as the
current candidate (candidates grow strictly, so none is visited twice). -/
theorem calcUniqueFuel_isSome : ∀ (fuel : Nat) (a : Str) (aid : Nat) (known : List Str),
    known.countP (fun k => decide (a.length ≤ k.length)) < fuel →
    (calcUniqueFuel fuel a aid known).isSome = true := by
  intro fuel
  induction fuel with
  | zero => intro a aid known h; omega
  | succ n ih =>
    intro a aid known h
    unfold calcUniqueFuel
    split
    · rename_i hc
      apply ih
      have hmem : a ∈ known := by simpa using hc
      have hlt := countP_lt_of_imp (fun k => decide ((suffixed a aid).length ≤ k.length))
        (fun k => decide (a.length ≤ k.length)) known
        (by intro x hx; have := suffixed_length a aid; simp at hx ⊢; omega)
        a hmem (by simp) (by have := suffixed_length a aid; simp; omega)
      omega
    · rfl

theorem calcUnique_isSome (a : Str) (known : List Str) : (calcUnique a known).isSome = true := by
  unfold calcUnique
  apply calcUniqueFuel_isSome
  have := List.countP_le_length (p := fun k => decide (a.length ≤ k.length)) (l := known)
  omega

theorem calcUnique_fresh (a : Str) (known : List Str) (f : Str) (h : calcUnique a known = some f) :
    f ∉ known := by
  have := calcUniqueFuel_fresh _ _ _ _ _ h
  simpa using this

/-! ### The emitter defines each name once when each name has one object -/

/-- All occurrences of one anchor name are the same object with the same value. -/
def OneObj (l : List Anchored) : Prop := ∀ a ∈ l, ∀ b ∈ l, a.1.name = b.1.name → a = b

theorem mem_defsFrom : ∀ (l : List Anchored) (seen : List Nat) (n : Str),
    n ∈ defsFrom seen l → ∃ a ∈ l, a.1.name = n ∧ a.1.oid ∉ seen := by
  intro l
  induction l with
  | nil => intro seen n h; simp [defsFrom] at h
  | cons x xs ih =>
    intro seen n h
    obtain ⟨t, v⟩ := x
    unfold defsFrom at h
    split at h
    · obtain ⟨a, ha, h1, h2⟩ := ih seen n h
      exact ⟨a, List.mem_cons_of_mem _ ha, h1, h2⟩
    · rename_i hns
      rcases List.mem_cons.1 h with rfl | h'
      · exact ⟨(t, v), List.mem_cons_self, rfl, by simpa using hns⟩
      · obtain ⟨a, ha, h1, h2⟩ := ih (t.oid :: seen) n h'
        exact ⟨a, List.mem_cons_of_mem _ ha, h1, fun hm => h2 (List.mem_cons_of_mem _ hm)⟩

theorem defsFrom_nodup : ∀ (l : List Anchored) (seen : List Nat), OneObj l → (defsFrom seen l).Nodup := by
  intro l
  induction l with
  | nil => intro seen _; simp [defsFrom]
  | cons x xs ih =>
    intro seen h
    obtain ⟨t, v⟩ := x
    have hxs : OneObj xs := fun a ha b hb hab =>
      h a (List.mem_cons_of_mem _ ha) b (List.mem_cons_of_mem _ hb) hab
    unfold defsFrom
    split
    · exact ih seen hxs
    · refine List.nodup_cons.2 ⟨?_, ih _ hxs⟩
      intro hmem
      obtain ⟨a, ha, h1, h2⟩ := mem_defsFrom xs (t.oid :: seen) t.name hmem
      have := h a (List.mem_cons_of_mem _ ha) (t, v) List.mem_cons_self h1
      apply h2
      rw [this]; exact List.mem_cons_self

end Ypv.Anchors

namespace Ypv.Anchors
open Ypv

/-! ### Tag maps: `rename` and `replaceIn` act occurrence by occurrence -/

/-- Apply `f` to every anchored scalar of a document. -/
def mapTags (f : Anchored → Anchored) : ANode → ANode
  | .scalar (some t) v => .scalar (some (f (t, v)).1) (f (t, v)).2
  | .scalar none v => .scalar none v
  | .seq items => .seq (mapList f items)
  | .map es => .map (mapEntries f es)
where
  mapList (f : Anchored → Anchored) : List ANode → List ANode
    | [] => []
    | n :: ns => mapTags f n :: mapList f ns
  mapEntries (f : Anchored → Anchored) : List (Key × ANode) → List (Key × ANode)
    | [] => []
    | (k, n) :: es => (k, mapTags f n) :: mapEntries f es

def renF (old new : Str) (a : Anchored) : Anchored :=
  if a.1.name = old then ({ a.1 with name := new }, a.2) else a

def replF (repl : Anchored) (a : Anchored) : Anchored :=
  if a.1.name = repl.1.name then repl else a

mutual
theorem rename_eq_mapTags (o n : Str) : (d : ANode) → rename o n d = mapTags (renF o n) d
  | .scalar (some t) v => by
      simp only [rename, mapTags, renF]
      split <;> rfl
  | .scalar none v => by simp [rename, mapTags]
  | .seq items => by simp only [rename, mapTags]; rw [renameList_eq o n items]
  | .map es => by simp only [rename, mapTags]; rw [renameEntries_eq o n es]
theorem renameList_eq (o n : Str) : (l : List ANode) → rename.renameList o n l = mapTags.mapList (renF o n) l
  | [] => rfl
  | x :: xs => by simp only [rename.renameList, mapTags.mapList]; rw [rename_eq_mapTags o n x, renameList_eq o n xs]
theorem renameEntries_eq (o n : Str) : (l : List (Key × ANode)) →
    rename.renameEntries o n l = mapTags.mapEntries (renF o n) l
  | [] => rfl
  | (k, x) :: xs => by
      simp only [rename.renameEntries, mapTags.mapEntries]; rw [rename_eq_mapTags o n x, renameEntries_eq o n xs]
end

mutual
theorem replaceIn_eq_mapTags (r : Anchored) : (d : ANode) → replaceIn r d = mapTags (replF r) d
  | .scalar (some t) v => by
      simp only [replaceIn, mapTags, replF]
      split <;> rfl
  | .scalar none v => by simp [replaceIn, mapTags]
  | .seq items => by simp only [replaceIn, mapTags]; rw [replaceList_eq r items]
  | .map es => by simp only [replaceIn, mapTags]; rw [replaceEntries_eq r es]
theorem replaceList_eq (r : Anchored) : (l : List ANode) → replaceIn.replaceList r l = mapTags.mapList (replF r) l
  | [] => rfl
  | x :: xs => by simp only [replaceIn.replaceList, mapTags.mapList]; rw [replaceIn_eq_mapTags r x, replaceList_eq r xs]
theorem replaceEntries_eq (r : Anchored) : (l : List (Key × ANode)) →
    replaceIn.replaceEntries r l = mapTags.mapEntries (replF r) l
  | [] => rfl
  | (k, x) :: xs => by
      simp only [replaceIn.replaceEntries, mapTags.mapEntries]; rw [replaceIn_eq_mapTags r x, replaceEntries_eq r xs]
end

mutual
theorem occs_mapTags (f : Anchored → Anchored) : (d : ANode) → occs (mapTags f d) = (occs d).map f
  | .scalar (some t) v => by simp [mapTags, occs]
  | .scalar none v => by simp [mapTags, occs]
  | .seq items => by simp only [mapTags, occs]; exact occsList_mapTags f items
  | .map es => by simp only [mapTags, occs]; exact occsEntries_mapTags f es
theorem occsList_mapTags (f : Anchored → Anchored) : (l : List ANode) →
    occs.occsList (mapTags.mapList f l) = (occs.occsList l).map f
  | [] => rfl
  | x :: xs => by
      simp only [mapTags.mapList, occs.occsList, List.map_append]
      rw [occs_mapTags f x, occsList_mapTags f xs]
theorem occsEntries_mapTags (f : Anchored → Anchored) : (l : List (Key × ANode)) →
    occs.occsEntries (mapTags.mapEntries f l) = (occs.occsEntries l).map f
  | [] => rfl
  | (k, x) :: xs => by
      simp only [mapTags.mapEntries, occs.occsEntries, List.map_append]
      rw [occs_mapTags f x, occsEntries_mapTags f xs]
end

mutual
theorem mapTags_congr (f g : Anchored → Anchored) : (d : ANode) → (∀ a ∈ occs d, f a = g a) →
    mapTags f d = mapTags g d
  | .scalar (some t) v => by intro h; simp [mapTags, h (t, v) (by simp [occs])]
  | .scalar none v => by intro _; rfl
  | .seq items => by intro h; simp only [mapTags]; rw [mapList_congr f g items (by simpa [occs] using h)]
  | .map es => by intro h; simp only [mapTags]; rw [mapEntries_congr f g es (by simpa [occs] using h)]
theorem mapList_congr (f g : Anchored → Anchored) : (l : List ANode) → (∀ a ∈ occs.occsList l, f a = g a) →
    mapTags.mapList f l = mapTags.mapList g l
  | [] => by intro _; rfl
  | x :: xs => by
      intro h
      simp only [occs.occsList, List.mem_append] at h
      simp only [mapTags.mapList]
      rw [mapTags_congr f g x (fun a ha => h a (.inl ha)), mapList_congr f g xs (fun a ha => h a (.inr ha))]
theorem mapEntries_congr (f g : Anchored → Anchored) : (l : List (Key × ANode)) →
    (∀ a ∈ occs.occsEntries l, f a = g a) → mapTags.mapEntries f l = mapTags.mapEntries g l
  | [] => by intro _; rfl
  | (k, x) :: xs => by
      intro h
      simp only [occs.occsEntries, List.mem_append] at h
      simp only [mapTags.mapEntries]
      rw [mapTags_congr f g x (fun a ha => h a (.inl ha)), mapEntries_congr f g xs (fun a ha => h a (.inr ha))]
end

mutual
theorem mapTags_comp (f g : Anchored → Anchored) : (d : ANode) →
    mapTags f (mapTags g d) = mapTags (fun a => f (g a)) d
  | .scalar (some t) v => by simp [mapTags]
  | .scalar none v => by simp [mapTags]
  | .seq items => by simp only [mapTags]; rw [mapList_comp f g items]
  | .map es => by simp only [mapTags]; rw [mapEntries_comp f g es]
theorem mapList_comp (f g : Anchored → Anchored) : (l : List ANode) →
    mapTags.mapList f (mapTags.mapList g l) = mapTags.mapList (fun a => f (g a)) l
  | [] => rfl
  | x :: xs => by simp only [mapTags.mapList]; rw [mapTags_comp f g x, mapList_comp f g xs]
theorem mapEntries_comp (f g : Anchored → Anchored) : (l : List (Key × ANode)) →
    mapTags.mapEntries f (mapTags.mapEntries g l) = mapTags.mapEntries (fun a => f (g a)) l
  | [] => rfl
  | (k, x) :: xs => by simp only [mapTags.mapEntries]; rw [mapTags_comp f g x, mapEntries_comp f g xs]
end

mutual
theorem mapTags_id : (d : ANode) → mapTags (fun a => a) d = d
  | .scalar (some t) v => by simp [mapTags]
  | .scalar none v => by simp [mapTags]
  | .seq items => by simp only [mapTags]; rw [mapList_id items]
  | .map es => by simp only [mapTags]; rw [mapEntries_id es]
theorem mapList_id : (l : List ANode) → mapTags.mapList (fun a => a) l = l
  | [] => rfl
  | x :: xs => by simp only [mapTags.mapList]; rw [mapTags_id x, mapList_id xs]
theorem mapEntries_id : (l : List (Key × ANode)) → mapTags.mapEntries (fun a => a) l = l
  | [] => rfl
  | (k, x) :: xs => by simp only [mapTags.mapEntries]; rw [mapTags_id x, mapEntries_id xs]
end

/-! ### Facts about `scan` (the name → node dictionary) -/

/-- Dictionary well-formedness: every entry is filed under its own anchor name, keys distinct. -/
def DictOK (d : List (Str × Anchored)) : Prop :=
  (∀ e ∈ d, e.2.1.name = e.1) ∧ (d.map (·.1)).Nodup

theorem dictSet_keys (d : List (Str × Anchored)) (k : Str) (a : Anchored) :
    (dictSet d k a).map (·.1) = if k ∈ d.map (·.1) then d.map (·.1) else d.map (·.1) ++ [k] := by
  induction d with
  | nil => simp [dictSet]
  | cons e rest ih =>
    obtain ⟨k', a'⟩ := e
    unfold dictSet
    by_cases h : k' = k
    · simp [h]
    · have hk : ¬ k = k' := fun e => h e.symm
      simp only [h, if_false, List.map_cons, ih, List.mem_cons, hk, false_or]
      split <;> simp

theorem dictSet_ok (d : List (Str × Anchored)) (a : Anchored) (h : DictOK d) : DictOK (dictSet d a.1.name a) := by
  constructor
  · induction d with
    | nil => intro e he; simp [dictSet] at he; subst he; rfl
    | cons e rest ih =>
      obtain ⟨k', a'⟩ := e
      intro e he
      unfold dictSet at he
      have hrest : DictOK rest := ⟨fun x hx => h.1 x (List.mem_cons_of_mem _ hx), (List.nodup_cons.1 h.2).2⟩
      split at he
      · rcases List.mem_cons.1 he with rfl | hm
        · rename_i hk; simp [hk]
        · exact h.1 e (List.mem_cons_of_mem _ hm)
      · rcases List.mem_cons.1 he with rfl | hm
        · exact h.1 _ List.mem_cons_self
        · exact ih hrest e hm
  · rw [dictSet_keys]
    split
    · exact h.2
    · rename_i this
      exact List.nodup_append.2 ⟨h.2, by simp, by intro x hx y hy; simp at hy; subst hy; intro e; subst e; exact this hx⟩

theorem foldl_dictSet_ok (l : List Anchored) : ∀ (acc : List (Str × Anchored)), DictOK acc →
    DictOK (l.foldl (fun acc a => dictSet acc a.1.name a) acc) := by
  induction l with
  | nil => intro acc h; exact h
  | cons x xs ih => intro acc h; exact ih _ (dictSet_ok acc x h)

theorem scan_ok (d : ANode) : DictOK (scan d) :=
  foldl_dictSet_ok _ [] ⟨by simp, by simp⟩

theorem mem_dictSet (d : List (Str × Anchored)) (k : Str) (a : Anchored) (e : Str × Anchored)
    (h : e ∈ dictSet d k a) : e ∈ d ∨ e = (k, a) := by
  induction d with
  | nil => simp [dictSet] at h; exact .inr h
  | cons x rest ih =>
    obtain ⟨k', a'⟩ := x
    unfold dictSet at h
    split at h
    · rename_i hk
      rcases List.mem_cons.1 h with rfl | hm
      · exact .inr (by rw [hk])
      · exact .inl (List.mem_cons_of_mem _ hm)
    · rcases List.mem_cons.1 h with rfl | hm
      · exact .inl List.mem_cons_self
      · rcases ih hm with h1 | h1
        · exact .inl (List.mem_cons_of_mem _ h1)
        · exact .inr h1

theorem foldl_dictSet_mem (l : List Anchored) : ∀ (acc : List (Str × Anchored)) (e : Str × Anchored),
    e ∈ l.foldl (fun acc a => dictSet acc a.1.name a) acc → e ∈ acc ∨ e.2 ∈ l := by
  induction l with
  | nil => intro acc e h; exact .inl h
  | cons x xs ih =>
    intro acc e h
    rcases ih _ e h with h1 | h1
    · rcases mem_dictSet acc _ _ e h1 with h2 | h2
      · exact .inl h2
      · exact .inr (by rw [h2]; exact List.mem_cons_self)
    · exact .inr (List.mem_cons_of_mem _ h1)

theorem foldl_dictSet_keys (l : List Anchored) : ∀ (acc : List (Str × Anchored)) (k : Str),
    (k ∈ acc.map (·.1) ∨ ∃ a ∈ l, a.1.name = k) →
    k ∈ (l.foldl (fun acc a => dictSet acc a.1.name a) acc).map (·.1) := by
  induction l with
  | nil => intro acc k h; rcases h with h | ⟨a, ha, _⟩; exact h; cases ha
  | cons x xs ih =>
    intro acc k h
    apply ih
    rcases h with h | ⟨a, ha, hk⟩
    · left; rw [dictSet_keys]; split; exact h; exact List.mem_append_left _ h
    · rcases List.mem_cons.1 ha with rfl | hm
      · left; rw [dictSet_keys]; split
        · rw [← hk]; assumption
        · rw [hk]; simp
      · exact .inr ⟨a, hm, hk⟩

theorem lookup_of_mem_ok {d : List (Str × Anchored)} (h : (d.map (·.1)).Nodup) {k : Str} {a : Anchored}
    (hm : (k, a) ∈ d) : d.lookup k = some a := by
  induction d with
  | nil => cases hm
  | cons e rest ih =>
    obtain ⟨k', a'⟩ := e
    have hn := List.nodup_cons.1 h
    rcases List.mem_cons.1 hm with he | hm'
    · cases he; simp [List.lookup]
    · have : k ≠ k' := by
        intro e; subst e
        exact hn.1 (List.mem_map.2 ⟨(k, a), hm', rfl⟩)
      have hb : (k == k') = false := by simpa using this
      simp only [List.lookup, hb]; exact ih hn.2 hm'

theorem mem_of_lookup {d : List (Str × Anchored)} {k : Str} {a : Anchored} (h : d.lookup k = some a) :
    (k, a) ∈ d := by
  induction d with
  | nil => simp [List.lookup] at h
  | cons e rest ih =>
    obtain ⟨k', a'⟩ := e
    unfold List.lookup at h
    split at h
    · rename_i heq; cases h; have : k = k' := by simpa using heq
      subst this; exact List.mem_cons_self
    · exact List.mem_cons_of_mem _ (ih h)

theorem lookup_isSome_of_key {d : List (Str × Anchored)} {k : Str} (h : k ∈ d.map (·.1)) :
    ∃ a, d.lookup k = some a := by
  induction d with
  | nil => cases h
  | cons e rest ih =>
    obtain ⟨k', a'⟩ := e
    by_cases hk : k = k'
    · subst hk; exact ⟨a', by simp [List.lookup]⟩
    · have : k ∈ rest.map (·.1) := by
        rcases List.mem_cons.1 h with h1 | h1
        · exact absurd h1 hk
        · exact h1
      obtain ⟨a, ha⟩ := ih this
      have hb : (k == k') = false := by simpa using hk
      exact ⟨a, by simp only [List.lookup, hb]; exact ha⟩

/-- The dictionary entry of a name is one of the document's occurrences of that name. -/
theorem scan_lookup_mem {d : ANode} {n : Str} {a : Anchored} (h : (scan d).lookup n = some a) :
    a ∈ occs d ∧ a.1.name = n := by
  have hm := mem_of_lookup h
  refine ⟨?_, (scan_ok d).1 _ hm⟩
  rcases foldl_dictSet_mem _ [] _ hm with h1 | h1
  · cases h1
  · exact h1

/-- Every occurrence's name has a dictionary entry. -/
theorem scan_lookup_of_occ {d : ANode} {a : Anchored} (h : a ∈ occs d) : ∃ b, (scan d).lookup a.1.name = some b :=
  lookup_isSome_of_key (foldl_dictSet_keys _ [] _ (.inr ⟨a, h, rfl⟩))

/-- In a document where each name has one object, the dictionary entry of an occurrence's name
is that occurrence. -/
theorem scan_lookup_eq_of_oneObj {d : ANode} (ho : OneObj (occs d)) {a : Anchored} (h : a ∈ occs d) :
    (scan d).lookup a.1.name = some a := by
  obtain ⟨b, hb⟩ := scan_lookup_of_occ h
  obtain ⟨hb1, hb2⟩ := scan_lookup_mem hb
  rw [hb, ho b hb1 a h hb2]

end Ypv.Anchors

namespace Ypv.Anchors
open Ypv

/-! ### The conflict loop in closed form -/

theorem lookup_snoc (d : Dict) (n m : Str) (ra : Anchored) :
    (d ++ [(n, ra)]).lookup m = match d.lookup m with
      | some x => some x
      | none => if m = n then some ra else none := by
  induction d with
  | nil =>
    by_cases h : m = n
    · simp [List.lookup, h]
    · have : (m == n) = false := by simpa using h
      simp [List.lookup, h, this]
  | cons e rest ih =>
    obtain ⟨k, a⟩ := e
    simp only [List.cons_append, List.lookup]
    split
    · rfl
    · exact ih

theorem finalL_name (mode : Mode) (ls rs : Dict) (hrs : ∀ e ∈ rs, e.2.1.name = e.1) (a : Anchored) :
    (finalL mode ls rs a).1.name = a.1.name := by
  unfold finalL
  split
  · rename_i la ra h1 h2
    have := hrs _ (mem_of_lookup h2)
    simp only at this
    split
    · exact this
    · split
      · exact this
      · rfl
  · rfl

theorem replaceAnchor_container (repl : Anchored) (d : ANode) (h : isContainer d = true) :
    replaceAnchor repl d = mapTags (replF repl) d := by
  cases d with
  | scalar t v => simp [isContainer] at h
  | seq items => simp only [replaceAnchor]; exact replaceIn_eq_mapTags repl _
  | map es => simp only [replaceAnchor]; exact replaceIn_eq_mapTags repl _

theorem replaceAnchor_scalar (repl : Anchored) (d : ANode) (h : isContainer d = false) :
    replaceAnchor repl d = d := by
  cases d with
  | scalar t v => rfl
  | seq items => simp [isContainer] at h
  | map es => simp [isContainer] at h

/-- Left document after the entries `done` have been processed. -/
def Lc (mode : Mode) (ls : Dict) (l : ANode) (done : Dict) : ANode :=
  if isContainer l then mapTags (finalL mode ls done) l else l

/-- Right document after the entries `done` have been processed. -/
def Rc (mode : Mode) (known : List Str) (ls : Dict) (r : ANode) (done : Dict) : ANode :=
  mapTags (finalR mode known ls done) r

theorem stepL_skip (mode : Mode) (ls done : Dict) (n : Str) (ra : Anchored)
    (h : ls.lookup n = none) (a : Anchored) :
    finalL mode ls (done ++ [(n, ra)]) a = finalL mode ls done a := by
  unfold finalL
  rw [lookup_snoc]
  by_cases hn : a.1.name = n
  · rw [hn, h]
  · cases ls.lookup a.1.name <;> cases done.lookup a.1.name <;> simp [hn]

theorem stepR_skip (mode : Mode) (known : List Str) (ls done : Dict) (n : Str) (ra : Anchored)
    (h : ls.lookup n = none) (a : Anchored) :
    finalR mode known ls (done ++ [(n, ra)]) a = finalR mode known ls done a := by
  unfold finalR
  rw [lookup_snoc]
  by_cases hn : a.1.name = n
  · rw [hn, h]
  · cases ls.lookup a.1.name <;> cases done.lookup a.1.name <;> simp [hn]

/-- Processing `(n, ra)` applies `replF ra` on the left exactly when the closed form says so. -/
theorem stepL_repl (mode : Mode) (ls done : Dict) (n : Str) (la ra : Anchored)
    (hdone : ∀ e ∈ done, e.2.1.name = e.1) (hfresh : done.lookup n = none) (hra : ra.1.name = n)
    (hla : ls.lookup n = some la) (hc : pyEq la.2 ra.2 = true ∨ mode = .right) (a : Anchored) :
    replF ra (finalL mode ls done a) = finalL mode ls (done ++ [(n, ra)]) a := by
  have hname := finalL_name mode ls done hdone a
  unfold replF
  rw [hname, hra]
  by_cases hn : a.1.name = n
  · simp only [hn, if_true]
    unfold finalL
    rw [lookup_snoc, hn, hla, hfresh]
    simp only [if_true]
    rcases hc with hc | hc
    · simp [hc]
    · simp [hc]
  · simp only [hn, if_false]
    unfold finalL
    rw [lookup_snoc]
    cases ls.lookup a.1.name <;> cases done.lookup a.1.name <;> simp [hn]

/-- … and leaves the left side alone otherwise. -/
theorem stepL_keep (mode : Mode) (ls done : Dict) (n : Str) (la ra : Anchored)
    (hfresh : done.lookup n = none)
    (hla : ls.lookup n = some la) (hc : pyEq la.2 ra.2 = false) (hm : mode ≠ .right) (a : Anchored) :
    finalL mode ls (done ++ [(n, ra)]) a = finalL mode ls done a := by
  unfold finalL
  rw [lookup_snoc]
  by_cases hn : a.1.name = n
  · rw [hn, hla, hfresh]; simp [hc, hm]
  · cases ls.lookup a.1.name <;> cases done.lookup a.1.name <;> simp [hn]

end Ypv.Anchors

namespace Ypv.Anchors
open Ypv

theorem finalR_name_left (known : List Str) (ls rs : Dict) (hls : ∀ e ∈ ls, e.2.1.name = e.1)
    (a : Anchored) : (finalR .left known ls rs a).1.name = a.1.name := by
  unfold finalR
  split
  · rename_i la ra h1 h2
    have := hls _ (mem_of_lookup h1)
    simp only at this
    split
    · rfl
    · exact this
  · rfl

theorem finalR_name_rename (known : List Str) (ls rs : Dict) (a : Anchored) :
    (finalR .rename known ls rs a).1.name = a.1.name ∨ (finalR .rename known ls rs a).1.name ∉ known := by
  unfold finalR
  split
  · split
    · exact .inl rfl
    · simp only []
      split
      · rename_i f hf; exact .inr (calcUnique_fresh _ _ _ hf)
      · exact .inl rfl
  · exact .inl rfl

theorem stepR_keep (mode : Mode) (known : List Str) (ls done : Dict) (n : Str) (la ra : Anchored)
    (hfresh : done.lookup n = none) (hla : ls.lookup n = some la)
    (hc : pyEq la.2 ra.2 = true ∨ mode = .right ∨ mode = .stop) (a : Anchored) :
    finalR mode known ls (done ++ [(n, ra)]) a = finalR mode known ls done a := by
  unfold finalR
  rw [lookup_snoc]
  by_cases hn : a.1.name = n
  · rw [hn, hla, hfresh]
    rcases hc with hc | hc | hc <;> simp [hc]
  · cases ls.lookup a.1.name <;> cases done.lookup a.1.name <;> simp [hn]

theorem stepR_left (known : List Str) (ls done : Dict) (n : Str) (la ra : Anchored)
    (hls : ∀ e ∈ ls, e.2.1.name = e.1) (hfresh : done.lookup n = none)
    (hla : ls.lookup n = some la) (hc : pyEq la.2 ra.2 = false) (a : Anchored) :
    replF la (finalR .left known ls done a) = finalR .left known ls (done ++ [(n, ra)]) a := by
  have hname := finalR_name_left known ls done hls a
  have hlan : la.1.name = n := hls _ (mem_of_lookup hla)
  unfold replF
  rw [hname, hlan]
  by_cases hn : a.1.name = n
  · simp only [hn, if_true]
    unfold finalR
    rw [lookup_snoc, hn, hla, hfresh]
    simp [hc]
  · simp only [hn, if_false]
    unfold finalR
    rw [lookup_snoc]
    cases ls.lookup a.1.name <;> cases done.lookup a.1.name <;> simp [hn]

theorem stepR_rename (known : List Str) (ls done : Dict) (n f : Str) (la ra : Anchored)
    (hfresh : done.lookup n = none) (hn_known : n ∈ known)
    (hla : ls.lookup n = some la) (hc : pyEq la.2 ra.2 = false) (hf : calcUnique n known = some f)
    (a : Anchored) :
    renF n f (finalR .rename known ls done a) = finalR .rename known ls (done ++ [(n, ra)]) a := by
  by_cases hn : a.1.name = n
  · have h0 : finalR .rename known ls done a = a := by
      unfold finalR; rw [hn, hla, hfresh]
    rw [h0]
    unfold renF finalR
    rw [lookup_snoc, hn, hla, hfresh]
    simp [hc, hf]
  · have hne : (finalR .rename known ls done a).1.name ≠ n := by
      rcases finalR_name_rename known ls done a with h | h
      · rw [h]; exact hn
      · intro e; rw [e] at h; exact h hn_known
    have h1 : renF n f (finalR .rename known ls done a) = finalR .rename known ls done a := by
      unfold renF; simp [hne]
    rw [h1]
    unfold finalR
    rw [lookup_snoc]
    cases ls.lookup a.1.name <;> cases done.lookup a.1.name <;> simp [hn]

end Ypv.Anchors

namespace Ypv.Anchors
open Ypv

theorem isContainer_mapTags (f : Anchored → Anchored) (d : ANode) : isContainer (mapTags f d) = isContainer d := by
  cases d with
  | scalar t v => cases t <;> rfl
  | seq items => rfl
  | map es => rfl

theorem lookup_none_of_not_key {d : Dict} {k : Str} (h : k ∉ d.map (·.1)) : d.lookup k = none := by
  induction d with
  | nil => rfl
  | cons e rest ih =>
    obtain ⟨k', a⟩ := e
    simp only [List.map_cons, List.mem_cons, not_or] at h
    have hb : (k == k') = false := by simpa using h.1
    simp only [List.lookup, hb]
    exact ih h.2

theorem Lc_repl (mode : Mode) (ls : Dict) (l : ANode) (done : Dict) (n : Str) (la ra : Anchored)
    (hdone : ∀ e ∈ done, e.2.1.name = e.1) (hfresh : done.lookup n = none) (hra : ra.1.name = n)
    (hla : ls.lookup n = some la) (hc : pyEq la.2 ra.2 = true ∨ mode = .right) :
    replaceAnchor ra (Lc mode ls l done) = Lc mode ls l (done ++ [(n, ra)]) := by
  unfold Lc
  by_cases hcont : isContainer l = true
  · simp only [hcont, if_true]
    rw [replaceAnchor_container _ _ (by rw [isContainer_mapTags]; exact hcont), mapTags_comp]
    exact mapTags_congr _ _ _ (fun a _ => stepL_repl mode ls done n la ra hdone hfresh hra hla hc a)
  · have : isContainer l = false := by simpa using hcont
    simp only [this]
    exact replaceAnchor_scalar _ _ this

theorem Lc_keep (mode : Mode) (ls : Dict) (l : ANode) (done : Dict) (n : Str) (ra : Anchored)
    (h : ∀ a, finalL mode ls (done ++ [(n, ra)]) a = finalL mode ls done a) :
    Lc mode ls l done = Lc mode ls l (done ++ [(n, ra)]) := by
  unfold Lc
  split
  · exact mapTags_congr _ _ _ (fun a _ => (h a).symm)
  · rfl

/-- The conflict loop equals the closed form. -/
theorem resolveLoop_closed (mode : Mode) (known : List Str) (ls : Dict) (l r : ANode)
    (hls : ∀ e ∈ ls, e.2.1.name = e.1) :
    ∀ (rest done : Dict), DictOK (done ++ rest) → (∀ k ∈ (done ++ rest).map (·.1), k ∈ known) →
      ∀ p, resolveLoop mode known ls rest (Lc mode ls l done, Rc mode known ls r done) = .ok p →
        p = (Lc mode ls l (done ++ rest), Rc mode known ls r (done ++ rest)) := by
  intro rest
  induction rest with
  | nil => intro done _ _ p h; simp [resolveLoop] at h; simp [h]
  | cons e rest' ih =>
    obtain ⟨n, ra⟩ := e
    intro done hok hknown p h
    have hassoc : done ++ (n, ra) :: rest' = (done ++ [(n, ra)]) ++ rest' := by simp
    have hra : ra.1.name = n := hok.1 (n, ra) (by simp)
    have hdone : ∀ e ∈ done, e.2.1.name = e.1 := fun e he => hok.1 e (List.mem_append_left _ he)
    have hnk : n ∈ known := hknown n (by simp)
    have hfresh : done.lookup n = none := by
      apply lookup_none_of_not_key
      have := hok.2
      rw [List.map_append, List.nodup_append] at this
      intro hmem
      exact this.2.2 n hmem n (by simp) rfl
    rw [hassoc] at hok hknown ⊢
    unfold resolveLoop at h
    split at h
    · -- the name is not in the left document
      rename_i hnone
      have e1 := Lc_keep mode ls l done n ra (stepL_skip mode ls done n ra hnone)
      have e2 : Rc mode known ls r done = Rc mode known ls r (done ++ [(n, ra)]) :=
        mapTags_congr _ _ _ (fun a _ => (stepR_skip mode known ls done n ra hnone a).symm)
      rw [e1, e2] at h
      exact ih _ hok hknown p h
    · rename_i la hla
      split at h
      · cases h
      · rename_i lr' hone
        unfold resolveOne at hone
        split at hone
        · -- equal values
          rename_i heq
          cases hone
          have e1 := Lc_repl mode ls l done n la ra hdone hfresh hra hla (.inl heq)
          have e2 : Rc mode known ls r done = Rc mode known ls r (done ++ [(n, ra)]) :=
            mapTags_congr _ _ _ (fun a _ => (stepR_keep mode known ls done n la ra hfresh hla (.inl heq) a).symm)
          simp only [] at h
          rw [e1, e2] at h
          exact ih _ hok hknown p h
        · rename_i hne
          have hne' : pyEq la.2 ra.2 = false := by simpa using hne
          split at hone
          · -- rename
            split at hone
            · rename_i f hf
              cases hone
              have e1 := Lc_keep .rename ls l done n ra
                (stepL_keep .rename ls done n la ra hfresh hla hne' (by decide))
              have e2 : rename n f (Rc .rename known ls r done) = Rc .rename known ls r (done ++ [(n, ra)]) := by
                unfold Rc
                rw [rename_eq_mapTags, mapTags_comp]
                exact mapTags_congr _ _ _ (fun a _ => stepR_rename known ls done n f la ra hfresh hnk hla hne' hf a)
              simp only [] at h
              rw [e1, e2] at h
              exact ih _ hok hknown p h
            · cases hone
          · -- left
            cases hone
            have e1 := Lc_keep .left ls l done n ra
              (stepL_keep .left ls done n la ra hfresh hla hne' (by decide))
            have e2 : replaceIn la (Rc .left known ls r done) = Rc .left known ls r (done ++ [(n, ra)]) := by
              unfold Rc
              rw [replaceIn_eq_mapTags, mapTags_comp]
              exact mapTags_congr _ _ _ (fun a _ => stepR_left known ls done n la ra hls hfresh hla hne' a)
            simp only [] at h
            rw [e1, e2] at h
            exact ih _ hok hknown p h
          · -- right
            cases hone
            have e1 := Lc_repl .right ls l done n la ra hdone hfresh hra hla (.inr rfl)
            have e2 : Rc .right known ls r done = Rc .right known ls r (done ++ [(n, ra)]) :=
              mapTags_congr _ _ _ (fun a _ => (stepR_keep .right known ls done n la ra hfresh hla (.inr (.inl rfl)) a).symm)
            simp only [] at h
            rw [e1, e2] at h
            exact ih _ hok hknown p h
          · cases hone

end Ypv.Anchors

namespace Ypv.Anchors
open Ypv

theorem finalL_nil (mode : Mode) (ls : Dict) (a : Anchored) : finalL mode ls [] a = a := by
  unfold finalL; cases ls.lookup a.1.name <;> simp [List.lookup]

theorem finalR_nil (mode : Mode) (known : List Str) (ls : Dict) (a : Anchored) : finalR mode known ls [] a = a := by
  unfold finalR; cases ls.lookup a.1.name <;> simp [List.lookup]

theorem Lc_nil (mode : Mode) (ls : Dict) (l : ANode) : Lc mode ls l [] = l := by
  unfold Lc
  split
  · rw [mapTags_congr _ (fun a => a) l (fun a _ => finalL_nil mode ls a), mapTags_id]
  · rfl

theorem Rc_nil (mode : Mode) (known : List Str) (ls : Dict) (r : ANode) : Rc mode known ls r [] = r := by
  unfold Rc
  rw [mapTags_congr _ (fun a => a) r (fun a _ => finalR_nil mode known ls a), mapTags_id]

theorem mem_knownOf (ls rs : Dict) (k : Str) (h : k ∈ rs.map (·.1)) : k ∈ knownOf ls rs := by
  unfold knownOf
  by_cases hk : k ∈ ls.map (·.1)
  · exact List.mem_append_left _ hk
  · apply List.mem_append_right
    simp only [List.mem_filter]
    exact ⟨h, by simpa using hk⟩

/-- `resolve` in closed form: when it succeeds, the left document is the occurrence-wise image under
`finalL` (a scalar-root left document is left as it is) and the right document under `finalR`. -/
theorem resolve_closed (mode : Mode) (l r : ANode) (p : ANode × ANode) (h : resolve mode l r = .ok p) :
    p = (Lc mode (scan l) l (scan r), Rc mode (knownOf (scan l) (scan r)) (scan l) r (scan r)) := by
  unfold resolve at h
  simp only [] at h
  have := resolveLoop_closed mode (knownOf (scan l) (scan r)) (scan l) l r (scan_ok l).1 (scan r) []
    (by simpa using scan_ok r) (by intro k hk; exact mem_knownOf _ _ k (by simpa using hk)) p
  rw [Lc_nil, Rc_nil] at this
  simpa using this h

/-- The loop fails exactly under `stop` with a conflict, and then with a merge error. -/
theorem resolveLoop_outcome (mode : Mode) (known : List Str) (ls : Dict) :
    ∀ (rest : Dict) (lr : ANode × ANode),
      (mode = .stop ∧ hasConflict ls rest = true → resolveLoop mode known ls rest lr = .error .merge) ∧
      (¬ (mode = .stop ∧ hasConflict ls rest = true) → ∃ p, resolveLoop mode known ls rest lr = .ok p) := by
  intro rest
  induction rest with
  | nil => intro lr; simp [resolveLoop, hasConflict]
  | cons e rest' ih =>
    obtain ⟨n, ra⟩ := e
    intro lr
    unfold resolveLoop
    cases hla : ls.lookup n with
    | none =>
      have hc : hasConflict ls ((n, ra) :: rest') = hasConflict ls rest' := by
        simp [hasConflict, hla]
      simp only [hc]
      exact ih lr
    | some la =>
      simp only []
      by_cases heq : pyEq la.2 ra.2 = true
      · have hc : hasConflict ls ((n, ra) :: rest') = hasConflict ls rest' := by
          simp [hasConflict, hla, heq]
        simp only [hc, resolveOne, heq, if_true]
        exact ih _
      · have hne : pyEq la.2 ra.2 = false := by simpa using heq
        have hc : hasConflict ls ((n, ra) :: rest') = true := by
          simp [hasConflict, hla, hne]
        simp only [hc, resolveOne, hne]
        cases mode with
        | stop => simp
        | left => simpa using (ih _).2 (by simp)
        | right => simpa using (ih _).2 (by simp)
        | rename =>
          obtain ⟨f, hf, _⟩ : ∃ f, calcUnique n known = some f ∧ True := by
            have := calcUnique_isSome n known
            cases hcu : calcUnique n known with
            | none => rw [hcu] at this; cases this
            | some f => exact ⟨f, rfl, trivial⟩
          simp only [hf]
          simpa using (ih _).2 (by simp)

end Ypv.Anchors

namespace Ypv.Anchors
open Ypv

/-! ### After resolution each anchor name has one object across both documents -/

theorem finalR_name_cases (mode : Mode) (known : List Str) (ls rs : Dict) (b : Anchored)
    (hls : ∀ e ∈ ls, e.2.1.name = e.1) :
    (finalR mode known ls rs b).1.name = b.1.name ∨
    (mode = .rename ∧ calcUnique b.1.name known = some (finalR mode known ls rs b).1.name
      ∧ finalR mode known ls rs b = ({ b.1 with name := (finalR mode known ls rs b).1.name }, b.2)) := by
  unfold finalR
  split
  · rename_i la ra h1 h2
    split
    · exact .inl rfl
    · cases mode with
      | stop => exact .inl rfl
      | right => exact .inl rfl
      | left => exact .inl (hls _ (mem_of_lookup h1))
      | rename =>
        simp only []
        split
        · rename_i f hf; exact .inr ⟨by first | rfl | trivial, hf, rfl⟩
        · exact .inl rfl
  · exact .inl rfl

theorem key_mem_of_lookup {d : Dict} {k : Str} {a : Anchored} (h : d.lookup k = some a) : k ∈ d.map (·.1) :=
  List.mem_map.2 ⟨(k, a), mem_of_lookup h, rfl⟩

/-- Distinct names get distinct fresh names (hypothesis of `resolved_oneObj` under `rename`). -/
def FreshInj (known : List Str) : Prop :=
  ∀ n1 n2 f, n1 ∈ known → n2 ∈ known → calcUnique n1 known = some f → calcUnique n2 known = some f → n1 = n2

theorem resolved_oneObj (mode : Mode) (l r : ANode)
    (hl : OneObj (occs l)) (hr : OneObj (occs r))
    (hstop : mode = .stop → ∀ n la ra, (scan l).lookup n = some la → (scan r).lookup n = some ra →
      pyEq la.2 ra.2 = true)
    (hinj : mode = .rename → FreshInj (knownOf (scan l) (scan r))) :
    OneObj ((occs l).map (finalL mode (scan l) (scan r)) ++
            (occs r).map (finalR mode (knownOf (scan l) (scan r)) (scan l) (scan r))) := by
  have hls := (scan_ok l).1
  have hrs := (scan_ok r).1
  -- the three kinds of pairs
  have LL : ∀ a ∈ occs l, ∀ a' ∈ occs l,
      (finalL mode (scan l) (scan r) a).1.name = (finalL mode (scan l) (scan r) a').1.name →
      finalL mode (scan l) (scan r) a = finalL mode (scan l) (scan r) a' := by
    intro a ha a' ha' hn
    rw [finalL_name _ _ _ hrs, finalL_name _ _ _ hrs] at hn
    rw [hl a ha a' ha' hn]
  have RR : ∀ b ∈ occs r, ∀ b' ∈ occs r,
      (finalR mode (knownOf (scan l) (scan r)) (scan l) (scan r) b).1.name
        = (finalR mode (knownOf (scan l) (scan r)) (scan l) (scan r) b').1.name →
      finalR mode (knownOf (scan l) (scan r)) (scan l) (scan r) b
        = finalR mode (knownOf (scan l) (scan r)) (scan l) (scan r) b' := by
    intro b hb b' hb' hn
    have kb : b.1.name ∈ knownOf (scan l) (scan r) :=
      mem_knownOf _ _ _ (key_mem_of_lookup (scan_lookup_eq_of_oneObj hr hb))
    have kb' : b'.1.name ∈ knownOf (scan l) (scan r) :=
      mem_knownOf _ _ _ (key_mem_of_lookup (scan_lookup_eq_of_oneObj hr hb'))
    rcases finalR_name_cases mode _ (scan l) (scan r) b hls with h1 | ⟨hm, h1, _⟩
    · rcases finalR_name_cases mode _ (scan l) (scan r) b' hls with h2 | ⟨hm', h2, _⟩
      · rw [h1, h2] at hn; rw [hr b hb b' hb' hn]
      · exfalso
        rw [← hn, h1] at h2
        exact calcUnique_fresh _ _ _ h2 kb
    · rcases finalR_name_cases mode _ (scan l) (scan r) b' hls with h2 | ⟨hm', h2, _⟩
      · exfalso
        rw [hn, h2] at h1
        exact calcUnique_fresh _ _ _ h1 kb'
      · rw [← hn] at h2
        have := hinj hm _ _ _ kb kb' h1 h2
        rw [hr b hb b' hb' this]
  have LR : ∀ a ∈ occs l, ∀ b ∈ occs r,
      (finalL mode (scan l) (scan r) a).1.name
        = (finalR mode (knownOf (scan l) (scan r)) (scan l) (scan r) b).1.name →
      finalL mode (scan l) (scan r) a = finalR mode (knownOf (scan l) (scan r)) (scan l) (scan r) b := by
    intro a ha b hb hn
    have hla := scan_lookup_eq_of_oneObj hl ha
    have hrb := scan_lookup_eq_of_oneObj hr hb
    have ka : a.1.name ∈ knownOf (scan l) (scan r) := by
      unfold knownOf; exact List.mem_append_left _ (key_mem_of_lookup hla)
    rw [finalL_name _ _ _ hrs] at hn
    rcases finalR_name_cases mode _ (scan l) (scan r) b hls with h1 | ⟨_, h1, _⟩
    · rw [h1] at hn
      -- same original name: a shared name
      unfold finalL finalR
      rw [hla, ← hn, hla, hn, hrb]
      simp only []
      by_cases heq : pyEq a.2 b.2 = true
      · simp [heq]
      · have hne : pyEq a.2 b.2 = false := by simpa using heq
        simp only [hne]
        cases mode with
        | stop =>
          have := hstop rfl b.1.name a b (by rw [← hn]; exact hla) hrb
          rw [this] at hne; cases hne
        | left => simp
        | right => simp
        | rename =>
          simp only []
          exfalso
          -- under rename a conflicting right occurrence takes a fresh name, which `a`'s name is not
          have hfr : (finalR .rename (knownOf (scan l) (scan r)) (scan l) (scan r) b).1.name ∉
              knownOf (scan l) (scan r) := by
            unfold finalR
            rw [← hn, hla, hn, hrb]
            simp only [hne]
            obtain ⟨f, hf, hnot⟩ : ∃ f, calcUnique b.1.name (knownOf (scan l) (scan r)) = some f ∧
                f ∉ knownOf (scan l) (scan r) := by
              have := calcUnique_isSome b.1.name (knownOf (scan l) (scan r))
              cases hcu : calcUnique b.1.name (knownOf (scan l) (scan r)) with
              | none => rw [hcu] at this; cases this
              | some f => exact ⟨f, rfl, calcUnique_fresh _ _ _ hcu⟩
            simp [hf]; exact hnot
          rw [h1, ← hn] at hfr
          exact hfr ka
    · exfalso
      rw [← hn] at h1
      exact calcUnique_fresh _ _ _ h1 ka
  intro x hx y hy hxy
  rcases List.mem_append.1 hx with hx | hx <;> rcases List.mem_append.1 hy with hy | hy
  · obtain ⟨a, ha, rfl⟩ := List.mem_map.1 hx; obtain ⟨a', ha', rfl⟩ := List.mem_map.1 hy
    exact LL a ha a' ha' hxy
  · obtain ⟨a, ha, rfl⟩ := List.mem_map.1 hx; obtain ⟨b, hb, rfl⟩ := List.mem_map.1 hy
    exact LR a ha b hb hxy
  · obtain ⟨b, hb, rfl⟩ := List.mem_map.1 hx; obtain ⟨a, ha, rfl⟩ := List.mem_map.1 hy
    exact (LR a ha b hb hxy.symm).symm
  · obtain ⟨b, hb, rfl⟩ := List.mem_map.1 hx; obtain ⟨b', hb', rfl⟩ := List.mem_map.1 hy
    exact RR b hb b' hb' hxy

end Ypv.Anchors

namespace Ypv.Anchors
open Ypv

/-! ### Distinct known names receive distinct fresh names (`FreshInj` holds for `_calc_unique_anchor`) -/

theorem toDigits_inj {a b : Nat} (h : Nat.toDigits 10 a = Nat.toDigits 10 b) : a = b := by
  have ha := Nat.ofDigitChars_toDigits (b := 10) (n := a) (by omega) (by omega)
  have hb := Nat.ofDigitChars_toDigits (b := 10) (n := b) (by omega) (by omega)
  rw [h] at ha
  omega

theorem prefix_split : ∀ (s t xs ys : List Char), '_' ∉ s → '_' ∉ t →
    s ++ '_' :: xs = t ++ '_' :: ys → s = t ∧ xs = ys := by
  intro s
  induction s with
  | nil =>
    intro t xs ys _ ht h
    cases t with
    | nil => simp at h; exact ⟨rfl, h⟩
    | cons c t' =>
      simp only [List.nil_append, List.cons_append, List.cons.injEq] at h
      exact absurd (by rw [← h.1]; exact List.mem_cons_self) ht
  | cons a s' ih =>
    intro t xs ys hs ht h
    cases t with
    | nil =>
      simp only [List.nil_append, List.cons_append, List.cons.injEq] at h
      exact absurd (by rw [h.1]; exact List.mem_cons_self) hs
    | cons c t' =>
      simp only [List.cons_append, List.cons.injEq] at h
      obtain ⟨h1, h2⟩ := ih t' xs ys (fun hm => hs (List.mem_cons_of_mem _ hm))
        (fun hm => ht (List.mem_cons_of_mem _ hm)) h.2
      exact ⟨by rw [h.1, h1], h2⟩

theorem suffix_split (x y s t : List Char) (hs : '_' ∉ s) (ht : '_' ∉ t)
    (h : x ++ '_' :: s = y ++ '_' :: t) : x = y ∧ s = t := by
  have hr : s.reverse ++ '_' :: x.reverse = t.reverse ++ '_' :: y.reverse := by
    have := congrArg List.reverse h
    simpa using this
  obtain ⟨h1, h2⟩ := prefix_split s.reverse t.reverse x.reverse y.reverse (by simpa using hs) (by simpa using ht) hr
  exact ⟨by simpa using congrArg List.reverse h2, by simpa using congrArg List.reverse h1⟩

/-- The k-th candidate of the loop started at `a` with counter `aid`. -/
def chainR (a : Str) (aid : Nat) : Nat → Str
  | 0 => a
  | k + 1 => suffixed (chainR a aid k) (aid + k)

theorem chainR_shift (a : Str) (aid : Nat) : ∀ k, chainR (suffixed a aid) (aid + 1) k = chainR a aid (k + 1) := by
  intro k
  induction k with
  | zero => simp [chainR]
  | succ k ih => simp only [chainR] at ih ⊢; rw [ih]; congr 1; omega

theorem calcUniqueFuel_chain : ∀ (fuel : Nat) (a : Str) (aid : Nat) (known : List Str) (f : Str),
    calcUniqueFuel fuel a aid known = some f → ∃ k, f = chainR a aid k ∧ (a ∈ known → 1 ≤ k) := by
  intro fuel
  induction fuel with
  | zero => intro a aid known f h; simp [calcUniqueFuel] at h
  | succ n ih =>
    intro a aid known f h
    unfold calcUniqueFuel at h
    split at h
    · obtain ⟨k, hk, _⟩ := ih _ _ _ _ h
      exact ⟨k + 1, by rw [hk, chainR_shift], fun _ => by omega⟩
    · rename_i hc
      cases h
      exact ⟨0, rfl, fun hm => absurd (by simpa using hm) hc⟩

theorem chainR_succ_inj (a b : Str) (aid k j : Nat) (h : chainR a aid (k + 1) = chainR b aid (j + 1)) :
    chainR a aid k = chainR b aid j ∧ k = j := by
  simp only [chainR, suffixed] at h
  obtain ⟨h1, h2⟩ := suffix_split _ _ _ _ Nat.underscore_not_in_toDigits Nat.underscore_not_in_toDigits h
  have := toDigits_inj h2
  exact ⟨h1, by omega⟩

theorem chainR_inj (a b : Str) (aid : Nat) : ∀ k, chainR a aid k = chainR b aid k → a = b := by
  intro k
  induction k with
  | zero => intro h; exact h
  | succ k ih => intro h; exact ih (chainR_succ_inj a b aid k k h).1

/-- `_calc_unique_anchor` never hands the same fresh name to two different known names. -/
theorem freshInj (known : List Str) : FreshInj known := by
  intro n1 n2 f h1 h2 hf1 hf2
  obtain ⟨k, hk, hk1⟩ := calcUniqueFuel_chain _ _ _ _ _ hf1
  obtain ⟨j, hj, hj1⟩ := calcUniqueFuel_chain _ _ _ _ _ hf2
  have hk' := hk1 h1
  have hj' := hj1 h2
  obtain ⟨k', rfl⟩ : ∃ k', k = k' + 1 := ⟨k - 1, by omega⟩
  obtain ⟨j', rfl⟩ : ∃ j', j = j' + 1 := ⟨j - 1, by omega⟩
  rw [hk] at hj
  obtain ⟨_, hkj⟩ := chainR_succ_inj n1 n2 1 k' j' hj
  subst hkj
  exact chainR_inj n1 n2 1 _ hj

end Ypv.Anchors
