import Ypv.Lemmas.ParserSim
import Ypv.Model.Render
/-!
# The library's stringifier (`Model/Render.lean`) on unescaped segments, as a re-writing of tokens

`render sep' (ls.map (LSeg.seg false))` is the text of `remarkFrom sep' false ls`: the tokens of key and
anchor texts get the escapes `ensure_escaped` adds for the target separator, everything else is copied,
and a first anchor is written `&name`.
-/
namespace Ypv.Sim
open Ypv

/-! ## `ensure_escaped` on token texts -/

def noBareBackslash (ts : List Tok) : Prop := ∀ t ∈ ts, t.1 = true ∨ t.2 ≠ '\\'

def mark (sym : Char) (t : Tok) : Tok := (t.1 || t.2 == sym, t.2)

theorem esc1_cons_bare (sym c : Char) (t : Str) (hc : c ≠ '\\') :
    esc1 sym (c :: t) = (if c = sym then ['\\', c] else [c]) ++ esc1 sym t := by
  cases t with
  | nil => simp [esc1]
  | cons b r =>
    by_cases h : c = sym
    · subst h; simp [esc1, hc]
    · simp [esc1, hc, h]

theorem esc1_cons_esc (sym c : Char) (t : Str) (hs : sym ≠ '\\') :
    esc1 sym ('\\' :: c :: t) = '\\' :: c :: esc1 sym t := by
  simp [esc1, hs]

theorem esc1_tokText (sym : Char) (hs : sym ≠ '\\') (ts : List Tok) (h : noBareBackslash ts) :
    esc1 sym (tokText ts) = tokText (ts.map (mark sym)) := by
  induction ts with
  | nil => simp [tokText, esc1]
  | cons t ts ih =>
    have ih' := ih (fun u hu => h u (by simp [hu]))
    obtain ⟨e, c⟩ := t
    have ht : tokText ((e, c) :: ts) = Tok.text (e, c) ++ tokText ts := by simp [tokText]
    have hm : tokText (((e, c) :: ts).map (mark sym)) =
        Tok.text (mark sym (e, c)) ++ tokText (ts.map (mark sym)) := by simp [tokText]
    rw [ht, hm, ← ih']
    cases e with
    | true => simp [Tok.text, mark, esc1_cons_esc sym c _ hs]
    | false =>
      have hc : c ≠ '\\' := by
        rcases h (false, c) (by simp) with h1 | h1
        · cases h1
        · exact h1
      simp only [Tok.text, Bool.false_eq_true, ↓reduceIte, List.cons_append, List.nil_append,
        esc1_cons_bare sym c _ hc, mark, Bool.false_or, beq_iff_eq]

theorem noBare_mark (sym : Char) {ts : List Tok} (h : noBareBackslash ts) :
    noBareBackslash (ts.map (mark sym)) := by
  intro t ht
  simp only [List.mem_map] at ht
  obtain ⟨u, hu, rfl⟩ := ht
  rcases h u hu with h1 | h1
  · left; simp [mark, h1]
  · right; exact h1

def markAll (syms : List Char) (t : Tok) : Tok := (t.1 || syms.contains t.2, t.2)

theorem ensureEscaped_tokText (syms : List Char) (hs : '\\' ∉ syms) :
    ∀ (ts : List Tok), noBareBackslash ts →
    ensureEscaped syms (tokText ts) = tokText (ts.map (markAll syms)) := by
  induction syms with
  | nil =>
    intro ts _
    have : ts.map (markAll []) = ts := by
      rw [List.map_congr_left (g := id)]
      · simp
      · intro t _; simp [markAll]
    simp [ensureEscaped, this]
  | cons s r ih =>
    intro ts h
    have hs1 : s ≠ '\\' := fun h0 => hs (by simp [h0])
    have hr : '\\' ∉ r := fun h0 => hs (by simp [h0])
    have : ensureEscaped (s :: r) (tokText ts) = ensureEscaped r (esc1 s (tokText ts)) := by
      simp [ensureEscaped]
    rw [this, esc1_tokText s hs1 ts h, ih hr _ (noBare_mark s h), List.map_map]
    congr 1
    apply List.map_congr_left
    intro t _
    simp only [Function.comp, markAll, mark, List.contains_cons, Bool.or_assoc]

/-- the re-escaping of a key / anchor text for the separator `sep` -/
def remarkT (sep : Char) (ts : List Tok) : List Tok := ts.map (markAll (keySyms sep))

theorem keySyms_nobs {sep : Char} (hsep : sep = '.' ∨ sep = '/') : '\\' ∉ keySyms sep := by
  rcases hsep with rfl | rfl <;> decide

theorem ensureEscaped_key {sep : Char} (hsep : sep = '.' ∨ sep = '/') (ts : List Tok)
    (h : noBareBackslash ts) :
    ensureEscaped (keySyms sep) (tokText ts) = tokText (remarkT sep ts) :=
  ensureEscaped_tokText _ (keySyms_nobs hsep) ts h

theorem tokChars_remarkT (sep : Char) (ts : List Tok) : tokChars (remarkT sep ts) = tokChars ts := by
  simp [tokChars, remarkT, markAll, Function.comp_def]

theorem remarkT_idem (sep : Char) (ts : List Tok) : remarkT sep (remarkT sep ts) = remarkT sep ts := by
  simp only [remarkT, List.map_map]
  apply List.map_congr_left
  intro t _
  simp [markAll, Bool.or_assoc]

/-! ## the blank-escaping of `SearchTerms.__str__` -/

theorem splitEsc1_cons_ne (sym c : Char) (t : Str) (hc : c ≠ sym) (ht : t.head? ≠ some sym) :
    splitEsc1 sym (c :: t) = c :: splitEsc1 sym t := by
  cases t with
  | nil => simp [splitEsc1, hc]
  | cons b r =>
    have hb : b ≠ sym := by simpa using ht
    simp [splitEsc1, hc, hb]

theorem tokText_head {sym : Char} (hs : sym ≠ '\\') {ts : List Tok}
    (h : ∀ t ∈ ts, t.1 = true ∨ t.2 ≠ sym) : (tokText ts).head? ≠ some sym := by
  cases ts with
  | nil => simp [tokText]
  | cons t ts =>
    obtain ⟨e, c⟩ := t
    cases e with
    | true => simpa [tokText, Tok.text] using hs.symm
    | false =>
      rcases h (false, c) (by simp) with h1 | h1
      · cases h1
      · simpa [tokText, Tok.text] using h1

theorem splitEsc1_tokText (sym : Char) (hs : sym ≠ '\\') (ts : List Tok)
    (h : ∀ t ∈ ts, t.1 = true ∨ t.2 ≠ sym) : splitEsc1 sym (tokText ts) = tokText ts := by
  induction ts with
  | nil => simp [tokText, splitEsc1]
  | cons t ts ih =>
    have h' : ∀ t ∈ ts, t.1 = true ∨ t.2 ≠ sym := fun u hu => h u (by simp [hu])
    have ih' := ih h'
    have hh := tokText_head hs h'
    obtain ⟨e, c⟩ := t
    have ht : tokText ((e, c) :: ts) = Tok.text (e, c) ++ tokText ts := by simp [tokText]
    rw [ht]
    cases e with
    | true =>
      simp only [Tok.text, ↓reduceIte, List.cons_append, List.nil_append]
      by_cases hc : c = sym
      · subst hc
        simp [splitEsc1, ih']
      · rw [splitEsc1_cons_ne sym '\\' _ hs.symm (by simpa using hc),
          splitEsc1_cons_ne sym c _ hc hh, ih']
    | false =>
      have hc : c ≠ sym := by
        rcases h (false, c) (by simp) with h1 | h1
        · cases h1
        · exact h1
      simp only [Tok.text, Bool.false_eq_true, ↓reduceIte, List.cons_append, List.nil_append]
      rw [splitEsc1_cons_ne sym c _ hc hh, ih']

/-! ## One segment -/

/-- what the stringifier does to the way a segment is written; `addSep = false`: first position -/
def remark1 (sep : Char) (addSep : Bool) : LSeg → LSeg
  | .key ts => .key (remarkT sep ts)
  | .anchor _ ts => .anchor (!addSep) (remarkT sep ts)
  | l => l

/-- what the stringifier needs beyond what the parser needs: an anchor name without `*` (written
bare in first position), and the regular expression written between the stringifier's delimiter -/
def RenderOK : LSeg → Prop
  | .anchor _ ts => '*' ∉ tokChars ts
  | .regex _ _ d term => regexDelim term = some d
  | _ => True

theorem noBare_of_allBare {sep : Char} {stk : List Char} {ts : List Tok} (h : allBare sep stk ts) :
    noBareBackslash ts ∧ ∀ t ∈ ts, t.1 = true ∨ t.2 ≠ ' ' := by
  constructor
  · intro t ht
    rcases h t ht with h1 | h1
    · exact Or.inl h1
    · exact Or.inr (hard_cases h1.nh).1
  · intro t ht
    rcases h t ht with h1 | h1
    · exact Or.inl h1
    · exact Or.inr (hard_cases h1.nh).2.2.2.2.2.1

theorem render_seg {sep sep' : Char} (hsep' : sep' = '.' ∨ sep' = '/') {ac : Bool} (addSep : Bool)
    (l : LSeg) (hwf : l.WF sep ac) (hr : RenderOK l) :
    renderSeg sep' addSep (l.seg false) = (remark1 sep' addSep l).text sep' addSep := by
  cases l with
  | key ts =>
    obtain ⟨_, _, _, hb, _⟩ := hwf
    simp [LSeg.seg, renderSeg, attrsStr, remark1, LSeg.text, sepIf, tokView,
      ensureEscaped_key hsep' ts (noBare_of_allBare hb).1]
  | matchAll => simp [LSeg.seg, renderSeg, remark1, LSeg.text, sepIf]
  | traverse => simp [LSeg.seg, renderSeg, remark1, LSeg.text, sepIf]
  | index i => simp [LSeg.seg, renderSeg, attrsStr, remark1, LSeg.text]
  | slice sl => simp [LSeg.seg, renderSeg, attrsStr, remark1, LSeg.text]
  | anchor top ts =>
    have hb : noBareBackslash ts := by
      cases top
      · exact (noBare_of_allBare hwf.2).1
      · exact (noBare_of_allBare hwf.2.2.1).1
    cases addSep <;>
      simp [LSeg.seg, renderSeg, attrsStr, remark1, LSeg.text, sepIf, tokView,
        ensureEscaped_key hsep' ts hb]
  | search inv m attr term =>
    obtain ⟨hm, _, _, _, hbt, _⟩ := hwf
    simp [LSeg.seg, renderSeg, searchStr, remark1, LSeg.text, tokView, hm, invText,
      splitEsc1_tokText ' ' (by decide) term (noBare_of_allBare hbt).2]
  | regex inv attr d term =>
    have hd : regexDelim term = some d := hr
    simp [LSeg.seg, renderSeg, searchStr, remark1, LSeg.text, tokView, hd, invText]
  | keyword inv kw ps =>
    simp [LSeg.seg, renderSeg, attrsStr, keywordStr, remark1, LSeg.text, tokView, invText]
  | collector e op =>
    simp [LSeg.seg, renderSeg, attrsStr, collectorStr, remark1, LSeg.text, tokView]

theorem allBare_remark_top {sep sep' : Char} {stk : List Char} {ts : List Tok}
    (h : allBare sep stk ts) : allBare sep' [] (remarkT sep' ts) := by
  intro t ht
  simp only [remarkT, List.mem_map] at ht
  obtain ⟨u, hu, rfl⟩ := ht
  rcases h u hu with h1 | h1
  · left; simp [markAll, h1]
  · by_cases hk : u.2 ∈ keySyms sep'
    · left; simp [markAll, hk]
    · right
      refine ⟨h1.nh, fun _ => ?_, by simp⟩
      intro hc
      apply hk
      have hc' : u.2 = sep' := hc
      simp [keySyms, hc']

theorem allBare_remark_same {sep sep' : Char} {stk : List Char} (hstk : stk ≠ []) {ts : List Tok}
    (h : allBare sep stk ts) : allBare sep' stk (remarkT sep' ts) := by
  intro t ht
  simp only [remarkT, List.mem_map] at ht
  obtain ⟨u, hu, rfl⟩ := ht
  rcases h u hu with h1 | h1
  · left; simp [markAll, h1]
  · by_cases hk : u.2 ∈ keySyms sep'
    · left; simp [markAll, hk]
    · right; exact ⟨h1.nh, fun h0 => absurd h0 hstk, h1.op⟩

theorem allBare_sep {sep sep' : Char} {stk : List Char} (hstk : stk ≠ []) {ts : List Tok}
    (h : allBare sep stk ts) : allBare sep' stk ts := by
  intro t ht
  rcases h t ht with h1 | h1
  · exact Or.inl h1
  · exact Or.inr ⟨h1.nh, fun h0 => absurd h0 hstk, h1.op⟩

theorem head_remarkT {sep : Char} {ts : List Tok} {P : Char → Prop}
    (h : ∀ t ∈ ts.head?, t.1 = true ∨ P t.2) : ∀ t ∈ (remarkT sep ts).head?, t.1 = true ∨ P t.2 := by
  cases ts with
  | nil => simp [remarkT]
  | cons u us =>
    intro t ht
    simp [remarkT] at ht
    subst ht
    rcases h u (by simp) with h1 | h1
    · left; simp [markAll, h1]
    · right; exact h1

theorem remark1_wf {sep sep' : Char} {ac : Bool} (addSep : Bool) (l : LSeg) (hwf : l.WF sep ac)
    (hr : RenderOK l)
    (h1 : addSep = false → ac = true → ∀ top ts, l = .anchor top ts →
      ∀ t ∈ ts.head?, t.1 = true ∨ (t.2 ≠ '+' ∧ t.2 ≠ '-' ∧ t.2 ≠ '&'))
    (h2 : addSep = true → l.isTop = false) :
    (remark1 sep' addSep l).WF sep' ac := by
  cases l with
  | key ts =>
    obtain ⟨hne, hamp, hpm, hb, hstar⟩ := hwf
    refine ⟨by simpa [remarkT] using hne, head_remarkT (P := fun c => c ≠ '&') hamp,
      fun ha => head_remarkT (P := fun c => c ≠ '+' ∧ c ≠ '-') (hpm ha),
      allBare_remark_top hb, (by rw [tokChars_remarkT]; exact hstar)⟩
  | matchAll => trivial
  | traverse => trivial
  | index i => trivial
  | slice sl => exact hwf
  | anchor top ts =>
    have hstar : '*' ∉ tokChars ts := hr
    cases addSep with
    | false =>
      have hac : ac = true → ∀ t ∈ (remarkT sep' ts).head?,
          t.1 = true ∨ (t.2 ≠ '+' ∧ t.2 ≠ '-' ∧ t.2 ≠ '&') := fun ha =>
        head_remarkT (P := fun c => c ≠ '+' ∧ c ≠ '-' ∧ c ≠ '&') (h1 rfl ha top ts rfl)
      cases top with
      | false =>
        obtain ⟨hne, hb⟩ := hwf
        exact ⟨by simpa [remarkT] using hne, hac, allBare_remark_top hb,
          (by rw [tokChars_remarkT]; exact hstar)⟩
      | true =>
        obtain ⟨hne, _, hb, _⟩ := hwf
        exact ⟨by simpa [remarkT] using hne, hac, allBare_remark_top hb,
          (by rw [tokChars_remarkT]; exact hstar)⟩
    | true =>
      cases top with
      | false =>
        obtain ⟨hne, hb⟩ := hwf
        exact ⟨by simpa [remarkT] using hne, allBare_remark_same (by simp) hb⟩
      | true => simp [LSeg.isTop] at h2
  | search inv m attr term =>
    obtain ⟨hm, hne, hamp, hba, hbt, hq⟩ := hwf
    exact ⟨hm, hne, hamp, allBare_sep (by simp) hba, allBare_sep (by simp) hbt, hq⟩
  | regex inv attr d term =>
    obtain ⟨hne, hamp, hba, r⟩ := hwf
    exact ⟨hne, hamp, allBare_sep (by simp) hba, r⟩
  | keyword inv kw ps => exact allBare_sep (sep := sep) (by simp) hwf
  | collector e op =>
    obtain ⟨ho, hb⟩ := hwf
    exact ⟨ho, allBare_sep (by simp) hb⟩

theorem remark1_flags (sep : Char) (addSep : Bool) (l : LSeg) :
    (remark1 sep addSep l).isColl = l.isColl ∧ (remark1 sep addSep l).isInter = l.isInter := by
  cases l <;> simp [remark1, LSeg.isColl, LSeg.isInter]

theorem remark1_seg_true (sep : Char) (addSep : Bool) (l : LSeg) :
    (remark1 sep addSep l).seg true = l.seg true := by
  cases l <;> simp [remark1, LSeg.seg, tokView, tokChars_remarkT]

theorem remark1_ok (sep : Char) (addSep : Bool) (l : LSeg) (h : RenderOK l) :
    RenderOK (remark1 sep addSep l) := by
  cases l <;> simp_all [remark1, RenderOK, tokChars_remarkT]

theorem remark1_idem (sep : Char) (addSep : Bool) (l : LSeg) :
    remark1 sep addSep (remark1 sep addSep l) = remark1 sep addSep l := by
  cases l <;> simp [remark1, remarkT_idem]

/-! ## Lists -/

def remarkFrom (sep : Char) : Bool → List LSeg → List LSeg
  | _, [] => []
  | addSep, l :: r => remark1 sep addSep l :: remarkFrom sep true r

theorem renderFrom_eq {sep sep' : Char} (hsep' : sep' = '.' ∨ sep' = '/') :
    ∀ (ls : List LSeg) (ac addSep : Bool), wfFromL sep ac ls → (∀ l ∈ ls, RenderOK l) →
    renderFrom sep' addSep (ls.map (LSeg.seg false)) =
      textFrom sep' addSep (remarkFrom sep' addSep ls) := by
  intro ls
  induction ls with
  | nil => intro _ _ _ _; rfl
  | cons l r ih =>
    intro ac addSep hwf hok
    obtain ⟨hw1, hw3⟩ := hwf
    simp only [List.map_cons, renderFrom, remarkFrom, textFrom]
    rw [render_seg hsep' addSep l hw1 (hok l (by simp)),
      ih _ true hw3 (fun x hx => hok x (by simp [hx]))]

theorem remarkFrom_wf {sep sep' : Char} :
    ∀ (ls : List LSeg) (ac addSep : Bool), wfFromL sep ac ls → (∀ l ∈ ls, RenderOK l) →
    (addSep = false → ac = false) → (∀ l ∈ (if addSep then ls else ls.tail), l.isTop = false) →
    wfFromL sep' ac (remarkFrom sep' addSep ls) := by
  intro ls
  induction ls with
  | nil => intro _ _ _ _ _ _; trivial
  | cons l r ih =>
    intro ac addSep hwf hok h1 h2
    obtain ⟨hw1, hw3⟩ := hwf
    obtain ⟨f1, _⟩ := remark1_flags sep' addSep l
    refine ⟨remark1_wf addSep l hw1 (hok l (by simp))
      (fun ha hc => by rw [h1 ha] at hc; cases hc) (fun ha => h2 l (by simp [ha])), ?_⟩
    · rw [f1]
      apply ih _ true hw3 (fun x hx => hok x (by simp [hx])) (by simp)
      intro x hx
      simp only [↓reduceIte] at hx
      apply h2 x
      cases addSep
      · simpa using hx
      · simp [hx]

theorem remarkFrom_seg_true (sep : Char) : ∀ (ls : List LSeg) (addSep : Bool),
    (remarkFrom sep addSep ls).map (LSeg.seg true) = ls.map (LSeg.seg true) := by
  intro ls
  induction ls with
  | nil => intro _; rfl
  | cons l r ih => intro a; simp [remarkFrom, remark1_seg_true, ih]

theorem remarkFrom_ok (sep : Char) : ∀ (ls : List LSeg) (addSep : Bool), (∀ l ∈ ls, RenderOK l) →
    ∀ l ∈ remarkFrom sep addSep ls, RenderOK l := by
  intro ls
  induction ls with
  | nil => intro _ _ l hl; simp [remarkFrom] at hl
  | cons x r ih =>
    intro a hok l hl
    simp only [remarkFrom, List.mem_cons] at hl
    rcases hl with rfl | hl
    · exact remark1_ok sep a x (hok x (by simp))
    · exact ih true (fun y hy => hok y (by simp [hy])) l hl

theorem remarkFrom_idem (sep : Char) : ∀ (ls : List LSeg) (addSep : Bool),
    remarkFrom sep addSep (remarkFrom sep addSep ls) = remarkFrom sep addSep ls := by
  intro ls
  induction ls with
  | nil => intro _; rfl
  | cons l r ih => intro a; simp [remarkFrom, remark1_idem, ih]

theorem remarkFrom_tail_top (sep : Char) : ∀ (ls : List LSeg) (addSep : Bool),
    ∀ l ∈ (if addSep then remarkFrom sep addSep ls else (remarkFrom sep addSep ls).tail),
      l.isTop = false := by
  intro ls
  induction ls with
  | nil => intro a l hl; cases a <;> simp [remarkFrom] at hl
  | cons x r ih =>
    intro a l hl
    have hr := ih true
    simp only [↓reduceIte] at hr
    cases a with
    | false =>
      simp only [Bool.false_eq_true, ↓reduceIte, remarkFrom, List.tail_cons] at hl
      exact hr l hl
    | true =>
      simp only [↓reduceIte, remarkFrom, List.mem_cons] at hl
      rcases hl with rfl | hl
      · cases x <;> simp [remark1, LSeg.isTop]
      · exact hr l hl

theorem render_eq (fslash : Bool) {sep : Char} (ls : List LSeg) (ac : Bool)
    (hwf : wfFromL sep ac ls) (hok : ∀ l ∈ ls, RenderOK l) :
    render fslash (ls.map (LSeg.seg false)) =
      textAll fslash (remarkFrom (if fslash then '/' else '.') false ls) := by
  cases fslash
  · simp [render, textAll, renderFrom_eq (sep' := '.') (Or.inl rfl) ls ac false hwf hok]
  · simp [render, textAll, renderFrom_eq (sep' := '/') (Or.inr rfl) ls ac false hwf hok]

end Ypv.Sim
