import Ypv.Lemmas.Doc
/-!
# Document order: the addresses of a subtree, and "results come in document order"
(helpers of `Props/C01.select_sorted_nodup`)
-/
namespace Ypv

/-- All addresses of the subtree of a node at address `a`, in document order (pre-order; the members
of a set are leaves). -/
def addrsAll : Node → Addr → List Addr
  | .scalar .., a => [a]
  | .set _ ms, a => a :: ms.map (fun k => a ++ [Ref.member k])
  | .seq _ items, a => a :: addrsSeq a items 0
  | .map _ es, a => a :: addrsMap a es
where
  addrsSeq (a : Addr) : List Node → Nat → List Addr
    | [], _ => []
    | n :: ns, i => addrsAll n (a ++ [Ref.idx i]) ++ addrsSeq a ns (i + 1)
  addrsMap (a : Addr) : List (Key × Node) → List Addr
    | [] => []
    | (k, n) :: es => addrsAll n (a ++ [Ref.key k]) ++ addrsMap a es

theorem addrsAll_head (n : Node) (a : Addr) : ∃ t, addrsAll n a = a :: t := by
  cases n <;> simp [addrsAll]

/-- The addresses below a node (its own excluded). -/
def addrsBelow (n : Node) (a : Addr) : List Addr := (addrsAll n a).tail

theorem addrsAll_eq (n : Node) (a : Addr) : addrsAll n a = a :: addrsBelow n a := by
  obtain ⟨t, ht⟩ := addrsAll_head n a
  simp [addrsBelow, ht]

theorem flatMap_sublist_of_sublist {α β : Type} {l₁ l₂ : List α} (f : α → List β) (h : l₁.Sublist l₂) :
    (l₁.flatMap f).Sublist (l₂.flatMap f) := by
  induction h with
  | slnil => simp
  | cons x _ ih => simp only [List.flatMap_cons]; exact List.Sublist.trans ih (List.sublist_append_right _ _)
  | cons_cons x _ ih => simp only [List.flatMap_cons]; exact List.Sublist.append (List.Sublist.refl _) ih

theorem flatMap_sublist_pointwise {α β : Type} (l : List α) {f g : α → List β} (h : ∀ x ∈ l, (f x).Sublist (g x)) :
    (l.flatMap f).Sublist (l.flatMap g) := by
  induction l with
  | nil => simp
  | cons x xs ih =>
    simp only [List.flatMap_cons]
    exact List.Sublist.append (h x (by simp)) (ih (fun y hy => h y (by simp [hy])))

/-- The subtree of the `j`-th element embeds, in order, into the addresses below a list. -/
theorem addrsSeq_embed (a : Addr) : ∀ (items : List Node) (i j : Nat) (m : Node), items[j]? = some m →
    (addrsAll m (a ++ [Ref.idx (i + j)])).Sublist (addrsAll.addrsSeq a items i) := by
  intro items
  induction items with
  | nil => intro i j m h; simp at h
  | cons x xs ih =>
    intro i j m h
    simp only [addrsAll.addrsSeq]
    cases j with
    | zero =>
      simp at h; subst h
      simpa using List.sublist_append_left _ _
    | succ j =>
      simp at h
      have := ih (i + 1) j m h
      have e : i + 1 + j = i + (j + 1) := by omega
      rw [e] at this
      exact List.Sublist.trans this (List.sublist_append_right _ _)

theorem addrsMap_embed (a : Addr) : ∀ (es : List (Key × Node)) (k : Key) (m : Node), (k, m) ∈ es →
    (addrsAll m (a ++ [Ref.key k])).Sublist (addrsAll.addrsMap a es) := by
  intro es
  induction es with
  | nil => intro k m h; cases h
  | cons x xs ih =>
    intro k m h
    obtain ⟨k', v'⟩ := x
    simp only [addrsAll.addrsMap]
    cases h with
    | head => exact List.sublist_append_left _ _
    | tail _ h' => exact List.Sublist.trans (ih k m h') (List.sublist_append_right _ _)

/-- The subtree of a child embeds, in order, into the addresses below its parent. -/
theorem child_embed {n m : Node} {r : Ref} (a : Addr) (h : n.child? r = some m) :
    (addrsAll m (a ++ [r])).Sublist (addrsBelow n a) := by
  cases n with
  | scalar b v => cases r <;> simp [Node.child?] at h
  | seq b items =>
    cases r <;> simp only [Node.child?] at h <;> try cases h
    rename_i j
    have := addrsSeq_embed a items 0 j m h
    simpa [addrsBelow, addrsAll] using this
  | map b es =>
    cases r <;> simp only [Node.child?] at h <;> try cases h
    rename_i k
    have := addrsMap_embed a es k m (mem_of_lookup h)
    simpa [addrsBelow, addrsAll] using this
  | set b ms =>
    cases r <;> simp only [Node.child?] at h <;> try cases h
    rename_i k
    split at h
    · rename_i hc
      cases h
      have hk : k ∈ ms := by simpa using hc
      simp only [addrsBelow, addrsAll, List.tail_cons]
      have : [a ++ [Ref.member k]].Sublist (ms.map (fun k => a ++ [Ref.member k])) :=
        List.singleton_sublist.mpr (List.mem_map.mpr ⟨k, hk, rfl⟩)
      simpa [addrsAll] using this
    · cases h

/-! ## In a well-formed document no address occurs twice -/

mutual
theorem addrsAll_prefix : (n : Node) → (a : Addr) → ∀ b ∈ addrsAll n a, a <+: b
  | .scalar .., a => by intro b hb; simp [addrsAll] at hb; subst hb; exact List.prefix_refl _
  | .set _ ms, a => by
      intro b hb
      simp only [addrsAll, List.mem_cons, List.mem_map] at hb
      cases hb with
      | inl h => subst h; exact List.prefix_refl _
      | inr h => obtain ⟨k, _, rfl⟩ := h; exact List.prefix_append _ _
  | .seq _ items, a => by
      intro b hb
      simp only [addrsAll, List.mem_cons] at hb
      cases hb with
      | inl h => subst h; exact List.prefix_refl _
      | inr h =>
        obtain ⟨j, _, hp⟩ := addrsSeq_prefix a items 0 b h
        exact List.IsPrefix.trans (List.prefix_append _ _) hp
  | .map _ es, a => by
      intro b hb
      simp only [addrsAll, List.mem_cons] at hb
      cases hb with
      | inl h => subst h; exact List.prefix_refl _
      | inr h =>
        obtain ⟨k, _, hp⟩ := addrsMap_prefix a es b h
        exact List.IsPrefix.trans (List.prefix_append _ _) hp
theorem addrsSeq_prefix (a : Addr) : (items : List Node) → (i : Nat) → ∀ b ∈ addrsAll.addrsSeq a items i,
    ∃ j, i ≤ j ∧ (a ++ [Ref.idx j]) <+: b
  | [], _ => by intro b hb; simp [addrsAll.addrsSeq] at hb
  | n :: ns, i => by
      intro b hb
      simp only [addrsAll.addrsSeq, List.mem_append] at hb
      cases hb with
      | inl h => exact ⟨i, Nat.le_refl _, addrsAll_prefix n _ b h⟩
      | inr h =>
        obtain ⟨j, hj, hp⟩ := addrsSeq_prefix a ns (i + 1) b h
        exact ⟨j, by omega, hp⟩
theorem addrsMap_prefix (a : Addr) : (es : List (Key × Node)) → ∀ b ∈ addrsAll.addrsMap a es,
    ∃ k, k ∈ es.map (·.1) ∧ (a ++ [Ref.key k]) <+: b
  | [] => by intro b hb; simp [addrsAll.addrsMap] at hb
  | (k, n) :: es => by
      intro b hb
      simp only [addrsAll.addrsMap, List.mem_append] at hb
      cases hb with
      | inl h => exact ⟨k, by simp, addrsAll_prefix n _ b h⟩
      | inr h =>
        obtain ⟨k', hk', hp⟩ := addrsMap_prefix a es b h
        exact ⟨k', by simp only [List.map_cons, List.mem_cons]; exact Or.inr hk', hp⟩
end

theorem ref_eq_of_prefixes {a b : Addr} {r1 r2 : Ref} (h1 : (a ++ [r1]) <+: b) (h2 : (a ++ [r2]) <+: b) : r1 = r2 := by
  have := List.prefix_of_prefix_length_le h1 h2 (by simp)
  have := List.IsPrefix.eq_of_length this (by simp)
  simpa using this

theorem not_mem_of_longer {a b : Addr} {r : Ref} (h : (a ++ [r]) <+: b) : b ≠ a := by
  intro e
  subst e
  have := h.length_le
  simp at this
  omega

mutual
theorem addrsAll_nodup : (n : Node) → n.WF → (a : Addr) → (addrsAll n a).Nodup
  | .scalar .., _, a => by simp [addrsAll]
  | .set _ ms, hw, a => by
      simp only [addrsAll, List.nodup_cons, List.mem_map, not_exists, not_and]
      refine ⟨fun k _ h => ?_, ?_⟩
      · have := congrArg List.length h; simp at this
      · exact List.Pairwise.map _ (fun x y hne h => hne (by simpa using h)) hw
  | .seq _ items, hw, a => by
      simp only [addrsAll, List.nodup_cons]
      refine ⟨fun h => ?_, addrsSeq_nodup a items hw 0⟩
      obtain ⟨j, _, hp⟩ := addrsSeq_prefix a items 0 a h
      exact not_mem_of_longer hp rfl
  | .map _ es, hw, a => by
      simp only [addrsAll, List.nodup_cons]
      refine ⟨fun h => ?_, addrsMap_nodup a es hw.1 hw.2⟩
      obtain ⟨k, _, hp⟩ := addrsMap_prefix a es a h
      exact not_mem_of_longer hp rfl
theorem addrsSeq_nodup (a : Addr) : (items : List Node) → WFList items → (i : Nat) →
    (addrsAll.addrsSeq a items i).Nodup
  | [], _, _ => by simp [addrsAll.addrsSeq]
  | n :: ns, hw, i => by
      simp only [addrsAll.addrsSeq]
      simp only [WFList] at hw
      refine List.nodup_append.mpr ⟨addrsAll_nodup n hw.1 _, addrsSeq_nodup a ns hw.2 (i + 1), ?_⟩
      intro b hb1 c hb2 hbc
      subst hbc
      have p1 := addrsAll_prefix n _ b hb1
      obtain ⟨j, hj, p2⟩ := addrsSeq_prefix a ns (i + 1) b hb2
      have := ref_eq_of_prefixes p1 p2
      simp at this
      omega
theorem addrsMap_nodup (a : Addr) : (es : List (Key × Node)) → (es.map (·.1)).Nodup → WFEntries es →
    (addrsAll.addrsMap a es).Nodup
  | [], _, _ => by simp [addrsAll.addrsMap]
  | (k, n) :: es, hnd, hw => by
      simp only [addrsAll.addrsMap]
      simp only [WFEntries] at hw
      simp only [List.map_cons, List.nodup_cons] at hnd
      refine List.nodup_append.mpr ⟨addrsAll_nodup n hw.1 _, addrsMap_nodup a es hnd.2 hw.2, ?_⟩
      intro b hb1 c hb2 hbc
      subst hbc
      have p1 := addrsAll_prefix n _ b hb1
      obtain ⟨k', hk', p2⟩ := addrsMap_prefix a es b hb2
      have := ref_eq_of_prefixes p1 p2
      simp at this
      subst this
      exact hnd.1 hk'
end

/-! ## Results in document order -/

namespace Eval
open Gen

/-- The addresses of the subtree of a result. -/
def sub (x : NC) : List Addr := addrsAll x.1 x.2.addr

/-- The results, each with its whole subtree, embed in order into the subtree of `(n, c)`: they are
in document order, pairwise disjoint (no result is an ancestor of or equal to another). -/
def Ord (R : List NC) (n : Node) (c : Ctx) : Prop := (R.flatMap sub).Sublist (addrsAll n c.addr)

theorem ord_nil (n : Node) (c : Ctx) : Ord [] n c := by simp [Ord]

theorem ord_self (n : Node) (c : Ctx) : Ord [(n, c)] n c := by simp [Ord, sub]

theorem ord_below {R : List NC} {n : Node} {c : Ctx} (h : (R.flatMap sub).Sublist (addrsBelow n c.addr)) : Ord R n c := by
  unfold Ord
  rw [addrsAll_eq]
  exact List.Sublist.cons _ h

theorem ord_child {n m : Node} {c : Ctx} {r : Ref} (pr : PRef) (sec : Str) (h : n.child? r = some m) :
    Ord [(m, c.child r pr sec)] n c := by
  apply ord_below
  simpa [sub, Ctx.child] using child_embed c.addr h

theorem seqKids_sub (c : Ctx) : ∀ (items : List Node) (i : Nat),
    (seqKidsFrom c items i).flatMap sub = addrsAll.addrsSeq c.addr items i := by
  intro items
  induction items with
  | nil => intro i; rfl
  | cons n ns ih => intro i; simp [seqKidsFrom, addrsAll.addrsSeq, sub, Ctx.child, ← ih]

theorem mapKids_sub (c : Ctx) : ∀ (es : List (Key × Node)), (mapKids c es).flatMap sub = addrsAll.addrsMap c.addr es := by
  intro es
  induction es with
  | nil => rfl
  | cons kv es ih =>
    obtain ⟨k, v⟩ := kv
    simp only [mapKids, List.map_cons, List.flatMap_cons, addrsAll.addrsMap] at ih ⊢
    rw [ih]
    simp [sub, Ctx.child]

theorem setKids_sub (c : Ctx) (ms : List Key) :
    (setKids c ms).flatMap sub = ms.map (fun k => c.addr ++ [Ref.member k]) := by
  induction ms with
  | nil => rfl
  | cons k ks ih =>
    simp only [setKids, List.map_cons, List.flatMap_cons] at ih ⊢
    rw [ih]
    simp [sub, Ctx.child, Key.toNode, addrsAll]

theorem kids_sub (n : Node) (c : Ctx) : (kids n c).flatMap sub = addrsBelow n c.addr := by
  cases n with
  | scalar a v => simp [kids, addrsBelow, addrsAll]
  | seq a items => simp [kids, addrsBelow, addrsAll, seqKids_sub]
  | map a es => simp [kids, addrsBelow, addrsAll, mapKids_sub]
  | set a ms => simp [kids, addrsBelow, addrsAll, setKids_sub]

theorem ord_kids {R : List NC} {n : Node} {c : Ctx} (h : R.Sublist (kids n c)) : Ord R n c := by
  apply ord_below
  rw [← kids_sub]
  exact flatMap_sublist_of_sublist sub h

theorem deepKids_sublist (n : Node) (c : Ctx) : (deepKids n c).Sublist (kids n c) := by
  cases n <;> simp [deepKids, kids]

theorem append_fst_sublist {α : Type} (g h : Gen α) : (append g h).1.Sublist (g.1 ++ h.1) := by
  obtain ⟨l, e⟩ := g
  cases e <;> simp [append]

theorem bindList_fst_sublist {α β : Type} (f : α → Gen β) (l : List α) :
    (bindList f l).1.Sublist (l.flatMap (fun x => (f x).1)) := by
  induction l with
  | nil => simp [nil]
  | cons x xs ih =>
    simp only [bindList_cons, List.flatMap_cons]
    exact List.Sublist.trans (append_fst_sublist _ _) (List.Sublist.append (List.Sublist.refl _) ih)

theorem bind_fst_sublist {α β : Type} (g : Gen α) (f : α → Gen β) :
    (bind g f).1.Sublist (g.1.flatMap (fun x => (f x).1)) := by
  simp only [bind_def]
  refine List.Sublist.trans (append_fst_sublist _ _) ?_
  simpa using bindList_fst_sublist f g.1

/-- Results of a continuation applied to ordered results are ordered. -/
theorem ord_flatMap {R : List NC} {n : Node} {c : Ctx} (k : NC → List NC) (h : Ord R n c)
    (hk : ∀ x ∈ R, Ord (k x) x.1 x.2) : Ord (R.flatMap k) n c := by
  unfold Ord at *
  rw [List.flatMap_assoc]
  exact List.Sublist.trans (flatMap_sublist_pointwise R (fun x hx => hk x hx)) h

theorem ord_sublist {R R' : List NC} {n : Node} {c : Ctx} (h : R'.Sublist R) (ho : Ord R n c) : Ord R' n c :=
  List.Sublist.trans (flatMap_sublist_of_sublist sub h) ho

theorem ord_elemAt {a : Option Str} (items : List Node) (i : Int) (c : Ctx) :
    Ord (elemAt items i c).1 (.seq a items) c := by
  unfold elemAt
  by_cases h : inRange items.length i = true
  · simp only [h, if_true]
    split
    · rename_i x hx
      exact ord_child _ _ (by simpa [Node.child?] using pyGetItem_spec items i x h hx)
    · exact ord_nil _ _
  · simp only [h]
    exact ord_nil _ _

theorem ord_keyOnMap {a : Option Str} (k : Str) (es : List (Key × Node)) (c : Ctx) :
    Ord (keyOnMap k es c).1 (.map a es) c := by
  unfold keyOnMap
  split
  · rename_i v hv
    exact ord_child _ _ (by simpa [Node.child?] using hv)
  · split
    · split
      · rename_i v hv
        exact ord_child _ _ (by simpa [Node.child?] using hv)
      · exact ord_nil _ _
    · exact ord_nil _ _

theorem ord_keyOnSet {a : Option Str} (k : Str) (ms : List Key) (c : Ctx) :
    Ord (keyOnSet k ms c).1 (.set a ms) c := by
  unfold keyOnSet
  split
  · rename_i m hm
    have hmem : m ∈ ms := List.mem_of_find?_eq_some hm
    refine ord_child _ _ ?_
    simp only [Node.child?]
    have : ms.contains m = true := by simpa using hmem
    rw [if_pos this]
    cases m <;> rfl
  · exact ord_nil _ _

mutual
theorem ord_keyStep (k : Str) (tl : Bool) : (n : Node) → (c : Ctx) → Ord (keyStep k tl n c).1 n c
  | .map a es, c => by simp only [keyStep]; exact ord_keyOnMap k es c
  | .set a ms, c => by simp only [keyStep]; exact ord_keyOnSet k ms c
  | .scalar .., c => by simp only [keyStep]; exact ord_nil _ _
  | .seq a items, c => by
      simp only [keyStep]
      split
      · exact ord_elemAt items _ c
      · split
        · apply ord_below
          simpa [addrsBelow, addrsAll] using ord_passThrough k tl c items 0
        · exact ord_nil _ _
theorem ord_passThrough (k : Str) (tl : Bool) (c : Ctx) : (items : List Node) → (i : Nat) →
    ((keyStep.passThrough k tl c items i).1.flatMap sub).Sublist (addrsAll.addrsSeq c.addr items i)
  | [], _ => by simp [keyStep.passThrough, nil]
  | m :: ms, i => by
      simp only [keyStep.passThrough, addrsAll.addrsSeq]
      refine List.Sublist.trans (flatMap_sublist_of_sublist sub (append_fst_sublist _ _)) ?_
      rw [List.flatMap_append]
      refine List.Sublist.append ?_ (ord_passThrough k tl c ms (i + 1))
      have := ord_keyStep k tl m (c.child (.idx i) (.idx i) (idxSection i))
      simpa [Ord, Ctx.child] using this
end

theorem ord_indexStep (i : Int) (n : Node) (c : Ctx) : Ord (indexStep i n c).1 n c := by
  cases n <;> simp only [indexStep]
  · exact ord_nil _ _
  · exact ord_elemAt _ _ _
  · exact ord_nil _ _
  · exact ord_nil _ _

theorem anchorGo_sub (an : Str) (c : Ctx) : ∀ (items : List Node) (i : Nat),
    (anchorKids.go an c items i).flatMap sub = addrsAll.addrsSeq c.addr items i := by
  intro items
  induction items with
  | nil => intro i; rfl
  | cons n ns ih => intro i; simp [anchorKids.go, addrsAll.addrsSeq, sub, Ctx.child, ← ih]

theorem anchorMap_sub (an : Str) (c : Ctx) : ∀ (es : List (Key × Node)),
    (es.map (fun kv => (kv.2, c.child (.key kv.1) (.key kv.1) (anchorSection an)))).flatMap sub
      = addrsAll.addrsMap c.addr es := by
  intro es
  induction es with
  | nil => rfl
  | cons kv es ih =>
    obtain ⟨k, v⟩ := kv
    simp only [List.map_cons, List.flatMap_cons, addrsAll.addrsMap] at ih ⊢
    rw [ih]
    simp [sub, Ctx.child]

theorem anchorKids_sub (an : Str) (n : Node) (c : Ctx) :
    ((anchorKids an n c).flatMap sub).Sublist (addrsBelow n c.addr) := by
  cases n with
  | scalar a v => simp [anchorKids]
  | set a ms => simp [anchorKids]
  | seq a items => simp [anchorKids, addrsBelow, addrsAll, anchorGo_sub]
  | map a es => simp [anchorKids, addrsBelow, addrsAll, anchorMap_sub]

theorem ord_anchorStep (a : Str) (n : Node) (c : Ctx) : Ord (anchorStep a n c).1 n c := by
  apply ord_below
  exact List.Sublist.trans (flatMap_sublist_of_sublist sub List.filter_sublist) (anchorKids_sub a n c)

variable {mt : Matcher} {dsc : Desc} {rt : Node}

theorem yieldIf_sublist (inv : Bool) (r : Except Err Bool) (x : NC) : (yieldIf inv r x).1.Sublist [x] := by
  unfold yieldIf
  split
  · split
    · simp [one]
    · simp [nil]
  · simp [fail]

theorem searchList_sublist (inv : Bool) (m : Method) (attr term : Str) (aoh : Bool) :
    ∀ (l : List NC), (searchList mt dsc inv m attr term aoh l).1.Sublist l := by
  intro l
  induction l with
  | nil => simp [searchList, nil]
  | cons x xs ih =>
    simp only [searchList]
    refine List.Sublist.trans (append_fst_sublist _ _) ?_
    have := List.Sublist.append (yieldIf_sublist inv (searchElem mt dsc m attr term aoh x) x) ih
    simpa using this

theorem searchNames_sublist (inv : Bool) (m : Method) (term : Str) :
    ∀ (l : List (Key × NC)), (searchNames mt inv m term l).1.Sublist (l.map (·.2)) := by
  intro l
  induction l with
  | nil => simp [searchNames, nil]
  | cons x xs ih =>
    obtain ⟨k, y⟩ := x
    simp only [searchNames]
    refine List.Sublist.trans (append_fst_sublist _ _) ?_
    have := List.Sublist.append (yieldIf_sublist inv (mt m k.toNode term) y) ih
    simpa using this

theorem ord_searchStep (inv : Bool) (m : Method) (attr term : Str) (tl : Bool) (n : Node) (c : Ctx) :
    Ord (searchStep mt dsc inv m attr term tl n c).1 n c := by
  cases n with
  | scalar a v =>
    simp only [searchStep]
    exact ord_sublist (yieldIf_sublist _ _ _) (ord_self _ _)
  | seq a items =>
    simp only [searchStep]
    split
    · exact ord_kids (by simpa [kids] using searchList_sublist (mt := mt) (dsc := dsc) inv m attr term (ev_isAoh items) (seqKidsFrom c items 0))
    · exact ord_nil _ _
  | set a ms =>
    simp only [searchStep]
    refine ord_kids ?_
    have := searchNames_sublist (mt := mt) inv m term (ms.map (fun k => (k, (k.toNode, c.child (.member k) (.member k) (escSection k.text)))))
    rw [List.map_map] at this
    exact this
  | map a es =>
    simp only [searchStep, searchMap]
    split
    · refine ord_kids ?_
      have := searchNames_sublist (mt := mt) inv m term (es.map (fun kv => (kv.1, (kv.2, c.child (.key kv.1) (.key kv.1) (escSection kv.1.text)))))
      rw [List.map_map] at this
      exact this
    · split
      · rename_i v hv
        exact ord_sublist (yieldIf_sublist _ _ _) (ord_child _ _ (by simpa [Node.child?] using hv))
      · split
        · exact ord_self _ _
        · exact ord_nil _ _
        · exact ord_nil _ _

theorem filterFirst_sublist {α β : Type} (p : α → Gen β) : ∀ (l : List α), (filterFirst p l).1.Sublist l := by
  intro l
  induction l with
  | nil => simp [filterFirst, nil]
  | cons x xs ih =>
    simp only [filterFirst]
    split
    · refine List.Sublist.trans (append_fst_sublist _ _) ?_
      simpa [one] using ih
    · simp [fail]
    · exact List.Sublist.cons _ ih

/-- The document nodes a result list designates (a virtual slice list stands for its members). -/
def flatR (l : List Res) : List NC := l.flatMap (fun r => match r with | .real x => [x] | .virt items => items)

theorem flatR_map_real (l : List NC) : flatR (l.map Res.real) = l := by
  induction l with
  | nil => rfl
  | cons x xs ih => simp only [flatR, List.map_cons, List.flatMap_cons] at ih ⊢; rw [ih]; rfl

/-- Segments whose results come in document order without repetition: everything but `**`, slices and
keyword searches (`[parent()]` climbs; inverted `max`/`min`/`unique` yield in the order of their loops). -/
def _root_.Ypv.ESeg.ordered : ESeg → Bool
  | .traverse => false
  | .slice .. => false
  | .keyword .. => false
  | _ => true

theorem ord_stepSeg (s : ESeg) (hs : s.ordered = true) (rest : List ESeg) (tl : Bool) (n : Node) (c : Ctx) :
    ∃ g : Gen NC, stepSeg mt dsc rt s rest tl n c = g.map Res.real ∧ Ord g.1 n c := by
  cases s with
  | key k => exact ⟨_, by simp only [stepSeg], ord_keyStep k tl n c⟩
  | index i => exact ⟨_, by simp only [stepSeg], ord_indexStep i n c⟩
  | slice lo hi => simp [ESeg.ordered] at hs
  | anchor a => exact ⟨_, by simp only [stepSeg], ord_anchorStep a n c⟩
  | search inv m attr term =>
    exact ⟨searchStep mt dsc inv m attr term tl n c, by simp only [stepSeg], ord_searchStep inv m attr term tl n c⟩
  | matchAll =>
    cases rest with
    | nil => exact ⟨Gen.ofList (kids n c), by simp [stepSeg, reals, Gen.map, Gen.ofList], ord_kids (List.Sublist.refl _)⟩
    | cons nxt rest' =>
      exact ⟨Gen.filterFirst (fun x => stepSeg mt dsc rt nxt rest' true x.1 x.2) (deepKids n c), by simp only [stepSeg],
        ord_kids (List.Sublist.trans (filterFirst_sublist _ _) (deepKids_sublist n c))⟩
  | traverse => simp [ESeg.ordered] at hs
  | keyword inv k p => simp [ESeg.ordered] at hs
  | collector e op => exact ⟨Gen.fail .outOfModel, by simp [stepSeg], ord_nil _ _⟩
  | unknown => exact ⟨Gen.fail .outOfModel, by simp [stepSeg], ord_nil _ _⟩

/-- The results of a `**`-free, slice-free path come in document order, pairwise disjoint. -/
theorem ord_required : ∀ (segs : List ESeg), (∀ s ∈ segs, s.ordered = true) → ∀ (n : Node) (c : Ctx),
    Ord (flatR (required mt dsc rt segs (.real (n, c))).1) n c := by
  intro segs
  induction segs with
  | nil => intro _ n c; simpa [required, one, flatR] using ord_self n c
  | cons s rest ih =>
    intro hs n c
    obtain ⟨g, hg, hord⟩ := ord_stepSeg (mt := mt) (dsc := dsc) (rt := rt) s (hs s (by simp)) rest true n c
    have ih' := ih (fun t ht => hs t (by simp [ht]))
    simp only [required, stepRes, hg, bind_map]
    have h1 := bind_fst_sublist g (fun x => required mt dsc rt rest (Res.real x))
    have h2 : (flatR (g.bind fun x => required mt dsc rt rest (Res.real x)).1).Sublist
        (g.1.flatMap (fun x => flatR (required mt dsc rt rest (Res.real x)).1)) := by
      have := flatMap_sublist_of_sublist (fun r => match r with | Res.real x => [x] | Res.virt items => items) h1
      simpa [flatR, List.flatMap_assoc] using this
    exact ord_sublist h2 (ord_flatMap _ hord (fun x _ => ih' x.1 x.2))

theorem sub_head (x : NC) : ∃ t, sub x = x.2.addr :: t := addrsAll_head x.1 x.2.addr

theorem addrs_sublist_flatMap_sub (R : List NC) : (R.map (·.2.addr)).Sublist (R.flatMap sub) := by
  induction R with
  | nil => simp
  | cons x xs ih =>
    obtain ⟨t, ht⟩ := sub_head x
    simp only [List.map_cons, List.flatMap_cons, ht, List.cons_append]
    exact List.Sublist.cons_cons _ (List.Sublist.trans ih (List.sublist_append_right _ _))

end Eval
end Ypv
