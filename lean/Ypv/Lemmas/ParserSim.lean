import Ypv.Lemmas.Parser
/-!
# Simulation of the parser on *loosely escaped* segment texts, for both values of `strip`

A text is described by a list of tokens `(escaped?, c)`: `\c` or a bare `c`.  The writer of
`Spec/Write.lean` escapes exactly the special characters; the library's stringifier (`Model/Render.lean`)
re-escapes an already escaped text for another separator.  Both produce token texts, so one simulation
proof (this file) serves `parse_write`, its `strip = false` twin, `render_fixed_point` and `append_pop`.

With `strip = true` the parser collects the characters of the tokens, with `strip = false` the token text
itself (`tokView`).
-/
namespace Ypv.Sim
open Ypv

abbrev Tok := Bool × Char

def Tok.text (t : Tok) : Str := if t.1 then ['\\', t.2] else [t.2]
def tokText (ts : List Tok) : Str := ts.flatMap Tok.text
def tokChars (ts : List Tok) : Str := ts.map Prod.snd
/-- what the parser collects from a token text -/
def tokView (strip : Bool) (ts : List Tok) : Str := if strip then tokChars ts else tokText ts

/-- characters that always have a special meaning for the parser (wherever they stand) -/
def hard (c : Char) : Bool :=
  c = '\\' || c = '(' || c = ')' || c = '[' || c = ']' || c = ' ' || c = '\'' || c = '"'

/-- a bare character that the parser takes literally when the demarcation stack is `stk` and the
anchor-mark / collector-operator positions are over -/
structure Bare (sep : Char) (stk : List Char) (c : Char) : Prop where
  nh : hard c = false
  ns : stk = [] → c ≠ sep
  op : ¬ (stk.length = 1 ∧ stk.head? = some '[' ∧ isOp c = true)

/-- a bare character taken literally in state `st` -/
structure Inert (sep : Char) (st : PState) (c : Char) : Prop where
  b : Bare sep st.stack c
  am : ¬ (st.seekingAnchorMark = true ∧ c = '&')
  co : ¬ (st.seekingCollectorOp = true ∧ (c = '+' ∨ c = '-' ∨ c = '&'))

theorem hard_cases {c : Char} (h : hard c = false) :
    c ≠ '\\' ∧ c ≠ '(' ∧ c ≠ ')' ∧ c ≠ '[' ∧ c ≠ ']' ∧ c ≠ ' ' ∧ c ≠ '\'' ∧ c ≠ '"' := by
  simp [hard] at h
  obtain ⟨⟨⟨⟨⟨⟨⟨h1, h2⟩, h3⟩, h4⟩, h5⟩, h6⟩, h7⟩, h8⟩ := h
  exact ⟨h1, h2, h3, h4, h5, h6, h7, h8⟩

theorem step_inert (sep : Char) (strip : Bool) (st : PState) (c : Char) (h : LitOK st)
    (hc : Inert sep st c) : step sep strip st c = .ok (st.lit c) := by
  obtain ⟨e, r, s, n⟩ := h
  obtain ⟨⟨nh, ns, op⟩, am, co⟩ := hc
  obtain ⟨h1, h2, h3, h4, h5, h6, h7, h8⟩ := hard_cases nh
  have hpre : pre0 st c = { st with count := st.stack.length } := by simp [pre0, n]
  have hsep : ¬ (st.stack = [] ∧ c = sep) := fun ⟨ha, hb⟩ => ns ha hb
  simp only [step, stepCore, hpre, dispatch]
  simp [*, PState.lit, PState.append]

theorem run_escaped (sep : Char) (strip : Bool) (st : PState) (c : Char) (h : LitOK st) :
    run sep strip st ['\\', c] = .ok (if strip then st.lit c else (st.lit '\\').lit c) := by
  obtain ⟨e, r, s, n⟩ := h
  cases strip <;> cases st <;>
  simp_all [run, step, stepCore, dispatch, pre0, hBackslash, hEscaped, PState.lit, PState.append]

theorem lits_append (st : PState) (a b : Str) : st.lits (a ++ b) = (st.lits a).lits b := by
  simp [PState.lits]

theorem lits_stack (st : PState) (k : Str) : (st.lits k).stack = st.stack := by
  induction k generalizing st with
  | nil => rfl
  | cons c k ih => simp [PState.lits] at ih ⊢; rw [ih]; rfl

theorem lits_ok {st : PState} (k : Str) (h : LitOK st) : LitOK (st.lits k) := by
  induction k generalizing st with
  | nil => exact h
  | cons c k ih => simpa [PState.lits] using ih (lit_ok c h)

theorem tokView_cons (strip : Bool) (t : Tok) (ts : List Tok) :
    tokView strip (t :: ts) = tokView strip [t] ++ tokView strip ts := by
  cases strip <;> simp [tokView, tokChars, tokText]

theorem tokView_one_ne (strip : Bool) (t : Tok) : tokView strip [t] ≠ [] := by
  obtain ⟨e, c⟩ := t
  cases strip <;> cases e <;> simp [tokView, tokChars, tokText, Tok.text]

theorem tokView_ne (strip : Bool) {ts : List Tok} (h : ts ≠ []) : tokView strip ts ≠ [] := by
  cases ts with
  | nil => exact absurd rfl h
  | cons t ts =>
    rw [tokView_cons]
    intro h0
    exact tokView_one_ne strip t (List.append_eq_nil_iff.mp h0).1

/-- one token -/
theorem run_tok (sep : Char) (strip : Bool) (st : PState) (t : Tok) (h : LitOK st)
    (ht : t.1 = true ∨ Inert sep st t.2) :
    run sep strip st t.text = .ok (st.lits (tokView strip [t])) := by
  obtain ⟨e, c⟩ := t
  cases e with
  | true =>
    simp only [Tok.text, ↓reduceIte]
    rw [run_escaped sep strip st c h]
    cases strip <;> simp [tokView, tokChars, tokText, Tok.text, PState.lits]
  | false =>
    rcases ht with ht | ht
    · cases ht
    · simp only [Tok.text, Bool.false_eq_true, ↓reduceIte, run, step_inert sep strip st c h ht]
      cases strip <;> simp [tokView, tokChars, tokText, Tok.text, PState.lits]

theorem lits_flags {st : PState} {k : Str} (hk : k ≠ []) :
    (st.lits k).seekingAnchorMark = false ∧ (st.lits k).seekingCollectorOp = false := by
  cases k with
  | nil => exact absurd rfl hk
  | cons c k => rw [lits_eq]; exact ⟨rfl, rfl⟩

/-- tokens after the first: the anchor-mark and collector-operator positions are over -/
theorem run_toks_tail (sep : Char) (strip : Bool) (ts : List Tok) : ∀ (st : PState), LitOK st →
    st.seekingAnchorMark = false → st.seekingCollectorOp = false →
    (∀ t ∈ ts, t.1 = true ∨ Bare sep st.stack t.2) →
    run sep strip st (tokText ts) = .ok (st.lits (tokView strip ts)) := by
  induction ts with
  | nil => intro st _ _ _ _; cases strip <;> simp [tokText, tokView, tokChars, run, PState.lits]
  | cons t ts ih =>
    intro st h ham hco hts
    have h1 : run sep strip st t.text = .ok (st.lits (tokView strip [t])) := by
      apply run_tok sep strip st t h
      rcases hts t (by simp) with ht | ht
      · exact Or.inl ht
      · exact Or.inr ⟨ht, by simp [ham], by simp [hco]⟩
    have ht : tokText (t :: ts) = t.text ++ tokText ts := by simp [tokText]
    rw [ht, tokView_cons strip t ts, lits_append, run_append_ok h1]
    have hf := lits_flags (st := st) (tokView_one_ne strip t)
    exact ih _ (lits_ok _ h) hf.1 hf.2 (fun u hu => by
      rw [lits_stack]; exact hts u (by simp [hu]))

/-- a non-empty token text whose first token stands where an anchor mark or a collector operator
could stand -/
theorem run_toks (sep : Char) (strip : Bool) (st : PState) (t : Tok) (ts : List Tok) (h : LitOK st)
    (ht : t.1 = true ∨ Inert sep st t.2)
    (hts : ∀ u ∈ ts, u.1 = true ∨ Bare sep st.stack u.2) :
    run sep strip st (tokText (t :: ts)) = .ok (st.lits (tokView strip (t :: ts))) := by
  have h1 := run_tok sep strip st t h ht
  have hx : tokText (t :: ts) = t.text ++ tokText ts := by simp [tokText]
  rw [hx, tokView_cons strip t ts, lits_append, run_append_ok h1]
  have hf := lits_flags (st := st) (tokView_one_ne strip t)
  exact run_toks_tail sep strip ts _ (lits_ok _ h) hf.1 hf.2 (fun u hu => by
    rw [lits_stack]; exact hts u hu)

theorem lits_eq' (st : PState) {k : Str} (hk : k ≠ []) :
    st.lits k = { st with count := st.stack.length, segId := st.segId ++ k,
                          seekingAnchorMark := false, seekingCollectorOp := false } := by
  cases k with
  | nil => exact absurd rfl hk
  | cons c k => exact lits_eq st c k

theorem lits_fields (st : PState) (k : Str) : ∃ cnt sam sco, st.lits k =
    { st with count := cnt, segId := st.segId ++ k, seekingAnchorMark := sam,
              seekingCollectorOp := sco } := by
  cases k with
  | nil => exact ⟨st.count, st.seekingAnchorMark, st.seekingCollectorOp, by simp [PState.lits]⟩
  | cons c k => exact ⟨_, _, _, lits_eq st c k⟩

/-! ## Between segments, for either value of `strip` -/

theorem dispatch_sep {sep : Char} (hsep : sep = '.' ∨ sep = '/') (strip : Bool) {st : PState}
    (h : LitOK st) (hs : st.stack = []) (hc : st.count = 0) :
    dispatch sep strip st sep = hSep st := by
  obtain ⟨e, r, s, n⟩ := h
  rcases hsep with rfl | rfl <;> simp [dispatch, *]

theorem step_sep {sep : Char} (hsep : sep = '.' ∨ sep = '/') (strip : Bool) {ac : Bool}
    {st : PState} {ss : List Seg} (h : Inv ac st ss) :
    ∃ st1, step sep strip st sep = .ok st1 ∧ Inv ac st1 ss ∧ st1.segId = [] ∧ st1.segType = none ∧
      st1.seekingAnchorMark = true := by
  obtain ⟨⟨⟨e, r, s, n⟩, hs, hl, ho, hc⟩, hsc, hf⟩ := h
  have hpre : pre0 st sep = st := pre0_id sep n (by simp [hs, hc])
  refine ⟨{ st with segs := ss.reverse, segId := [], segType := none,
                     seekingAnchorMark := true }, ?_, ?_, rfl, rfl, rfl⟩
  · simp only [step, stepCore, hpre]
    rw [dispatch_sep hsep strip ⟨e, r, s, n⟩ hs hc]
    simp only [hSep, flushSeg_of hf]
  · refine ⟨⟨⟨e, r, s, n⟩, hs, hl, ho, hc⟩, hsc, ?_⟩
    simp [flushedSegs]

theorem step_open {sep : Char} (strip : Bool) {ac : Bool} {st : PState} {ss : List Seg}
    (h : Inv ac st ss) : step sep strip st '[' = .ok (opened st ss) := by
  obtain ⟨⟨⟨e, r, s, n⟩, hs, hl, ho, hc⟩, hsc, hf⟩ := h
  have hpre : pre0 st '[' = st := pre0_id _ n (by simp [hs, hc])
  have hd : dispatch sep strip st '[' = hOpenBracket st '[' := by simp [dispatch, *]
  simp only [step, stepCore, hpre, hd]
  simp only [hOpenBracket, flushSeg_of hf, PState.push, opened, hs, hc]

theorem step_close {sep : Char} (strip : Bool) {st : PState} {ss : List Seg} {sg : Seg}
    (h : InBr st ss) (hcs : closeSeg st = .ok sg) :
    ∃ st', step sep strip st ']' = .ok st' ∧ Inv false st' (ss ++ [sg]) ∧
      st'.seekingAnchorMark = st.seekingAnchorMark := by
  obtain ⟨e, r, s, n, hs, hsg, hl, ho, hsc⟩ := h
  have hpre : pre0 st ']' = { st with count := 1, nextCharMustBe := none } := by
    rcases n with n | n <;> simp [pre0, n, hs]
  have hcs' : closeSeg { st with count := 1, nextCharMustBe := none } = .ok sg := hcs
  refine ⟨{ ({ st with count := 1, nextCharMustBe := none } : PState).pop with
      segs := sg :: st.segs, segId := [], segType := none, searchMethod := none,
      searchInverted := false, searchKeyword := none }, ?_, ?_, rfl⟩
  · simp only [step, stepCore, hpre]
    have : dispatch sep strip { st with count := 1, nextCharMustBe := none } ']'
        = hCloseBracket { st with count := 1, nextCharMustBe := none } := by
      simp [dispatch, *, isOp]
    rw [this]
    simp only [hCloseBracket, hcs']
  · refine ⟨⟨⟨by simp [PState.pop, e], by simp [PState.pop, r], by simp [PState.pop, s],
        by simp [PState.pop]⟩, by simp [PState.pop, hs], by simp [PState.pop, hl],
        by simp [PState.pop, ho], by simp [PState.pop]⟩, by simp [PState.pop, hsc], ?_⟩
    simp [flushedSegs, hsg]

/-- a bracketed segment: `[`, a body that leaves the parser inside the bracket with `closeSeg`
yielding `sg` and the anchor-mark position over, `]` -/
theorem bracketed {sep : Char} (strip : Bool) {ac : Bool} {st : PState} {ss : List Seg}
    (h : Inv ac st ss) (body : Str) (sg : Seg)
    (hb : ∃ b', run sep strip (opened st ss) body = .ok b' ∧ InBr b' ss ∧ closeSeg b' = .ok sg ∧
      b'.seekingAnchorMark = false) :
    ∃ st', run sep strip st ('[' :: (body ++ [']'])) = .ok st' ∧ Inv false st' (ss ++ [sg]) ∧
      st'.seekingAnchorMark = false := by
  obtain ⟨b', hr, hib, hcs, hsam⟩ := hb
  obtain ⟨st', hs, hi, hm⟩ := step_close (sep := sep) strip hib hcs
  refine ⟨st', ?_, hi, by rw [hm, hsam]⟩
  simp only [run, step_open strip h]
  rw [run_append_ok hr]
  simp [run, hs]

theorem inBr_lits {st : PState} {ss : List Seg} (h : InBr st ss) (hn : st.nextCharMustBe = none)
    (k : Str) : InBr (st.lits k) ss := by
  obtain ⟨e, r, s, n, hs, hsg, hl, ho, hsc⟩ := h
  cases k with
  | nil => exact ⟨e, r, s, n, hs, hsg, hl, ho, hsc⟩
  | cons c k => rw [lits_eq]; exact ⟨e, r, s, Or.inl hn, hs, hsg, hl, ho, rfl⟩

theorem closeSeg_lits (st : PState) (k : Str) :
    closeSeg (st.lits k) = closeSeg { st with segId := st.segId ++ k } := by
  obtain ⟨c, a, o, h⟩ := lits_fields st k
  rw [h]
  simp [closeSeg]

/-- key-like text: the pending text of a between-segments state grows by the collected text -/
theorem keylike {sep : Char} (strip : Bool) {ac : Bool} {st : PState} {ss : List Seg}
    (h : Inv ac st ss) (hid : st.segId = []) (t : Tok) (ts : List Tok) (sg : Seg)
    (hc : t.1 = true ∨ (¬ (st.seekingAnchorMark = true ∧ t.2 = '&') ∧
      (ac = true → t.2 ≠ '+' ∧ t.2 ≠ '-' ∧ t.2 ≠ '&')))
    (hb : ∀ u ∈ t :: ts, u.1 = true ∨ Bare sep [] u.2)
    (hx : expandSplats (tokView strip (t :: ts)) (keyType st.segType) = .ok sg) :
    ∃ st', run sep strip st (tokText (t :: ts)) = .ok st' ∧ Inv false st' (ss ++ [sg]) ∧
      st'.seekingAnchorMark = false := by
  obtain ⟨⟨hl, hs, hlv, ho, hcn⟩, hsc, hf⟩ := h
  have hv := tokView_ne strip (List.cons_ne_nil t ts)
  refine ⟨st.lits (tokView strip (t :: ts)), ?_, ?_, (lits_flags hv).1⟩
  · apply run_toks sep strip st t ts hl
    · rcases hc with hc | ⟨h1, h2⟩
      · exact Or.inl hc
      · rcases hb t (by simp) with hb | hb
        · exact Or.inl hb
        · refine Or.inr ⟨by rw [hs]; exact hb, h1, ?_⟩
          rintro ⟨hco, h3⟩
          have := h2 (by rw [← hsc]; exact hco)
          rcases h3 with h3 | h3 | h3 <;> simp_all
    · intro u hu; rw [hs]; exact hb u (by simp [hu])
  · rw [lits_eq' _ hv]
    obtain ⟨e, r, s, n⟩ := hl
    refine ⟨⟨⟨e, r, s, n⟩, hs, hlv, ho, by simp [hs]⟩, rfl, ?_⟩
    unfold flushedSegs at hf ⊢
    simp [hid] at hf
    simp [hid, hv, hx, ← hf]

/-! ## Loosely written segments -/

/-- A segment together with the way its texts are written (which characters are escaped), and for
an anchor whether it is written `&name` (first position) or `[&name]`. -/
inductive LSeg
  | key (ts : List Tok)
  | matchAll
  | traverse
  | index (i : Int)
  | slice (sl : Str)
  | anchor (top : Bool) (ts : List Tok)
  | search (inv : Bool) (m : Method) (attr term : List Tok)
  | regex (inv : Bool) (attr : List Tok) (d : Char) (term : Str)
  | keyword (inv : Bool) (kw : Keyword) (params : List Tok)
  | collector (expr : List Tok) (op : CollOp)

def sepIf (sep : Char) (lead : Bool) : Str := if lead then [sep] else []
def invText (inv : Bool) : Str := if inv then ['!'] else []

def LSeg.text (sep : Char) (lead : Bool) : LSeg → Str
  | .key ts => sepIf sep lead ++ tokText ts
  | .matchAll => sepIf sep lead ++ ['*']
  | .traverse => sepIf sep lead ++ ['*', '*']
  | .index i => '[' :: (pyStrInt i ++ [']'])
  | .slice sl => '[' :: (sl ++ [']'])
  | .anchor true ts => sepIf sep lead ++ '&' :: tokText ts
  | .anchor false ts => '[' :: (('&' :: tokText ts) ++ [']'])
  | .search inv m attr term => '[' :: ((tokText attr ++ invText inv ++ m.text ++ tokText term) ++ [']'])
  | .regex inv attr d term =>
    '[' :: ((tokText attr ++ invText inv ++ Method.regex.text ++ d :: (term ++ [d])) ++ [']'])
  | .keyword inv kw ps => '[' :: ((invText inv ++ kw.text ++ '(' :: (tokText ps ++ [')'])) ++ [']'])
  | .collector e op => op.text ++ '(' :: (tokText e ++ [')'])

/-- the segment the parser stores -/
def LSeg.seg (strip : Bool) : LSeg → Seg
  | .key ts => (.key, .str (tokView strip ts))
  | .matchAll => (.matchAll, .none)
  | .traverse => (.traverse, .none)
  | .index i => (.index, .int i)
  | .slice sl => (.index, .str sl)
  | .anchor _ ts => (.anchor, .str (tokView strip ts))
  | .search inv m attr term => (.search, .search inv m (tokView strip attr) (tokView strip term))
  | .regex inv attr _ term => (.search, .search inv .regex (tokView strip attr) term)
  | .keyword inv kw ps => (.keywordSearch, .keyword inv kw (tokView strip ps))
  | .collector e op => (.collector, .collector (tokView strip e) op)

def LSeg.isColl : LSeg → Bool
  | .collector _ _ => true
  | _ => false

def LSeg.isInter : LSeg → Bool
  | .collector _ .inter => true
  | _ => false

def LSeg.isTop : LSeg → Bool
  | .anchor true _ => true
  | _ => false

def allBare (sep : Char) (stk : List Char) (ts : List Tok) : Prop :=
  ∀ t ∈ ts, t.1 = true ∨ Bare sep stk t.2

/-- the first token is escaped or is not `&` -/
def headNotAmp (ts : List Tok) : Prop := ∀ t ∈ ts.head?, t.1 = true ∨ t.2 ≠ '&'

/-- which loosely written segments the parser reads back; `ac`: the segment follows a collector -/
def LSeg.WF (sep : Char) (ac : Bool) : LSeg → Prop
  | .key ts => ts ≠ [] ∧ headNotAmp ts ∧
      (ac = true → ∀ t ∈ ts.head?, t.1 = true ∨ (t.2 ≠ '+' ∧ t.2 ≠ '-')) ∧
      allBare sep [] ts ∧ '*' ∉ tokChars ts
  | .matchAll => True
  | .traverse => True
  | .index _ => True
  | .slice sl => wfSlice sl = true
  | .anchor true ts => ts ≠ [] ∧
      (ac = true → ∀ t ∈ ts.head?, t.1 = true ∨ (t.2 ≠ '+' ∧ t.2 ≠ '-' ∧ t.2 ≠ '&')) ∧
      allBare sep [] ts ∧ '*' ∉ tokChars ts
  | .anchor false ts => ts ≠ [] ∧ allBare sep ['['] ts
  | .search _ m attr term => m ≠ .regex ∧ attr ≠ [] ∧ headNotAmp attr ∧ allBare sep ['['] attr ∧
      allBare sep ['['] term ∧ quoteWrapped (tokChars term) = false
  | .regex _ attr d term => attr ≠ [] ∧ headNotAmp attr ∧ allBare sep ['['] attr ∧
      d ≠ '\\' ∧ d ≠ ' ' ∧ d ∉ term ∧ quoteWrapped term = false
  | .keyword _ _ ps => allBare sep ['(', '['] ps
  | .collector e op => (ac = true ∨ op = .none) ∧ allBare sep ['('] e

/-- the conclusion of every per-kind lemma.  The last part: the anchor-mark position is over after
every segment (also after an empty collector, since /repo 5554362). -/
def Simulates (sep : Char) (strip lead : Bool) (st : PState) (ss : List Seg) (l : LSeg) : Prop :=
  ∃ st', run sep strip st (l.text sep lead) = .ok st' ∧ Inv l.isColl st' (ss ++ [l.seg strip]) ∧
    st'.seekingAnchorMark = false

theorem star_tokText {ts : List Tok} (h : '*' ∉ tokChars ts) : '*' ∉ tokText ts := by
  intro hm
  simp only [tokText, List.mem_flatMap] at hm
  obtain ⟨t, ht, hc⟩ := hm
  obtain ⟨e, c⟩ := t
  apply h
  simp only [tokChars, List.mem_map]
  cases e <;> simp [Tok.text] at hc
  · subst hc; exact ⟨_, ht, rfl⟩
  · subst hc; exact ⟨_, ht, rfl⟩

theorem star_tokView (strip : Bool) {ts : List Tok} (h : '*' ∉ tokChars ts) :
    (tokView strip ts).contains '*' = false := by
  cases strip
  · simpa [tokView] using star_tokText h
  · simpa [tokView] using h

/-- key-like text after an optional separator -/
theorem keylike_lead {sep : Char} (hsep : sep = '.' ∨ sep = '/') (strip : Bool) {ac : Bool}
    {st : PState} {ss : List Seg} (h : Inv ac st ss) (lead : Bool)
    (hlead : lead = false → st.segId = [] ∧ st.segType = none) (t : Tok) (ts : List Tok) (sg : Seg)
    (hc : t.1 = true ∨ (t.2 ≠ '&' ∧ (ac = true → t.2 ≠ '+' ∧ t.2 ≠ '-')))
    (hb : ∀ u ∈ t :: ts, u.1 = true ∨ Bare sep [] u.2)
    (hx : expandSplats (tokView strip (t :: ts)) .key = .ok sg) :
    ∃ st', run sep strip st (sepIf sep lead ++ tokText (t :: ts)) = .ok st' ∧
      Inv false st' (ss ++ [sg]) ∧ st'.seekingAnchorMark = false := by
  have hc' : ∀ s : PState, t.1 = true ∨ (¬ (s.seekingAnchorMark = true ∧ t.2 = '&') ∧
      (ac = true → t.2 ≠ '+' ∧ t.2 ≠ '-' ∧ t.2 ≠ '&')) := by
    intro s
    rcases hc with hc | ⟨h1, h2⟩
    · exact Or.inl hc
    · exact Or.inr ⟨fun h => h1 h.2, fun ha => ⟨(h2 ha).1, (h2 ha).2, h1⟩⟩
  cases lead with
  | false =>
    obtain ⟨h1, h2⟩ := hlead rfl
    simpa [sepIf] using keylike strip h h1 t ts sg (hc' st) hb (by rw [h2]; exact hx)
  | true =>
    obtain ⟨st1, hs1, hi1, h1, h2, _⟩ := step_sep hsep strip h
    obtain ⟨st', hr, hi⟩ := keylike (sep := sep) strip hi1 h1 t ts sg (hc' st1) hb
      (by rw [h2]; exact hx)
    refine ⟨st', ?_, hi⟩
    simp only [sepIf, ↓reduceIte, List.cons_append, List.nil_append, run, hs1]
    exact hr

theorem bareToks_text (k : Str) : tokText (k.map (fun c => (false, c))) = k := by
  induction k with
  | nil => rfl
  | cons c k ih => simpa [tokText, Tok.text] using ih

theorem bareToks_view (strip : Bool) (k : Str) : tokView strip (k.map (fun c => (false, c))) = k := by
  cases strip
  · simpa [tokView] using bareToks_text k
  · simp only [tokView, tokChars, ↓reduceIte, List.map_map]
    exact List.map_id' k

theorem bare_star {sep : Char} (hsep : sep = '.' ∨ sep = '/') : Bare sep [] '*' :=
  ⟨by decide, fun _ => by rcases hsep with rfl | rfl <;> decide, by simp⟩

theorem sim_key {sep : Char} (hsep : sep = '.' ∨ sep = '/') (strip : Bool) {ac : Bool}
    {st : PState} {ss : List Seg} (h : Inv ac st ss) (lead : Bool)
    (hlead : lead = false → st.segId = [] ∧ st.segType = none) (ts : List Tok)
    (hwf : LSeg.WF sep ac (.key ts)) : Simulates sep strip lead st ss (.key ts) := by
  obtain ⟨hne, hamp, hpm, hb, hstar⟩ := hwf
  cases ts with
  | nil => exact absurd rfl hne
  | cons t ts =>
    have hc : t.1 = true ∨ (t.2 ≠ '&' ∧ (ac = true → t.2 ≠ '+' ∧ t.2 ≠ '-')) := by
      rcases hamp t (by simp) with h1 | h1
      · exact Or.inl h1
      · by_cases he : t.1 = true
        · exact Or.inl he
        · refine Or.inr ⟨h1, fun ha => ?_⟩
          rcases hpm ha t (by simp) with h2 | h2
          · exact absurd h2 he
          · exact h2
    obtain ⟨st', hr, hi, hm⟩ := keylike_lead hsep strip h lead hlead t ts _ hc hb
      (expandSplats_plain (star_tokView strip hstar) _)
    exact ⟨st', hr, hi, hm⟩

theorem sim_matchAll {sep : Char} (hsep : sep = '.' ∨ sep = '/') (strip : Bool) {ac : Bool}
    {st : PState} {ss : List Seg} (h : Inv ac st ss) (lead : Bool)
    (hlead : lead = false → st.segId = [] ∧ st.segType = none) :
    Simulates sep strip lead st ss .matchAll := by
  obtain ⟨st', hr, hi, hm⟩ := keylike_lead hsep strip h lead hlead (false, '*') [] (.matchAll, .none)
    (Or.inr ⟨by decide, fun _ => by decide⟩)
    (fun u hu => by simp at hu; subst hu; exact Or.inr (bare_star hsep))
    (by cases strip <;> decide)
  exact ⟨st', by simpa [LSeg.text, tokText, Tok.text] using hr, hi,
    hm⟩

theorem sim_traverse {sep : Char} (hsep : sep = '.' ∨ sep = '/') (strip : Bool) {ac : Bool}
    {st : PState} {ss : List Seg} (h : Inv ac st ss) (lead : Bool)
    (hlead : lead = false → st.segId = [] ∧ st.segType = none) :
    Simulates sep strip lead st ss .traverse := by
  obtain ⟨st', hr, hi, hm⟩ := keylike_lead hsep strip h lead hlead (false, '*') [(false, '*')]
    (.traverse, .none) (Or.inr ⟨by decide, fun _ => by decide⟩)
    (fun u hu => by
      simp at hu
      rcases hu with rfl | rfl <;> exact Or.inr (bare_star hsep))
    (by cases strip <;> decide)
  exact ⟨st', by simpa [LSeg.text, tokText, Tok.text] using hr, hi,
    hm⟩

/-! ## Bracketed kinds -/

theorem opened_facts {ac : Bool} {st : PState} {ss : List Seg} (h : Inv ac st ss) :
    InBr (opened st ss) ss ∧ LitOK (opened st ss) := opened_inBr h

/-- raw text (no escapes) directly inside `[ ]`, read from the opening bracket on -/
theorem run_raw_opened {sep : Char} (strip : Bool) {ac : Bool} {st : PState} {ss : List Seg}
    (h : Inv ac st ss) (c : Char) (k : Str)
    (hns : ∀ d ∈ c :: k, Bare sep ['['] d ∧ d ≠ '&') :
    run sep strip (opened st ss) (c :: k) = .ok ((opened st ss).lits (c :: k)) := by
  obtain ⟨hib, hlo⟩ := opened_facts h
  have := run_toks sep strip (opened st ss) (false, c) (k.map (fun d => (false, d))) hlo
    (Or.inr ⟨(hns c (by simp)).1, by simp [(hns c (by simp)).2], by simp [opened]⟩)
    (fun u hu => by
      simp only [List.mem_map] at hu
      obtain ⟨d, hd, rfl⟩ := hu
      exact Or.inr (hns d (by simp [hd])).1)
  have e1 : tokText ((false, c) :: k.map (fun d => (false, d))) = c :: k := bareToks_text (c :: k)
  have e2 : tokView strip ((false, c) :: k.map (fun d => (false, d))) = c :: k :=
    bareToks_view strip (c :: k)
  rwa [e1, e2] at this

theorem bare_of_digit_or {sep c : Char} (h : isDigit c = true ∨ c = '-' ∨ c = ':') :
    Bare sep ['['] c ∧ c ≠ '&' := by
  have key : hard c = false ∧ isOp c = false ∧ c ≠ '&' := by
    rcases h with h | rfl | rfl
    · simp only [isDigit, Bool.and_eq_true, decide_eq_true_eq] at h
      obtain ⟨h1, h2⟩ := h
      refine ⟨?_, ?_, ?_⟩
      · simp only [hard, Bool.or_eq_false_iff, decide_eq_false_iff_not]
        refine ⟨⟨⟨⟨⟨⟨⟨?_, ?_⟩, ?_⟩, ?_⟩, ?_⟩, ?_⟩, ?_⟩, ?_⟩ <;> (rintro rfl; revert h1 h2; decide)
      · simp only [isOp, Bool.or_eq_false_iff, decide_eq_false_iff_not]
        refine ⟨⟨⟨⟨⟨⟨⟨?_, ?_⟩, ?_⟩, ?_⟩, ?_⟩, ?_⟩, ?_⟩, ?_⟩ <;> (rintro rfl; revert h1 h2; decide)
      · rintro rfl; revert h1 h2; decide
    · decide
    · decide
  exact ⟨⟨key.1, by simp, by simp [key.2.1]⟩, key.2.2⟩

theorem sim_slice {sep : Char} (strip : Bool) {ac : Bool} {st : PState}
    {ss : List Seg} (h : Inv ac st ss) (lead : Bool) (sl : Str)
    (hwf : LSeg.WF sep ac (.slice sl)) : Simulates sep strip lead st ss (.slice sl) := by
  simp only [LSeg.WF, wfSlice, Bool.and_eq_true, List.all_eq_true] at hwf
  obtain ⟨hcol, hall⟩ := hwf
  cases sl with
  | nil => simp at hcol
  | cons c k =>
    obtain ⟨hib, hlo⟩ := opened_facts h
    have hrun := run_raw_opened (sep := sep) strip h c k (fun d hd => bare_of_digit_or (by
      have := hall d hd
      simpa [sliceChar, or_assoc] using this))
    obtain ⟨st', hr, hi, hm⟩ := bracketed (sep := sep) strip h (c :: k) (.index, .str (c :: k))
      ⟨_, hrun, inBr_lits hib hlo.ncm _, by
        rw [closeSeg_lits]
        have hm : ':' = c ∨ ':' ∈ k := by simpa using hcol
        simp only [closeSeg, opened, List.nil_append, List.contains_eq_mem, List.mem_cons,
          decide_eq_true_eq, true_and]
        simp [hm], (lits_flags (by simp)).1⟩
    exact ⟨st', hr, hi, hm⟩

theorem sim_index {sep : Char} (strip : Bool) {ac : Bool} {st : PState}
    {ss : List Seg} (h : Inv ac st ss) (lead : Bool) (i : Int) :
    Simulates sep strip lead st ss (.index i) := by
  obtain ⟨hib, hlo⟩ := opened_facts h
  have hch : ∀ c ∈ pyStrInt i, (isDigit c = true ∨ c = '-' ∨ c = ':') ∧ c ≠ ':' := by
    intro c hc
    rcases pyStrInt_chars i c hc with rfl | hd
    · exact ⟨Or.inr (Or.inl rfl), by decide⟩
    · exact ⟨Or.inl (isDigit_of_core hd), by rintro rfl; revert hd; decide⟩
  cases hx : pyStrInt i with
  | nil => exact absurd hx (pyStrInt_ne_nil i)
  | cons c k =>
    rw [hx] at hch
    have hrun := run_raw_opened (sep := sep) strip h c k (fun d hd => bare_of_digit_or (hch d hd).1)
    obtain ⟨st', hr, hi, hm⟩ := bracketed (sep := sep) strip h (c :: k) (.index, .int i)
      ⟨_, hrun, inBr_lits hib hlo.ncm _, by
        rw [closeSeg_lits]
        have hnc : ¬ (':' = c ∨ ':' ∈ k) := by
          rintro (rfl | hm)
          · exact (hch ':' (by simp)).2 rfl
          · exact (hch ':' (by simp [hm])).2 rfl
        have hpi : pyInt? (c :: k) = some i := by rw [← hx]; exact pyInt_pyStrInt i
        simp only [closeSeg, opened, List.nil_append, List.contains_eq_mem, List.mem_cons,
          decide_eq_true_eq, true_and]
        simp [hnc, hpi], (lits_flags (by simp)).1⟩
    exact ⟨st', by simpa [LSeg.text, hx] using hr, hi, hm⟩

theorem step_amp {sep : Char} (strip : Bool) {ac : Bool} {st : PState} {ss : List Seg}
    (h : Inv ac st ss) :
    step sep strip (opened st ss) '&' =
      .ok { opened st ss with seekingAnchorMark := false, segType := some .anchor } := by
  obtain ⟨⟨⟨e, r, s, n⟩, hs, hl, ho, hc⟩, hsc, hf⟩ := h
  have hpre : pre0 (opened st ss) '&' = opened st ss := pre0_id _ n rfl
  simp only [step, stepCore, hpre]
  simp [dispatch, opened, hAnchorMark, *]

theorem sim_anchor_br {sep : Char} (strip : Bool) {ac : Bool} {st : PState}
    {ss : List Seg} (h : Inv ac st ss) (lead : Bool) (ts : List Tok)
    (hwf : LSeg.WF sep ac (.anchor false ts)) : Simulates sep strip lead st ss (.anchor false ts) := by
  obtain ⟨hne, hb⟩ := hwf
  obtain ⟨hib, hlo⟩ := opened_facts h
  cases ts with
  | nil => exact absurd rfl hne
  | cons t ts =>
    let b1 : PState := { opened st ss with seekingAnchorMark := false, segType := some .anchor }
    have hlo1 : LitOK b1 := ⟨hlo.esc, hlo.rx, hlo.srd, hlo.ncm⟩
    have hib1 : InBr b1 ss :=
      ⟨hib.esc, hib.rx, hib.srd, hib.ncm, hib.stack, hib.segs, hib.lvl, hib.cop, hib.sco⟩
    have hrun : run sep strip b1 (tokText (t :: ts)) = .ok (b1.lits (tokView strip (t :: ts))) := by
      apply run_toks sep strip b1 t ts hlo1
      · rcases hb t (by simp) with h1 | h1
        · exact Or.inl h1
        · exact Or.inr ⟨h1, by simp [b1], by simp [b1, opened]⟩
      · intro u hu; exact hb u (by simp [hu])
    have hv := tokView_ne strip (List.cons_ne_nil t ts)
    obtain ⟨st', hr, hi, hm⟩ := bracketed (sep := sep) strip h ('&' :: tokText (t :: ts))
      (.anchor, .str (tokView strip (t :: ts)))
      ⟨_, by simp only [run, step_amp strip h]; exact hrun, inBr_lits hib1 hlo1.ncm _, by
        rw [closeSeg_lits]
        simp [closeSeg, b1, opened], (lits_flags hv).1⟩
    exact ⟨st', hr, hi, hm⟩

/-! ## `&name` at top level -/

theorem step_mark {sep : Char} (strip : Bool) {ac : Bool} {st : PState} {ss : List Seg}
    (h : Inv ac st ss) (hid : st.segId = []) (hm : st.seekingAnchorMark = true) :
    step sep strip st '&' = .ok { st with seekingAnchorMark := false, segType := some .anchor } ∧
    Inv ac { st with seekingAnchorMark := false, segType := some .anchor } ss := by
  obtain ⟨⟨⟨e, r, s, n⟩, hs, hl, ho, hc⟩, hsc, hf⟩ := h
  have hpre : pre0 st '&' = st := pre0_id _ n (by simp [hs, hc])
  refine ⟨?_, ⟨⟨⟨e, r, s, n⟩, hs, hl, ho, hc⟩, hsc, ?_⟩⟩
  · simp only [step, stepCore, hpre]
    simp [dispatch, hAnchorMark, *]
  · unfold flushedSegs at hf ⊢
    simpa [hid] using hf

theorem sim_anchor_top {sep : Char} (hsep : sep = '.' ∨ sep = '/') (strip : Bool) {ac : Bool}
    {st : PState} {ss : List Seg} (h : Inv ac st ss) (lead : Bool)
    (hlead : lead = false → st.segId = [] ∧ st.segType = none ∧ st.seekingAnchorMark = true)
    (ts : List Tok) (hwf : LSeg.WF sep ac (.anchor true ts)) :
    Simulates sep strip lead st ss (.anchor true ts) := by
  obtain ⟨hne, hpm, hb, hstar⟩ := hwf
  cases ts with
  | nil => exact absurd rfl hne
  | cons t ts =>
    have main : ∀ s1 : PState, Inv ac s1 ss → s1.segId = [] → s1.seekingAnchorMark = true →
        ∃ st', run sep strip s1 ('&' :: tokText (t :: ts)) = .ok st' ∧
          Inv false st' (ss ++ [(.anchor, .str (tokView strip (t :: ts)))]) ∧
          st'.seekingAnchorMark = false := by
      intro s1 hi1 hid hm
      obtain ⟨hs2, hi2⟩ := step_mark (sep := sep) strip hi1 hid hm
      obtain ⟨st', hr, hi, hm'⟩ := keylike (sep := sep) strip hi2 hid t ts
        (.anchor, .str (tokView strip (t :: ts)))
        (by
          by_cases he : t.1 = true
          · exact Or.inl he
          · refine Or.inr ⟨by simp, fun ha => ?_⟩
            rcases hpm ha t (by simp) with h2 | h2
            · exact absurd h2 he
            · exact h2)
        hb (expandSplats_plain (star_tokView strip hstar) _)
      exact ⟨st', by simp only [run, hs2]; exact hr, hi, hm'⟩
    cases lead with
    | false =>
      obtain ⟨h1, _, h3⟩ := hlead rfl
      obtain ⟨st', hr, hi, hm⟩ := main st h h1 h3
      exact ⟨st', by simpa [LSeg.text, sepIf] using hr, hi, hm⟩
    | true =>
      obtain ⟨st1, hs1, hi1, h1, _, h3⟩ := step_sep hsep strip h
      obtain ⟨st', hr, hi, hm⟩ := main st1 hi1 h1 h3
      refine ⟨st', ?_, hi, hm⟩
      simp only [LSeg.text, sepIf, ↓reduceIte, List.cons_append, List.nil_append, run, hs1]
      simpa [run] using hr

/-! ## Searches -/

/-- directly inside `[ ]`, ready for an operator character -/
structure OpReady (b : PState) : Prop where
  esc : b.escapeNext = false
  rx : b.capturingRegex = false
  srd : b.seekingRegexDelim = false
  ncm : b.nextCharMustBe = none
  stack : b.stack = ['[']
  cnt : b.count = 1
  sco : b.seekingCollectorOp = false

theorem step_op {sep : Char} (strip : Bool) {b : PState} (h : OpReady b) (c : Char)
    (hop : isOp c = true) :
    step sep strip b c = (match hOperator b c with
      | .err e => .error e | .cont s => .ok s | .fall s => .ok (s.append c)) := by
  obtain ⟨e, r, s, n, hs, hc, hsc⟩ := h
  have hpre : pre0 b c = b := pre0_id _ n (by simp [hs, hc])
  have hd : dispatch sep strip b c = hOperator b c := by
    simp only [isOp, Bool.or_eq_true, decide_eq_true_eq] at hop
    rcases hop with ((((((rfl | rfl) | rfl) | rfl) | rfl) | rfl) | rfl) | rfl <;>
      simp [dispatch, isOp, *]
  unfold step
  rw [stepCore, hpre, hd]
  cases hOperator b c <;> rfl

/-- the optional `!` -/
theorem run_inv {sep : Char} (strip : Bool) {b : PState} (h : OpReady b)
    (hi : b.searchInverted = false) (inv : Bool) :
    run sep strip b (invText inv) = .ok { b with searchInverted := inv } := by
  cases inv with
  | false =>
    have : ({ b with searchInverted := false } : PState) = b := by rw [← hi]
    simp [invText, run, this]
  | true =>
    simp only [invText, ↓reduceIte, run, step_op strip h '!' (by decide)]
    simp [hOperator, hi]

def afterOp (b : PState) (m : Method) (srd : Bool) : PState :=
  { b with
    segType := some .search
    searchMethod := some m
    searchAttr := b.segId
    segId := []
    seekingRegexDelim := srd }

/-- the operator characters of a search: the pending text becomes the attribute -/
theorem run_method {sep : Char} (strip : Bool) {b : PState} (h : OpReady b)
    (hm : b.searchMethod = none) (hid : b.segId ≠ []) (m : Method) :
    run sep strip b m.text = .ok (afterOp b m (decide (m = .regex))) := by
  have two : ∀ (c d : Char) (b1 : PState), isOp c = true → isOp d = true →
      hOperator b c = .cont b1 → OpReady b1 →
      run sep strip b [c, d] = (match hOperator b1 d with
        | .err e => .error e | .cont s => .ok s | .fall s => .ok (s.append d)) := by
    intro c d b1 hc hd h1 hr
    simp only [run, step_op strip h c hc, h1, step_op strip hr d hd]
    cases hOperator b1 d <;> rfl
  have one : ∀ (c : Char), isOp c = true →
      run sep strip b [c] = (match hOperator b c with
        | .err e => .error e | .cont s => .ok s | .fall s => .ok (s.append c)) := by
    intro c hc
    simp only [run, step_op strip h c hc]
    cases hOperator b c <;> rfl
  obtain ⟨e, r, s, n, hs, hc, hsc⟩ := h
  cases m
  case ge =>
    rw [show Method.ge.text = ['>', '='] from rfl]
    rw [two '>' '=' (afterOp b .gt false) (by decide) (by decide)
      (by simp [hOperator, hid, afterOp, s]) ⟨e, r, rfl, n, hs, hc, hsc⟩]
    simp [hOperator, afterOp]
  case le =>
    rw [show Method.le.text = ['<', '='] from rfl]
    rw [two '<' '=' (afterOp b .lt false) (by decide) (by decide)
      (by simp [hOperator, hid, afterOp, s]) ⟨e, r, rfl, n, hs, hc, hsc⟩]
    simp [hOperator, afterOp]
  case regex =>
    rw [show Method.regex.text = ['=', '~'] from rfl]
    rw [two '=' '~' (afterOp b .equals false) (by decide) (by decide)
      (by simp [hOperator, hid, hm, afterOp, s]) ⟨e, r, rfl, n, hs, hc, hsc⟩]
    simp [hOperator, afterOp]
  case contains =>
    rw [show Method.contains.text = ['%'] from rfl, one '%' (by decide)]
    simp [hOperator, hid, hm, s, afterOp]
  case endsWith =>
    rw [show Method.endsWith.text = ['$'] from rfl, one '$' (by decide)]
    simp [hOperator, hid, hm, s, afterOp]
  case startsWith =>
    rw [show Method.startsWith.text = ['^'] from rfl, one '^' (by decide)]
    simp [hOperator, hid, hm, s, afterOp]
  case equals =>
    rw [show Method.equals.text = ['='] from rfl, one '=' (by decide)]
    simp [hOperator, hid, hm, s, afterOp]
  case gt =>
    rw [show Method.gt.text = ['>'] from rfl, one '>' (by decide)]
    simp [hOperator, hid, hm, s, afterOp]
  case lt =>
    rw [show Method.lt.text = ['<'] from rfl, one '<' (by decide)]
    simp [hOperator, hid, hm, s, afterOp]

theorem undemarcate_of_not_wrapped {t : Str} (h : quoteWrapped t = false) : undemarcate t = t := by
  cases t with
  | nil => rfl
  | cons q r =>
    simp only [quoteWrapped, Bool.and_eq_false_iff, Bool.or_eq_false_iff, decide_eq_false_iff_not] at h
    simp only [undemarcate]
    split
    · rename_i hq
      rcases h with h | h
      · exact absurd hq.1 (by simpa [not_or] using h)
      · exact absurd hq.2 h
    · rfl

theorem undemarcate_tokText {sep : Char} {stk : List Char} {ts : List Tok} (h : allBare sep stk ts) :
    undemarcate (tokText ts) = tokText ts := by
  cases ts with
  | nil => rfl
  | cons t ts =>
    obtain ⟨e, c⟩ := t
    cases e with
    | true => simp [tokText, Tok.text, undemarcate]
    | false =>
      rcases h (false, c) (by simp) with h1 | h1
      · cases h1
      · obtain ⟨_, _, _, _, _, _, h7, h8⟩ := hard_cases h1.nh
        simp [tokText, Tok.text, undemarcate, h7, h8]

theorem undemarcate_view {sep : Char} {stk : List Char} (strip : Bool) {ts : List Tok}
    (h : allBare sep stk ts) (hq : quoteWrapped (tokChars ts) = false) :
    undemarcate (tokView strip ts) = tokView strip ts := by
  cases strip
  · exact undemarcate_tokText h
  · exact undemarcate_of_not_wrapped hq

theorem lits_sam_false {st : PState} (k : Str) (h : st.seekingAnchorMark = false) :
    (st.lits k).seekingAnchorMark = false := by
  cases k with
  | nil => exact h
  | cons c k => exact (lits_flags (by simp)).1

/-- the attribute of a search, read from the opening bracket on -/
theorem run_attr {sep : Char} (strip : Bool) {ac : Bool} {st : PState} {ss : List Seg}
    (h : Inv ac st ss) (attr : List Tok) (hne : attr ≠ []) (hamp : headNotAmp attr)
    (hb : allBare sep ['['] attr) :
    ∃ b1, run sep strip (opened st ss) (tokText attr) = .ok b1 ∧ OpReady b1 ∧ InBr b1 ss ∧
      b1.segId = tokView strip attr ∧ b1.searchInverted = false ∧ b1.searchMethod = none ∧
      b1.seekingAnchorMark = false := by
  obtain ⟨hib, hlo⟩ := opened_facts h
  cases attr with
  | nil => exact absurd rfl hne
  | cons t ts =>
    have hv := tokView_ne strip (List.cons_ne_nil t ts)
    refine ⟨(opened st ss).lits (tokView strip (t :: ts)), ?_, ?_, inBr_lits hib hlo.ncm _, ?_, ?_, ?_,
      (lits_flags hv).1⟩
    · apply run_toks sep strip _ t ts hlo
      · rcases hb t (by simp) with h1 | h1
        · exact Or.inl h1
        · rcases hamp t (by simp) with h2 | h2
          · exact Or.inl h2
          · exact Or.inr ⟨h1, by simp [h2], by simp [opened]⟩
      · intro u hu; exact hb u (by simp [hu])
    · rw [lits_eq' _ hv]
      exact ⟨hlo.esc, hlo.rx, hlo.srd, hlo.ncm, rfl, rfl, rfl⟩
    · rw [lits_eq' _ hv]; simp [opened]
    · rw [lits_eq' _ hv]; rfl
    · rw [lits_eq' _ hv]; rfl

theorem sim_search {sep : Char} (strip : Bool) {ac : Bool} {st : PState} {ss : List Seg}
    (h : Inv ac st ss) (lead : Bool) (inv : Bool) (m : Method) (attr term : List Tok)
    (hwf : LSeg.WF sep ac (.search inv m attr term)) :
    Simulates sep strip lead st ss (.search inv m attr term) := by
  obtain ⟨hm, hne, hamp, hba, hbt, hq⟩ := hwf
  obtain ⟨b1, hr1, ho1, hib1, hid1, hinv1, hme1, hsam1⟩ := run_attr (sep := sep) strip h attr hne hamp hba
  have hva := tokView_ne strip hne
  let b2 : PState := { b1 with searchInverted := inv }
  have ho2 : OpReady b2 := ⟨ho1.esc, ho1.rx, ho1.srd, ho1.ncm, ho1.stack, ho1.cnt, ho1.sco⟩
  have hr2 : run sep strip b1 (invText inv) = .ok b2 := run_inv strip ho1 hinv1 inv
  have hr3 : run sep strip b2 m.text = .ok (afterOp b2 m false) := by
    have := run_method (sep := sep) strip ho2 hme1 (by rw [show b2.segId = b1.segId from rfl, hid1]; exact hva) m
    simpa [hm] using this
  let b3 := afterOp b2 m false
  have hlo3 : LitOK b3 := ⟨ho1.esc, ho1.rx, rfl, ho1.ncm⟩
  have hib3 : InBr b3 ss :=
    ⟨hib1.esc, hib1.rx, rfl, hib1.ncm, hib1.stack, hib1.segs, hib1.lvl, hib1.cop, hib1.sco⟩
  have hr4 : run sep strip b3 (tokText term) = .ok (b3.lits (tokView strip term)) :=
    run_toks_tail sep strip term b3 hlo3 hsam1 ho1.sco (fun u hu => by
      rw [show b3.stack = b1.stack from rfl, ho1.stack]; exact hbt u hu)
  obtain ⟨st', hr, hi, hm'⟩ := bracketed (sep := sep) strip h
    (tokText attr ++ invText inv ++ m.text ++ tokText term)
    (.search, .search inv m (tokView strip attr) (tokView strip term))
    ⟨_, by
      rw [List.append_assoc, List.append_assoc, run_append_ok hr1, run_append_ok hr2,
        run_append_ok hr3]
      exact hr4, inBr_lits hib3 hlo3.ncm _, by
      rw [closeSeg_lits]
      simp [closeSeg, b3, b2, afterOp, hid1, undemarcate_view strip hbt hq],
      lits_sam_false _ hsam1⟩
  exact ⟨st', hr, hi, hm'⟩

theorem lits_fields2 (st : PState) (k : Str) (ha : st.seekingAnchorMark = false)
    (hc : st.seekingCollectorOp = false) :
    ∃ cnt, st.lits k = { st with count := cnt, segId := st.segId ++ k } := by
  cases k with
  | nil => exact ⟨st.count, by simp [PState.lits]⟩
  | cons c k => exact ⟨st.stack.length, by rw [lits_eq]; cases st; simp_all⟩

/-! ## Regular-expression searches -/

theorem run_regex_body (sep : Char) (strip : Bool) (d : Char) (rest : List Char) (term : Str) :
    ∀ (st : PState), st.escapeNext = false → st.capturingRegex = true →
    st.nextCharMustBe = none → st.stack = d :: rest → d ∉ term →
    run sep strip st term = .ok (st.lits term) := by
  induction term with
  | nil => intro st _ _ _ _ _; rfl
  | cons c k ih =>
    intro st e r n hs hd
    have hcd : c ≠ d := fun h => hd (by simp [h])
    have hpre : pre0 st c = { st with count := st.stack.length } := by simp [pre0, n]
    have h1 : step sep strip st c = .ok (st.lit c) := by
      simp only [step, stepCore, hpre, dispatch]
      simp [e, r, hRegex, hs, hcd, PState.lit, PState.append]
    simp only [run, h1]
    exact ih (st.lit c) e r n hs (fun h => hd (by simp [h]))

theorem sim_regex {sep : Char} (strip : Bool) {ac : Bool} {st : PState} {ss : List Seg}
    (h : Inv ac st ss) (lead : Bool) (inv : Bool) (attr : List Tok) (d : Char) (term : Str)
    (hwf : LSeg.WF sep ac (.regex inv attr d term)) :
    Simulates sep strip lead st ss (.regex inv attr d term) := by
  obtain ⟨hne, hamp, hba, hd1, hd2, hdt, hq⟩ := hwf
  obtain ⟨b1, hr1, ho1, hib1, hid1, hinv1, hme1, hsam1⟩ := run_attr (sep := sep) strip h attr hne hamp hba
  have hva := tokView_ne strip hne
  let b2 : PState := { b1 with searchInverted := inv }
  have ho2 : OpReady b2 := ⟨ho1.esc, ho1.rx, ho1.srd, ho1.ncm, ho1.stack, ho1.cnt, ho1.sco⟩
  have hr2 : run sep strip b1 (invText inv) = .ok b2 := run_inv strip ho1 hinv1 inv
  have hr3 : run sep strip b2 Method.regex.text = .ok (afterOp b2 .regex true) := by
    have := run_method (sep := sep) strip ho2 hme1
      (by rw [show b2.segId = b1.segId from rfl, hid1]; exact hva) .regex
    simpa using this
  let b3 := afterOp b2 .regex true
  let b4 : PState := { b3 with seekingRegexDelim := false, capturingRegex := true,
                               stack := [d, '['], count := 2 }
  have hs4 : step sep strip b3 d = .ok b4 := by
    have hpre : pre0 b3 d = b3 := pre0_id _ ho1.ncm (by
      rw [show b3.count = b1.count from rfl, show b3.stack = b1.stack from rfl, ho1.cnt, ho1.stack]; rfl)
    simp only [step, stepCore, hpre, dispatch]
    have e1 : b3.escapeNext = false := ho1.esc
    have e2 : b3.capturingRegex = false := ho1.rx
    have e3 : b3.seekingRegexDelim = true := rfl
    have e4 : b3.stack = ['['] := ho1.stack
    have e5 : b3.count = 1 := ho1.cnt
    simp [e1, e2, e3, hd1, hd2, hRegexDelim, PState.push, b4, e4, e5]
  have hr5 : run sep strip b4 term = .ok (b4.lits term) :=
    run_regex_body sep strip d ['['] term b4 ho1.esc rfl ho1.ncm rfl hdt
  obtain ⟨cnt, hl⟩ := lits_fields2 b4 term hsam1 ho1.sco
  let b5 : PState := { b4.lits term with count := 2, capturingRegex := false, stack := ['['] }
  have hs6 : step sep strip (b4.lits term) d = .ok b5 := by
    have hpre : pre0 (b4.lits term) d = { b4.lits term with count := 2 } := by
      rw [hl]; simp [pre0, b4, b3, b2, afterOp, ho1.ncm]
    simp only [step, stepCore, hpre, dispatch]
    simp only [b5, hl]
    have e1 : b1.escapeNext = false := ho1.esc
    simp [b4, b3, b2, afterOp, e1, hRegex]
  obtain ⟨st', hr, hi, hm'⟩ := bracketed (sep := sep) strip h
    (tokText attr ++ invText inv ++ Method.regex.text ++ d :: (term ++ [d]))
    (.search, .search inv .regex (tokView strip attr) term)
    ⟨b5, by
      rw [List.append_assoc, List.append_assoc, run_append_ok hr1, run_append_ok hr2,
        run_append_ok hr3]
      simp only [run, show step sep strip (afterOp b2 Method.regex true) d = Except.ok b4 from hs4]
      rw [run_append_ok hr5]
      simp [run, hs6], by
      simp only [b5, hl]
      exact ⟨ho1.esc, rfl, rfl, Or.inl ho1.ncm, rfl, hib1.segs, hib1.lvl, hib1.cop, ho1.sco⟩, by
      simp only [b5, hl]
      simp [closeSeg, b4, b3, b2, afterOp, hid1, undemarcate_of_not_wrapped hq], by
      simp only [b5, hl]; exact hsam1⟩
  exact ⟨st', hr, hi, hm'⟩

/-! ## Keyword searches -/

theorem kw_text (sep : Char) (kw : Keyword) : ∃ c k, kw.text = c :: k ∧ keywordOf? (c :: k) = some kw ∧
    ∀ d ∈ c :: k, hard d = false ∧ isOp d = false ∧ d ≠ '&' := by
  cases kw <;> exact ⟨_, _, rfl, by decide, by decide⟩

/-- raw text (no escapes) directly inside `[ ]` in a state where `&` would be an anchor mark -/
theorem run_raw {sep : Char} (strip : Bool) (b : PState) (hlo : LitOK b) (hs : b.stack = ['['])
    (hsc : b.seekingCollectorOp = false) (c : Char) (k : Str)
    (hns : ∀ d ∈ c :: k, hard d = false ∧ isOp d = false ∧ d ≠ '&') :
    run sep strip b (c :: k) = .ok (b.lits (c :: k)) := by
  have hbare : ∀ d ∈ c :: k, Bare sep ['['] d := fun d hd =>
    ⟨(hns d hd).1, by simp, by simp [(hns d hd).2.1]⟩
  have := run_toks sep strip b (false, c) (k.map (fun d => (false, d))) hlo
    (Or.inr ⟨by rw [hs]; exact hbare c (by simp), by simp [(hns c (by simp)).2.2], by simp [hsc]⟩)
    (fun u hu => by
      simp only [List.mem_map] at hu
      obtain ⟨d, hd, rfl⟩ := hu
      rw [hs]
      exact Or.inr (hbare d (by simp [hd])))
  have e1 : tokText ((false, c) :: k.map (fun d => (false, d))) = c :: k := bareToks_text (c :: k)
  have e2 : tokView strip ((false, c) :: k.map (fun d => (false, d))) = c :: k :=
    bareToks_view strip (c :: k)
  rwa [e1, e2] at this

theorem sim_keyword {sep : Char} (strip : Bool) {ac : Bool} {st : PState} {ss : List Seg}
    (h : Inv ac st ss) (lead : Bool) (inv : Bool) (kw : Keyword) (ps : List Tok)
    (hwf : LSeg.WF sep ac (.keyword inv kw ps)) :
    Simulates sep strip lead st ss (.keyword inv kw ps) := by
  have hbp : allBare sep ['(', '['] ps := hwf
  obtain ⟨hib, hlo⟩ := opened_facts h
  obtain ⟨c, k, hkt, hko, hkc⟩ := kw_text sep kw
  let b0 := opened st ss
  have ho0 : OpReady b0 := ⟨hlo.esc, hlo.rx, hlo.srd, hlo.ncm, rfl, rfl, rfl⟩
  let b1 : PState := { b0 with searchInverted := inv }
  have hr1 : run sep strip b0 (invText inv) = .ok b1 := run_inv strip ho0 rfl inv
  have hlo1 : LitOK b1 := ⟨hlo.esc, hlo.rx, hlo.srd, hlo.ncm⟩
  have hr2 : run sep strip b1 (c :: k) = .ok (b1.lits (c :: k)) :=
    run_raw strip b1 hlo1 rfl rfl c k hkc
  let b3 : PState := { b1 with segType := some .keywordSearch, searchKeyword := some kw,
                               stack := ['(', '['], count := 2, seekingAnchorMark := false,
                               seekingCollectorOp := false }
  have hs3 : step sep strip (b1.lits (c :: k)) '(' = .ok b3 := by
    rw [lits_eq]
    have e1 := hlo.esc; have e2 := hlo.rx; have e3 := hlo.srd; have e4 := hlo.ncm
    simp only [opened] at e1 e2 e3 e4
    simp [step, stepCore, pre0, dispatch, hOpenParen, b1, b0, opened, PState.push, hko, b3, e1, e2, e3, e4]
  have hlo3 : LitOK b3 := ⟨hlo.esc, hlo.rx, hlo.srd, hlo.ncm⟩
  have hr4 : run sep strip b3 (tokText ps) = .ok (b3.lits (tokView strip ps)) :=
    run_toks_tail sep strip ps b3 hlo3 rfl rfl hbp
  obtain ⟨cnt, hl⟩ := lits_fields2 b3 (tokView strip ps) rfl rfl
  let b5 : PState := { b3.lits (tokView strip ps) with count := 1, stack := ['['],
                                                       nextCharMustBe := some ']',
                                                       seekingCollectorOp := false }
  have hs5 : step sep strip (b3.lits (tokView strip ps)) ')' = .ok b5 := by
    simp only [b5, hl]
    have e1 := hlo.esc; have e2 := hlo.rx; have e3 := hlo.srd; have e4 := hlo.ncm
    simp only [opened] at e1 e2 e3 e4
    simp [step, stepCore, pre0, dispatch, hCloseKeyword, b3, b1, b0, opened, PState.pop, e1, e2, e3, e4]
  obtain ⟨st', hr, hi, hm'⟩ := bracketed (sep := sep) strip h
    (invText inv ++ kw.text ++ '(' :: (tokText ps ++ [')']))
    (.keywordSearch, .keyword inv kw (tokView strip ps))
    ⟨b5, by
      rw [List.append_assoc, run_append_ok hr1, hkt, run_append_ok hr2]
      simp only [run, hs3]
      rw [run_append_ok hr4]
      simp [run, hs5], by
      simp only [b5, hl]
      exact ⟨hlo.esc, hlo.rx, hlo.srd, Or.inr rfl, rfl, rfl, hib.lvl, hib.cop, rfl⟩, by
      simp only [b5, hl]
      simp [closeSeg, b3, b1, b0, opened], by
      simp only [b5, hl]; rfl⟩
  exact ⟨st', hr, hi, hm'⟩

/-! ## Collectors -/

/-- the state after the `(` that opens a top-level collector -/
def collOpened (st : PState) (ss : List Seg) (op : CollOp) : PState :=
  { st with segs := ss.reverse, segId := [], seekingCollectorOp := false, collectorLevel := 1,
            stack := ['('], count := 1, segType := some .collector, nextCharMustBe := none,
            collectorOp := op, seekingAnchorMark := false }

theorem step_collOp {sep : Char} (strip : Bool) {st : PState} {ss : List Seg}
    (h : Inv true st ss) (op : CollOp) (c : Char) (hop : op.text = [c])
    (hamp : op = .inter → st.seekingAnchorMark = false) :
    step sep strip st c = .ok { st with seekingCollectorOp := false, nextCharMustBe := some '(',
                                        collectorOp := op } := by
  obtain ⟨⟨⟨e, r, s, n⟩, hs, hl, ho, hc⟩, hsc, hf⟩ := h
  have hpre : ∀ d, pre0 st d = st := fun d => pre0_id d n (by simp [hs, hc])
  cases op with
  | none => simp [CollOp.text] at hop
  | add =>
    simp only [CollOp.text, List.cons.injEq, and_true] at hop; subst hop
    simp [step, stepCore, hpre, dispatch, hCollOp, collOpOf, *]
  | sub =>
    simp only [CollOp.text, List.cons.injEq, and_true] at hop; subst hop
    simp [step, stepCore, hpre, dispatch, hCollOp, collOpOf, *]
  | inter =>
    simp only [CollOp.text, List.cons.injEq, and_true] at hop; subst hop
    have := hamp rfl
    simp [step, stepCore, hpre, dispatch, hCollOp, collOpOf, *]

theorem openParen_top {sep : Char} (strip : Bool) (s : PState) (ss : List Seg) (hlit : LitOK s)
    (hs : s.stack = []) (hc : s.count = 0) (hl : s.collectorLevel = 0)
    (hf : flushedSegs s = .ok ss) :
    dispatch sep strip s '(' =
      .cont { s with segs := ss.reverse, segId := [], seekingCollectorOp := false,
                     collectorLevel := 1, stack := ['('], count := 1,
                     segType := some .collector, seekingAnchorMark := false } := by
  obtain ⟨e, r, s', n⟩ := hlit
  have hd : dispatch sep strip s '(' = hOpenParen s '(' := by simp [dispatch, e, r, s', n]
  rw [hd]
  unfold hOpenParen
  simp [hc, hl, flushSeg_of hf, PState.push, hs]

theorem step_collOpen {sep : Char} (strip : Bool) {ac : Bool} {st : PState} {ss : List Seg}
    (h : Inv ac st ss) (s1 : PState) (op : CollOp)
    (h1 : s1 = st ∧ op = .none ∨
      s1 = { st with seekingCollectorOp := false, nextCharMustBe := some '(', collectorOp := op }) :
    step sep strip s1 '(' = .ok (collOpened st ss op) := by
  obtain ⟨⟨⟨e, r, s, n⟩, hs, hl, ho, hc⟩, hsc, hf⟩ := h
  rcases h1 with ⟨rfl, rfl⟩ | rfl
  · have hpre : pre0 s1 '(' = s1 := pre0_id _ n (by simp [hs, hc])
    simp only [step, stepCore, hpre, openParen_top strip s1 ss ⟨e, r, s, n⟩ hs hc hl hf]
    simp only [collOpened, ← n, ← ho]
  · let s1' : PState := { st with count := 0, seekingCollectorOp := false, nextCharMustBe := none,
                                  collectorOp := op }
    have hpre : pre0 { st with seekingCollectorOp := false, nextCharMustBe := some '(',
                               collectorOp := op } '(' = s1' := by
      simp [pre0, hs, s1']
    have hf' : flushedSegs s1' = .ok ss := hf
    have := openParen_top (sep := sep) strip s1' ss ⟨e, r, s, rfl⟩ hs rfl hl hf'
    simp only [step, stepCore, hpre, this]
    rfl

theorem tokView_nil (strip : Bool) : tokView strip [] = [] := by cases strip <;> rfl

theorem sim_collector {sep : Char} (strip : Bool) {ac : Bool} {st : PState} {ss : List Seg}
    (h : Inv ac st ss) (lead : Bool) (e : List Tok) (op : CollOp)
    (hwf : LSeg.WF sep ac (.collector e op))
    (hamp : op = .inter → st.seekingAnchorMark = false) :
    Simulates sep strip lead st ss (.collector e op) := by
  obtain ⟨hop, hb⟩ := hwf
  have hq := h.q
  -- the operator and the opening parenthesis
  have hopen : run sep strip st (op.text ++ ['(']) = .ok (collOpened st ss op) := by
    by_cases hn : op = .none
    · subst hn
      simp only [CollOp.text, List.nil_append, run,
        step_collOpen (sep := sep) strip h st .none (Or.inl ⟨rfl, rfl⟩)]
    · have hac : ac = true := by
        rcases hop with hop | hop
        · exact hop
        · exact absurd hop hn
      subst hac
      obtain ⟨c, hc⟩ : ∃ c, op.text = [c] := by
        cases op
        · exact absurd rfl hn
        all_goals exact ⟨_, rfl⟩
      rw [hc]
      simp only [List.cons_append, List.nil_append, run, step_collOp (sep := sep) strip h op c hc hamp,
        step_collOpen (sep := sep) strip h _ op (Or.inr rfl)]
  let b := collOpened st ss op
  have hlo : LitOK b := ⟨hq.lit.esc, hq.lit.rx, hq.lit.srd, rfl⟩
  have hrun : run sep strip b (tokText e) = .ok (b.lits (tokView strip e)) := by
    cases e with
    | nil => rw [tokView_nil]; rfl
    | cons t ts =>
      apply run_toks sep strip b t ts hlo
      · rcases hb t (by simp) with h1 | h1
        · exact Or.inl h1
        · exact Or.inr ⟨h1, by simp [b, collOpened], by simp [b, collOpened]⟩
      · intro u hu; exact hb u (by simp [hu])
  have hsam : (b.lits (tokView strip e)).seekingAnchorMark = false :=
    lits_sam_false _ rfl
  obtain ⟨cnt, sam, sco, hl⟩ := lits_fields b (tokView strip e)
  let fin : PState := { b.lits (tokView strip e) with
    stack := []
    count := 0
    collectorLevel := 0
    segs := (.collector, .collector (tokView strip e) op) :: ss.reverse
    segId := []
    collectorOp := .none
    seekingCollectorOp := true }
  have hclose : step sep strip (b.lits (tokView strip e)) ')' = .ok fin := by
    simp only [fin, hl]
    have e1 := hq.lit.esc; have e2 := hq.lit.rx; have e3 := hq.lit.srd
    simp [step, stepCore, pre0, dispatch, hCloseColl, b, collOpened, PState.pop, e1, e2, e3]
  refine ⟨fin, ?_, ?_, ?_⟩
  · have : (LSeg.collector e op).text sep lead = (op.text ++ ['(']) ++ (tokText e ++ [')']) := by
      simp [LSeg.text]
    rw [this, run_append_ok hopen, run_append_ok hrun]
    simp [run, hclose]
  · simp only [fin, hl]
    refine ⟨⟨⟨hq.lit.esc, hq.lit.rx, hq.lit.srd, rfl⟩, rfl, rfl, rfl, rfl⟩, rfl, ?_⟩
    simp [flushedSegs, LSeg.seg, b, collOpened]
  · simpa [fin] using hsam

/-! ## Composition over a list of loosely written segments -/

theorem sim_any {sep : Char} (hsep : sep = '.' ∨ sep = '/') (strip : Bool) {ac : Bool}
    {st : PState} {ss : List Seg} (h : Inv ac st ss) (lead : Bool) (l : LSeg)
    (hlead : lead = false → st.segId = [] ∧ st.segType = none ∧
      (l.isTop = true → st.seekingAnchorMark = true))
    (hamp : l.isInter = true → st.seekingAnchorMark = false)
    (hwf : l.WF sep ac) : Simulates sep strip lead st ss l := by
  have hlead' : lead = false → st.segId = [] ∧ st.segType = none :=
    fun hl => ⟨(hlead hl).1, (hlead hl).2.1⟩
  cases l with
  | key ts => exact sim_key hsep strip h lead hlead' ts hwf
  | matchAll => exact sim_matchAll hsep strip h lead hlead'
  | traverse => exact sim_traverse hsep strip h lead hlead'
  | index i => exact sim_index strip h lead i
  | slice sl => exact sim_slice strip h lead sl hwf
  | anchor top ts =>
    cases top with
    | false => exact sim_anchor_br strip h lead ts hwf
    | true =>
      exact sim_anchor_top hsep strip h lead
        (fun hl => ⟨(hlead hl).1, (hlead hl).2.1, (hlead hl).2.2 rfl⟩) ts hwf
  | search inv m attr term => exact sim_search strip h lead inv m attr term hwf
  | regex inv attr d term => exact sim_regex strip h lead inv attr d term hwf
  | keyword inv kw ps => exact sim_keyword strip h lead inv kw ps hwf
  | collector e op =>
    refine sim_collector strip h lead e op hwf (fun ho => hamp ?_)
    subst ho; rfl

def textFrom (sep : Char) : Bool → List LSeg → Str
  | _, [] => []
  | lead, l :: r => l.text sep lead ++ textFrom sep true r

/-- the whole path text -/
def textAll (fslash : Bool) (ls : List LSeg) : Str :=
  if fslash then '/' :: textFrom '/' false ls else textFrom '.' false ls

/-- well-formedness along a list.  `ac`: the previous segment was a collector. -/
def wfFromL (sep : Char) : Bool → List LSeg → Prop
  | _, [] => True
  | ac, l :: r => l.WF sep ac ∧ wfFromL sep l.isColl r

/-- whether the last segment of the list (or, for the empty list, the one before) is a collector -/
def lastAc : Bool → List LSeg → Bool
  | ac, [] => ac
  | _, l :: r => lastAc l.isColl r

theorem inter_ac {sep : Char} {ac : Bool} {l : LSeg} (hw : l.WF sep ac) (hi : l.isInter = true) :
    ac = true := by
  cases l <;> simp [LSeg.isInter] at hi
  case collector e op =>
    cases op <;> simp at hi
    rcases hw.1 with h | h
    · exact h
    · cases h

theorem run_texts {sep : Char} (hsep : sep = '.' ∨ sep = '/') (strip : Bool) :
    ∀ (ls : List LSeg) (ac : Bool) (st : PState) (ss : List Seg) (lead : Bool),
    Inv ac st ss →
    (lead = false → st.segId = [] ∧ st.segType = none ∧
      (∀ l ∈ ls.head?, l.isTop = true → st.seekingAnchorMark = true)) →
    (ac = true → st.seekingAnchorMark = false) →
    wfFromL sep ac ls →
    ∃ st', run sep strip st (textFrom sep lead ls) = .ok st' ∧
      Inv (lastAc ac ls) st' (ss ++ ls.map (LSeg.seg strip)) := by
  intro ls
  induction ls with
  | nil => intro ac st ss lead h _ _ _; exact ⟨st, by simp [textFrom, run], by simpa [lastAc] using h⟩
  | cons l r ih =>
    intro ac st ss lead h hlead hac hwf
    obtain ⟨hw1, hw3⟩ := hwf
    obtain ⟨st1, hr1, hi1, hm1⟩ := sim_any hsep strip h lead l
      (fun hl => ⟨(hlead hl).1, (hlead hl).2.1, (hlead hl).2.2 l (by simp)⟩)
      (fun hi => hac (inter_ac hw1 hi)) hw1
    obtain ⟨st2, hr2, hi2⟩ := ih l.isColl st1 (ss ++ [l.seg strip]) true
      hi1 (by simp) (fun _ => hm1) hw3
    refine ⟨st2, ?_, by simpa [lastAc] using hi2⟩
    simp only [textFrom]
    rw [run_append_ok hr1]
    exact hr2

theorem text_head_amp {sep : Char} {l : LSeg} (hwf : l.WF sep false) (hs : sep = '.' ∨ sep = '/') :
    (l.text sep false).head? = some '&' ↔ l.isTop = true := by
  cases l with
  | key ts =>
    obtain ⟨hne, hamp, _, _, _⟩ := hwf
    cases ts with
    | nil => exact absurd rfl hne
    | cons t ts =>
      obtain ⟨e, c⟩ := t
      cases e
      · rcases hamp (false, c) (by simp) with h1 | h1
        · cases h1
        · simp [LSeg.text, sepIf, tokText, Tok.text, LSeg.isTop]; exact h1
      · simp [LSeg.text, sepIf, tokText, Tok.text, LSeg.isTop]
  | anchor top ts => cases top <;> simp [LSeg.text, sepIf, LSeg.isTop]
  | collector e op =>
    obtain ⟨hop, _⟩ := hwf
    rcases hop with hop | hop
    · cases hop
    · subst hop; simp [LSeg.text, CollOp.text, LSeg.isTop]
  | search inv m attr term => simp [LSeg.text, LSeg.isTop]
  | regex inv attr d term => simp [LSeg.text, LSeg.isTop]
  | keyword inv kw ps => simp [LSeg.text, LSeg.isTop]
  | _ => simp [LSeg.text, sepIf, LSeg.isTop]

theorem text_ne {sep : Char} {l : LSeg} (hw : l.WF sep false) : l.text sep false ≠ [] := by
  cases l <;> try simp [LSeg.text, sepIf]
  case key ts =>
    obtain ⟨hne, _⟩ := hw
    cases ts with
    | nil => exact absurd rfl hne
    | cons t ts => obtain ⟨e, c⟩ := t; cases e <;> simp [tokText, Tok.text]
  case anchor top ts => cases top <;> simp [LSeg.text, sepIf]

theorem textAll_head (l : LSeg) (r : List LSeg) (hw : l.WF '.' false) (x : Str) :
    (textAll false (l :: r) ++ x)[0]? = (l.text '.' false).head? := by
  cases hx : l.text '.' false with
  | nil => exact absurd hx (text_ne hw)
  | cons c k => simp [textAll, textFrom, hx]

/-- the parser loop over a whole loosely written path text, from the initial state of
`_parse_path`; `b` is the initial `seeking_anchor_mark` (for dot notation: the text starts with `&`) -/
theorem run_textAll (fslash strip : Bool) (ls : List LSeg)
    (hwf : wfFromL (if fslash then '/' else '.') false ls)
    (b : Bool) (hb : fslash = false → b = decide ((textAll false ls)[0]? = some '&')) :
    ∃ st2, run (if fslash then '/' else '.') strip { seekingAnchorMark := b } (textAll fslash ls)
        = .ok st2 ∧ Inv (lastAc false ls) st2 (ls.map (LSeg.seg strip)) := by
  cases fslash with
  | true =>
    obtain ⟨st1, hs1, hi1, h1, h2, h3⟩ := step_sep (sep := '/') (Or.inr rfl) strip (init_inv b)
    obtain ⟨st2, hr2, hi2⟩ := run_texts (sep := '/') (Or.inr rfl) strip ls false st1 []
      false hi1 (fun _ => ⟨h1, h2, fun _ _ _ => h3⟩) (by simp) (by simpa using hwf)
    refine ⟨st2, ?_, by simpa using hi2⟩
    simp only [textAll, ↓reduceIte, run, hs1]
    exact hr2
  | false =>
    have hb' := hb rfl
    subst hb'
    cases ls with
    | nil => exact ⟨_, rfl, init_inv _⟩
    | cons l r =>
      simp only [Bool.false_eq_true, ↓reduceIte] at hwf
      have hw1 := hwf.1
      have hamp := text_head_amp hw1 (Or.inl rfl)
      have hhead : (textAll false (l :: r))[0]? = (l.text '.' false).head? := by
        simpa using textAll_head l r hw1 []
      obtain ⟨st2, hr2, hi2⟩ := run_texts (sep := '.') (Or.inl rfl) strip (l :: r) false
        { seekingAnchorMark := (textAll false (l :: r))[0]? = some '&' } [] false (init_inv _)
        (fun _ => ⟨rfl, rfl, fun l' hl' ht => by
          simp at hl'; subst hl'
          show decide (_ = _) = true
          rw [hhead]; simpa using hamp.mpr ht⟩)
        (by simp) hwf
      exact ⟨st2, by simpa [textAll] using hr2, by simpa using hi2⟩

theorem textAll_ne (fslash : Bool) (ls : List LSeg)
    (hwf : wfFromL (if fslash then '/' else '.') false ls) (hne : ls ≠ []) :
    textAll fslash ls ≠ [] := by
  cases fslash with
  | true => simp [textAll]
  | false =>
    cases ls with
    | nil => exact absurd rfl hne
    | cons l r =>
      simp only [Bool.false_eq_true, ↓reduceIte] at hwf
      have := text_ne hwf.1
      simp [textAll, textFrom, this]

/-- **The engine.**  The parser model reads a loosely written, well-formed list of segments back as
exactly those segments — the characters of the texts with `strip = true` (`escaped`), the texts as
written with `strip = false` (`unescaped`). -/
theorem parseWith_texts (fslash strip : Bool) (ls : List LSeg)
    (hwf : wfFromL (if fslash then '/' else '.') false ls)
    (hn : normOriginal (textAll fslash ls) = textAll fslash ls) :
    parseWith fslash strip (textAll fslash ls) = .ok (ls.map (LSeg.seg strip)) := by
  by_cases hT : textAll fslash ls = []
  · have hls : ls = [] := by
      by_cases hne : ls = []
      · exact hne
      · exact absurd hT (textAll_ne fslash ls hwf hne)
    subst hls
    rw [hT]
    simp [parseWith, normOriginal]
  · unfold parseWith
    simp only [hn]
    simp only [hT, ↓reduceIte]
    obtain ⟨st2, hr2, hi2⟩ := run_textAll fslash strip ls hwf
      ((textAll fslash ls)[if fslash = true ∧ (textAll fslash ls).length > 1 then 1 else 0]?
        = some '&') (by
      intro hf; subst hf; simp)
    simp only [hr2]
    exact finish_of_inv hi2

/-- …and a text to which a separator and one more loosely written segment have been appended (what
`YAMLPath.append` builds).  After the separator the parser looks for an anchor mark, so the added
segment must not be an `&` collector. -/
theorem parseWith_texts_snoc (fslash strip : Bool) (ls : List LSeg) (l : LSeg)
    (hwf : wfFromL (if fslash then '/' else '.') false ls) (hne : ls ≠ [])
    (hwl : l.WF (if fslash then '/' else '.') (lastAc false ls)) (hni : l.isInter = false)
    (o1 : Str)
    (ho : o1 = textAll fslash ls ++
      (if fslash then '/' else '.') :: l.text (if fslash then '/' else '.') false)
    (hn : normOriginal o1 = o1) :
    parseWith fslash strip o1 = .ok (ls.map (LSeg.seg strip) ++ [l.seg strip]) := by
  have hsep : (if fslash then '/' else '.') = '.' ∨ (if fslash then '/' else '.') = '/' := by
    cases fslash <;> simp
  have hT := textAll_ne fslash ls hwf hne
  have ho1 : o1 ≠ [] := by rw [ho]; simp [hT]
  unfold parseWith
  simp only [hn]
  simp only [ho1, ↓reduceIte]
  obtain ⟨st2, hr2, hi2⟩ := run_textAll fslash strip ls hwf
    (o1[if fslash = true ∧ o1.length > 1 then 1 else 0]? = some '&') (by
      intro hf; subst hf
      cases ls with
      | nil => exact absurd rfl hne
      | cons l0 r =>
        simp only [Bool.false_eq_true, ↓reduceIte, Bool.false_or, List.head?_cons, Option.map_some,
          Option.getD_some] at hwf
        have h1 := textAll_head l0 r hwf.1 []
        have h2 := textAll_head l0 r hwf.1 ('.' :: l.text '.' false)
        simp only [List.append_nil] at h1
        simp only [Bool.false_eq_true, false_and, ↓reduceIte, ho, h1, h2])
  obtain ⟨st3, hs3, hi3, h31, h32, h33⟩ := step_sep hsep strip hi2
  obtain ⟨st4, hr4, hi4, _⟩ := sim_any hsep strip hi3 false l (fun _ => ⟨h31, h32, fun _ => h33⟩)
    (fun h => by rw [hni] at h; cases h) hwl
  have : run (if fslash then '/' else '.') strip
      { seekingAnchorMark := o1[if fslash = true ∧ o1.length > 1 then 1 else 0]? = some '&' } o1
      = .ok st4 := by
    conv => lhs; arg 4; rw [ho]
    rw [run_append_ok hr2]
    simp only [run, hs3]
    exact hr4
  simp only [this]
  exact finish_of_inv hi4

end Ypv.Sim
