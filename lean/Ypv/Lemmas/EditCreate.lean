import Ypv.Spec.Edit
/-!
# Lemmas about creation (`createPath`) and grafting (`Node.graftAt`) (C09)
-/
namespace Ypv

theorem graftAt_nil (g : Node → Node) (n : Node) : n.graftAt g [] = g n := by
  cases n <;> simp [Node.graftAt]

/-! ### Grafting one level -/

theorem graftList_const (g : Node → Node) (q : Addr) : ∀ (items : List Node) (i : Nat) (c : Node),
    items[i]? = some c → graftList (fun _ => c.graftAt g q) items i [] = graftList g items i q
  | [], _, _, h => by simp at h
  | c' :: cs, 0, c, h => by simp at h; subst h; simp [graftList, graftAt_nil]
  | c' :: cs, i + 1, c, h => by
    simp at h; simp [graftList, graftList_const g q cs i c h]

theorem graftList_self : ∀ (items : List Node) (i : Nat) (c : Node),
    items[i]? = some c → graftList (fun _ => c) items i [] = items
  | [], _, _, h => by simp at h
  | c' :: cs, 0, c, h => by simp at h; subst h; simp [graftList, graftAt_nil]
  | c' :: cs, i + 1, c, h => by
    simp at h; simp [graftList, graftList_self cs i c h]

theorem graftEntries_const (g : Node → Node) (q : Addr) (k : Key) : ∀ (es : List (Key × Node)) (c : Node),
    es.lookup k = some c → graftEntries (fun _ => c.graftAt g q) es k [] = graftEntries g es k q
  | [], _, h => by simp at h
  | (k', c') :: es, c, h => by
    by_cases hk : k' = k
    · subst hk; simp [List.lookup] at h; subst h; simp [graftEntries, graftAt_nil]
    · have : (k == k') = false := by simpa using fun e => hk e.symm
      simp [List.lookup, this] at h
      simp [graftEntries, hk, graftEntries_const g q k es c h]

theorem graftEntries_self (k : Key) : ∀ (es : List (Key × Node)) (c : Node),
    es.lookup k = some c → graftEntries (fun _ => c) es k [] = es
  | [], _, h => by simp at h
  | (k', c') :: es, c, h => by
    by_cases hk : k' = k
    · subst hk; simp [List.lookup] at h; subst h; simp [graftEntries, graftAt_nil]
    · have : (k == k') = false := by simpa using fun e => hk e.symm
      simp [List.lookup, this] at h
      simp [graftEntries, hk, graftEntries_self k es c h]

/-! ### What `createList` / `createEntries` do, one level -/

theorem createList_ok (leaf : Scalar) (rest : List PSeg) : ∀ (items : List Node) (i : Nat) (cs' : List Node) (ad : Addr),
    createList leaf items i rest = .ok (cs', ad) →
    ∃ c, items[i]? = some c ∧
      ((c = .scalar none .null ∧ cs' = items ∧ ad = []) ∨
       (c ≠ .scalar none .null ∧ ∃ r, c.createPath leaf rest = .ok r
          ∧ cs' = graftList (fun _ => r.doc) items i [] ∧ ad = r.addr))
  | [], _, _, _, h => by simp [createList] at h
  | c :: cs, 0, cs', ad, h => by
    refine ⟨c, by simp, ?_⟩
    by_cases hc : c = .scalar none .null
    · subst hc
      simp [createList] at h
      exact Or.inl ⟨rfl, h.1.symm, h.2⟩
    · right
      refine ⟨hc, ?_⟩
      have h' : (c.createPath leaf rest).map (fun r => (r.doc :: cs, r.addr)) = .ok (cs', ad) := by
        unfold createList at h
        split at h
        · exact absurd rfl hc
        · exact h
      cases hr : c.createPath leaf rest with
      | error e => simp [hr, Except.map] at h'
      | ok r =>
        simp [hr, Except.map] at h'
        exact ⟨r, rfl, by simp [graftList, graftAt_nil, h'.1.symm], h'.2.symm⟩
  | c :: cs, i + 1, cs', ad, h => by
    simp only [createList] at h
    cases hr : createList leaf cs i rest with
    | error e => simp [hr, Except.map] at h
    | ok pr =>
      obtain ⟨cs1, ad1⟩ := pr
      simp [hr, Except.map] at h
      obtain ⟨c0, hget, hcase⟩ := createList_ok leaf rest cs i cs1 ad1 hr
      refine ⟨c0, by simpa using hget, ?_⟩
      rcases hcase with ⟨h1, h2, h3⟩ | ⟨h1, r, h2, h3, h4⟩
      · exact Or.inl ⟨h1, by rw [← h.1, h2], by rw [← h.2, h3]⟩
      · exact Or.inr ⟨h1, r, h2, by rw [← h.1, h3]; simp [graftList], by rw [← h.2, h4]⟩

theorem createEntries_ok (leaf : Scalar) (rest : List PSeg) (k : Key) : ∀ (es : List (Key × Node)) (es' : List (Key × Node)) (ad : Addr),
    createEntries leaf es k rest = .ok (es', ad) →
    ∃ c, es.lookup k = some c ∧
      ((c = .scalar none .null ∧ es' = es ∧ ad = []) ∨
       (c ≠ .scalar none .null ∧ ∃ r, c.createPath leaf rest = .ok r
          ∧ es' = graftEntries (fun _ => r.doc) es k [] ∧ ad = r.addr))
  | [], _, _, h => by simp [createEntries] at h
  | (k', c) :: es, es', ad, h => by
    by_cases hk : k' = k
    · subst hk
      refine ⟨c, by simp [List.lookup], ?_⟩
      by_cases hc : c = .scalar none .null
      · subst hc
        simp [createEntries] at h
        exact Or.inl ⟨rfl, h.1.symm, h.2⟩
      · right
        refine ⟨hc, ?_⟩
        have h' : (c.createPath leaf rest).map (fun r => ((k', r.doc) :: es, r.addr)) = .ok (es', ad) := by
          unfold createEntries at h
          simp only [if_true] at h
          exact h
        cases hr : c.createPath leaf rest with
        | error e => simp [hr, Except.map] at h'
        | ok r =>
          simp [hr, Except.map] at h'
          exact ⟨r, rfl, by simp [graftEntries, graftAt_nil, h'.1.symm], h'.2.symm⟩
    · have hkb : (k == k') = false := by simpa using fun e => hk e.symm
      simp only [createEntries, hk, if_false] at h
      cases hr : createEntries leaf es k rest with
      | error e => simp [hr, Except.map] at h
      | ok pr =>
        obtain ⟨es1, ad1⟩ := pr
        simp [hr, Except.map] at h
        obtain ⟨c0, hget, hcase⟩ := createEntries_ok leaf rest k es es1 ad1 hr
        refine ⟨c0, by simp [List.lookup, hkb, hget], ?_⟩
        rcases hcase with ⟨h1, h2, h3⟩ | ⟨h1, r, h2, h3, h4⟩
        · exact Or.inl ⟨h1, by rw [← h.1, h2], by rw [← h.2, h3]⟩
        · exact Or.inr ⟨h1, r, h2, by rw [← h.1, h3]; simp [graftEntries, hk], by rw [← h.2, h4]⟩

/-! ### Lifting an outcome through one existing segment -/

theorem CreateOutcome.lift {leaf : Scalar} {d : Node} {seg : PSeg} {ref : Ref} {c : Node} {rest : List PSeg}
    {r' : Created} (hl : lookSeg d seg = .found ref) (hc : d.child? ref = some c)
    (hnn : c ≠ .scalar none .null)
    (hself : d.graftAt (fun _ => c) [ref] = d)
    (hcomp : ∀ (g : Node → Node) (q : Addr), d.graftAt (fun _ => c.graftAt g q) [ref] = d.graftAt g (ref :: q))
    (h : CreateOutcome leaf c rest r') :
    CreateOutcome leaf d (seg :: rest) ⟨d.graftAt (fun _ => r'.doc) [ref], ref :: r'.addr⟩ := by
  cases h with
  | present n hf hd =>
    exact .present n (Follows.step hl hc hnn hf) (by simp only [hd, hself])
  | nullRelay pre s rs q n rf hseg hf hl' hch hd ha =>
    exact .nullRelay (seg :: pre) s rs (ref :: q) n rf (by simp [hseg]) (Follows.step hl hc hnn hf) hl' hch
      (by simp only [hd, hself]) (by simp [ha])
  | created pre s rs q n n' hseg hf hl' hch hd ha =>
    exact .created (seg :: pre) s rs (ref :: q) n n' (by simp [hseg]) (Follows.step hl hc hnn hf) hl' hch
      (by simp only [hd, hcomp]) (by simp [ha])

/-- **The creation walk, characterised.**  Whatever a successful `createPath` returns is one of the
three `CreateOutcome`s. -/
theorem createPath_outcome (leaf : Scalar) : ∀ (segs : List PSeg) (d : Node) (r : Created),
    d.createPath leaf segs = .ok r → CreateOutcome leaf d segs r
  | [], d, r, h => by
    have : r = ⟨d, []⟩ := by cases d <;> simp [Node.createPath] at h <;> exact h.symm
    subst this
    exact .present d (Follows.here d) rfl
  | seg :: rest, .scalar a v, r, h => by simp [Node.createPath] at h
  | seg :: rest, .set a ms, r, h => by simp [Node.createPath] at h
  | seg :: rest, .seq a items, r, h => by
    simp only [Node.createPath] at h
    cases hl : lookSeg (.seq a items) seg with
    | crash e => simp [hl] at h
    | missing =>
      simp only [hl] at h
      cases hc : createHere (.seq a items) seg rest leaf with
      | error e => simp [hc, Except.map] at h
      | ok n' =>
        simp [hc, Except.map] at h
        subst h
        exact .created [] seg rest [] (.seq a items) n' rfl (Follows.here _) hl hc (by simp [graftAt_nil]) rfl
    | found ref =>
      cases ref with
      | key k => simp [hl] at h
      | member k => simp [hl] at h
      | idx i =>
        simp only [hl] at h
        cases hr : createList leaf items i rest with
        | error e => simp [hr, Except.map] at h
        | ok pr =>
          obtain ⟨cs', ad⟩ := pr
          simp [hr, Except.map] at h
          subst h
          obtain ⟨c, hget, hcase⟩ := createList_ok leaf rest items i cs' ad hr
          rcases hcase with ⟨h1, h2, h3⟩ | ⟨h1, r', h2, h3, h4⟩
          · subst h1 h3; rw [h2]
            exact .nullRelay [] seg rest [] (.seq a items) (.idx i) rfl (Follows.here _) hl
              (by simpa [Node.child?] using hget) rfl rfl
          · have := CreateOutcome.lift (d := .seq a items) hl (by simpa [Node.child?] using hget) h1
              (by simp [Node.graftAt, graftList_self items i c hget])
              (by intro g q; simp [Node.graftAt, graftList_const g q items i c hget])
              (createPath_outcome leaf rest c r' h2)
            subst h3 h4
            simpa [Node.graftAt] using this
  | seg :: rest, .map a es, r, h => by
    simp only [Node.createPath] at h
    cases hl : lookSeg (.map a es) seg with
    | crash e => simp [hl] at h
    | missing =>
      simp only [hl] at h
      cases hc : createHere (.map a es) seg rest leaf with
      | error e => simp [hc, Except.map] at h
      | ok n' =>
        simp [hc, Except.map] at h
        subst h
        exact .created [] seg rest [] (.map a es) n' rfl (Follows.here _) hl hc (by simp [graftAt_nil]) rfl
    | found ref =>
      cases ref with
      | idx k => simp [hl] at h
      | member k => simp [hl] at h
      | key k =>
        simp only [hl] at h
        cases hr : createEntries leaf es k rest with
        | error e => simp [hr, Except.map] at h
        | ok pr =>
          obtain ⟨es', ad⟩ := pr
          simp [hr, Except.map] at h
          subst h
          obtain ⟨c, hget, hcase⟩ := createEntries_ok leaf rest k es es' ad hr
          rcases hcase with ⟨h1, h2, h3⟩ | ⟨h1, r', h2, h3, h4⟩
          · subst h1 h3; rw [h2]
            exact .nullRelay [] seg rest [] (.map a es) (.key k) rfl (Follows.here _) hl
              (by simpa [Node.child?] using hget) rfl rfl
          · have := CreateOutcome.lift (d := .map a es) hl (by simpa [Node.child?] using hget) h1
              (by simp [Node.graftAt, graftEntries_self k es c hget])
              (by intro g q; simp [Node.graftAt, graftEntries_const g q k es c hget])
              (createPath_outcome leaf rest c r' h2)
            subst h3 h4
            simpa [Node.graftAt] using this

/-! ### Looking a node up in a grafted document -/

theorem graftList_getElem? (g : Node → Node) (q : Addr) : ∀ (items : List Node) (i j : Nat),
    (graftList g items i q)[j]? = if j = i then (items[j]?).map (·.graftAt g q) else items[j]?
  | [], _, _ => by simp [graftList]
  | c :: cs, 0, 0 => by simp [graftList]
  | c :: cs, 0, j + 1 => by simp [graftList]
  | c :: cs, i + 1, 0 => by simp [graftList]
  | c :: cs, i + 1, j + 1 => by simp [graftList, graftList_getElem? g q cs i j]

theorem graftEntries_lookup (g : Node → Node) (q : Addr) (k k' : Key) : ∀ (es : List (Key × Node)),
    (graftEntries g es k q).lookup k' = if k' = k then (es.lookup k').map (·.graftAt g q) else es.lookup k'
  | [] => by simp [graftEntries]
  | (k0, c) :: es => by
    have ih := graftEntries_lookup g q k k' es
    by_cases h0 : k0 = k
    · subst h0
      by_cases h1 : k' = k0
      · subst h1; simp [graftEntries, List.lookup]
      · have : (k' == k0) = false := by simpa using h1
        simp [graftEntries, List.lookup, this, h1]
    · by_cases h1 : k' = k0
      · subst h1; simp [graftEntries, h0, List.lookup]
      · have : (k' == k0) = false := by simpa using h1
        simp [graftEntries, h0, List.lookup, this, ih]

theorem child?_graftAt_same (g : Node → Node) (d : Node) (r : Ref) (q : Addr) (hr : ∀ k, r ≠ .member k) :
    (d.graftAt g (r :: q)).child? r = (d.child? r).map (·.graftAt g q) := by
  cases d <;> cases r <;>
    simp [Node.graftAt, Node.child?, graftList_getElem?, graftEntries_lookup] at hr ⊢

theorem child?_graftAt_ne (g : Node → Node) (d : Node) (r r' : Ref) (q : Addr) (h : r' ≠ r) :
    (d.graftAt g (r :: q)).child? r' = d.child? r' := by
  cases d <;> cases r <;> cases r' <;>
    simp [Node.graftAt, Node.child?, graftList_getElem?, graftEntries_lookup] at h ⊢ <;> simp [h]

theorem graftAt_member (g : Node → Node) (d : Node) (k : Key) (q : Addr) :
    d.graftAt g (.member k :: q) = d := by
  cases d <;> simp [Node.graftAt]

theorem get?_cons (d : Node) (r : Ref) (t : Addr) :
    d.get? (r :: t) = match d.child? r with | some c => c.get? t | none => none := rfl

theorem get?_append : ∀ (q : Addr) (d n : Node) (z : Addr), d.get? q = some n → d.get? (q ++ z) = n.get? z
  | [], d, n, z, h => by simp [Node.get?] at h; subst h; rfl
  | r :: q, d, n, z, h => by
    rw [get?_cons] at h
    rw [List.cons_append, get?_cons]
    cases hc : d.child? r with
    | none => simp [hc] at h
    | some c => simp only [hc] at h ⊢; exact get?_append q c n z h

/-- **Frame of a graft.**  An address that is neither on the way to `q` nor below `q` leads to the
same node before and after. -/
theorem get?_graftAt_frame (g : Node → Node) : ∀ (q : Addr) (d : Node) (y : Addr),
    ¬ y <+: q → ¬ q <+: y → (d.graftAt g q).get? y = d.get? y
  | [], _, y, _, h => absurd (List.nil_prefix) h
  | r :: q, _, [], h, _ => absurd (List.nil_prefix) h
  | r :: q, d, r' :: y, h1, h2 => by
    by_cases hrr : r' = r
    · subst hrr
      by_cases hm : ∃ k, r' = .member k
      · obtain ⟨k, rfl⟩ := hm; rw [graftAt_member]
      · have hr : ∀ k, r' ≠ .member k := fun k h => hm ⟨k, h⟩
        rw [get?_cons, get?_cons, child?_graftAt_same g d r' q hr]
        cases hc : d.child? r' with
        | none => rfl
        | some c =>
          simp only [Option.map_some]
          exact get?_graftAt_frame g q c y (by simpa [List.cons_prefix_cons] using h1)
            (by simpa [List.cons_prefix_cons] using h2)
    · rw [get?_cons, get?_cons, child?_graftAt_ne g d r r' q hrr]

theorem lookSeg_found_not_member {d : Node} {seg : PSeg} {ref : Ref} (h : lookSeg d seg = .found ref) :
    ∀ k, ref ≠ .member k := by
  intro k hk; subst hk
  unfold lookSeg at h
  repeat' split at h
  all_goals first | cases h | skip

theorem Follows.get? {d : Node} {pre : List PSeg} {q : Addr} {n : Node} (h : Follows d pre q n) :
    d.get? q = some n := by
  induction h with
  | here d => rfl
  | step hl hc _ _ ih => rw [get?_cons, hc]; exact ih

/-- below the grafted address the lookup continues in the new node -/
theorem Follows.get?_graftAt {d : Node} {pre : List PSeg} {q : Addr} {n : Node} (h : Follows d pre q n)
    (g : Node → Node) (z : Addr) : (d.graftAt g q).get? (q ++ z) = (g n).get? z := by
  induction h with
  | here d => simp [graftAt_nil]
  | step hl hc _ _ ih =>
    rw [List.cons_append, get?_cons, child?_graftAt_same g _ _ _ (lookSeg_found_not_member hl), hc]
    exact ih

/-! ### The creation block at the node where the segment is missing -/

theorem lookup_append_of_some {k : Key} {c : Node} : ∀ {es : List (Key × Node)} (tl : List (Key × Node)),
    es.lookup k = some c → (es ++ tl).lookup k = some c
  | [], _, h => by simp at h
  | (k', c') :: es, tl, h => by
    by_cases hk : k = k'
    · subst hk; simpa [List.lookup] using h
    · have : (k == k') = false := by simpa using hk
      simp only [List.cons_append, List.lookup, this] at h ⊢
      exact lookup_append_of_some tl h

theorem lookup_append_of_not_mem {k : Key} (c : Node) : ∀ {es : List (Key × Node)},
    (es.map Prod.fst).contains k = false → (es ++ [(k, c)]).lookup k = some c ∧ es.lookup k = none
  | [], _ => by simp [List.lookup]
  | (k', c') :: es, h => by
    have hk : ¬ k = k' := by intro e; subst e; simp at h
    have hkb : (k == k') = false := by simpa using hk
    have h' : (es.map Prod.fst).contains k = false := by
      cases hc : (es.map Prod.fst).contains k with
      | false => rfl
      | true => rw [List.map_cons, List.contains_cons, hc] at h; simp at h
    simpa [List.lookup, hkb] using lookup_append_of_not_mem c h'

/-- `createHere` in a node in which the segment is missing: the anchor is kept, every existing child
keeps its reference and content, the reference of the new element was free and now holds the filled
spine. -/
theorem createHere_spec {n n' : Node} {seg : PSeg} {rest : List PSeg} {leaf : Scalar}
    (hl : lookSeg n seg = .missing) (hc : createHere n seg rest leaf = .ok n') :
    n'.anchor = n.anchor ∧ (∀ r c, n.child? r = some c → n'.child? r = some c)
      ∧ n.child? (createdRef n seg) = none
      ∧ ∃ sp, fill rest leaf = .ok sp ∧ n'.child? (createdRef n seg) = some sp := by
  cases n with
  | scalar a v => simp [createHere] at hc
  | set a ms => simp [createHere] at hc
  | seq a items =>
    simp only [createHere] at hc
    cases hi : intOfSeg seg with
    | none => simp [hi] at hc
    | some i =>
      simp only [hi] at hc
      by_cases hneg : i < 0
      · simp [hneg] at hc
      · simp only [hneg, if_false] at hc
        cases hf : fill rest leaf with
        | error e => simp [hf] at hc
        | ok sp =>
          simp [hf] at hc
          have hlen : items.length ≤ i.toNat := by
            simp only [lookSeg, hi] at hl
            by_cases hgt : (items.length : Int) > i
            · simp only [hgt, if_true] at hl
              have : i ≥ 0 := by omega
              simp [this] at hl
            · omega
          subst hc
          refine ⟨rfl, ?_, ?_, sp, rfl, ?_⟩
          · intro r c hrc
            cases r <;> simp [Node.child?] at hrc ⊢
            rename_i j
            have hj : j < items.length := by
              rcases Nat.lt_or_ge j items.length with h | h
              · exact h
              · rw [List.getElem?_eq_none h] at hrc; cases hrc
            rw [List.getElem?_append_left hj]; exact hrc
          · simp [createdRef, hi, Node.child?, hlen]
          · simp only [createdRef, hi, Node.child?]
            rw [List.getElem?_append_right hlen, List.getElem?_append_right (by simp)]
            simp
  | map a es =>
    simp only [createHere] at hc
    cases seg with
    | index i => simp at hc
    | key s =>
      simp only at hc
      cases hf : fill rest leaf with
      | error e => simp [hf] at hc
      | ok sp =>
        simp [hf] at hc
        subst hc
        have hnot : (es.map Prod.fst).contains (Key.str s) = false := by
          cases hcn : (es.map Prod.fst).contains (Key.str s) with
          | false => rfl
          | true =>
            have : lookSeg (.map a es) (.key s) = .found (.key (.str s)) := by
              unfold lookSeg; simp only [hcn, if_true]
            rw [this] at hl; cases hl
        have := lookup_append_of_not_mem sp hnot
        refine ⟨rfl, ?_, ?_, sp, rfl, ?_⟩
        · intro r c hrc
          cases r <;> simp [Node.child?] at hrc ⊢
          exact lookup_append_of_some _ hrc
        · simpa [createdRef, Node.child?] using this.2
        · simpa [createdRef, Node.child?] using this.1

/-- every address that led somewhere in `n` leads to the same node in `createHere n …` -/
theorem createHere_get? {n n' : Node} {seg : PSeg} {rest : List PSeg} {leaf : Scalar}
    (hl : lookSeg n seg = .missing) (hc : createHere n seg rest leaf = .ok n')
    (z : Addr) (hz : z ≠ []) (m : Node) (h : n.get? z = some m) : n'.get? z = some m := by
  cases z with
  | nil => exact absurd rfl hz
  | cons r t =>
    rw [get?_cons] at h ⊢
    cases hch : n.child? r with
    | none => simp [hch] at h
    | some c => rw [(createHere_spec hl hc).2.1 r c hch]; simpa [hch] using h

end Ypv
