import Ypv.Lemmas.PathAcc
/-!
# Reading the step back from a path section

`Sec.ofText` decodes a section text (`[&name]`, `[i]`, escaped key text) into the step it denotes;
`ofText_mtext`: it inverts `Sec.mtext`.  With it the hypotheses of `path_reresolves` are decidable
predicates of the reported coordinates themselves (`c.path.map Sec.ofText`).
-/
namespace Ypv.Acc
open Ypv Ypv.Sim Ypv.Search.Rr

/-- drop the escape marks: `\c` ↦ `c` -/
def unesc : Str → Str
  | [] => []
  | [c] => [c]
  | c :: d :: r => if c = '\\' then d :: unesc r else c :: unesc (d :: r)

theorem unesc_bare (c : Char) (x : Str) (hc : c ≠ '\\') : unesc (c :: x) = c :: unesc x := by
  cases x with
  | nil => simp [unesc]
  | cons d r => simp [unesc, hc]

theorem unesc_tokText : ∀ (ts : List Tok), (∀ t ∈ ts, t.1 = true ∨ t.2 ≠ '\\') →
    unesc (tokText ts) = tokChars ts
  | [], _ => rfl
  | (e, c) :: ts, h => by
    have ih := unesc_tokText ts (fun t ht => h t (by simp [ht]))
    cases e with
    | true =>
      have : tokText ((true, c) :: ts) = '\\' :: c :: tokText ts := by simp [tokText, Tok.text]
      rw [this]
      simp [unesc, ih, tokChars]
    | false =>
      have hc : c ≠ '\\' := by
        rcases h (false, c) (by simp) with h1 | h1
        · cases h1
        · exact h1
      have : tokText ((false, c) :: ts) = c :: tokText ts := by simp [tokText, Tok.text]
      rw [this, unesc_bare c _ hc, ih]
      simp [tokChars]

theorem secToks_nobs (t : Str) : ∀ u ∈ secToks '.' t, u.1 = true ∨ u.2 ≠ '\\' := by
  intro u hu
  cases t with
  | nil => simp [secToks] at hu
  | cons c r =>
    simp only [secToks, tokenize, List.mem_cons, List.mem_map] at hu
    rcases hu with rfl | ⟨x, _, rfl⟩
    · by_cases hc : c = '\\'
      · left; subst hc; simp [special]
      · right; exact hc
    · by_cases hc : x = '\\'
      · left; subst hc; simp [special]
      · right; exact hc

theorem unesc_escSection (t : Str) : unesc (escSection t) = t := by
  rw [escSection_toks, unesc_tokText _ (secToks_nobs t), tokChars_secToks]

/-- the step a section text denotes -/
def Sec.ofText : Str → Sec
  | '[' :: '&' :: r => .anc (unesc r.dropLast)
  | '[' :: r => match pyInt? r.dropLast with
    | some i => .idx i
    | none => .key []
  | sec => .key (unesc sec)

theorem escSection_head (t : Str) : (escSection t).head? ≠ some '[' := by
  rw [escSection_toks]
  cases t with
  | nil => simp [secToks, tokText]
  | cons c r =>
    have e : tokText (secToks '.' (c :: r)) =
        Tok.text (special '.' c || (c == '/' && '.' != '/'), c) ++ tokText (tokenize '.' r) := by
      simp [secToks, tokText]
    rw [e]
    cases hb : (special '.' c || (c == '/' && '.' != '/'))
    · simp only [Tok.text, Bool.false_eq_true, ↓reduceIte, List.cons_append, List.nil_append,
        List.head?_cons, ne_eq, Option.some.injEq]
      rintro rfl
      simp [special] at hb
    · simp [Tok.text]

/-- **`Sec.ofText` inverts the section text.** -/
theorem ofText_mtext (s : Sec) : Sec.ofText s.mtext = s := by
  cases s with
  | key t =>
    have hh := escSection_head t
    simp only [Sec.mtext]
    cases he : escSection t with
    | nil =>
      have : t = [] := by rw [← unesc_escSection t, he]; rfl
      subst this; rfl
    | cons c r =>
      have hc : c ≠ '[' := by simpa [he] using hh
      have : Sec.ofText (c :: r) = .key (unesc (c :: r)) := by
        unfold Sec.ofText
        split
        · rename_i h; simp only [List.cons.injEq] at h; exact absurd h.1 hc
        · rename_i h; simp only [List.cons.injEq] at h; exact absurd h.1 hc
        · rfl
      rw [this, ← he, unesc_escSection]
  | idx i =>
    obtain ⟨d, k, hk⟩ : ∃ d k, pyStrInt i = d :: k := by
      cases h : pyStrInt i with
      | nil => exact absurd h (pyStrInt_ne_nil i)
      | cons d k => exact ⟨d, k, rfl⟩
    have hd : d ≠ '&' := by
      rcases pyStrInt_chars i d (by simp [hk]) with h | h
      · subst h; decide
      · rintro rfl; simp at h
    have hdl : (pyStrInt i ++ [']']).dropLast = pyStrInt i := by simp
    simp only [Sec.mtext, idxSection]
    have : Sec.ofText ('[' :: (pyStrInt i ++ [']'])) =
        (match pyInt? (pyStrInt i ++ [']']).dropLast with | some i => Sec.idx i | none => .key []) := by
      rw [hk]
      unfold Sec.ofText
      split
      · rename_i h
        simp only [List.cons_append, List.cons.injEq, true_and] at h
        exact absurd h.1 hd
      · rename_i h
        simp only [List.cons.injEq, true_and] at h
        subst h; rfl
      · rename_i h1 h2
        exact absurd rfl (h2 _)
    rw [this, hdl, pyInt_pyStrInt]
  | anc a =>
    simp only [Sec.mtext, Eval.anchorSection, Sec.ofText]
    simp [unesc_escSection]

theorem ofText_map (ss : List Sec) : (ss.map Sec.mtext).map Sec.ofText = ss := by
  rw [List.map_map]
  conv => rhs; rw [← List.map_id ss]
  exact List.map_congr_left (fun s _ => ofText_mtext s)

end Ypv.Acc
