import Ypv.Lemmas.Eval
/-!
# Document lemmas: well-formedness, `get?`, located nodes (helpers of `Props/C02`)
-/
namespace Ypv

/-! ## Well-formed documents: the keys of a dict / members of a set are pairwise distinct
(which Python guarantees). -/
mutual
def Node.WF : Node → Prop
  | .scalar .. => True
  | .set _ ms => ms.Nodup
  | .seq _ items => WFList items
  | .map _ es => (es.map (·.1)).Nodup ∧ WFEntries es
def WFList : List Node → Prop
  | [] => True
  | n :: ns => n.WF ∧ WFList ns
def WFEntries : List (Key × Node) → Prop
  | [] => True
  | (_, n) :: es => n.WF ∧ WFEntries es
end

theorem wfList_mem {items : List Node} (h : WFList items) : ∀ n ∈ items, n.WF := by
  induction items with
  | nil => intro n hn; cases hn
  | cons x xs ih =>
    intro n hn
    simp only [WFList] at h
    cases hn with
    | head => exact h.1
    | tail _ hm => exact ih h.2 n hm

theorem wfEntries_mem {es : List (Key × Node)} (h : WFEntries es) : ∀ kv ∈ es, kv.2.WF := by
  induction es with
  | nil => intro n hn; cases hn
  | cons x xs ih =>
    intro n hn
    obtain ⟨k, v⟩ := x
    simp only [WFEntries] at h
    cases hn with
    | head => exact h.1
    | tail _ hm => exact ih h.2 n hm

theorem lookup_of_mem_nodup {es : List (Key × Node)} (h : (es.map (·.1)).Nodup) :
    ∀ kv ∈ es, es.lookup kv.1 = some kv.2 := by
  induction es with
  | nil => intro kv hkv; cases hkv
  | cons x xs ih =>
    intro kv hkv
    obtain ⟨k, v⟩ := x
    simp only [List.map_cons, List.nodup_cons, List.mem_map, not_exists, not_and] at h
    cases hkv with
    | head => simp [List.lookup]
    | tail _ hm =>
      have hne : kv.1 ≠ k := by
        intro he
        exact h.1 kv hm he
      have : (kv.1 == k) = false := by simpa using hne
      simp only [List.lookup, this]
      exact ih h.2 kv hm

theorem mem_of_lookup {es : List (Key × Node)} {k : Key} {v : Node} (h : es.lookup k = some v) : (k, v) ∈ es := by
  induction es with
  | nil => simp [List.lookup] at h
  | cons x xs ih =>
    obtain ⟨k', v'⟩ := x
    simp only [List.lookup] at h
    split at h
    · rename_i heq
      have : k = k' := by simpa using heq
      cases h
      subst this
      exact List.mem_cons_self
    · exact List.mem_cons_of_mem _ (ih h)

theorem Key.toNode_eq (k : Key) :
    Node.scalar none (match k with | .str s => .str s | .int i => .int i) = k.toNode := by
  cases k <;> rfl

/-- A child of a well-formed node is well-formed. -/
theorem wf_child {n m : Node} {r : Ref} (hn : n.WF) (h : n.child? r = some m) : m.WF := by
  cases n with
  | scalar a v => cases r <;> simp [Node.child?] at h
  | seq a items =>
    cases r <;> simp only [Node.child?] at h <;> try cases h
    simp only [Node.WF] at hn
    exact wfList_mem hn m (List.mem_of_getElem? h)
  | map a es =>
    cases r <;> simp only [Node.child?] at h <;> try cases h
    simp only [Node.WF] at hn
    exact wfEntries_mem hn.2 _ (mem_of_lookup h)
  | set a ms =>
    cases r <;> simp only [Node.child?] at h <;> try cases h
    split at h
    · cases h; simp [Node.WF]
    · cases h

theorem ev_get?_append (n : Node) (a : Addr) (r : Ref) :
    n.get? (a ++ [r]) = (n.get? a).bind (fun m => m.child? r) := by
  induction a generalizing n with
  | nil =>
    simp only [List.nil_append, Node.get?]
    cases h : n.child? r <;> simp [Node.get?, h]
  | cons x xs ih =>
    simp only [List.cons_append, Node.get?]
    cases n.child? x with
    | none => rfl
    | some c => exact ih c

namespace Gen
variable {α β : Type}

theorem mem_append_fst {g h : Gen α} {x : α} (hx : x ∈ (append g h).1) : x ∈ g.1 ∨ x ∈ h.1 := by
  obtain ⟨l, e⟩ := g
  cases e with
  | none => simpa [append] using hx
  | some e => left; simpa [append] using hx

theorem mem_bindList_fst {f : α → Gen β} {l : List α} {y : β} (hy : y ∈ (bindList f l).1) :
    ∃ x ∈ l, y ∈ (f x).1 := by
  induction l with
  | nil => simp [nil] at hy
  | cons x xs ih =>
    simp only [bindList_cons] at hy
    cases mem_append_fst hy with
    | inl h => exact ⟨x, by simp, h⟩
    | inr h =>
      obtain ⟨z, hz, hy'⟩ := ih h
      exact ⟨z, by simp [hz], hy'⟩

theorem mem_bind_fst {g : Gen α} {f : α → Gen β} {y : β} (hy : y ∈ (bind g f).1) :
    ∃ x ∈ g.1, y ∈ (f x).1 := by
  simp only [bind_def] at hy
  cases mem_append_fst hy with
  | inl h => exact mem_bindList_fst h
  | inr h => simp at h

theorem mem_filterFirst_fst {p : α → Gen β} {l : List α} {x : α} (hx : x ∈ (filterFirst p l).1) : x ∈ l := by
  induction l with
  | nil => simp [filterFirst, nil] at hx
  | cons y ys ih =>
    simp only [filterFirst] at hx
    split at hx
    · cases mem_append_fst hx with
      | inl h => simp [one] at h; simp [h]
      | inr h => exact List.mem_cons_of_mem _ (ih h)
    · simp [fail] at hx
    · exact List.mem_cons_of_mem _ (ih hx)

theorem mem_ifAny_fst {g : Gen β} {x y : α} (hy : y ∈ (ifAny g x).1) : y = x := by
  unfold ifAny at hy
  split at hy
  · simpa [one] using hy
  · simp [fail] at hy
  · simp [nil] at hy

theorem mem_map_fst {f : α → β} {g : Gen α} {y : β} (hy : y ∈ (map f g).1) : ∃ x ∈ g.1, f x = y := by
  simpa [map] using hy

end Gen

namespace Eval
open Gen

/-- The reported reference `pr` designates the address step `r` inside `n`
(`parent[parentref]`, Python indexing for lists). -/
def prefOk (n : Node) (pr : PRef) (r : Ref) : Prop :=
  match n, pr, r with
  | .seq _ items, .idx i, .idx j => inRange items.length i = true ∧ normIdx items.length i = j
  | .map .., .key k, .key k' => k = k'
  | .set .., .member k, .member k' => k = k'
  | _, _, _ => False

/-- `n` with coordinates `c` is a located node of document `d`: the coordinates were built from the
root by child steps, each of which really leads from the parent node to the child node. -/
inductive Loc (d : Node) : Node → Ctx → Prop
  | root : Loc d d Ctx.root
  | child {n : Node} {c : Ctx} (r : Ref) (pr : PRef) (sec : Str) (m : Node) :
      Loc d n c → n.child? r = some m → prefOk n pr r → Loc d m (c.child r pr sec)

theorem Loc.get {d n : Node} {c : Ctx} (h : Loc d n c) : d.get? c.addr = some n := by
  induction h with
  | root => rfl
  | child r pr sec m _ hc _ ih => simp [Ctx.child, ev_get?_append, ih, hc]

theorem Loc.wf {d n : Node} {c : Ctx} (h : Loc d n c) (hd : d.WF) : n.WF := by
  induction h with
  | root => exact hd
  | child r pr sec m _ hc _ ih => exact wf_child ih hc

def AllLoc (d : Node) (g : Gen NC) : Prop := ∀ x ∈ g.1, Loc d x.1 x.2

variable {d : Node}

theorem loc_seqKids {a : Option Str} {items : List Node} {c : Ctx} (hl : Loc d (.seq a items) c) :
    ∀ (suf pre : List Node), items = pre ++ suf → ∀ x ∈ seqKidsFrom c suf pre.length, Loc d x.1 x.2 := by
  intro suf
  induction suf with
  | nil => intro pre _ x hx; simp [seqKidsFrom] at hx
  | cons m ms ih =>
    intro pre hpre x hx
    simp only [seqKidsFrom, List.mem_cons] at hx
    cases hx with
    | inl hx =>
      subst hx
      refine Loc.child _ _ _ m hl ?_ ?_
      · simp [Node.child?, hpre]
      · simp only [prefOk, inRange, normIdx, Bool.and_eq_true, decide_eq_true_eq]
        subst hpre
        simp only [List.length_append, List.length_cons]
        refine ⟨⟨by omega, by omega⟩, ?_⟩
        have : ¬ ((pre.length : Int) < 0) := by omega
        simp [this]
    | inr hx =>
      have := ih (pre ++ [m]) (by simp [hpre]) x (by simpa using hx)
      exact this

theorem loc_mapKids {a : Option Str} {es : List (Key × Node)} {c : Ctx} (hl : Loc d (.map a es) c)
    (hw : (es.map (·.1)).Nodup) : ∀ x ∈ mapKids c es, Loc d x.1 x.2 := by
  intro x hx
  simp only [mapKids, List.mem_map] at hx
  obtain ⟨kv, hkv, rfl⟩ := hx
  refine Loc.child _ _ _ kv.2 hl ?_ ?_
  · simp [Node.child?, lookup_of_mem_nodup hw kv hkv]
  · simp [prefOk]

theorem loc_setKids {a : Option Str} {ms : List Key} {c : Ctx} (hl : Loc d (.set a ms) c) :
    ∀ x ∈ setKids c ms, Loc d x.1 x.2 := by
  intro x hx
  simp only [setKids, List.mem_map] at hx
  obtain ⟨k, hk, rfl⟩ := hx
  refine Loc.child _ _ _ k.toNode hl ?_ ?_
  · simp only [Node.child?]
    have : ms.contains k = true := by simpa using hk
    rw [if_pos this]
    cases k <;> rfl
  · simp [prefOk]

theorem loc_kids {n : Node} {c : Ctx} (hl : Loc d n c) (hw : n.WF) : ∀ x ∈ kids n c, Loc d x.1 x.2 := by
  cases n with
  | scalar a v => intro x hx; simp [kids] at hx
  | seq a items => exact loc_seqKids hl items [] rfl
  | map a es => exact loc_mapKids hl hw.1
  | set a ms => exact loc_setKids hl

theorem loc_deepKids {n : Node} {c : Ctx} (hl : Loc d n c) (hw : n.WF) : ∀ x ∈ deepKids n c, Loc d x.1 x.2 := by
  cases n with
  | scalar a v => intro x hx; simp [deepKids] at hx
  | seq a items => exact loc_seqKids hl items [] rfl
  | map a es => exact loc_mapKids hl hw.1
  | set a ms => intro x hx; simp [deepKids] at hx

theorem allLoc_nil : AllLoc d (Gen.nil) := by intro x hx; simp [nil] at hx
theorem allLoc_fail (e : Err) : AllLoc d (Gen.fail e) := by intro x hx; simp [fail] at hx
theorem allLoc_one {x : NC} (h : Loc d x.1 x.2) : AllLoc d (Gen.one x) := by
  intro y hy; simp [one] at hy; subst hy; exact h
theorem allLoc_ofList {l : List NC} (h : ∀ x ∈ l, Loc d x.1 x.2) : AllLoc d (Gen.ofList l) := by
  intro y hy; exact h y (by simpa [ofList] using hy)
theorem allLoc_append {g h : Gen NC} (hg : AllLoc d g) (hh : AllLoc d h) : AllLoc d (append g h) := by
  intro x hx
  cases mem_append_fst hx with
  | inl h1 => exact hg x h1
  | inr h1 => exact hh x h1

theorem pyGetItem_spec {α : Type} (l : List α) (i : Int) (x : α) (h : inRange l.length i = true)
    (hx : pyGetItem l i = .ok x) : l[normIdx l.length i]? = some x := by
  simp only [inRange, Bool.and_eq_true, decide_eq_true_eq] at h
  unfold pyGetItem at hx
  unfold normIdx
  simp only [] at hx
  by_cases hi : i < 0
  · simp only [hi, if_true] at hx ⊢
    have h1 : ¬ (i + (l.length : Int) < 0) := by omega
    simp only [h1, if_false] at hx
    split at hx
    · rename_i y hy; cases hx; exact hy
    · cases hx
  · simp only [hi, if_false] at hx ⊢
    split at hx
    · rename_i y hy; cases hx; exact hy
    · cases hx

theorem allLoc_elemAt {a : Option Str} {items : List Node} {c : Ctx} (hl : Loc d (.seq a items) c) (i : Int) :
    AllLoc d (elemAt items i c) := by
  unfold elemAt
  by_cases h : inRange items.length i = true
  · simp only [h, if_true]
    split
    · rename_i x hx
      refine allLoc_one (Loc.child _ _ _ x hl ?_ ?_)
      · simpa [Node.child?] using pyGetItem_spec items i x h hx
      · exact ⟨h, rfl⟩
    · exact allLoc_fail _
  · simp only [h]
    exact allLoc_nil

theorem allLoc_keyOnMap {a : Option Str} {es : List (Key × Node)} {c : Ctx} (hl : Loc d (.map a es) c) (k : Str) :
    AllLoc d (keyOnMap k es c) := by
  unfold keyOnMap
  split
  · rename_i v hv
    exact allLoc_one (Loc.child _ _ _ v hl (by simpa [Node.child?] using hv) (by simp [prefOk]))
  · split
    · split
      · rename_i v hv
        exact allLoc_one (Loc.child _ _ _ v hl (by simpa [Node.child?] using hv) (by simp [prefOk]))
      · exact allLoc_nil
    · exact allLoc_nil

theorem allLoc_keyOnSet {a : Option Str} {ms : List Key} {c : Ctx} (hl : Loc d (.set a ms) c) (k : Str) :
    AllLoc d (keyOnSet k ms c) := by
  unfold keyOnSet
  split
  · rename_i m hm
    have hmem : m ∈ ms := List.mem_of_find?_eq_some hm
    refine allLoc_one (Loc.child _ _ _ m.toNode hl ?_ (by simp [prefOk]))
    simp only [Node.child?]
    have : ms.contains m = true := by simpa using hmem
    rw [if_pos this]
    cases m <;> rfl
  · exact allLoc_nil

mutual
theorem allLoc_keyStep (k : Str) (tl : Bool) :
    (n : Node) → (c : Ctx) → Loc d n c → AllLoc d (keyStep k tl n c)
  | .map a es, c, hl => by simp only [keyStep]; exact allLoc_keyOnMap hl k
  | .set a ms, c, hl => by simp only [keyStep]; exact allLoc_keyOnSet hl k
  | .scalar .., c, _ => by simp only [keyStep]; exact allLoc_nil
  | .seq a items, c, hl => by
      simp only [keyStep]
      split
      · exact allLoc_elemAt hl _
      · split
        · exact allLoc_passThrough k tl a c items items [] rfl hl
        · exact allLoc_nil
theorem allLoc_passThrough (k : Str) (tl : Bool) (a : Option Str) (c : Ctx) (items : List Node) :
    (suf pre : List Node) → items = pre ++ suf → Loc d (.seq a items) c →
      AllLoc d (keyStep.passThrough k tl c suf pre.length)
  | [], _, _, _ => by simp only [keyStep.passThrough]; exact allLoc_nil
  | m :: ms, pre, hpre, hl => by
      simp only [keyStep.passThrough]
      have hm : Loc d m (c.child (.idx pre.length) (.idx pre.length) (idxSection pre.length)) :=
        loc_seqKids hl (m :: ms) pre hpre (m, _) (by simp [seqKidsFrom, Ctx.child])
      refine allLoc_append (allLoc_keyStep k tl m _ hm) ?_
      have := allLoc_passThrough k tl a c items ms (pre ++ [m]) (by simp [hpre]) hl
      simpa using this
end

theorem allLoc_indexStep {n : Node} {c : Ctx} (hl : Loc d n c) (i : Int) : AllLoc d (indexStep i n c) := by
  cases n <;> simp only [indexStep]
  · exact allLoc_nil
  · exact allLoc_elemAt hl _
  · exact allLoc_nil
  · exact allLoc_fail _

/-- A result: located node, or a virtual list of located nodes. -/
def ResLoc (d : Node) : Res → Prop
  | .real nc => Loc d nc.1 nc.2
  | .virt items => ∀ x ∈ items, Loc d x.1 x.2

def AllResLoc (d : Node) (g : Gen Res) : Prop := ∀ r ∈ g.1, ResLoc d r

theorem allResLoc_real {g : Gen NC} (h : AllLoc d g) : AllResLoc d (g.map Res.real) := by
  intro r hr
  obtain ⟨x, hx, rfl⟩ := mem_map_fst hr
  exact h x hx

theorem sliceItems_loc {a : Option Str} {items : List Node} {c : Ctx} (hl : Loc d (.seq a items) c) :
    ∀ (ixs : List Nat) (l : List NC), (∀ j ∈ ixs, j < items.length) → sliceItems items c ixs = .ok l →
      ∀ x ∈ l, Loc d x.1 x.2 := by
  intro ixs
  induction ixs with
  | nil =>
    intro l _ h x hx
    simp [sliceItems, List.mapM_nil, pure, Except.pure] at h
    subst h
    cases hx
  | cons j js ih =>
    intro l hj h x hx
    have hjl : j < items.length := hj j (by simp)
    have hin : inRange items.length (Int.ofNat j) = true := by
      simp only [inRange, Bool.and_eq_true, decide_eq_true_eq, Int.ofNat_eq_natCast]
      constructor <;> omega
    obtain ⟨y, hy⟩ := pyGetItem_inRange items (Int.ofNat j) hin
    obtain ⟨l', hl'⟩ := sliceItems_ok items c js (fun k hk => hj k (by simp [hk]))
    have hcons : sliceItems items c (j :: js)
        = .ok ((y, c.child (.idx j) (.idx (Int.ofNat j)) (idxSection (Int.ofNat j))) :: l') := by
      unfold sliceItems at hl' ⊢
      rw [List.mapM_cons, hl', hy]
      rfl
    rw [hcons] at h
    cases h
    cases hx with
    | head =>
      have hn : normIdx items.length (Int.ofNat j) = j := by
        have : ¬ ((j : Int) < 0) := by omega
        simp [normIdx, this]
      refine Loc.child _ _ _ y hl ?_ ⟨hin, hn⟩
      have := pyGetItem_spec items (Int.ofNat j) y hin hy
      rw [hn] at this
      simpa [Node.child?] using this
    | tail _ hm => exact ih l' (fun k hk => hj k (by simp [hk])) hl' x hm

theorem allResLoc_sliceOnSeq {a : Option Str} {items : List Node} {c : Ctx} (hl : Loc d (.seq a items) c)
    (lo hi : Str) : AllResLoc d (sliceOnSeq lo hi items c) := by
  unfold sliceOnSeq
  split
  · rename_i x y _ _
    split
    · rename_i h
      split
      · rename_i v hv
        intro r hr
        simp [one] at hr
        subst hr
        intro z hz
        simp at hz
        subst hz
        refine Loc.child _ _ _ v hl ?_ ⟨h.2, rfl⟩
        simpa [Node.child?] using pyGetItem_spec items x v h.2 hv
      · intro r hr; simp [fail] at hr
    · split
      · rename_i l hl'
        intro r hr
        simp [one] at hr
        subst hr
        exact sliceItems_loc hl _ l (sliceIndices_lt items.length x y) hl'
      · intro r hr; simp [fail] at hr
  · intro r hr; simp [fail] at hr

theorem allLoc_sliceOnMap {a : Option Str} {es : List (Key × Node)} {c : Ctx} (hl : Loc d (.map a es) c)
    (hw : (es.map (·.1)).Nodup) (lo hi : Str) :
    ∀ (l : List (Key × Node)), (∀ kv ∈ l, kv ∈ es) → AllLoc d (sliceOnMap lo hi c l) := by
  intro l
  induction l with
  | nil => intro _; exact allLoc_nil
  | cons kv l ih =>
    intro h
    obtain ⟨k, v⟩ := kv
    have ih' := ih (fun x hx => h x (by simp [hx]))
    simp only [sliceOnMap]
    split
    · refine allLoc_append (allLoc_one ?_) ih'
      exact loc_mapKids hl hw _ (by
        simp only [mapKids, List.mem_map]
        exact ⟨(k, v), h (k, v) (by simp), rfl⟩)
    · exact ih'
    · exact allLoc_fail _

theorem allLoc_sliceOnSet {a : Option Str} {ms : List Key} {c : Ctx} (hl : Loc d (.set a ms) c) (lo hi : Str) :
    ∀ (l : List Key), (∀ k ∈ l, k ∈ ms) → AllLoc d (sliceOnSet lo hi c l) := by
  intro l
  induction l with
  | nil => intro _; exact allLoc_nil
  | cons k l ih =>
    intro h
    have ih' := ih (fun x hx => h x (by simp [hx]))
    simp only [sliceOnSet]
    split
    · refine allLoc_append (allLoc_one ?_) ih'
      exact loc_setKids hl _ (by
        simp only [setKids, List.mem_map]
        exact ⟨k, h k (by simp), rfl⟩)
    · exact ih'
    · exact allLoc_fail _

theorem allResLoc_sliceStep {n : Node} {c : Ctx} (hl : Loc d n c) (hw : n.WF) (lo hi : Str) :
    AllResLoc d (sliceStep lo hi n c) := by
  cases n with
  | scalar a v => intro r hr; simp [sliceStep, nil] at hr
  | seq a items => exact allResLoc_sliceOnSeq hl lo hi
  | map a es => exact allResLoc_real (allLoc_sliceOnMap hl hw.1 lo hi es (fun _ h => h))
  | set a ms => exact allResLoc_real (allLoc_sliceOnSet hl lo hi ms (fun _ h => h))

theorem loc_anchorGo {a : Option Str} {items : List Node} {c : Ctx} (hl : Loc d (.seq a items) c) (an : Str) :
    ∀ (suf pre : List Node), items = pre ++ suf → ∀ x ∈ anchorKids.go an c suf pre.length, Loc d x.1 x.2 := by
  intro suf
  induction suf with
  | nil => intro pre _ x hx; simp [anchorKids.go] at hx
  | cons m ms ih =>
    intro pre hpre x hx
    simp only [anchorKids.go, List.mem_cons] at hx
    cases hx with
    | inl hx =>
      subst hx
      refine Loc.child _ _ _ m hl ?_ ?_
      · simp [Node.child?, hpre]
      · simp only [prefOk, inRange, normIdx, Bool.and_eq_true, decide_eq_true_eq]
        subst hpre
        simp only [List.length_append, List.length_cons]
        refine ⟨⟨by omega, by omega⟩, ?_⟩
        have : ¬ ((pre.length : Int) < 0) := by omega
        simp [this]
    | inr hx =>
      have := ih (pre ++ [m]) (by simp [hpre]) x (by simpa using hx)
      exact this

theorem loc_anchorKids {n : Node} {c : Ctx} (hl : Loc d n c) (hw : n.WF) (an : Str) :
    ∀ x ∈ anchorKids an n c, Loc d x.1 x.2 := by
  cases n with
  | scalar a v => intro x hx; simp [anchorKids] at hx
  | set a ms => intro x hx; simp [anchorKids] at hx
  | seq a items => exact loc_anchorGo hl an items [] rfl
  | map a es =>
    intro x hx
    simp only [anchorKids, List.mem_map] at hx
    obtain ⟨kv, hkv, rfl⟩ := hx
    refine Loc.child _ _ _ kv.2 hl ?_ ?_
    · simp [Node.child?, lookup_of_mem_nodup hw.1 kv hkv]
    · simp [prefOk]

theorem allLoc_anchorStep {n : Node} {c : Ctx} (hl : Loc d n c) (hw : n.WF) (a : Str) : AllLoc d (anchorStep a n c) :=
  allLoc_ofList (fun x hx => loc_anchorKids hl hw a x (List.mem_filter.mp hx).1)

variable {mt : Matcher} {dsc : Desc} {rt : Node}

theorem mem_yieldIf {inv : Bool} {r : Except Err Bool} {x y : NC} (h : y ∈ (yieldIf inv r x).1) : y = x := by
  unfold yieldIf at h
  split at h
  · split at h
    · simpa [one] using h
    · simp [nil] at h
  · simp [fail] at h

theorem mem_searchList {inv : Bool} {m : Method} {attr term : Str} {aoh : Bool} :
    ∀ (l : List NC) (y : NC), y ∈ (searchList mt dsc inv m attr term aoh l).1 → y ∈ l := by
  intro l
  induction l with
  | nil => intro y hy; simp [searchList, nil] at hy
  | cons x xs ih =>
    intro y hy
    simp only [searchList] at hy
    cases mem_append_fst hy with
    | inl h => rw [mem_yieldIf h]; simp
    | inr h => exact List.mem_cons_of_mem _ (ih y h)

theorem mem_searchNames {inv : Bool} {m : Method} {term : Str} :
    ∀ (l : List (Key × NC)) (y : NC), y ∈ (searchNames mt inv m term l).1 → y ∈ l.map (·.2) := by
  intro l
  induction l with
  | nil => intro y hy; simp [searchNames, nil] at hy
  | cons x xs ih =>
    intro y hy
    obtain ⟨k, z⟩ := x
    simp only [searchNames] at hy
    cases mem_append_fst hy with
    | inl h => rw [mem_yieldIf h]; simp
    | inr h => simp only [List.map_cons]; exact List.mem_cons_of_mem _ (ih y h)

theorem allLoc_searchStep {n : Node} {c : Ctx} (hl : Loc d n c) (hw : n.WF)
    (inv : Bool) (m : Method) (attr term : Str) (tl : Bool) :
    AllLoc d (searchStep mt dsc inv m attr term tl n c) := by
  cases n with
  | scalar a v =>
    intro y hy
    simp only [searchStep] at hy
    rw [mem_yieldIf hy]; exact hl
  | seq a items =>
    simp only [searchStep]
    split
    · intro y hy
      exact loc_seqKids hl items [] rfl y (mem_searchList _ y hy)
    · exact allLoc_nil
  | set a ms =>
    intro y hy
    simp only [searchStep] at hy
    have := mem_searchNames _ y hy
    simp only [List.map_map] at this
    exact loc_setKids hl y (by simpa [setKids, Function.comp] using this)
  | map a es =>
    simp only [searchStep, searchMap]
    split
    · intro y hy
      have := mem_searchNames _ y hy
      simp only [List.map_map] at this
      exact loc_mapKids hl hw.1 y (by simpa [mapKids, Function.comp] using this)
    · split
      · rename_i v hv
        intro y hy
        rw [mem_yieldIf hy]
        exact Loc.child _ _ _ v hl (by simpa [Node.child?] using hv) (by simp [prefOk])
      · split
        · exact allLoc_one hl
        · exact allLoc_nil
        · exact allLoc_fail _

mutual
theorem loc_preorder : (n : Node) → (c : Ctx) → Loc d n c → n.WF → ∀ x ∈ Spec.preorder n c, Loc d x.1 x.2
  | .scalar a v, c, hl, _ => by intro x hx; simp [Spec.preorder] at hx; subst hx; exact hl
  | .set a ms, c, hl, _ => by intro x hx; simp [Spec.preorder] at hx; subst hx; exact hl
  | .seq a items, c, hl, hw => by
      intro x hx
      simp only [Spec.preorder, List.mem_cons] at hx
      cases hx with
      | inl h => subst h; exact hl
      | inr h => exact loc_preSeq a c items items [] rfl hl hw x h
  | .map a es, c, hl, hw => by
      intro x hx
      simp only [Spec.preorder, List.mem_cons] at hx
      cases hx with
      | inl h => subst h; exact hl
      | inr h => exact loc_preMap a c es es (fun _ h => h) hw.1 hl hw.2 x h
theorem loc_preSeq (a : Option Str) (c : Ctx) (all : List Node) :
    (items pre : List Node) → all = pre ++ items → Loc d (.seq a all) c → WFList items →
      ∀ x ∈ Spec.preorder.preSeq c items pre.length, Loc d x.1 x.2
  | [], _, _, _, _ => by intro x hx; simp [Spec.preorder.preSeq] at hx
  | m :: ms, pre, hall, hl, hw => by
      intro x hx
      simp only [Spec.preorder.preSeq, List.mem_append] at hx
      simp only [WFList] at hw
      have hm : Loc d m (c.child (.idx pre.length) (.idx pre.length) (idxSection pre.length)) :=
        loc_seqKids hl (m :: ms) pre hall (m, _) (by simp [seqKidsFrom, Ctx.child])
      cases hx with
      | inl h => exact loc_preorder m _ hm hw.1 x h
      | inr h =>
        have := loc_preSeq a c all ms (pre ++ [m]) (by simp [hall]) hl hw.2 x (by simpa using h)
        exact this
theorem loc_preMap (a : Option Str) (c : Ctx) (all : List (Key × Node)) :
    (es : List (Key × Node)) → (∀ kv ∈ es, kv ∈ all) → (all.map (·.1)).Nodup → Loc d (.map a all) c →
      WFEntries es → ∀ x ∈ Spec.preorder.preMap c es, Loc d x.1 x.2
  | [], _, _, _, _ => by intro x hx; simp [Spec.preorder.preMap] at hx
  | (k, v) :: es, hsub, hnd, hl, hw => by
      intro x hx
      simp only [Spec.preorder.preMap, List.mem_append] at hx
      simp only [WFEntries] at hw
      have hv : Loc d v (c.child (.key k) (.key k) (escSection k.text)) :=
        loc_mapKids hl hnd (v, _) (by
          simp only [mapKids, List.mem_map]
          exact ⟨(k, v), hsub (k, v) (by simp), rfl⟩)
      cases hx with
      | inl h => exact loc_preorder v _ hv hw.1 x h
      | inr h => exact loc_preMap a c all es (fun kv h' => hsub kv (by simp [h'])) hnd hl hw.2 x h
end

theorem allLoc_leafAt {n : Node} {c : Ctx} (hl : Loc d n c) : AllLoc d (leafAt n c) := by
  cases n with
  | scalar a v => exact allLoc_one hl
  | seq a items => exact allLoc_nil
  | map a es => exact allLoc_nil
  | set a ms => exact allLoc_ofList (loc_setKids hl)

theorem allLoc_walk {f : Node → Ctx → Gen NC} {n : Node} {c : Ctx} (hl : Loc d n c) (hw : n.WF)
    (hf : ∀ m cm, Loc d m cm → AllLoc d (f m cm)) : AllLoc d (walk f n c) := by
  rw [walk_eq]
  intro y hy
  obtain ⟨x, hx, hy'⟩ := mem_bindList_fst hy
  exact hf x.1 x.2 (loc_preorder n c hl hw x hx) y hy'

/-- Every result of a segment applied at a located node is located. -/
theorem allResLoc_stepSeg {n : Node} {c : Ctx} (hl : Loc d n c) (hw : n.WF) (s : ESeg) (hs : s.isKeyword = false)
    (rest : List ESeg) (tl : Bool) :
    AllResLoc d (stepSeg mt dsc rt s rest tl n c) := by
  cases s with
  | key k => simp only [stepSeg]; exact allResLoc_real (allLoc_keyStep k tl n c hl)
  | index i => simp only [stepSeg]; exact allResLoc_real (allLoc_indexStep hl i)
  | slice lo hi => simp only [stepSeg]; exact allResLoc_sliceStep hl hw lo hi
  | anchor a => simp only [stepSeg]; exact allResLoc_real (allLoc_anchorStep hl hw a)
  | search inv m attr term => simp only [stepSeg]; exact allResLoc_real (allLoc_searchStep hl hw inv m attr term tl)
  | matchAll =>
    cases rest with
    | nil =>
      simp only [stepSeg, reals]
      intro r hr
      simp only [ofList, List.mem_map] at hr
      obtain ⟨x, hx, rfl⟩ := hr
      exact loc_kids hl hw x hx
    | cons nxt rest' =>
      simp only [stepSeg]
      exact allResLoc_real (fun x hx => loc_deepKids hl hw x (mem_filterFirst_fst hx))
  | traverse =>
    cases rest with
    | nil =>
      simp only [stepSeg]
      exact allResLoc_real (allLoc_walk hl hw (fun m cm h => allLoc_leafAt h))
    | cons nxt rest' =>
      simp only [stepSeg]
      refine allResLoc_real (allLoc_walk hl hw (fun m cm h y hy => ?_))
      rw [mem_ifAny_fst hy]
      exact h
  | keyword inv k p => simp [ESeg.isKeyword] at hs
  | collector e op => intro r hr; simp [stepSeg, fail] at hr
  | unknown => intro r hr; simp [stepSeg, fail] at hr

theorem allResLoc_stepVirt {items : List NC} (hl : ∀ x ∈ items, Loc d x.1 x.2) (s : ESeg) :
    AllResLoc d (stepVirt s items) := by
  unfold stepVirt
  split
  · split
    · refine allResLoc_real (fun y hy => ?_)
      obtain ⟨x, hx, hy'⟩ := mem_bindList_fst hy
      exact allLoc_keyStep _ true x.1 x.2 (hl x hx) y hy'
    · intro r hr; simp [fail] at hr
  · intro r hr; simp [fail] at hr

/-- Every result of `_get_required_nodes` started at a located result of a well-formed document is
located. -/
theorem allResLoc_required (hd : d.WF) : ∀ (segs : List ESeg), (∀ s ∈ segs, s.isKeyword = false) →
    ∀ (r : Res), ResLoc d r → AllResLoc d (required mt dsc rt segs r) := by
  intro segs
  induction segs with
  | nil => intro _ r hr y hy; simp [required, one] at hy; subst hy; exact hr
  | cons s rest ih =>
    intro hk r hr y hy
    simp only [required] at hy
    obtain ⟨x, hx, hy'⟩ := mem_bind_fst hy
    refine ih (fun s' hs' => hk s' (by simp [hs'])) x ?_ y hy'
    cases r with
    | real nc => exact allResLoc_stepSeg hr (Loc.wf hr hd) s (hk s (by simp)) rest true x hx
    | virt items => exact allResLoc_stepVirt hr s x hx

end Eval
end Ypv
