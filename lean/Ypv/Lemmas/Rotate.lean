import Ypv.Model.Rotate
/-!
# Lemmas about the rotation model (C19)
-/
namespace Ypv.Rotate
open Ypv

/-! ### pointwise relation between a document and its rotated image -/

mutual
/-- same shape, same keys, same order, same anchors; scalars related by `P` -/
def Rel (P : Scalar → Scalar → Prop) : Node → Node → Prop
  | .scalar a v, .scalar a' v' => a = a' ∧ P v v'
  | .seq a xs, .seq a' ys => a = a' ∧ RelL P xs ys
  | .map a es, .map a' fs => a = a' ∧ RelE P es fs
  | .set a ms, .set a' ms' => a = a' ∧ ms = ms'
  | _, _ => False
def RelL (P : Scalar → Scalar → Prop) : List Node → List Node → Prop
  | [], [] => True
  | x :: xs, y :: ys => Rel P x y ∧ RelL P xs ys
  | _, _ => False
def RelE (P : Scalar → Scalar → Prop) : List (Key × Node) → List (Key × Node) → Prop
  | [], [] => True
  | (k, x) :: es, (k', y) :: fs => k = k' ∧ Rel P x y ∧ RelE P es fs
  | _, _ => False
end

/-- What the property asks of one scalar: an encrypted value becomes a value that the tool
decrypts under the new key to the same plaintext and no longer decrypts under the old key (and
still carries the marker); anything else is untouched. -/
def Good (C : Cipher) (old new : Str) (v v' : Scalar) : Prop :=
  if isSecret v = true then
    ∃ s s' p, v = .str s ∧ v' = .str s' ∧ decryptValue C old s = some p ∧
      decryptValue C new s' = some p ∧ decryptValue C old s' = none ∧ isEyaml s' = true
  else v' = v

mutual
/-- Well-formed input: nodes carrying one anchor name are one node (`tbl`), and no plaintext
looks encrypted itself (known finding C19-F2). -/
def WF (C : Cipher) (old : Str) (tbl : Str → Option Node) : Node → Prop
  | .scalar a v =>
    (∀ an, a = some an → tbl an = some (.scalar a v)) ∧
    (∀ s p, v = .str s → decryptValue C old s = some p → isEyaml p = false)
  | .seq a xs => (∀ an, a = some an → tbl an = some (.seq a xs)) ∧ WFL C old tbl xs
  | .map a es => (∀ an, a = some an → tbl an = some (.map a es)) ∧ WFE C old tbl es
  | .set _ _ => True
def WFL (C : Cipher) (old : Str) (tbl : Str → Option Node) : List Node → Prop
  | [] => True
  | x :: xs => WF C old tbl x ∧ WFL C old tbl xs
def WFE (C : Cipher) (old : Str) (tbl : Str → Option Node) : List (Key × Node) → Prop
  | [] => True
  | (_, x) :: es => WF C old tbl x ∧ WFE C old tbl es
end

/-- Invariant of the rotation loop: a recorded node is the rotated image of the node its anchor names. -/
def Inv (C : Cipher) (old new : Str) (tbl : Str → Option Node) (seen : List (Str × Node)) : Prop :=
  ∀ an n', seen.lookup an = some n' → ∀ n, tbl an = some n → Rel (Good C old new) n n'

/-- The cipher laws the theorems assume (hypotheses, never axioms).  `decryptValue` is the tool's
own notion of "the plaintext of a value under a key". -/
structure Laws (C : Cipher) (old new : Str) : Prop where
  /-- what was encrypted under the new key decrypts under the new key to the same plaintext -/
  roundtrip : ∀ n s p, decryptValue C old s = some p → isEyaml p = false →
    decryptValue C new (C.enc new n p) = some p
  /-- … and does not decrypt under the old key -/
  wrongKey : ∀ n p, decryptValue C old (C.enc new n p) = none
  /-- a ciphertext carries the marker -/
  marked : ∀ n p, isEyaml (C.enc new n p) = true

theorem rotValue_seen (C : Cipher) (old new : Str) (s : Str) (st : St) :
    (rotValue C old new s st).2.seen = st.seen := by
  unfold rotValue
  split
  · rfl
  · split
    · rfl
    · rfl

theorem rotValue_failed_mono (C : Cipher) (old new : Str) (s : Str) (st : St) (h : st.failed = true) :
    (rotValue C old new s st).2.failed = true := by
  unfold rotValue
  split
  · rfl
  · split
    · rfl
    · exact h

mutual
/-- a failure is never forgotten -/
theorem rotNode_failed_mono (C : Cipher) (old new : Str) :
    ∀ (n : Node) (st : St), st.failed = true → (rotNode C old new n st).2.failed = true
  | .scalar a v, st, h => by
    unfold rotNode
    cases v with
    | str s =>
      simp only []
      split
      · cases a with
        | none => exact rotValue_failed_mono C old new s st h
        | some an =>
          simp only []
          split
          · exact h
          · exact rotValue_failed_mono C old new s st h
      · exact h
    | _ => exact h
  | .seq a xs, st, h => by
    unfold rotNode
    cases a with
    | none => exact rotList_failed_mono C old new xs st h
    | some an =>
      simp only []
      split
      · simp [h]
      · exact rotList_failed_mono C old new xs st h
  | .map a es, st, h => by
    unfold rotNode
    cases a with
    | none => exact rotEntries_failed_mono C old new es st h
    | some an =>
      simp only []
      split
      · simp [h]
      · exact rotEntries_failed_mono C old new es st h
  | .set a ms, st, h => by
    unfold rotNode; exact h
theorem rotList_failed_mono (C : Cipher) (old new : Str) :
    ∀ (xs : List Node) (st : St), st.failed = true → (rotList C old new xs st).2.failed = true
  | [], st, h => by unfold rotList; exact h
  | x :: xs, st, h => by
    unfold rotList
    exact rotList_failed_mono C old new xs _ (rotNode_failed_mono C old new x st h)
theorem rotEntries_failed_mono (C : Cipher) (old new : Str) :
    ∀ (es : List (Key × Node)) (st : St), st.failed = true → (rotEntries C old new es st).2.failed = true
  | [], st, h => by unfold rotEntries; exact h
  | (k, x) :: es, st, h => by
    unfold rotEntries
    exact rotEntries_failed_mono C old new es _ (rotNode_failed_mono C old new x st h)
end

/-- One secret: if the loop has not failed afterwards, the value was re-keyed. -/
theorem rotValue_good (C : Cipher) (old new : Str) (L : Laws C old new) (s : Str) (st : St)
    (hs : isEyaml s = true)
    (hp : ∀ p, decryptValue C old s = some p → isEyaml p = false)
    (hf : (rotValue C old new s st).2.failed = false) :
    Good C old new (.str s) (rotValue C old new s st).1 ∧ st.failed = false := by
  unfold rotValue at hf ⊢
  cases hdec : decryptValue C old s with
  | none => simp [hdec] at hf
  | some p =>
    have hpe := hp p hdec
    simp only [hdec] at hf ⊢
    by_cases hne : pyRstrip (C.enc new st.nonce p) = []
    · have henc : encryptValue C new st.nonce p = none := by simp [encryptValue, hpe, hne]
      simp [henc] at hf
    · have henc : encryptValue C new st.nonce p = some (C.enc new st.nonce p, true) := by
        simp [encryptValue, hpe, hne]
      simp only [henc] at hf ⊢
      refine ⟨?_, hf⟩
      unfold Good
      simp only [isSecret, hs, if_true]
      exact ⟨s, _, p, rfl, rfl, hdec, L.roundtrip _ _ _ hdec hpe, L.wrongKey _ _, L.marked _ _⟩

theorem good_of_not_secret (C : Cipher) (old new : Str) (v : Scalar) (h : isSecret v = false) :
    Good C old new v v := by
  unfold Good; simp [h]

theorem inv_cons (C : Cipher) (old new : Str) (tbl : Str → Option Node) (seen : List (Str × Node))
    (an : Str) (n n' : Node) (hinv : Inv C old new tbl seen) (ht : tbl an = some n)
    (hr : Rel (Good C old new) n n') : Inv C old new tbl ((an, n') :: seen) := by
  intro an' m' hl m hm
  rw [List.lookup_cons] at hl
  by_cases h : an' = an
  · subst h
    simp at hl
    subst hl
    rw [ht] at hm
    cases hm
    exact hr
  · have : (an' == an) = false := by simp [h]
    rw [this] at hl
    exact hinv an' m' hl m hm

mutual
/-- The loop invariant: if the loop has not failed after a node, the node's image is pointwise
`Good`, the recorded images stay correct, and the loop had not failed before. -/
theorem rotNode_ok (C : Cipher) (old new : Str) (L : Laws C old new) (tbl : Str → Option Node) :
    ∀ (n : Node) (st : St), WF C old tbl n → Inv C old new tbl st.seen →
      (rotNode C old new n st).2.failed = false →
      Rel (Good C old new) n (rotNode C old new n st).1 ∧
      Inv C old new tbl (rotNode C old new n st).2.seen ∧ st.failed = false
  | .scalar a v, st, hwf, hinv, hf => by
    unfold WF at hwf
    cases v with
    | str s =>
      unfold rotNode at hf ⊢
      simp only [] at hf ⊢
      by_cases hs : isEyaml s = true
      · simp only [hs, if_true] at hf ⊢
        have hp : ∀ p, decryptValue C old s = some p → isEyaml p = false := fun p => hwf.2 s p rfl
        cases a with
        | none =>
          simp only [] at hf ⊢
          have h := rotValue_good C old new L s st hs hp hf
          exact ⟨by unfold Rel; exact ⟨rfl, h.1⟩, by rw [rotValue_seen]; exact hinv, h.2⟩
        | some an =>
          simp only [] at hf ⊢
          have htbl := hwf.1 an rfl
          cases hl : st.seen.lookup an with
          | some n' =>
            simp only [hl] at hf ⊢
            exact ⟨hinv an n' hl _ htbl, hinv, hf⟩
          | none =>
            simp only [hl] at hf ⊢
            have h := rotValue_good C old new L s st hs hp hf
            have hr : Rel (Good C old new) (.scalar (some an) (.str s))
                (.scalar (some an) (rotValue C old new s st).1) := by
              unfold Rel; exact ⟨rfl, h.1⟩
            refine ⟨hr, ?_, h.2⟩
            apply inv_cons C old new tbl _ an _ _ _ htbl hr
            rw [rotValue_seen]; exact hinv
      · have hs' : isEyaml s = false := by simpa using hs
        simp only [hs', Bool.false_eq_true, if_false] at hf ⊢
        exact ⟨by unfold Rel; exact ⟨rfl, good_of_not_secret _ _ _ _ (by simp [isSecret, hs'])⟩, hinv, hf⟩
    | _ =>
      unfold rotNode at hf ⊢
      simp only [] at hf ⊢
      exact ⟨by unfold Rel; exact ⟨rfl, good_of_not_secret _ _ _ _ rfl⟩, hinv, hf⟩
  | .seq a xs, st, hwf, hinv, hf => by
    unfold WF at hwf
    unfold rotNode at hf ⊢
    cases a with
    | none =>
      simp only [] at hf ⊢
      have h := rotList_ok C old new L tbl xs st hwf.2 hinv hf
      exact ⟨by unfold Rel; exact ⟨rfl, h.1⟩, h.2.1, h.2.2⟩
    | some an =>
      simp only [] at hf ⊢
      have htbl := hwf.1 an rfl
      cases hl : st.seen.lookup an with
      | some n' =>
        simp only [hl] at hf ⊢
        have hf' : st.failed = false := by
          cases hst : st.failed <;> simp [hst] at hf ⊢
        exact ⟨hinv an n' hl _ htbl, hinv, hf'⟩
      | none =>
        simp only [hl] at hf ⊢
        have h := rotList_ok C old new L tbl xs st hwf.2 hinv hf
        have hr : Rel (Good C old new) (.seq (some an) xs) (.seq (some an) (rotList C old new xs st).1) := by
          unfold Rel; exact ⟨rfl, h.1⟩
        exact ⟨hr, inv_cons C old new tbl _ an _ _ h.2.1 htbl hr, h.2.2⟩
  | .map a es, st, hwf, hinv, hf => by
    unfold WF at hwf
    unfold rotNode at hf ⊢
    cases a with
    | none =>
      simp only [] at hf ⊢
      have h := rotEntries_ok C old new L tbl es st hwf.2 hinv hf
      exact ⟨by unfold Rel; exact ⟨rfl, h.1⟩, h.2.1, h.2.2⟩
    | some an =>
      simp only [] at hf ⊢
      have htbl := hwf.1 an rfl
      cases hl : st.seen.lookup an with
      | some n' =>
        simp only [hl] at hf ⊢
        have hf' : st.failed = false := by
          cases hst : st.failed <;> simp [hst] at hf ⊢
        exact ⟨hinv an n' hl _ htbl, hinv, hf'⟩
      | none =>
        simp only [hl] at hf ⊢
        have h := rotEntries_ok C old new L tbl es st hwf.2 hinv hf
        have hr : Rel (Good C old new) (.map (some an) es) (.map (some an) (rotEntries C old new es st).1) := by
          unfold Rel; exact ⟨rfl, h.1⟩
        exact ⟨hr, inv_cons C old new tbl _ an _ _ h.2.1 htbl hr, h.2.2⟩
  | .set a ms, st, _, hinv, hf => by
    unfold rotNode at hf ⊢
    exact ⟨by unfold Rel; exact ⟨rfl, rfl⟩, hinv, hf⟩
theorem rotList_ok (C : Cipher) (old new : Str) (L : Laws C old new) (tbl : Str → Option Node) :
    ∀ (xs : List Node) (st : St), WFL C old tbl xs → Inv C old new tbl st.seen →
      (rotList C old new xs st).2.failed = false →
      RelL (Good C old new) xs (rotList C old new xs st).1 ∧
      Inv C old new tbl (rotList C old new xs st).2.seen ∧ st.failed = false
  | [], st, _, hinv, hf => by
    unfold rotList at hf ⊢
    exact ⟨by unfold RelL; trivial, hinv, hf⟩
  | x :: xs, st, hwf, hinv, hf => by
    unfold WFL at hwf
    unfold rotList at hf ⊢
    simp only [] at hf ⊢
    have h2 := rotList_ok C old new L tbl xs (rotNode C old new x st).2 hwf.2
    have h1 := rotNode_ok C old new L tbl x st hwf.1 hinv
    by_cases hmid : (rotNode C old new x st).2.failed = false
    · have a1 := h1 hmid
      have a2 := h2 a1.2.1 hf
      exact ⟨by unfold RelL; exact ⟨a1.1, a2.1⟩, a2.2.1, a1.2.2⟩
    · exfalso
      -- the invariant part is not needed to see that a failure persists
      have : (rotNode C old new x st).2.failed = true := by simpa using hmid
      exact absurd (rotList_failed_mono C old new xs _ this) (by rw [hf]; simp)
theorem rotEntries_ok (C : Cipher) (old new : Str) (L : Laws C old new) (tbl : Str → Option Node) :
    ∀ (es : List (Key × Node)) (st : St), WFE C old tbl es → Inv C old new tbl st.seen →
      (rotEntries C old new es st).2.failed = false →
      RelE (Good C old new) es (rotEntries C old new es st).1 ∧
      Inv C old new tbl (rotEntries C old new es st).2.seen ∧ st.failed = false
  | [], st, _, hinv, hf => by
    unfold rotEntries at hf ⊢
    exact ⟨by unfold RelE; trivial, hinv, hf⟩
  | (k, x) :: es, st, hwf, hinv, hf => by
    unfold WFE at hwf
    unfold rotEntries at hf ⊢
    simp only [] at hf ⊢
    have h2 := rotEntries_ok C old new L tbl es (rotNode C old new x st).2 hwf.2
    have h1 := rotNode_ok C old new L tbl x st hwf.1 hinv
    by_cases hmid : (rotNode C old new x st).2.failed = false
    · have a1 := h1 hmid
      have a2 := h2 a1.2.1 hf
      exact ⟨by unfold RelE; exact ⟨rfl, a1.1, a2.1⟩, a2.2.1, a1.2.2⟩
    · exfalso
      have : (rotNode C old new x st).2.failed = true := by simpa using hmid
      exact absurd (rotEntries_failed_mono C old new es _ this) (by rw [hf]; simp)
end


/-! ### the frame: everything but the text of secrets -/

mutual
/-- the document with the text of every encrypted scalar blanked -/
def mask : Node → Node
  | .scalar a v => .scalar a (if isSecret v then .str [] else v)
  | .seq a xs => .seq a (maskL xs)
  | .map a es => .map a (maskE es)
  | .set a ms => .set a ms
def maskL : List Node → List Node
  | [] => []
  | x :: xs => mask x :: maskL xs
def maskE : List (Key × Node) → List (Key × Node)
  | [] => []
  | (k, x) :: es => (k, mask x) :: maskE es
end

theorem good_mask (C : Cipher) (old new : Str) (v v' : Scalar) (h : Good C old new v v') :
    (if isSecret v' then Scalar.str [] else v') = (if isSecret v then Scalar.str [] else v) := by
  unfold Good at h
  by_cases hs : isSecret v = true
  · simp only [hs, if_true] at h ⊢
    obtain ⟨s, s', p, _, rfl, _, _, _, hm⟩ := h
    simp [isSecret, hm]
  · simp only [hs] at h ⊢
    subst h
    simp [hs]

mutual
theorem mask_of_rel (C : Cipher) (old new : Str) :
    ∀ (n n' : Node), Rel (Good C old new) n n' → mask n' = mask n
  | .scalar a v, .scalar a' v', h => by
    unfold Rel at h; unfold mask; rw [h.1, good_mask C old new v v' h.2]
  | .seq a xs, .seq a' ys, h => by
    unfold Rel at h; unfold mask; rw [h.1, maskL_of_rel C old new xs ys h.2]
  | .map a es, .map a' fs, h => by
    unfold Rel at h; unfold mask; rw [h.1, maskE_of_rel C old new es fs h.2]
  | .set a ms, .set a' ms', h => by
    unfold Rel at h; unfold mask; rw [h.1, h.2]
  | .scalar .., .seq .., h | .scalar .., .map .., h | .scalar .., .set .., h
  | .seq .., .scalar .., h | .seq .., .map .., h | .seq .., .set .., h
  | .map .., .scalar .., h | .map .., .seq .., h | .map .., .set .., h
  | .set .., .scalar .., h | .set .., .seq .., h | .set .., .map .., h => by
    unfold Rel at h; exact h.elim
theorem maskL_of_rel (C : Cipher) (old new : Str) :
    ∀ (xs ys : List Node), RelL (Good C old new) xs ys → maskL ys = maskL xs
  | [], [], _ => rfl
  | x :: xs, y :: ys, h => by
    unfold RelL at h; unfold maskL; rw [mask_of_rel C old new x y h.1, maskL_of_rel C old new xs ys h.2]
  | [], _ :: _, h | _ :: _, [], h => by unfold RelL at h; exact h.elim
theorem maskE_of_rel (C : Cipher) (old new : Str) :
    ∀ (es fs : List (Key × Node)), RelE (Good C old new) es fs → maskE fs = maskE es
  | [], [], _ => rfl
  | (k, x) :: es, (k', y) :: fs, h => by
    unfold RelE at h; unfold maskE
    rw [h.1, mask_of_rel C old new x y h.2.1, maskE_of_rel C old new es fs h.2.2]
  | [], _ :: _, h | _ :: _, [], h => by unfold RelE at h; exact h.elim
end

/-! ### a document without secrets -/

mutual
theorem rotNode_noSecret (C : Cipher) (old new : Str) :
    ∀ (n : Node) (st : St), noSecret n = true →
      (rotNode C old new n st).2.changed = st.changed ∧ (rotNode C old new n st).2.nonce = st.nonce ∧
      (rotNode C old new n st).2.decs = st.decs
  | .scalar a v, st, h => by
    unfold noSecret at h
    unfold rotNode
    cases v with
    | str s =>
      have hs : isEyaml s = false := by simpa [isSecret] using h
      simp [hs]
    | _ => simp
  | .seq a xs, st, h => by
    unfold noSecret at h
    unfold rotNode
    cases a with
    | none => exact rotList_noSecret C old new xs st h
    | some an =>
      simp only []
      split
      · simp
      · exact rotList_noSecret C old new xs st h
  | .map a es, st, h => by
    unfold noSecret at h
    unfold rotNode
    cases a with
    | none => exact rotEntries_noSecret C old new es st h
    | some an =>
      simp only []
      split
      · simp
      · exact rotEntries_noSecret C old new es st h
  | .set a ms, st, _ => by unfold rotNode; simp
theorem rotList_noSecret (C : Cipher) (old new : Str) :
    ∀ (xs : List Node) (st : St), noSecretL xs = true →
      (rotList C old new xs st).2.changed = st.changed ∧ (rotList C old new xs st).2.nonce = st.nonce ∧
      (rotList C old new xs st).2.decs = st.decs
  | [], st, _ => by unfold rotList; simp
  | x :: xs, st, h => by
    unfold noSecretL at h
    rw [Bool.and_eq_true] at h
    unfold rotList
    have h1 := rotNode_noSecret C old new x st h.1
    have h2 := rotList_noSecret C old new xs (rotNode C old new x st).2 h.2
    exact ⟨h2.1.trans h1.1, h2.2.1.trans h1.2.1, h2.2.2.trans h1.2.2⟩
theorem rotEntries_noSecret (C : Cipher) (old new : Str) :
    ∀ (es : List (Key × Node)) (st : St), noSecretE es = true →
      (rotEntries C old new es st).2.changed = st.changed ∧ (rotEntries C old new es st).2.nonce = st.nonce ∧
      (rotEntries C old new es st).2.decs = st.decs
  | [], st, _ => by unfold rotEntries; simp
  | (k, x) :: es, st, h => by
    unfold noSecretE at h
    rw [Bool.and_eq_true] at h
    unfold rotEntries
    have h1 := rotNode_noSecret C old new x st h.1
    have h2 := rotEntries_noSecret C old new es (rotNode C old new x st).2 h.2
    exact ⟨h2.1.trans h1.1, h2.2.1.trans h1.2.1, h2.2.2.trans h1.2.2⟩
end

end Ypv.Rotate
