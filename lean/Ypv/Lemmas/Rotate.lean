import Ypv.Model.Rotate
/-!
# Lemmas about the rotation model (C19)
-/
namespace Ypv.Rotate
open Ypv

/-! ### pointwise relation between a document and its rotated image -/

mutual
/-- same shape, same keys, same order, same anchors; scalars related by `P` -/
def Rel (P : Scalar → Scalar → Prop) : Node → Node → Prop
  | .scalar a v, .scalar a' v' => a = a' ∧ P v v'
  | .seq a xs, .seq a' ys => a = a' ∧ RelL P xs ys
  | .map a es, .map a' fs => a = a' ∧ RelE P es fs
  | .set a ms, .set a' ms' => a = a' ∧ ms = ms'
  | _, _ => False
def RelL (P : Scalar → Scalar → Prop) : List Node → List Node → Prop
  | [], [] => True
  | x :: xs, y :: ys => Rel P x y ∧ RelL P xs ys
  | _, _ => False
def RelE (P : Scalar → Scalar → Prop) : List (Key × Node) → List (Key × Node) → Prop
  | [], [] => True
  | (k, x) :: es, (k', y) :: fs => k = k' ∧ Rel P x y ∧ RelE P es fs
  | _, _ => False
end

/-- What the property asks of one scalar: an encrypted value becomes a value that the tool
decrypts under the new key to the same plaintext and no longer decrypts under the old key (and
still carries the marker); anything else is untouched. -/
def Good (C : Cipher) (old new : Str) (v v' : Scalar) : Prop :=
  if isSecret v = true then
    ∃ s s' p, v = .str s ∧ v' = .str s' ∧ decryptValue C old s = some p ∧
      decryptValue C new s' = some p ∧ decryptValue C old s' = none ∧ isEyaml s' = true
  else v' = v

mutual
/-- Well-formed input: nodes carrying one anchor name are one node (`tbl`), and no plaintext
looks encrypted itself (known finding C19-F2). -/
def WF (C : Cipher) (old : Str) (tbl : Str → Option Node) : Node → Prop
  | .scalar a v =>
    (∀ an, a = some an → tbl an = some (.scalar a v)) ∧
    (∀ s p, v = .str s → decryptValue C old s = some p → isEyaml p = false)
  | .seq a xs => (∀ an, a = some an → tbl an = some (.seq a xs)) ∧ WFL C old tbl xs
  | .map a es => (∀ an, a = some an → tbl an = some (.map a es)) ∧ WFE C old tbl es
  | .set _ _ => True
def WFL (C : Cipher) (old : Str) (tbl : Str → Option Node) : List Node → Prop
  | [] => True
  | x :: xs => WF C old tbl x ∧ WFL C old tbl xs
def WFE (C : Cipher) (old : Str) (tbl : Str → Option Node) : List (Key × Node) → Prop
  | [] => True
  | (_, x) :: es => WF C old tbl x ∧ WFE C old tbl es
end

/-- Invariant of the rotation loop: a recorded node is the rotated image of the node its anchor names. -/
def Inv (C : Cipher) (old new : Str) (tbl : Str → Option Node) (seen : List (Str × Node)) : Prop :=
  ∀ an n', seen.lookup an = some n' → ∀ n, tbl an = some n → Rel (Good C old new) n n'

/-- The cipher laws the theorems assume (hypotheses, never axioms).  `decryptValue` is the tool's
own notion of "the plaintext of a value under a key". -/
structure Laws (C : Cipher) (old new : Str) : Prop where
  /-- what was encrypted under the new key decrypts under the new key to the same plaintext -/
  roundtrip : ∀ n s p, decryptValue C old s = some p → isEyaml p = false →
    decryptValue C new (C.enc new n p) = some p
  /-- … and does not decrypt under the old key -/
  wrongKey : ∀ n p, decryptValue C old (C.enc new n p) = none
  /-- a ciphertext carries the marker -/
  marked : ∀ n p, isEyaml (C.enc new n p) = true

theorem rotValue_seen (C : Cipher) (old new : Str) (s : Str) (st : St) :
    (rotValue C old new s st).2.seen = st.seen := by
  unfold rotValue
  split
  · rfl
  · split
    · rfl
    · rfl

theorem rotValue_failed_mono (C : Cipher) (old new : Str) (s : Str) (st : St) (h : st.failed = true) :
    (rotValue C old new s st).2.failed = true := by
  unfold rotValue
  split
  · rfl
  · split
    · rfl
    · exact h

mutual
/-- a failure is never forgotten -/
theorem rotNode_failed_mono (C : Cipher) (old new : Str) :
    ∀ (n : Node) (st : St), st.failed = true → (rotNode C old new n st).2.failed = true
  | .scalar a v, st, h => by
    unfold rotNode
    cases v with
    | str s =>
      simp only []
      split
      · cases a with
        | none => exact rotValue_failed_mono C old new s st h
        | some an =>
          simp only []
          split
          · exact h
          · exact rotValue_failed_mono C old new s st h
      · exact h
    | _ => exact h
  | .seq a xs, st, h => by
    unfold rotNode
    cases a with
    | none => exact rotList_failed_mono C old new xs st h
    | some an =>
      simp only []
      split
      · simp [h]
      · exact rotList_failed_mono C old new xs st h
  | .map a es, st, h => by
    unfold rotNode
    cases a with
    | none => exact rotEntries_failed_mono C old new es st h
    | some an =>
      simp only []
      split
      · simp [h]
      · exact rotEntries_failed_mono C old new es st h
  | .set a ms, st, h => by
    unfold rotNode; exact h
theorem rotList_failed_mono (C : Cipher) (old new : Str) :
    ∀ (xs : List Node) (st : St), st.failed = true → (rotList C old new xs st).2.failed = true
  | [], st, h => by unfold rotList; exact h
  | x :: xs, st, h => by
    unfold rotList
    exact rotList_failed_mono C old new xs _ (rotNode_failed_mono C old new x st h)
theorem rotEntries_failed_mono (C : Cipher) (old new : Str) :
    ∀ (es : List (Key × Node)) (st : St), st.failed = true → (rotEntries C old new es st).2.failed = true
  | [], st, h => by unfold rotEntries; exact h
  | (k, x) :: es, st, h => by
    unfold rotEntries
    exact rotEntries_failed_mono C old new es _ (rotNode_failed_mono C old new x st h)
end

/-- One secret: if the loop has not failed afterwards, the value was re-keyed. -/
theorem rotValue_good (C : Cipher) (old new : Str) (L : Laws C old new) (s : Str) (st : St)
    (hs : isEyaml s = true)
    (hp : ∀ p, decryptValue C old s = some p → isEyaml p = false)
    (hf : (rotValue C old new s st).2.failed = false) :
    Good C old new (.str s) (rotValue C old new s st).1 ∧ st.failed = false := by
  unfold rotValue at hf ⊢
  cases hdec : decryptValue C old s with
  | none => simp [hdec] at hf
  | some p =>
    have hpe := hp p hdec
    simp only [hdec] at hf ⊢
    by_cases hne : pyRstrip (C.enc new st.nonce p) = []
    · have henc : encryptValue C new st.nonce p = none := by simp [encryptValue, hpe, hne]
      simp [henc] at hf
    · have henc : encryptValue C new st.nonce p = some (C.enc new st.nonce p, true) := by
        simp [encryptValue, hpe, hne]
      simp only [henc] at hf ⊢
      refine ⟨?_, hf⟩
      unfold Good
      simp only [isSecret, hs, if_true]
      exact ⟨s, _, p, rfl, rfl, hdec, L.roundtrip _ _ _ hdec hpe, L.wrongKey _ _, L.marked _ _⟩

theorem good_of_not_secret (C : Cipher) (old new : Str) (v : Scalar) (h : isSecret v = false) :
    Good C old new v v := by
  unfold Good; simp [h]

theorem inv_cons (C : Cipher) (old new : Str) (tbl : Str → Option Node) (seen : List (Str × Node))
    (an : Str) (n n' : Node) (hinv : Inv C old new tbl seen) (ht : tbl an = some n)
    (hr : Rel (Good C old new) n n') : Inv C old new tbl ((an, n') :: seen) := by
  intro an' m' hl m hm
  rw [List.lookup_cons] at hl
  by_cases h : an' = an
  · subst h
    simp at hl
    subst hl
    rw [ht] at hm
    cases hm
    exact hr
  · have : (an' == an) = false := by simp [h]
    rw [this] at hl
    exact hinv an' m' hl m hm

mutual
/-- The loop invariant: if the loop has not failed after a node, the node's image is pointwise
`Good`, the recorded images stay correct, and the loop had not failed before. -/
theorem rotNode_ok (C : Cipher) (old new : Str) (L : Laws C old new) (tbl : Str → Option Node) :
    ∀ (n : Node) (st : St), WF C old tbl n → Inv C old new tbl st.seen →
      (rotNode C old new n st).2.failed = false →
      Rel (Good C old new) n (rotNode C old new n st).1 ∧
      Inv C old new tbl (rotNode C old new n st).2.seen ∧ st.failed = false
  | .scalar a v, st, hwf, hinv, hf => by
    unfold WF at hwf
    cases v with
    | str s =>
      unfold rotNode at hf ⊢
      simp only [] at hf ⊢
      by_cases hs : isEyaml s = true
      · simp only [hs, if_true] at hf ⊢
        have hp : ∀ p, decryptValue C old s = some p → isEyaml p = false := fun p => hwf.2 s p rfl
        cases a with
        | none =>
          simp only [] at hf ⊢
          have h := rotValue_good C old new L s st hs hp hf
          exact ⟨by unfold Rel; exact ⟨rfl, h.1⟩, by rw [rotValue_seen]; exact hinv, h.2⟩
        | some an =>
          simp only [] at hf ⊢
          have htbl := hwf.1 an rfl
          cases hl : st.seen.lookup an with
          | some n' =>
            simp only [hl] at hf ⊢
            exact ⟨hinv an n' hl _ htbl, hinv, hf⟩
          | none =>
            simp only [hl] at hf ⊢
            have h := rotValue_good C old new L s st hs hp hf
            have hr : Rel (Good C old new) (.scalar (some an) (.str s))
                (.scalar (some an) (rotValue C old new s st).1) := by
              unfold Rel; exact ⟨rfl, h.1⟩
            refine ⟨hr, ?_, h.2⟩
            apply inv_cons C old new tbl _ an _ _ _ htbl hr
            rw [rotValue_seen]; exact hinv
      · have hs' : isEyaml s = false := by simpa using hs
        simp only [hs', Bool.false_eq_true, if_false] at hf ⊢
        exact ⟨by unfold Rel; exact ⟨rfl, good_of_not_secret _ _ _ _ (by simp [isSecret, hs'])⟩, hinv, hf⟩
    | _ =>
      unfold rotNode at hf ⊢
      simp only [] at hf ⊢
      exact ⟨by unfold Rel; exact ⟨rfl, good_of_not_secret _ _ _ _ rfl⟩, hinv, hf⟩
  | .seq a xs, st, hwf, hinv, hf => by
    unfold WF at hwf
    unfold rotNode at hf ⊢
    cases a with
    | none =>
      simp only [] at hf ⊢
      have h := rotList_ok C old new L tbl xs st hwf.2 hinv hf
      exact ⟨by unfold Rel; exact ⟨rfl, h.1⟩, h.2.1, h.2.2⟩
    | some an =>
      simp only [] at hf ⊢
      have htbl := hwf.1 an rfl
      cases hl : st.seen.lookup an with
      | some n' =>
        simp only [hl] at hf ⊢
        have hf' : st.failed = false := by
          cases hst : st.failed <;> simp [hst] at hf ⊢
        exact ⟨hinv an n' hl _ htbl, hinv, hf'⟩
      | none =>
        simp only [hl] at hf ⊢
        have h := rotList_ok C old new L tbl xs st hwf.2 hinv hf
        have hr : Rel (Good C old new) (.seq (some an) xs) (.seq (some an) (rotList C old new xs st).1) := by
          unfold Rel; exact ⟨rfl, h.1⟩
        exact ⟨hr, inv_cons C old new tbl _ an _ _ h.2.1 htbl hr, h.2.2⟩
  | .map a es, st, hwf, hinv, hf => by
    unfold WF at hwf
    unfold rotNode at hf ⊢
    cases a with
    | none =>
      simp only [] at hf ⊢
      have h := rotEntries_ok C old new L tbl es st hwf.2 hinv hf
      exact ⟨by unfold Rel; exact ⟨rfl, h.1⟩, h.2.1, h.2.2⟩
    | some an =>
      simp only [] at hf ⊢
      have htbl := hwf.1 an rfl
      cases hl : st.seen.lookup an with
      | some n' =>
        simp only [hl] at hf ⊢
        have hf' : st.failed = false := by
          cases hst : st.failed <;> simp [hst] at hf ⊢
        exact ⟨hinv an n' hl _ htbl, hinv, hf'⟩
      | none =>
        simp only [hl] at hf ⊢
        have h := rotEntries_ok C old new L tbl es st hwf.2 hinv hf
        have hr : Rel (Good C old new) (.map (some an) es) (.map (some an) (rotEntries C old new es st).1) := by
          unfold Rel; exact ⟨rfl, h.1⟩
        exact ⟨hr, inv_cons C old new tbl _ an _ _ h.2.1 htbl hr, h.2.2⟩
  | .set a ms, st, _, hinv, hf => by
    unfold rotNode at hf ⊢
    exact ⟨by unfold Rel; exact ⟨rfl, rfl⟩, hinv, hf⟩
theorem rotList_ok (C : Cipher) (old new : Str) (L : Laws C old new) (tbl : Str → Option Node) :
    ∀ (xs : List Node) (st : St), WFL C old tbl xs → Inv C old new tbl st.seen →
      (rotList C old new xs st).2.failed = false →
      RelL (Good C old new) xs (rotList C old new xs st).1 ∧
      Inv C old new tbl (rotList C old new xs st).2.seen ∧ st.failed = false
  | [], st, _, hinv, hf => by
    unfold rotList at hf ⊢
    exact ⟨by unfold RelL; trivial, hinv, hf⟩
  | x :: xs, st, hwf, hinv, hf => by
    unfold WFL at hwf
    unfold rotList at hf ⊢
    simp only [] at hf ⊢
    have h2 := rotList_ok C old new L tbl xs (rotNode C old new x st).2 hwf.2
    have h1 := rotNode_ok C old new L tbl x st hwf.1 hinv
    by_cases hmid : (rotNode C old new x st).2.failed = false
    · have a1 := h1 hmid
      have a2 := h2 a1.2.1 hf
      exact ⟨by unfold RelL; exact ⟨a1.1, a2.1⟩, a2.2.1, a1.2.2⟩
    · exfalso
      -- the invariant part is not needed to see that a failure persists
      have : (rotNode C old new x st).2.failed = true := by simpa using hmid
      exact absurd (rotList_failed_mono C old new xs _ this) (by rw [hf]; simp)
theorem rotEntries_ok (C : Cipher) (old new : Str) (L : Laws C old new) (tbl : Str → Option Node) :
    ∀ (es : List (Key × Node)) (st : St), WFE C old tbl es → Inv C old new tbl st.seen →
      (rotEntries C old new es st).2.failed = false →
      RelE (Good C old new) es (rotEntries C old new es st).1 ∧
      Inv C old new tbl (rotEntries C old new es st).2.seen ∧ st.failed = false
  | [], st, _, hinv, hf => by
    unfold rotEntries at hf ⊢
    exact ⟨by unfold RelE; trivial, hinv, hf⟩
  | (k, x) :: es, st, hwf, hinv, hf => by
    unfold WFE at hwf
    unfold rotEntries at hf ⊢
    simp only [] at hf ⊢
    have h2 := rotEntries_ok C old new L tbl es (rotNode C old new x st).2 hwf.2
    have h1 := rotNode_ok C old new L tbl x st hwf.1 hinv
    by_cases hmid : (rotNode C old new x st).2.failed = false
    · have a1 := h1 hmid
      have a2 := h2 a1.2.1 hf
      exact ⟨by unfold RelE; exact ⟨rfl, a1.1, a2.1⟩, a2.2.1, a1.2.2⟩
    · exfalso
      have : (rotNode C old new x st).2.failed = true := by simpa using hmid
      exact absurd (rotEntries_failed_mono C old new es _ this) (by rw [hf]; simp)
end


/-! ### the frame: everything but the text of secrets -/

mutual
/-- the document with the text of every encrypted scalar blanked -/
def mask : Node → Node
  | .scalar a v => .scalar a (if isSecret v then .str [] else v)
  | .seq a xs => .seq a (maskL xs)
  | .map a es => .map a (maskE es)
  | .set a ms => .set a ms
def maskL : List Node → List Node
  | [] => []
  | x :: xs => mask x :: maskL xs
def maskE : List (Key × Node) → List (Key × Node)
  | [] => []
  | (k, x) :: es => (k, mask x) :: maskE es
end

theorem good_mask (C : Cipher) (old new : Str) (v v' : Scalar) (h : Good C old new v v') :
    (if isSecret v' then Scalar.str [] else v') = (if isSecret v then Scalar.str [] else v) := by
  unfold Good at h
  by_cases hs : isSecret v = true
  · simp only [hs, if_true] at h ⊢
    obtain ⟨s, s', p, _, rfl, _, _, _, hm⟩ := h
    simp [isSecret, hm]
  · simp only [hs] at h ⊢
    subst h
    simp [hs]

mutual
theorem mask_of_rel (C : Cipher) (old new : Str) :
    ∀ (n n' : Node), Rel (Good C old new) n n' → mask n' = mask n
  | .scalar a v, .scalar a' v', h => by
    unfold Rel at h; unfold mask; rw [h.1, good_mask C old new v v' h.2]
  | .seq a xs, .seq a' ys, h => by
    unfold Rel at h; unfold mask; rw [h.1, maskL_of_rel C old new xs ys h.2]
  | .map a es, .map a' fs, h => by
    unfold Rel at h; unfold mask; rw [h.1, maskE_of_rel C old new es fs h.2]
  | .set a ms, .set a' ms', h => by
    unfold Rel at h; unfold mask; rw [h.1, h.2]
  | .scalar .., .seq .., h | .scalar .., .map .., h | .scalar .., .set .., h
  | .seq .., .scalar .., h | .seq .., .map .., h | .seq .., .set .., h
  | .map .., .scalar .., h | .map .., .seq .., h | .map .., .set .., h
  | .set .., .scalar .., h | .set .., .seq .., h | .set .., .map .., h => by
    unfold Rel at h; exact h.elim
theorem maskL_of_rel (C : Cipher) (old new : Str) :
    ∀ (xs ys : List Node), RelL (Good C old new) xs ys → maskL ys = maskL xs
  | [], [], _ => rfl
  | x :: xs, y :: ys, h => by
    unfold RelL at h; unfold maskL; rw [mask_of_rel C old new x y h.1, maskL_of_rel C old new xs ys h.2]
  | [], _ :: _, h | _ :: _, [], h => by unfold RelL at h; exact h.elim
theorem maskE_of_rel (C : Cipher) (old new : Str) :
    ∀ (es fs : List (Key × Node)), RelE (Good C old new) es fs → maskE fs = maskE es
  | [], [], _ => rfl
  | (k, x) :: es, (k', y) :: fs, h => by
    unfold RelE at h; unfold maskE
    rw [h.1, mask_of_rel C old new x y h.2.1, maskE_of_rel C old new es fs h.2.2]
  | [], _ :: _, h | _ :: _, [], h => by unfold RelE at h; exact h.elim
end

/-! ### a document without secrets -/

mutual
theorem rotNode_noSecret (C : Cipher) (old new : Str) :
    ∀ (n : Node) (st : St), noSecret n = true →
      (rotNode C old new n st).2.changed = st.changed ∧ (rotNode C old new n st).2.nonce = st.nonce ∧
      (rotNode C old new n st).2.decs = st.decs
  | .scalar a v, st, h => by
    unfold noSecret at h
    unfold rotNode
    cases v with
    | str s =>
      have hs : isEyaml s = false := by simpa [isSecret] using h
      simp [hs]
    | _ => simp
  | .seq a xs, st, h => by
    unfold noSecret at h
    unfold rotNode
    cases a with
    | none => exact rotList_noSecret C old new xs st h
    | some an =>
      simp only []
      split
      · simp
      · exact rotList_noSecret C old new xs st h
  | .map a es, st, h => by
    unfold noSecret at h
    unfold rotNode
    cases a with
    | none => exact rotEntries_noSecret C old new es st h
    | some an =>
      simp only []
      split
      · simp
      · exact rotEntries_noSecret C old new es st h
  | .set a ms, st, _ => by unfold rotNode; simp
theorem rotList_noSecret (C : Cipher) (old new : Str) :
    ∀ (xs : List Node) (st : St), noSecretL xs = true →
      (rotList C old new xs st).2.changed = st.changed ∧ (rotList C old new xs st).2.nonce = st.nonce ∧
      (rotList C old new xs st).2.decs = st.decs
  | [], st, _ => by unfold rotList; simp
  | x :: xs, st, h => by
    unfold noSecretL at h
    rw [Bool.and_eq_true] at h
    unfold rotList
    have h1 := rotNode_noSecret C old new x st h.1
    have h2 := rotList_noSecret C old new xs (rotNode C old new x st).2 h.2
    exact ⟨h2.1.trans h1.1, h2.2.1.trans h1.2.1, h2.2.2.trans h1.2.2⟩
theorem rotEntries_noSecret (C : Cipher) (old new : Str) :
    ∀ (es : List (Key × Node)) (st : St), noSecretE es = true →
      (rotEntries C old new es st).2.changed = st.changed ∧ (rotEntries C old new es st).2.nonce = st.nonce ∧
      (rotEntries C old new es st).2.decs = st.decs
  | [], st, _ => by unfold rotEntries; simp
  | (k, x) :: es, st, h => by
    unfold noSecretE at h
    rw [Bool.and_eq_true] at h
    unfold rotEntries
    have h1 := rotNode_noSecret C old new x st h.1
    have h2 := rotEntries_noSecret C old new es (rotNode C old new x st).2 h.2
    exact ⟨h2.1.trans h1.1, h2.2.1.trans h1.2.1, h2.2.2.trans h1.2.2⟩
end

/-! ### sharing: all nodes of one anchor are equal in the output -/

mutual
/-- number of nodes -/
def nsize : Node → Nat
  | .scalar _ _ => 1
  | .seq _ xs => 1 + nsizeL xs
  | .map _ es => 1 + nsizeE es
  | .set _ _ => 1
def nsizeL : List Node → Nat
  | [] => 0
  | x :: xs => nsize x + nsizeL xs
def nsizeE : List (Key × Node) → Nat
  | [] => 0
  | (_, x) :: es => nsize x + nsizeE es
end

theorem nsize_seq (a : Option Str) (xs : List Node) : nsize (.seq a xs) = 1 + nsizeL xs := by unfold nsize; rfl
theorem nsize_map (a : Option Str) (es : List (Key × Node)) : nsize (.map a es) = 1 + nsizeE es := by
  unfold nsize; rfl
theorem nsizeL_cons (x : Node) (xs : List Node) : nsizeL (x :: xs) = nsize x + nsizeL xs := by
  simp only [nsizeL]
theorem nsizeE_cons (k : Key) (x : Node) (es : List (Key × Node)) : nsizeE ((k, x) :: es) = nsize x + nsizeE es := by
  simp only [nsizeE]

/-- the anchor table only grows: a recorded image is never replaced -/
def Ext (s s' : List (Str × Node)) : Prop := ∀ an n', s.lookup an = some n' → s'.lookup an = some n'

theorem Ext.refl (s : List (Str × Node)) : Ext s s := fun _ _ h => h

theorem Ext.trans {s1 s2 s3 : List (Str × Node)} (h1 : Ext s1 s2) (h2 : Ext s2 s3) : Ext s1 s3 :=
  fun an n' h => h2 an n' (h1 an n' h)

theorem lookup_cons_self (an : Str) (n : Node) (s : List (Str × Node)) : ((an, n) :: s).lookup an = some n := by
  simp

theorem lookup_cons_ne {an an' : Str} (h : an' ≠ an) (n : Node) (s : List (Str × Node)) :
    ((an, n) :: s).lookup an' = s.lookup an' := by
  have : (an' == an) = false := by simp [h]
  rw [List.lookup_cons, this]

theorem ext_cons {an : Str} {s : List (Str × Node)} (h : s.lookup an = none) (n : Node) : Ext s ((an, n) :: s) := by
  intro an' n' hl
  have : an' ≠ an := by intro e; subst e; rw [h] at hl; cases hl
  rw [lookup_cons_ne this]; exact hl

/-- the nodes the loop records under their anchor: encrypted scalars and containers -/
def recordable : Node → Bool
  | .scalar _ (.str s) => isEyaml s
  | .seq .. | .map .. => true
  | _ => false

mutual
/-- an anchor recorded while a node is walked names a node no bigger than the walked one -/
theorem rotNode_new (C : Cipher) (old new : Str) (tbl : Str → Option Node) :
    ∀ (n : Node) (st : St) (an : Str), WF C old tbl n → st.seen.lookup an = none →
      (rotNode C old new n st).2.seen.lookup an ≠ none → ∃ m, tbl an = some m ∧ nsize m ≤ nsize n
  | .scalar a v, st, an, hwf, hn, hs => by
    unfold WF at hwf
    unfold rotNode at hs
    cases v with
    | str s =>
      simp only [] at hs
      by_cases he : isEyaml s = true
      · simp only [he, if_true] at hs
        cases a with
        | none => simp only [rotValue_seen] at hs; exact absurd hn hs
        | some an0 =>
          simp only [] at hs
          cases hl : st.seen.lookup an0 with
          | some n' => simp only [hl] at hs; exact absurd hn hs
          | none =>
            simp only [hl] at hs
            by_cases e : an = an0
            · subst e; exact ⟨_, hwf.1 an rfl, Nat.le_refl _⟩
            · rw [lookup_cons_ne e, rotValue_seen] at hs; exact absurd hn hs
      · simp only [he] at hs; exact absurd hn hs
    | _ => exact absurd hn hs
  | .seq a xs, st, an, hwf, hn, hs => by
    unfold WF at hwf
    unfold rotNode at hs
    cases a with
    | none =>
      simp only [] at hs
      obtain ⟨m, h1, h2⟩ := rotList_new C old new tbl xs st an hwf.2 hn hs
      exact ⟨m, h1, by rw [nsize_seq]; omega⟩
    | some an0 =>
      simp only [] at hs
      cases hl : st.seen.lookup an0 with
      | some n' => simp only [hl] at hs; exact absurd hn hs
      | none =>
        simp only [hl] at hs
        by_cases e : an = an0
        · subst e; exact ⟨_, hwf.1 an rfl, Nat.le_refl _⟩
        · rw [lookup_cons_ne e] at hs
          obtain ⟨m, h1, h2⟩ := rotList_new C old new tbl xs st an hwf.2 hn hs
          exact ⟨m, h1, by rw [nsize_seq]; omega⟩
  | .map a es, st, an, hwf, hn, hs => by
    unfold WF at hwf
    unfold rotNode at hs
    cases a with
    | none =>
      simp only [] at hs
      obtain ⟨m, h1, h2⟩ := rotEntries_new C old new tbl es st an hwf.2 hn hs
      exact ⟨m, h1, by rw [nsize_map]; omega⟩
    | some an0 =>
      simp only [] at hs
      cases hl : st.seen.lookup an0 with
      | some n' => simp only [hl] at hs; exact absurd hn hs
      | none =>
        simp only [hl] at hs
        by_cases e : an = an0
        · subst e; exact ⟨_, hwf.1 an rfl, Nat.le_refl _⟩
        · rw [lookup_cons_ne e] at hs
          obtain ⟨m, h1, h2⟩ := rotEntries_new C old new tbl es st an hwf.2 hn hs
          exact ⟨m, h1, by rw [nsize_map]; omega⟩
  | .set a ms, st, an, _, hn, hs => by
    unfold rotNode at hs; exact absurd hn hs
theorem rotList_new (C : Cipher) (old new : Str) (tbl : Str → Option Node) :
    ∀ (xs : List Node) (st : St) (an : Str), WFL C old tbl xs → st.seen.lookup an = none →
      (rotList C old new xs st).2.seen.lookup an ≠ none → ∃ m, tbl an = some m ∧ nsize m ≤ nsizeL xs
  | [], st, an, _, hn, hs => by unfold rotList at hs; exact absurd hn hs
  | x :: xs, st, an, hwf, hn, hs => by
    unfold WFL at hwf
    unfold rotList at hs
    simp only [] at hs
    cases h1 : (rotNode C old new x st).2.seen.lookup an with
    | some n' =>
      obtain ⟨m, h2, h3⟩ := rotNode_new C old new tbl x st an hwf.1 hn (by rw [h1]; simp)
      exact ⟨m, h2, by rw [nsizeL_cons]; omega⟩
    | none =>
      obtain ⟨m, h2, h3⟩ := rotList_new C old new tbl xs _ an hwf.2 h1 hs
      exact ⟨m, h2, by rw [nsizeL_cons]; omega⟩
theorem rotEntries_new (C : Cipher) (old new : Str) (tbl : Str → Option Node) :
    ∀ (es : List (Key × Node)) (st : St) (an : Str), WFE C old tbl es → st.seen.lookup an = none →
      (rotEntries C old new es st).2.seen.lookup an ≠ none → ∃ m, tbl an = some m ∧ nsize m ≤ nsizeE es
  | [], st, an, _, hn, hs => by unfold rotEntries at hs; exact absurd hn hs
  | (k, x) :: es, st, an, hwf, hn, hs => by
    unfold WFE at hwf
    unfold rotEntries at hs
    simp only [] at hs
    cases h1 : (rotNode C old new x st).2.seen.lookup an with
    | some n' =>
      obtain ⟨m, h2, h3⟩ := rotNode_new C old new tbl x st an hwf.1 hn (by rw [h1]; simp)
      exact ⟨m, h2, by rw [nsizeE_cons]; omega⟩
    | none =>
      obtain ⟨m, h2, h3⟩ := rotEntries_new C old new tbl es _ an hwf.2 h1 hs
      exact ⟨m, h2, by rw [nsizeE_cons]; omega⟩
end

/-- every recorded anchor names a node the loop records -/
def KeysRec (tbl : Str → Option Node) (seen : List (Str × Node)) : Prop :=
  ∀ an n', seen.lookup an = some n' → ∃ n, tbl an = some n ∧ recordable n = true

/-- the anchor table of the output: the recorded image, else the (unchanged) input node -/
def outTbl (tbl : Str → Option Node) (seen : List (Str × Node)) (an : Str) : Option Node :=
  match seen.lookup an with
  | some n' => some n'
  | none => tbl an

mutual
/-- every anchored node of the tree is the one node `g` gives for its anchor name -/
def AnchorsOne (g : Str → Option Node) : Node → Prop
  | .scalar a v => ∀ an, a = some an → g an = some (.scalar a v)
  | .seq a xs => (∀ an, a = some an → g an = some (.seq a xs)) ∧ AnchorsOneL g xs
  | .map a es => (∀ an, a = some an → g an = some (.map a es)) ∧ AnchorsOneE g es
  | .set _ _ => True
def AnchorsOneL (g : Str → Option Node) : List Node → Prop
  | [] => True
  | x :: xs => AnchorsOne g x ∧ AnchorsOneL g xs
def AnchorsOneE (g : Str → Option Node) : List (Key × Node) → Prop
  | [] => True
  | (_, x) :: es => AnchorsOne g x ∧ AnchorsOneE g es
end

/-- invariant of the anchor table for sharing: recorded anchors are recordable ones, and a recorded
image is consistent with every later table -/
def SInv (tbl : Str → Option Node) (seen : List (Str × Node)) : Prop :=
  KeysRec tbl seen ∧
  ∀ an n', seen.lookup an = some n' → ∀ F, Ext seen F → KeysRec tbl F → AnchorsOne (outTbl tbl F) n'

theorem outTbl_of_lookup {tbl : Str → Option Node} {F : List (Str × Node)} {an : Str} {n' : Node}
    (h : F.lookup an = some n') : outTbl tbl F an = some n' := by
  unfold outTbl; rw [h]

/-- an anchor whose node the loop does not record keeps its input node in every later table -/
theorem outTbl_plain {tbl : Str → Option Node} {F : List (Str × Node)} {an : Str} {n : Node}
    (hK : KeysRec tbl F) (ht : tbl an = some n) (hr : recordable n = false) : outTbl tbl F an = some n := by
  unfold outTbl
  cases hl : F.lookup an with
  | none => exact ht
  | some n' =>
    obtain ⟨m, h1, h2⟩ := hK an n' hl
    rw [ht] at h1; cases h1; rw [hr] at h2; cases h2

/-- recording the image of a first visit keeps the invariant -/
theorem record_step (tbl : Str → Option Node) (seen : List (Str × Node)) (an : Str) (n img : Node)
    (hS : SInv tbl seen) (hnone : seen.lookup an = none) (ht : tbl an = some n) (hrec : recordable n = true)
    (himg : ∀ F, Ext ((an, img) :: seen) F → KeysRec tbl F → AnchorsOne (outTbl tbl F) img) :
    SInv tbl ((an, img) :: seen) := by
  have hext := ext_cons hnone img
  constructor
  · intro an' n' hl
    by_cases e : an' = an
    · subst e; exact ⟨n, ht, hrec⟩
    · rw [lookup_cons_ne e] at hl; exact hS.1 an' n' hl
  · intro an' n' hl F hF hK
    by_cases e : an' = an
    · subst e
      rw [lookup_cons_self] at hl; cases hl
      exact himg F hF hK
    · rw [lookup_cons_ne e] at hl
      exact hS.2 an' n' hl F (hext.trans hF) hK

mutual
theorem rotNode_shared (C : Cipher) (old new : Str) (tbl : Str → Option Node) :
    ∀ (n : Node) (st : St), WF C old tbl n → SInv tbl st.seen →
      SInv tbl (rotNode C old new n st).2.seen ∧ Ext st.seen (rotNode C old new n st).2.seen ∧
      ∀ F, Ext (rotNode C old new n st).2.seen F → KeysRec tbl F →
        AnchorsOne (outTbl tbl F) (rotNode C old new n st).1
  | .scalar a v, st, hwf, hS => by
    unfold WF at hwf
    have plain : recordable (.scalar a v) = false →
        SInv tbl st.seen ∧ Ext st.seen st.seen ∧
        ∀ F, Ext st.seen F → KeysRec tbl F → AnchorsOne (outTbl tbl F) (.scalar a v) := by
      intro hr
      refine ⟨hS, Ext.refl _, fun F _ hK => ?_⟩
      unfold AnchorsOne
      intro an ha
      exact outTbl_plain hK (hwf.1 an ha) hr
    cases v with
    | str s =>
      by_cases he : isEyaml s = true
      · unfold rotNode
        simp only [he, if_true]
        cases a with
        | none =>
          simp only [rotValue_seen]
          refine ⟨hS, Ext.refl _, fun F _ _ => ?_⟩
          unfold AnchorsOne; intro an ha; cases ha
        | some an0 =>
          simp only []
          cases hl : st.seen.lookup an0 with
          | some n' =>
            simp only []
            exact ⟨hS, Ext.refl _, fun F hF hK => hS.2 an0 n' hl F hF hK⟩
          | none =>
            simp only [rotValue_seen]
            have himg : ∀ F, Ext ((an0, Node.scalar (some an0) (rotValue C old new s st).1) :: st.seen) F →
                KeysRec tbl F → AnchorsOne (outTbl tbl F) (.scalar (some an0) (rotValue C old new s st).1) := by
              intro F hF _
              unfold AnchorsOne
              intro an ha; cases ha
              exact outTbl_of_lookup (hF an0 _ (lookup_cons_self _ _ _))
            refine ⟨record_step tbl st.seen an0 _ _ hS hl (hwf.1 an0 rfl) (by simp [recordable, he]) himg,
              ext_cons hl _, himg⟩
      · have hr : recordable (.scalar a (.str s)) = false := by simpa [recordable] using he
        have := plain hr
        unfold rotNode; simp only [he]; exact this
    | _ => have := plain rfl; unfold rotNode; exact this
  | .seq a xs, st, hwf, hS => by
    unfold WF at hwf
    have ih := rotList_shared C old new tbl xs st hwf.2 hS
    unfold rotNode
    cases a with
    | none =>
      simp only []
      refine ⟨ih.1, ih.2.1, fun F hF hK => ?_⟩
      unfold AnchorsOne
      exact ⟨fun an ha => (by cases ha), ih.2.2 F hF hK⟩
    | some an0 =>
      simp only []
      cases hl : st.seen.lookup an0 with
      | some n' =>
        simp only []
        exact ⟨hS, Ext.refl _, fun F hF hK => hS.2 an0 n' hl F hF hK⟩
      | none =>
        simp only []
        have htbl := hwf.1 an0 rfl
        have hnone : (rotList C old new xs st).2.seen.lookup an0 = none := by
          cases h : (rotList C old new xs st).2.seen.lookup an0 with
          | none => rfl
          | some x =>
            obtain ⟨m, h1, h2⟩ := rotList_new C old new tbl xs st an0 hwf.2 hl (by rw [h]; simp)
            rw [htbl] at h1; cases h1
            rw [nsize_seq] at h2; omega
        have hext := ext_cons hnone (Node.seq (some an0) (rotList C old new xs st).1)
        have himg : ∀ F, Ext ((an0, Node.seq (some an0) (rotList C old new xs st).1) ::
              (rotList C old new xs st).2.seen) F →
            KeysRec tbl F → AnchorsOne (outTbl tbl F) (.seq (some an0) (rotList C old new xs st).1) := by
          intro F hF hK
          unfold AnchorsOne
          refine ⟨fun an ha => ?_, ih.2.2 F (hext.trans hF) hK⟩
          cases ha
          exact outTbl_of_lookup (hF an0 _ (lookup_cons_self _ _ _))
        exact ⟨record_step tbl _ an0 _ _ ih.1 hnone htbl rfl himg, ih.2.1.trans hext, himg⟩
  | .map a es, st, hwf, hS => by
    unfold WF at hwf
    have ih := rotEntries_shared C old new tbl es st hwf.2 hS
    unfold rotNode
    cases a with
    | none =>
      simp only []
      refine ⟨ih.1, ih.2.1, fun F hF hK => ?_⟩
      unfold AnchorsOne
      exact ⟨fun an ha => (by cases ha), ih.2.2 F hF hK⟩
    | some an0 =>
      simp only []
      cases hl : st.seen.lookup an0 with
      | some n' =>
        simp only []
        exact ⟨hS, Ext.refl _, fun F hF hK => hS.2 an0 n' hl F hF hK⟩
      | none =>
        simp only []
        have htbl := hwf.1 an0 rfl
        have hnone : (rotEntries C old new es st).2.seen.lookup an0 = none := by
          cases h : (rotEntries C old new es st).2.seen.lookup an0 with
          | none => rfl
          | some x =>
            obtain ⟨m, h1, h2⟩ := rotEntries_new C old new tbl es st an0 hwf.2 hl (by rw [h]; simp)
            rw [htbl] at h1; cases h1
            rw [nsize_map] at h2; omega
        have hext := ext_cons hnone (Node.map (some an0) (rotEntries C old new es st).1)
        have himg : ∀ F, Ext ((an0, Node.map (some an0) (rotEntries C old new es st).1) ::
              (rotEntries C old new es st).2.seen) F →
            KeysRec tbl F → AnchorsOne (outTbl tbl F) (.map (some an0) (rotEntries C old new es st).1) := by
          intro F hF hK
          unfold AnchorsOne
          refine ⟨fun an ha => ?_, ih.2.2 F (hext.trans hF) hK⟩
          cases ha
          exact outTbl_of_lookup (hF an0 _ (lookup_cons_self _ _ _))
        exact ⟨record_step tbl _ an0 _ _ ih.1 hnone htbl rfl himg, ih.2.1.trans hext, himg⟩
  | .set a ms, st, _, hS => by
    unfold rotNode
    exact ⟨hS, Ext.refl _, fun F _ _ => by unfold AnchorsOne; trivial⟩
theorem rotList_shared (C : Cipher) (old new : Str) (tbl : Str → Option Node) :
    ∀ (xs : List Node) (st : St), WFL C old tbl xs → SInv tbl st.seen →
      SInv tbl (rotList C old new xs st).2.seen ∧ Ext st.seen (rotList C old new xs st).2.seen ∧
      ∀ F, Ext (rotList C old new xs st).2.seen F → KeysRec tbl F →
        AnchorsOneL (outTbl tbl F) (rotList C old new xs st).1
  | [], st, _, hS => by
    unfold rotList
    exact ⟨hS, Ext.refl _, fun F _ _ => by unfold AnchorsOneL; trivial⟩
  | x :: xs, st, hwf, hS => by
    unfold WFL at hwf
    have h1 := rotNode_shared C old new tbl x st hwf.1 hS
    have h2 := rotList_shared C old new tbl xs (rotNode C old new x st).2 hwf.2 h1.1
    unfold rotList
    simp only []
    refine ⟨h2.1, h1.2.1.trans h2.2.1, fun F hF hK => ?_⟩
    unfold AnchorsOneL
    exact ⟨h1.2.2 F (h2.2.1.trans hF) hK, h2.2.2 F hF hK⟩
theorem rotEntries_shared (C : Cipher) (old new : Str) (tbl : Str → Option Node) :
    ∀ (es : List (Key × Node)) (st : St), WFE C old tbl es → SInv tbl st.seen →
      SInv tbl (rotEntries C old new es st).2.seen ∧ Ext st.seen (rotEntries C old new es st).2.seen ∧
      ∀ F, Ext (rotEntries C old new es st).2.seen F → KeysRec tbl F →
        AnchorsOneE (outTbl tbl F) (rotEntries C old new es st).1
  | [], st, _, hS => by
    unfold rotEntries
    exact ⟨hS, Ext.refl _, fun F _ _ => by unfold AnchorsOneE; trivial⟩
  | (k, x) :: es, st, hwf, hS => by
    unfold WFE at hwf
    have h1 := rotNode_shared C old new tbl x st hwf.1 hS
    have h2 := rotEntries_shared C old new tbl es (rotNode C old new x st).2 hwf.2 h1.1
    unfold rotEntries
    simp only []
    refine ⟨h2.1, h1.2.1.trans h2.2.1, fun F hF hK => ?_⟩
    unfold AnchorsOneE
    exact ⟨h1.2.2 F (h2.2.1.trans hF) hK, h2.2.2 F hF hK⟩
end

theorem sinv_init (tbl : Str → Option Node) : SInv tbl St.init.seen :=
  ⟨fun an n' h => by simp [St.init] at h, fun an n' h => by simp [St.init] at h⟩

/-! ### once: the number of cipher calls -/

mutual
/-- number of encrypted scalars that carry no anchor themselves -/
def bareCount : Node → Nat
  | .scalar none v => if isSecret v then 1 else 0
  | .scalar (some _) _ => 0
  | .seq _ xs => bareCountL xs
  | .map _ es => bareCountE es
  | .set _ _ => 0
def bareCountL : List Node → Nat
  | [] => 0
  | x :: xs => bareCount x + bareCountL xs
def bareCountE : List (Key × Node) → Nat
  | [] => 0
  | (_, x) :: es => bareCount x + bareCountE es
end

mutual
/-- the anchor names of the anchored encrypted scalars, one entry per occurrence -/
def secretAnchors : Node → List Str
  | .scalar (some an) v => if isSecret v then [an] else []
  | .scalar none _ => []
  | .seq _ xs => secretAnchorsL xs
  | .map _ es => secretAnchorsE es
  | .set _ _ => []
def secretAnchorsL : List Node → List Str
  | [] => []
  | x :: xs => secretAnchors x ++ secretAnchorsL xs
def secretAnchorsE : List (Key × Node) → List Str
  | [] => []
  | (_, x) :: es => secretAnchors x ++ secretAnchorsE es
end

/-- number of recorded scalar images -/
def scalarEntries (seen : List (Str × Node)) : Nat := (seen.filter (fun e => e.2.isScalar)).length

/-- every anchor is recorded once, and the recorded scalars are anchored secrets named in `names` -/
def CInv (names : List Str) (seen : List (Str × Node)) : Prop :=
  (seen.map (·.1)).Nodup ∧ ∀ e ∈ seen, e.2.isScalar = true → e.1 ∈ names

theorem not_mem_keys_of_lookup_none {s : List (Str × Node)} {an : Str} (h : s.lookup an = none) :
    an ∉ s.map (·.1) := by
  intro hm
  obtain ⟨p, hp, rfl⟩ := List.mem_map.mp hm
  have := List.lookup_eq_none_iff.mp h p hp
  simp at this

theorem cinv_cons {names : List Str} {seen : List (Str × Node)} {an : Str} {img : Node}
    (h : CInv names seen) (hn : seen.lookup an = none) (hi : img.isScalar = true → an ∈ names) :
    CInv names ((an, img) :: seen) := by
  refine ⟨?_, ?_⟩
  · simp only [List.map_cons]
    exact List.nodup_cons.mpr ⟨not_mem_keys_of_lookup_none hn, h.1⟩
  · intro e he hs
    rcases List.mem_cons.mp he with rfl | he
    · exact hi hs
    · exact h.2 e he hs

theorem scalarEntries_le {names : List Str} {seen : List (Str × Node)} (h : CInv names seen) :
    scalarEntries seen ≤ names.length := by
  have hsub : ((seen.filter (fun e => e.2.isScalar)).map (·.1)).Sublist (seen.map (·.1)) :=
    (List.filter_sublist (l := seen)).map _
  have hnd := List.Nodup.sublist hsub h.1
  have hss : (seen.filter (fun e => e.2.isScalar)).map (·.1) ⊆ names := by
    intro x hx
    obtain ⟨e, he, rfl⟩ := List.mem_map.mp hx
    have := List.mem_filter.mp he
    exact h.2 e this.1 this.2
  have := List.Nodup.length_le_of_subset hnd hss
  simpa [scalarEntries] using this

theorem rotValue_decs (C : Cipher) (old new : Str) (s : Str) (st : St) :
    (rotValue C old new s st).2.decs = st.decs + 1 := by
  unfold rotValue
  split
  · rfl
  · split <;> rfl

theorem rotValue_nonce_le (C : Cipher) (old new : Str) (s : Str) (st : St) :
    (rotValue C old new s st).2.nonce ≤ st.nonce + 1 := by
  unfold rotValue
  split
  · simp
  · split
    · simp
    · simp only []; split <;> omega

theorem rotList_fresh (C : Cipher) (old new : Str) (tbl : Str → Option Node) (an0 : Str) (xs : List Node)
    (st : St) (hwf : WFL C old tbl xs) (htbl : tbl an0 = some (.seq (some an0) xs))
    (hl : st.seen.lookup an0 = none) : (rotList C old new xs st).2.seen.lookup an0 = none := by
  cases h : (rotList C old new xs st).2.seen.lookup an0 with
  | none => rfl
  | some x =>
    obtain ⟨m, h1, h2⟩ := rotList_new C old new tbl xs st an0 hwf hl (by rw [h]; simp)
    rw [htbl] at h1; cases h1
    rw [nsize_seq] at h2; omega

theorem rotEntries_fresh (C : Cipher) (old new : Str) (tbl : Str → Option Node) (an0 : Str)
    (es : List (Key × Node)) (st : St) (hwf : WFE C old tbl es) (htbl : tbl an0 = some (.map (some an0) es))
    (hl : st.seen.lookup an0 = none) : (rotEntries C old new es st).2.seen.lookup an0 = none := by
  cases h : (rotEntries C old new es st).2.seen.lookup an0 with
  | none => rfl
  | some x =>
    obtain ⟨m, h1, h2⟩ := rotEntries_new C old new tbl es st an0 hwf hl (by rw [h]; simp)
    rw [htbl] at h1; cases h1
    rw [nsize_map] at h2; omega

/-- what one walk may add to the two call counters -/
def Calls (st st' : St) (bare : Nat) : Prop :=
  st'.decs + scalarEntries st.seen ≤ st.decs + scalarEntries st'.seen + bare ∧
  st'.nonce + scalarEntries st.seen ≤ st.nonce + scalarEntries st'.seen + bare

theorem bareCountL_cons (x : Node) (xs : List Node) : bareCountL (x :: xs) = bareCount x + bareCountL xs := by
  simp only [bareCountL]
theorem bareCountE_cons (k : Key) (x : Node) (es : List (Key × Node)) :
    bareCountE ((k, x) :: es) = bareCount x + bareCountE es := by
  simp only [bareCountE]

theorem calls_refl (st : St) (b : Nat) : Calls st st b := by unfold Calls; omega

mutual
theorem rotNode_once (C : Cipher) (old new : Str) (tbl : Str → Option Node) (names : List Str) :
    ∀ (n : Node) (st : St), WF C old tbl n → (∀ an ∈ secretAnchors n, an ∈ names) → CInv names st.seen →
      CInv names (rotNode C old new n st).2.seen ∧ Calls st (rotNode C old new n st).2 (bareCount n)
  | .scalar a v, st, hwf, hnm, hc => by
    unfold WF at hwf
    cases v with
    | str s =>
      unfold rotNode
      by_cases he : isEyaml s = true
      · simp only [he, if_true]
        cases a with
        | none =>
          simp only []
          refine ⟨by rw [rotValue_seen]; exact hc, ?_⟩
          have h1 := rotValue_decs C old new s st
          have h2 := rotValue_nonce_le C old new s st
          unfold Calls bareCount
          simp only [isSecret, he, if_true, rotValue_seen]
          omega
        | some an0 =>
          simp only []
          cases hl : st.seen.lookup an0 with
          | some n' => simp only []; exact ⟨hc, calls_refl _ _⟩
          | none =>
            simp only []
            have hin : an0 ∈ names := hnm an0 (by unfold secretAnchors; simp [isSecret, he])
            refine ⟨cinv_cons (by rw [rotValue_seen]; exact hc) (by rw [rotValue_seen]; exact hl) (fun _ => hin), ?_⟩
            have h1 := rotValue_decs C old new s st
            have h2 := rotValue_nonce_le C old new s st
            unfold Calls
            simp only [scalarEntries, List.filter_cons, Node.isScalar, if_true, List.length_cons, rotValue_seen]
            omega
      · have he' : isEyaml s = false := by simpa using he
        simp only [he', Bool.false_eq_true, if_false]; exact ⟨hc, calls_refl _ _⟩
    | _ => unfold rotNode; exact ⟨hc, calls_refl _ _⟩
  | .seq a xs, st, hwf, hnm, hc => by
    unfold WF at hwf
    have ih := rotList_once C old new tbl names xs st hwf.2 (by unfold secretAnchors at hnm; exact hnm) hc
    unfold rotNode
    cases a with
    | none => simp only []; unfold bareCount; exact ih
    | some an0 =>
      simp only []
      cases hl : st.seen.lookup an0 with
      | some n' => simp only []; exact ⟨hc, calls_refl _ _⟩
      | none =>
        simp only []
        have hnone := rotList_fresh C old new tbl an0 xs st hwf.2 (hwf.1 an0 rfl) hl
        refine ⟨cinv_cons ih.1 hnone (fun h => by simp [Node.isScalar] at h), ?_⟩
        have := ih.2
        unfold Calls bareCount at *
        simp only [scalarEntries, List.filter_cons, Node.isScalar, Bool.false_eq_true, if_false] at *
        exact this
  | .map a es, st, hwf, hnm, hc => by
    unfold WF at hwf
    have ih := rotEntries_once C old new tbl names es st hwf.2 (by unfold secretAnchors at hnm; exact hnm) hc
    unfold rotNode
    cases a with
    | none => simp only []; unfold bareCount; exact ih
    | some an0 =>
      simp only []
      cases hl : st.seen.lookup an0 with
      | some n' => simp only []; exact ⟨hc, calls_refl _ _⟩
      | none =>
        simp only []
        have hnone := rotEntries_fresh C old new tbl an0 es st hwf.2 (hwf.1 an0 rfl) hl
        refine ⟨cinv_cons ih.1 hnone (fun h => by simp [Node.isScalar] at h), ?_⟩
        have := ih.2
        unfold Calls bareCount at *
        simp only [scalarEntries, List.filter_cons, Node.isScalar, Bool.false_eq_true, if_false] at *
        exact this
  | .set a ms, st, _, _, hc => by
    unfold rotNode; exact ⟨hc, calls_refl _ _⟩
theorem rotList_once (C : Cipher) (old new : Str) (tbl : Str → Option Node) (names : List Str) :
    ∀ (xs : List Node) (st : St), WFL C old tbl xs → (∀ an ∈ secretAnchorsL xs, an ∈ names) → CInv names st.seen →
      CInv names (rotList C old new xs st).2.seen ∧ Calls st (rotList C old new xs st).2 (bareCountL xs)
  | [], st, _, _, hc => by unfold rotList; exact ⟨hc, calls_refl _ _⟩
  | x :: xs, st, hwf, hnm, hc => by
    unfold WFL at hwf
    unfold secretAnchorsL at hnm
    have h1 := rotNode_once C old new tbl names x st hwf.1 (fun an h => hnm an (List.mem_append_left _ h)) hc
    have h2 := rotList_once C old new tbl names xs (rotNode C old new x st).2 hwf.2
      (fun an h => hnm an (List.mem_append_right _ h)) h1.1
    unfold rotList
    simp only []
    refine ⟨h2.1, ?_⟩
    have a := h1.2; have b := h2.2
    unfold Calls at a b ⊢
    rw [bareCountL_cons]; omega
theorem rotEntries_once (C : Cipher) (old new : Str) (tbl : Str → Option Node) (names : List Str) :
    ∀ (es : List (Key × Node)) (st : St), WFE C old tbl es → (∀ an ∈ secretAnchorsE es, an ∈ names) →
      CInv names st.seen →
      CInv names (rotEntries C old new es st).2.seen ∧ Calls st (rotEntries C old new es st).2 (bareCountE es)
  | [], st, _, _, hc => by unfold rotEntries; exact ⟨hc, calls_refl _ _⟩
  | (k, x) :: es, st, hwf, hnm, hc => by
    unfold WFE at hwf
    unfold secretAnchorsE at hnm
    have h1 := rotNode_once C old new tbl names x st hwf.1 (fun an h => hnm an (List.mem_append_left _ h)) hc
    have h2 := rotEntries_once C old new tbl names es (rotNode C old new x st).2 hwf.2
      (fun an h => hnm an (List.mem_append_right _ h)) h1.1
    unfold rotEntries
    simp only []
    refine ⟨h2.1, ?_⟩
    have a := h1.2; have b := h2.2
    unfold Calls at a b ⊢
    rw [bareCountE_cons]; omega
end

end Ypv.Rotate
