import Ypv.Lemmas.Edit
import Ypv.Lemmas.EditSet
import Ypv.Lemmas.EditCreate
/-!
# Lemmas for histories on plain data (C03 `history_refines`)

`Node.plain` (anchors erased) commutes with the three kinds of edits; `Node.keysNodup`
(pairwise different mapping keys) is kept by all of them.
-/
namespace Ypv

theorem plain_anchor (n : Node) : n.plain.anchor = none := by
  cases n <;> simp [Node.plain, Node.anchor]

theorem plain_putScalar (s : Scalar) (n : Node) : (putScalar s n).plain = putScalar s n.plain := by
  simp [putScalar, Node.plain, plain_anchor]

/-- `T` (addresses only) and `p` (addresses and nodes) agree on the nodes of `d` -/
def Agree (d : Node) (T : Addr → Bool) (p : Addr → Node → Bool) : Prop :=
  ∀ y n, y ≠ [] → d.get? y = some n → T y = p y n

theorem lookup_of_mem_distinct {k : Key} {c : Node} : ∀ {es : List (Key × Node)},
    keysDistinct (es.map Prod.fst) = true → (k, c) ∈ es → es.lookup k = some c
  | [], _, h => by cases h
  | (k', c') :: es, hd, h => by
    simp only [List.map_cons, keysDistinct, Bool.and_eq_true] at hd
    rcases List.mem_cons.mp h with h1 | h2
    · cases h1; simp [List.lookup]
    · have hne : ¬ k = k' := by
        intro e; subst e
        have : k ∈ es.map Prod.fst := List.mem_map.mpr ⟨(k, c), h2, rfl⟩
        simp [this] at hd
      have : (k == k') = false := by simpa using hne
      simp only [List.lookup, this]
      exact lookup_of_mem_distinct hd.2 h2

mutual
/-- Erasing anchors after the walk = the walk on the erased document with the targets given by
their addresses. -/
theorem plain_mapAt (s : Scalar) : (d : Node) → (p : Addr → Node → Bool) → (T : Addr → Bool) →
    d.keysNodup = true → Agree d T p →
    (d.mapAt p (putScalar s)).plain = d.plain.mapAt (fun y _ => T y) (putScalar s)
  | .scalar _ _, _, _, _, _ => by simp [Node.mapAt, Node.plain]
  | .set _ _, _, _, _, _ => by simp [Node.mapAt, Node.plain]
  | .seq a items, p, T, hk, ha => by
    simp only [Node.mapAt, Node.plain]
    congr 1
    refine plain_mapAtList s items p T 0 (by simpa [Node.keysNodup] using hk) ?_
    intro j c hj
    have hg : ∀ y, (Node.seq a items).get? (.idx j :: y) = c.get? y := by
      intro y; rw [get?_cons]; simp [Node.child?, hj]
    refine ⟨?_, ?_⟩
    · simpa using ha [.idx j] c (by simp) (by rw [hg]; rfl)
    · intro y n hy hgy
      simpa using ha (.idx j :: y) n (by simp) (by rw [hg]; exact hgy)
  | .map a es, p, T, hk, ha => by
    simp only [Node.keysNodup, Bool.and_eq_true] at hk
    simp only [Node.mapAt, Node.plain]
    congr 1
    refine plain_mapAtEntries s es p T hk.2 ?_
    intro k c hmem
    have hl := lookup_of_mem_distinct hk.1 hmem
    have hg : ∀ y, (Node.map a es).get? (.key k :: y) = c.get? y := by
      intro y; rw [get?_cons]; simp [Node.child?, hl]
    refine ⟨?_, ?_⟩
    · exact ha [.key k] c (by simp) (by rw [hg]; rfl)
    · intro y n hy hgy
      exact ha (.key k :: y) n (by simp) (by rw [hg]; exact hgy)
theorem plain_mapAtList (s : Scalar) : (cs : List Node) → (p : Addr → Node → Bool) → (T : Addr → Bool) →
    (i : Nat) → keysNodupList cs = true →
    (∀ j c, cs[j]? = some c → T [.idx (i + j)] = p [.idx (i + j)] c
      ∧ Agree c (fun y => T (.idx (i + j) :: y)) (fun y => p (.idx (i + j) :: y))) →
    plainList (mapAtList p (putScalar s) i cs) = mapAtList (fun y _ => T y) (putScalar s) i (plainList cs)
  | [], _, _, _, _, _ => by simp [mapAtList, plainList]
  | c :: cs, p, T, i, hk, h => by
    simp only [keysNodupList, Bool.and_eq_true] at hk
    have h0 := h 0 c (by simp)
    simp only [Nat.add_zero] at h0
    have ih := plain_mapAtList s cs p T (i + 1) hk.2 (by
      intro j c' hj
      have := h (j + 1) c' (by simpa using hj)
      have e : i + (j + 1) = i + 1 + j := by omega
      rw [e] at this; exact this)
    have ihc := plain_mapAt s c (fun y => p (.idx i :: y)) (fun y => T (.idx i :: y)) hk.1 h0.2
    simp only [mapAtList, plainList, ih, h0.1]
    congr 1
    by_cases hp : p [.idx i] c = true
    · simp [hp, plain_putScalar]
    · simp [hp, ihc]
theorem plain_mapAtEntries (s : Scalar) : (es : List (Key × Node)) → (p : Addr → Node → Bool) →
    (T : Addr → Bool) → keysNodupEntries es = true →
    (∀ k c, (k, c) ∈ es → T [.key k] = p [.key k] c
      ∧ Agree c (fun y => T (.key k :: y)) (fun y => p (.key k :: y))) →
    plainEntries (mapAtEntries p (putScalar s) es) = mapAtEntries (fun y _ => T y) (putScalar s) (plainEntries es)
  | [], _, _, _, _ => by simp [mapAtEntries, plainEntries]
  | (k, c) :: es, p, T, hk, h => by
    simp only [keysNodupEntries, Bool.and_eq_true] at hk
    have h0 := h k c (by simp)
    have ih := plain_mapAtEntries s es p T hk.2 (fun k' c' hm => h k' c' (by simp [hm]))
    have ihc := plain_mapAt s c (fun y => p (.key k :: y)) (fun y => T (.key k :: y)) hk.1 h0.2
    simp only [mapAtEntries, plainEntries, ih, h0.1]
    congr 2
    by_cases hp : p [.key k] c = true
    · simp [hp, plain_putScalar]
    · simp [hp, ihc]
end

mutual
theorem keysNodup_mapAt (s : Scalar) : (d : Node) → (p : Addr → Node → Bool) →
    d.keysNodup = true → (d.mapAt p (putScalar s)).keysNodup = true
  | .scalar _ _, _, _ => by simp [Node.mapAt, Node.keysNodup]
  | .set _ _, _, _ => by simp [Node.mapAt, Node.keysNodup]
  | .seq a items, p, h => by
    simp only [Node.mapAt, Node.keysNodup] at h ⊢
    exact keysNodup_mapAtList s items p 0 h
  | .map a es, p, h => by
    simp only [Node.mapAt, Node.keysNodup, Bool.and_eq_true, mapAtEntries_keys] at h ⊢
    exact ⟨h.1, keysNodup_mapAtEntries s es p h.2⟩
theorem keysNodup_mapAtList (s : Scalar) : (cs : List Node) → (p : Addr → Node → Bool) → (i : Nat) →
    keysNodupList cs = true → keysNodupList (mapAtList p (putScalar s) i cs) = true
  | [], _, _, _ => by simp [mapAtList, keysNodupList]
  | c :: cs, p, i, h => by
    simp only [keysNodupList, Bool.and_eq_true] at h
    have ih := keysNodup_mapAtList s cs p (i + 1) h.2
    have ihc := keysNodup_mapAt s c (fun y => p (.idx i :: y)) h.1
    simp only [mapAtList, keysNodupList, Bool.and_eq_true, ih, and_true]
    split
    · simp [putScalar, Node.keysNodup]
    · exact ihc
theorem keysNodup_mapAtEntries (s : Scalar) : (es : List (Key × Node)) → (p : Addr → Node → Bool) →
    keysNodupEntries es = true → keysNodupEntries (mapAtEntries p (putScalar s) es) = true
  | [], _, _ => by simp [mapAtEntries, keysNodupEntries]
  | (k, c) :: es, p, h => by
    simp only [keysNodupEntries, Bool.and_eq_true] at h
    have ih := keysNodup_mapAtEntries s es p h.2
    have ihc := keysNodup_mapAt s c (fun y => p (.key k :: y)) h.1
    simp only [mapAtEntries, keysNodupEntries, Bool.and_eq_true, ih, and_true]
    split
    · simp [putScalar, Node.keysNodup]
    · exact ihc
end

/-! ### Removal -/

mutual
theorem plain_removeAll : (d : Node) → (S : List Addr) → (d.removeAll S).plain = d.plain.removeAll S
  | .scalar _ _, _ => by simp [Node.removeAll, Node.plain]
  | .set _ _, _ => by simp [Node.removeAll, Node.plain]
  | .seq a items, S => by simp [Node.removeAll, Node.plain, plain_removeAllList items 0 S]
  | .map a es, S => by simp [Node.removeAll, Node.plain, plain_removeAllEntries es S]
theorem plain_removeAllList : (cs : List Node) → (i : Nat) → (S : List Addr) →
    plainList (removeAllList cs i S) = removeAllList (plainList cs) i S
  | [], _, _ => by simp [removeAllList, plainList]
  | c :: cs, i, S => by
    have ih := plain_removeAllList cs (i + 1) S
    have ihc := plain_removeAll c (subAddrs (.idx i) S)
    simp only [removeAllList, plainList]
    split <;> simp [plainList, ih, ihc]
theorem plain_removeAllEntries : (es : List (Key × Node)) → (S : List Addr) →
    plainEntries (removeAllEntries es S) = removeAllEntries (plainEntries es) S
  | [], _ => by simp [removeAllEntries, plainEntries]
  | (k, c) :: es, S => by
    have ih := plain_removeAllEntries es S
    have ihc := plain_removeAll c (subAddrs (.key k) S)
    simp only [removeAllEntries, plainEntries]
    split <;> simp [plainEntries, ih, ihc]
end

theorem mem_keys_removeAllEntries {k : Key} (S : List Addr) : ∀ (es : List (Key × Node)),
    k ∈ (removeAllEntries es S).map Prod.fst → k ∈ es.map Prod.fst
  | [], h => by simp [removeAllEntries] at h
  | (k', c) :: es, h => by
    simp only [removeAllEntries] at h
    split at h
    · simp [mem_keys_removeAllEntries S es h]
    · simp only [List.map_cons, List.mem_cons] at h ⊢
      rcases h with h | h
      · exact Or.inl h
      · exact Or.inr (mem_keys_removeAllEntries S es h)

theorem keysDistinct_removeAllEntries (S : List Addr) : ∀ (es : List (Key × Node)),
    keysDistinct (es.map Prod.fst) = true → keysDistinct ((removeAllEntries es S).map Prod.fst) = true
  | [], _ => by simp [removeAllEntries, keysDistinct]
  | (k, c) :: es, h => by
    simp only [List.map_cons, keysDistinct, Bool.and_eq_true] at h
    have ih := keysDistinct_removeAllEntries S es h.2
    simp only [removeAllEntries]
    split
    · exact ih
    · simp only [List.map_cons, keysDistinct, Bool.and_eq_true, ih, and_true]
      have hn : k ∉ es.map Prod.fst := by simpa using h.1
      have : k ∉ (removeAllEntries es S).map Prod.fst := fun hm => hn (mem_keys_removeAllEntries S es hm)
      simpa using this

mutual
theorem keysNodup_removeAll : (d : Node) → (S : List Addr) → d.keysNodup = true → (d.removeAll S).keysNodup = true
  | .scalar _ _, _, _ => by simp [Node.removeAll, Node.keysNodup]
  | .set _ _, _, _ => by simp [Node.removeAll, Node.keysNodup]
  | .seq a items, S, h => by
    simp only [Node.removeAll, Node.keysNodup] at h ⊢
    exact keysNodup_removeAllList items 0 S h
  | .map a es, S, h => by
    simp only [Node.removeAll, Node.keysNodup, Bool.and_eq_true] at h ⊢
    exact ⟨keysDistinct_removeAllEntries S es h.1, keysNodup_removeAllEntries es S h.2⟩
theorem keysNodup_removeAllList : (cs : List Node) → (i : Nat) → (S : List Addr) →
    keysNodupList cs = true → keysNodupList (removeAllList cs i S) = true
  | [], _, _, _ => by simp [removeAllList, keysNodupList]
  | c :: cs, i, S, h => by
    simp only [keysNodupList, Bool.and_eq_true] at h
    have ih := keysNodup_removeAllList cs (i + 1) S h.2
    have ihc := keysNodup_removeAll c (subAddrs (.idx i) S) h.1
    simp only [removeAllList]
    split
    · exact ih
    · simp [keysNodupList, ih, ihc]
theorem keysNodup_removeAllEntries : (es : List (Key × Node)) → (S : List Addr) →
    keysNodupEntries es = true → keysNodupEntries (removeAllEntries es S) = true
  | [], _, _ => by simp [removeAllEntries, keysNodupEntries]
  | (k, c) :: es, S, h => by
    simp only [keysNodupEntries, Bool.and_eq_true] at h
    have ih := keysNodup_removeAllEntries es S h.2
    have ihc := keysNodup_removeAll c (subAddrs (.key k) S) h.1
    simp only [removeAllEntries]
    split
    · exact ih
    · simp [keysNodupEntries, ih, ihc]
end

/-! ### Grafting -/

mutual
theorem plain_graftAt (g g' : Node → Node) (hg : ∀ n, (g n).plain = g' n.plain) : (d : Node) → (q : Addr) →
    (d.graftAt g q).plain = d.plain.graftAt g' q
  | d, [] => by rw [graftAt_nil, graftAt_nil, hg]
  | .scalar _ _, _ :: _ => by simp [Node.graftAt, Node.plain]
  | .set _ _, _ :: _ => by simp [Node.graftAt, Node.plain]
  | .seq a items, r :: rest => by
    cases r with
    | idx i => simp [Node.graftAt, Node.plain, plain_graftList g g' hg items i rest]
    | key k => simp [Node.graftAt, Node.plain]
    | member k => simp [Node.graftAt, Node.plain]
  | .map a es, r :: rest => by
    cases r with
    | key k => simp [Node.graftAt, Node.plain, plain_graftEntries g g' hg es k rest]
    | idx i => simp [Node.graftAt, Node.plain]
    | member k => simp [Node.graftAt, Node.plain]
theorem plain_graftList (g g' : Node → Node) (hg : ∀ n, (g n).plain = g' n.plain) : (cs : List Node) → (i : Nat) → (q : Addr) →
    plainList (graftList g cs i q) = graftList g' (plainList cs) i q
  | [], _, _ => by simp [graftList, plainList]
  | c :: cs, 0, q => by simp [graftList, plainList, plain_graftAt g g' hg c q]
  | c :: cs, i + 1, q => by simp [graftList, plainList, plain_graftList g g' hg cs i q]
theorem plain_graftEntries (g g' : Node → Node) (hg : ∀ n, (g n).plain = g' n.plain) : (es : List (Key × Node)) → (k : Key) → (q : Addr) →
    plainEntries (graftEntries g es k q) = graftEntries g' (plainEntries es) k q
  | [], _, _ => by simp [graftEntries, plainEntries]
  | (k', c) :: es, k, q => by
    have ih := plain_graftEntries g g' hg es k q
    have ihc := plain_graftAt g g' hg c q
    by_cases hk : k' = k <;> simp [graftEntries, plainEntries, hk, ih, ihc]
end

theorem graftEntries_keys (g : Node → Node) (k : Key) (q : Addr) : ∀ (es : List (Key × Node)),
    (graftEntries g es k q).map Prod.fst = es.map Prod.fst
  | [] => by simp [graftEntries]
  | (k', c) :: es => by
    by_cases hk : k' = k <;> simp [graftEntries, hk, graftEntries_keys g k q es]

mutual
theorem keysNodup_graftAt (sub : Node) (hs : sub.keysNodup = true) : (d : Node) → (q : Addr) →
    d.keysNodup = true → (d.graftAt (fun _ => sub) q).keysNodup = true
  | d, [], _ => by rw [graftAt_nil]; exact hs
  | .scalar _ _, _ :: _, _ => by simp [Node.graftAt, Node.keysNodup]
  | .set _ _, _ :: _, _ => by simp [Node.graftAt, Node.keysNodup]
  | .seq a items, r :: rest, h => by
    cases r with
    | idx i =>
      simp only [Node.graftAt, Node.keysNodup] at h ⊢
      exact keysNodup_graftList sub hs items i rest h
    | key k => simpa [Node.graftAt] using h
    | member k => simpa [Node.graftAt] using h
  | .map a es, r :: rest, h => by
    cases r with
    | key k =>
      simp only [Node.graftAt, Node.keysNodup, Bool.and_eq_true, graftEntries_keys] at h ⊢
      exact ⟨h.1, keysNodup_graftEntries sub hs es k rest h.2⟩
    | idx i => simpa [Node.graftAt] using h
    | member k => simpa [Node.graftAt] using h
theorem keysNodup_graftList (sub : Node) (hs : sub.keysNodup = true) : (cs : List Node) → (i : Nat) → (q : Addr) →
    keysNodupList cs = true → keysNodupList (graftList (fun _ => sub) cs i q) = true
  | [], _, _, _ => by simp [graftList, keysNodupList]
  | c :: cs, 0, q, h => by
    simp only [keysNodupList, Bool.and_eq_true] at h
    simp [graftList, keysNodupList, h.2, keysNodup_graftAt sub hs c q h.1]
  | c :: cs, i + 1, q, h => by
    simp only [keysNodupList, Bool.and_eq_true] at h
    simp [graftList, keysNodupList, h.1, keysNodup_graftList sub hs cs i q h.2]
theorem keysNodup_graftEntries (sub : Node) (hs : sub.keysNodup = true) : (es : List (Key × Node)) → (k : Key) → (q : Addr) →
    keysNodupEntries es = true → keysNodupEntries (graftEntries (fun _ => sub) es k q) = true
  | [], _, _, _ => by simp [graftEntries, keysNodupEntries]
  | (k', c) :: es, k, q, h => by
    simp only [keysNodupEntries, Bool.and_eq_true] at h
    have ih := keysNodup_graftEntries sub hs es k q h.2
    have ihc := keysNodup_graftAt sub hs c q h.1
    by_cases hk : k' = k <;> simp [graftEntries, keysNodupEntries, hk, ih, ihc, h.1, h.2]
end

/-! ### `keysNodup` of sub-nodes and of what a creation builds -/

theorem keysNodupList_mem {c : Node} : ∀ {cs : List Node}, keysNodupList cs = true → c ∈ cs → c.keysNodup = true
  | [], _, h => by cases h
  | c' :: cs, hk, h => by
    simp only [keysNodupList, Bool.and_eq_true] at hk
    rcases List.mem_cons.mp h with h1 | h2
    · rw [h1]; exact hk.1
    · exact keysNodupList_mem hk.2 h2

theorem keysNodupEntries_lookup {k : Key} {c : Node} : ∀ {es : List (Key × Node)}, keysNodupEntries es = true →
    es.lookup k = some c → c.keysNodup = true
  | [], _, h => by simp at h
  | (k', c') :: es, hk, h => by
    simp only [keysNodupEntries, Bool.and_eq_true] at hk
    by_cases e : k = k'
    · subst e; simp [List.lookup] at h; rw [← h]; exact hk.1
    · have : (k == k') = false := by simpa using e
      simp only [List.lookup, this] at h
      exact keysNodupEntries_lookup hk.2 h

theorem keysNodup_child? {d c : Node} {r : Ref} (hk : d.keysNodup = true) (h : d.child? r = some c) :
    c.keysNodup = true := by
  cases d <;> cases r <;> simp [Node.child?] at h
  · exact keysNodupList_mem (by simpa [Node.keysNodup] using hk) (List.mem_of_getElem? h)
  · simp only [Node.keysNodup, Bool.and_eq_true] at hk
    exact keysNodupEntries_lookup hk.2 h
  · rw [← h.2]; simp [Node.keysNodup]

theorem keysNodup_get? : ∀ (q : Addr) (d n : Node), d.keysNodup = true → d.get? q = some n → n.keysNodup = true
  | [], d, n, hk, h => by simp [Node.get?] at h; rw [← h]; exact hk
  | r :: q, d, n, hk, h => by
    rw [get?_cons] at h
    cases hc : d.child? r with
    | none => simp [hc] at h
    | some c => simp only [hc] at h; exact keysNodup_get? q c n (keysNodup_child? hk hc) h

theorem keysNodupList_append : ∀ (l1 l2 : List Node),
    keysNodupList (l1 ++ l2) = (keysNodupList l1 && keysNodupList l2)
  | [], l2 => by simp [keysNodupList]
  | c :: l1, l2 => by simp [keysNodupList, keysNodupList_append l1 l2, Bool.and_assoc]

theorem keysNodupList_replicate (x : Node) (hx : x.keysNodup = true) : ∀ k, keysNodupList (List.replicate k x) = true
  | 0 => by simp [keysNodupList]
  | k + 1 => by simp [List.replicate, keysNodupList, hx, keysNodupList_replicate x hx k]

theorem keysNodupEntries_append : ∀ (l1 l2 : List (Key × Node)),
    keysNodupEntries (l1 ++ l2) = (keysNodupEntries l1 && keysNodupEntries l2)
  | [], l2 => by simp [keysNodupEntries]
  | (k, c) :: l1, l2 => by simp [keysNodupEntries, keysNodupEntries_append l1 l2, Bool.and_assoc]

theorem keysDistinct_append_single (k : Key) : ∀ (ks : List Key), keysDistinct ks = true → ks.contains k = false →
    keysDistinct (ks ++ [k]) = true
  | [], _, _ => by simp [keysDistinct]
  | k' :: ks, hd, hc => by
    simp only [keysDistinct, Bool.and_eq_true] at hd
    have hne : ¬ k = k' := by intro e; subst e; simp at hc
    have hc' : ks.contains k = false := by
      cases h : ks.contains k with
      | false => rfl
      | true => rw [List.contains_cons, h] at hc; simp at hc
    have ih := keysDistinct_append_single k ks hd.2 hc'
    have hn : k' ∉ ks := by simpa using hd.1
    simp only [List.cons_append, keysDistinct, Bool.and_eq_true, ih, and_true]
    simp [hn]; exact fun e => hne e.symm

theorem buildNext_keysNodup (rest : List PSeg) (leaf : Scalar) : (buildNext rest leaf).keysNodup = true := by
  unfold buildNext
  split <;> simp [Node.keysNodup, keysNodupList, keysNodupEntries, keysDistinct]

theorem fill_keysNodup : ∀ (rest : List PSeg) (leaf : Scalar) (sp : Node), fill rest leaf = .ok sp → sp.keysNodup = true
  | [], leaf, sp, h => by simp [fill] at h; rw [← h]; simp [Node.keysNodup]
  | .key s :: rest, leaf, sp, h => by
    simp only [fill] at h
    cases hf : fill rest leaf with
    | error e => simp [hf, Except.map] at h
    | ok c =>
      simp [hf, Except.map] at h; rw [← h]
      simp [Node.keysNodup, keysNodupEntries, keysDistinct, fill_keysNodup rest leaf c hf]
  | .index i :: rest, leaf, sp, h => by
    simp only [fill] at h
    by_cases hneg : i < 0
    · simp [hneg] at h
    · cases hf : fill rest leaf with
      | error e => simp [hneg, hf, Except.map] at h
      | ok c =>
        simp [hneg, hf, Except.map] at h; rw [← h]
        simp [Node.keysNodup, keysNodupList_append, keysNodupList, fill_keysNodup rest leaf c hf,
          keysNodupList_replicate _ (buildNext_keysNodup rest leaf)]

theorem createHere_keysNodup {n n' : Node} {seg : PSeg} {rest : List PSeg} {leaf : Scalar}
    (hk : n.keysNodup = true) (hl : lookSeg n seg = .missing) (hc : createHere n seg rest leaf = .ok n') :
    n'.keysNodup = true := by
  cases n with
  | scalar a v => simp [createHere] at hc
  | set a ms => simp [createHere] at hc
  | seq a items =>
    simp only [createHere] at hc
    cases hi : intOfSeg seg with
    | none => simp [hi] at hc
    | some i =>
      simp only [hi] at hc
      by_cases hneg : i < 0
      · simp [hneg] at hc
      · simp only [hneg, if_false] at hc
        cases hf : fill rest leaf with
        | error e => simp [hf] at hc
        | ok sp =>
          simp [hf] at hc; rw [← hc]
          simp only [Node.keysNodup] at hk ⊢
          simp [keysNodupList_append, keysNodupList, hk, fill_keysNodup rest leaf sp hf,
            keysNodupList_replicate _ (buildNext_keysNodup rest leaf)]
  | map a es =>
    simp only [createHere] at hc
    cases seg with
    | index i => simp at hc
    | key s =>
      simp only at hc
      cases hf : fill rest leaf with
      | error e => simp [hf] at hc
      | ok sp =>
        simp [hf] at hc; rw [← hc]
        have hnot : (es.map Prod.fst).contains (Key.str s) = false := by
          cases hcn : (es.map Prod.fst).contains (Key.str s) with
          | false => rfl
          | true =>
            have : lookSeg (.map a es) (.key s) = .found (.key (.str s)) := by
              unfold lookSeg; simp only [hcn, if_true]
            rw [this] at hl; cases hl
        simp only [Node.keysNodup, Bool.and_eq_true] at hk ⊢
        refine ⟨?_, ?_⟩
        · rw [List.map_append]; exact keysDistinct_append_single _ _ hk.1 hnot
        · simp [keysNodupEntries_append, keysNodupEntries, hk.2, fill_keysNodup rest leaf sp hf]

/-! ### One `_update_node` call and one `set_value` on plain data -/

theorem targetsAt_agree (d : Node) (p : Addr → Node → Bool) : Agree d (targetsAt d p) p := by
  intro y n _ hg; simp [targetsAt, hg]

theorem put_false (pd : Node) (T : Addr → Bool) (s : Scalar) (h : ∀ y, T y = false) :
    (POp.put T s).apply pd = pd := by
  simp only [POp.apply]
  exact mapAt_none pd _ _ (fun y _ => h y)

/-- **One step on plain data.**  A successful `_update_node` call for the address `a`, seen through
anchor erasure, puts the new scalar at exactly the addresses of the node at `a` and of its aliases. -/
theorem step_refines (v : Scalar) (fmt : Fmt) (d d' : Node) (a : Addr) (hk : d.keysNodup = true)
    (h : setStep v fmt d a = .ok d') :
    d'.plain = (stepAbs d a (stepScalar v fmt d a)).apply d.plain ∧ d'.keysNodup = true := by
  unfold setStep at h
  by_cases ha : a = []
  · subst ha
    simp at h; subst h
    exact ⟨(put_false _ _ _ (by intro y; simp)).symm, hk⟩
  · simp only [ha, if_false] at h
    by_cases hm : lastIsMember a = true
    · simp [hm] at h
    · simp only [hm, Bool.false_eq_true, if_false] at h
      cases hg : d.get? a with
      | none =>
        simp [hg] at h; subst h
        refine ⟨(put_false _ _ _ ?_).symm, hk⟩
        intro y
        simp only [hg, Option.bind_none, targetsAt]
        cases hy : d.get? y with
        | none => simp
        | some n =>
          have : ¬ y = a := by intro e; subst e; rw [hg] at hy; cases hy
          simp [isRef, this]
      | some n =>
        simp only [hg] at h
        cases hn : newScalar n.anchor.isSome v fmt with
        | error e => simp [hn] at h
        | ok s =>
          simp [hn] at h; subst h
          have hs : stepScalar v fmt d a = s := by simp [stepScalar, hg, hn]
          have hab : (a == []) = false := by simpa using ha
          refine ⟨?_, keysNodup_mapAt s d _ hk⟩
          rw [hs]
          simp only [stepAbs, POp.apply, hg, Option.bind_some, hab, Bool.not_false, Bool.true_and]
          exact plain_mapAt s d _ _ hk (targetsAt_agree d _)

theorem runPlain_append (pd : Node) : ∀ (l1 l2 : List POp), runPlain pd (l1 ++ l2) = runPlain (runPlain pd l1) l2 := by
  intro l1
  induction l1 generalizing pd with
  | nil => intro l2; rfl
  | cons o os ih => intro l2; simp [runPlain, ih]

/-- a whole `set_value`: its puts, one after the other -/
theorem setAbs_refines (v : Scalar) (fmt : Fmt) (d' : Node) : ∀ (d : Node) (addrs : List Addr),
    d.keysNodup = true → setValue v fmt d addrs = .ok d' →
    d'.plain = runPlain d.plain (setAbs v fmt d addrs) ∧ d'.keysNodup = true
  | d, [], hk, h => by simp [setValue] at h; subst h; exact ⟨rfl, hk⟩
  | d, a :: rest, hk, h => by
    simp only [setValue] at h
    cases hs : setStep v fmt d a with
    | error e => simp [hs] at h
    | ok d1 =>
      simp only [hs] at h
      obtain ⟨h1, hk1⟩ := step_refines v fmt d d1 a hk hs
      obtain ⟨h2, hk2⟩ := setAbs_refines v fmt d' d1 rest hk1 h
      refine ⟨?_, hk2⟩
      simp only [setAbs, hs, runPlain, ← h1, h2]

end Ypv
