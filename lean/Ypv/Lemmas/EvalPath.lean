import Ypv.Lemmas.Doc
import Ypv.Lemmas.PathAcc
/-!
# Every result's path sections are those of its steps (C02 `path_reresolves`)

`Loc` (`Lemmas/Doc.lean`) leaves the path section of a step free.  `LocP d n c ss` is the same
invariant with the section of every step pinned to a `Sec` (`Lemmas/PathAcc.lean`) that names the
step inside the parent node (`StepSec`): `[i]` for the reported index `i`; the escaped text `t` for a
key `k` that `t` names (`k` itself, or the integer key `int(t)` found by the string/int fallback of
`_get_nodes_by_key`); the member's text; `[&a]` for a child bearing the anchor `a`.
`allResLocE_required`: every result of `_get_required_nodes` (keyword and collector segments aside)
satisfies it — the induction over the handlers of `Lemmas/Doc.lean`, with the section facts added.
-/
namespace Ypv.Acc
open Ypv Ypv.Eval Gen

/-- the `str` entry of a dict under the text `t` -/
def strEntry : Node → Str → Option Node
  | .map _ es, t => es.lookup (.str t)
  | _, _ => none

/-- the key text `t`, looked up in `n` by `_get_nodes_by_key`, names the key `k`: it is the string
key `t`, or the integer key `int(t)` — written canonically, or with no string key `t` beside it -/
def keyNames (n : Node) (t : Str) : Key → Prop
  | .str s => s = t
  | .int i => pyInt? t = some i ∧ (t = pyStrInt i ∨ strEntry n t = none)

theorem keyNames_self (n : Node) (k : Key) : keyNames n k.text k := by
  cases k with
  | str s => rfl
  | int i => exact ⟨pyInt_pyStrInt i, Or.inl rfl⟩

/-- the section `s` names the step from `n` to its child `m` reported under `pr` -/
inductive StepSec (n m : Node) : PRef → Sec → Prop
  | idx (i : Int) : StepSec n m (.idx i) (.idx i)
  | key (k : Key) (t : Str) : keyNames n t k → StepSec n m (.key k) (.key t)
  | member (k : Key) : StepSec n m (.member k) (.key k.text)
  | ancIdx (i : Int) (a : Str) : m.anchor = some a → StepSec n m (.idx i) (.anc a)
  | ancKey (k : Key) (a : Str) : m.anchor = some a → StepSec n m (.key k) (.anc a)

/-- a located node whose path sections are those of the steps `ss` -/
inductive LocP (d : Node) : Node → Ctx → List Sec → Prop
  | root : LocP d d Ctx.root []
  | child {n : Node} {c : Ctx} {ss : List Sec} (r : Ref) (pr : PRef) (s : Sec) (m : Node) :
      LocP d n c ss → n.child? r = some m → prefOk n pr r → StepSec n m pr s →
      LocP d m (c.child r pr s.mtext) (ss ++ [s])

def LocE (d n : Node) (c : Ctx) : Prop := ∃ ss, LocP d n c ss

theorem LocP.loc {d n : Node} {c : Ctx} {ss : List Sec} (h : LocP d n c ss) : Loc d n c := by
  induction h with
  | root => exact Loc.root
  | child r pr s m _ hc hp _ ih => exact Loc.child r pr _ m ih hc hp

theorem LocP.path {d n : Node} {c : Ctx} {ss : List Sec} (h : LocP d n c ss) :
    c.path = ss.map Sec.mtext ∧ ss.length = c.addr.length := by
  induction h with
  | root => exact ⟨rfl, rfl⟩
  | child r pr s m _ _ _ _ ih => simp [Ctx.child, ih.1, ih.2]

theorem LocE.loc {d n : Node} {c : Ctx} (h : LocE d n c) : Loc d n c := h.elim (fun _ h => h.loc)

theorem LocE.root {d : Node} : LocE d d Ctx.root := ⟨[], LocP.root⟩

theorem LocE.child {d n : Node} {c : Ctx} (r : Ref) (pr : PRef) (s : Sec) (m : Node) {sec : Str}
    (hl : LocE d n c) (hc : n.child? r = some m) (hp : prefOk n pr r) (hs : StepSec n m pr s)
    (he : sec = s.mtext) : LocE d m (c.child r pr sec) := by
  obtain ⟨ss, h⟩ := hl
  subst he
  exact ⟨ss ++ [s], LocP.child r pr s m h hc hp hs⟩

theorem LocE.wf {d n : Node} {c : Ctx} (h : LocE d n c) (hd : d.WF) : n.WF := Loc.wf h.loc hd

def AllLocE (d : Node) (g : Gen NC) : Prop := ∀ x ∈ g.1, LocE d x.1 x.2

variable {d : Node}

theorem locE_seqKids {a : Option Str} {items : List Node} {c : Ctx} (hl : LocE d (.seq a items) c) :
    ∀ (suf pre : List Node), items = pre ++ suf → ∀ x ∈ seqKidsFrom c suf pre.length, LocE d x.1 x.2 := by
  intro suf
  induction suf with
  | nil => intro pre _ x hx; simp [seqKidsFrom] at hx
  | cons m ms ih =>
    intro pre hpre x hx
    simp only [seqKidsFrom, List.mem_cons] at hx
    cases hx with
    | inl hx =>
      subst hx
      refine LocE.child _ _ (.idx (pre.length : Int)) m hl ?_ ?_ (.idx _) rfl
      · simp [Node.child?, hpre]
      · simp only [prefOk, inRange, normIdx, Bool.and_eq_true, decide_eq_true_eq]
        subst hpre
        simp only [List.length_append, List.length_cons]
        refine ⟨⟨by omega, by omega⟩, ?_⟩
        have : ¬ ((pre.length : Int) < 0) := by omega
        simp [this]
    | inr hx =>
      have := ih (pre ++ [m]) (by simp [hpre]) x (by simpa using hx)
      exact this

theorem locE_mapKids {a : Option Str} {es : List (Key × Node)} {c : Ctx} (hl : LocE d (.map a es) c)
    (hw : (es.map (·.1)).Nodup) : ∀ x ∈ mapKids c es, LocE d x.1 x.2 := by
  intro x hx
  simp only [mapKids, List.mem_map] at hx
  obtain ⟨kv, hkv, rfl⟩ := hx
  refine LocE.child _ _ (.key kv.1.text) kv.2 hl ?_ ?_ (.key _ _ (keyNames_self _ _)) rfl
  · simp [Node.child?, lookup_of_mem_nodup hw kv hkv]
  · simp [prefOk]

theorem locE_setKids {a : Option Str} {ms : List Key} {c : Ctx} (hl : LocE d (.set a ms) c) :
    ∀ x ∈ setKids c ms, LocE d x.1 x.2 := by
  intro x hx
  simp only [setKids, List.mem_map] at hx
  obtain ⟨k, hk, rfl⟩ := hx
  refine LocE.child _ _ (.key k.text) k.toNode hl ?_ ?_ (.member _) rfl
  · simp only [Node.child?]
    have : ms.contains k = true := by simpa using hk
    rw [if_pos this]
    cases k <;> rfl
  · simp [prefOk]

theorem locE_kids {n : Node} {c : Ctx} (hl : LocE d n c) (hw : n.WF) : ∀ x ∈ kids n c, LocE d x.1 x.2 := by
  cases n with
  | scalar a v => intro x hx; simp [kids] at hx
  | seq a items => exact locE_seqKids hl items [] rfl
  | map a es => exact locE_mapKids hl hw.1
  | set a ms => exact locE_setKids hl

theorem locE_deepKids {n : Node} {c : Ctx} (hl : LocE d n c) (hw : n.WF) : ∀ x ∈ deepKids n c, LocE d x.1 x.2 := by
  cases n with
  | scalar a v => intro x hx; simp [deepKids] at hx
  | seq a items => exact locE_seqKids hl items [] rfl
  | map a es => exact locE_mapKids hl hw.1
  | set a ms => intro x hx; simp [deepKids] at hx

theorem allLocE_nil : AllLocE d (Gen.nil) := by intro x hx; simp [nil] at hx
theorem allLocE_fail (e : Err) : AllLocE d (Gen.fail e) := by intro x hx; simp [fail] at hx
theorem allLocE_one {x : NC} (h : LocE d x.1 x.2) : AllLocE d (Gen.one x) := by
  intro y hy; simp [one] at hy; subst hy; exact h
theorem allLocE_ofList {l : List NC} (h : ∀ x ∈ l, LocE d x.1 x.2) : AllLocE d (Gen.ofList l) := by
  intro y hy; exact h y (by simpa [ofList] using hy)
theorem allLocE_append {g h : Gen NC} (hg : AllLocE d g) (hh : AllLocE d h) : AllLocE d (append g h) := by
  intro x hx
  cases mem_append_fst hx with
  | inl h1 => exact hg x h1
  | inr h1 => exact hh x h1

theorem allLocE_elemAt {a : Option Str} {items : List Node} {c : Ctx} (hl : LocE d (.seq a items) c) (i : Int) :
    AllLocE d (elemAt items i c) := by
  unfold elemAt
  by_cases h : inRange items.length i = true
  · simp only [h, if_true]
    split
    · rename_i x hx
      refine allLocE_one (LocE.child _ _ (.idx i) x hl ?_ ?_ (.idx _) rfl)
      · simpa [Node.child?] using pyGetItem_spec items i x h hx
      · exact ⟨h, rfl⟩
    · exact allLocE_fail _
  · simp only [h]
    exact allLocE_nil

theorem allLocE_keyOnMap {a : Option Str} {es : List (Key × Node)} {c : Ctx} (hl : LocE d (.map a es) c) (k : Str) :
    AllLocE d (keyOnMap k es c) := by
  unfold keyOnMap
  cases h1 : es.lookup (.str k) with
  | some v =>
    dsimp only
    exact allLocE_one (LocE.child (.key (.str k)) (.key (.str k)) (.key k) v hl
      (by simpa [Node.child?] using h1) (by simp [prefOk]) (.key _ _ rfl) rfl)
  | none =>
    dsimp only
    cases h2 : pyInt? k with
    | none => exact allLocE_nil
    | some i =>
      dsimp only
      cases h3 : es.lookup (.int i) with
      | none => exact allLocE_nil
      | some v =>
        have hk : keyNames (.map a es) k (.int i) := ⟨h2, Or.inr (by simpa [strEntry] using h1)⟩
        exact allLocE_one (LocE.child (.key (.int i)) (.key (.int i)) (.key k) v hl
          (by simpa [Node.child?] using h3) (by simp [prefOk]) (.key _ _ hk) rfl)

theorem allLocE_keyOnSet {a : Option Str} {ms : List Key} {c : Ctx} (hl : LocE d (.set a ms) c) (k : Str) :
    AllLocE d (keyOnSet k ms c) := by
  unfold keyOnSet
  split
  · rename_i m hm
    have hmem : m ∈ ms := List.mem_of_find?_eq_some hm
    have hmk : m.text = k := by simpa using List.find?_some hm
    refine allLocE_one (LocE.child _ _ (.key m.text) m.toNode hl ?_ (by simp [prefOk]) (.member _)
      (by simp [Sec.mtext, hmk]))
    simp only [Node.child?]
    have : ms.contains m = true := by simpa using hmem
    rw [if_pos this]
    cases m <;> rfl
  · exact allLocE_nil

mutual
theorem allLocE_keyStep (k : Str) (tl : Bool) :
    (n : Node) → (c : Ctx) → LocE d n c → AllLocE d (keyStep k tl n c)
  | .map a es, c, hl => by simp only [keyStep]; exact allLocE_keyOnMap hl k
  | .set a ms, c, hl => by simp only [keyStep]; exact allLocE_keyOnSet hl k
  | .scalar .., c, _ => by simp only [keyStep]; exact allLocE_nil
  | .seq a items, c, hl => by
      simp only [keyStep]
      split
      · exact allLocE_elemAt hl _
      · split
        · exact allLocE_passThrough k tl a c items items [] rfl hl
        · exact allLocE_nil
theorem allLocE_passThrough (k : Str) (tl : Bool) (a : Option Str) (c : Ctx) (items : List Node) :
    (suf pre : List Node) → items = pre ++ suf → LocE d (.seq a items) c →
      AllLocE d (keyStep.passThrough k tl c suf pre.length)
  | [], _, _, _ => by simp only [keyStep.passThrough]; exact allLocE_nil
  | m :: ms, pre, hpre, hl => by
      simp only [keyStep.passThrough]
      have hm : LocE d m (c.child (.idx pre.length) (.idx pre.length) (idxSection pre.length)) :=
        locE_seqKids hl (m :: ms) pre hpre (m, _) (by simp [seqKidsFrom, Ctx.child])
      refine allLocE_append (allLocE_keyStep k tl m _ hm) ?_
      have := allLocE_passThrough k tl a c items ms (pre ++ [m]) (by simp [hpre]) hl
      simpa using this
end

theorem allLocE_indexStep {n : Node} {c : Ctx} (hl : LocE d n c) (i : Int) : AllLocE d (indexStep i n c) := by
  cases n <;> simp only [indexStep]
  · exact allLocE_nil
  · exact allLocE_elemAt hl _
  · exact allLocE_nil
  · exact allLocE_fail _

/-- A result: located node, or a virtual list of located nodes. -/
def ResLocE (d : Node) : Res → Prop
  | .real nc => LocE d nc.1 nc.2
  | .virt items => ∀ x ∈ items, LocE d x.1 x.2

def AllResLocE (d : Node) (g : Gen Res) : Prop := ∀ r ∈ g.1, ResLocE d r

theorem allResLocE_real {g : Gen NC} (h : AllLocE d g) : AllResLocE d (g.map Res.real) := by
  intro r hr
  obtain ⟨x, hx, rfl⟩ := mem_map_fst hr
  exact h x hx

theorem sliceItems_locE {a : Option Str} {items : List Node} {c : Ctx} (hl : LocE d (.seq a items) c) :
    ∀ (ixs : List Nat) (l : List NC), (∀ j ∈ ixs, j < items.length) → sliceItems items c ixs = .ok l →
      ∀ x ∈ l, LocE d x.1 x.2 := by
  intro ixs
  induction ixs with
  | nil =>
    intro l _ h x hx
    simp [sliceItems, List.mapM_nil, pure, Except.pure] at h
    subst h
    cases hx
  | cons j js ih =>
    intro l hj h x hx
    have hjl : j < items.length := hj j (by simp)
    have hin : inRange items.length (Int.ofNat j) = true := by
      simp only [inRange, Bool.and_eq_true, decide_eq_true_eq, Int.ofNat_eq_natCast]
      constructor <;> omega
    obtain ⟨y, hy⟩ := pyGetItem_inRange items (Int.ofNat j) hin
    obtain ⟨l', hl'⟩ := sliceItems_ok items c js (fun k hk => hj k (by simp [hk]))
    have hcons : sliceItems items c (j :: js)
        = .ok ((y, c.child (.idx j) (.idx (Int.ofNat j)) (idxSection (Int.ofNat j))) :: l') := by
      unfold sliceItems at hl' ⊢
      rw [List.mapM_cons, hl', hy]
      rfl
    rw [hcons] at h
    cases h
    cases hx with
    | head =>
      have hn : normIdx items.length (Int.ofNat j) = j := by
        have : ¬ ((j : Int) < 0) := by omega
        simp [normIdx, this]
      refine LocE.child _ _ (.idx (Int.ofNat j)) y hl ?_ ⟨hin, hn⟩ (.idx _) rfl
      have := pyGetItem_spec items (Int.ofNat j) y hin hy
      rw [hn] at this
      simpa [Node.child?] using this
    | tail _ hm => exact ih l' (fun k hk => hj k (by simp [hk])) hl' x hm

theorem allResLocE_sliceOnSeq {a : Option Str} {items : List Node} {c : Ctx} (hl : LocE d (.seq a items) c)
    (lo hi : Str) : AllResLocE d (sliceOnSeq lo hi items c) := by
  unfold sliceOnSeq
  split
  · rename_i x y _ _
    split
    · rename_i h
      split
      · rename_i v hv
        intro r hr
        simp [one] at hr
        subst hr
        intro z hz
        simp at hz
        subst hz
        refine LocE.child _ _ (.idx x) v hl ?_ ⟨h.2, rfl⟩ (.idx _) rfl
        simpa [Node.child?] using pyGetItem_spec items x v h.2 hv
      · intro r hr; simp [fail] at hr
    · split
      · rename_i l hl'
        intro r hr
        simp [one] at hr
        subst hr
        exact sliceItems_locE hl _ l (sliceIndices_lt items.length x y) hl'
      · intro r hr; simp [fail] at hr
  · intro r hr; simp [fail] at hr

theorem allLocE_sliceOnMap {a : Option Str} {es : List (Key × Node)} {c : Ctx} (hl : LocE d (.map a es) c)
    (hw : (es.map (·.1)).Nodup) (lo hi : Str) :
    ∀ (l : List (Key × Node)), (∀ kv ∈ l, kv ∈ es) → AllLocE d (sliceOnMap lo hi c l) := by
  intro l
  induction l with
  | nil => intro _; exact allLocE_nil
  | cons kv l ih =>
    intro h
    obtain ⟨k, v⟩ := kv
    have ih' := ih (fun x hx => h x (by simp [hx]))
    simp only [sliceOnMap]
    split
    · refine allLocE_append (allLocE_one ?_) ih'
      exact locE_mapKids hl hw _ (by
        simp only [mapKids, List.mem_map]
        exact ⟨(k, v), h (k, v) (by simp), rfl⟩)
    · exact ih'
    · exact allLocE_fail _

theorem allLocE_sliceOnSet {a : Option Str} {ms : List Key} {c : Ctx} (hl : LocE d (.set a ms) c) (lo hi : Str) :
    ∀ (l : List Key), (∀ k ∈ l, k ∈ ms) → AllLocE d (sliceOnSet lo hi c l) := by
  intro l
  induction l with
  | nil => intro _; exact allLocE_nil
  | cons k l ih =>
    intro h
    have ih' := ih (fun x hx => h x (by simp [hx]))
    simp only [sliceOnSet]
    split
    · refine allLocE_append (allLocE_one ?_) ih'
      exact locE_setKids hl _ (by
        simp only [setKids, List.mem_map]
        exact ⟨k, h k (by simp), rfl⟩)
    · exact ih'
    · exact allLocE_fail _

theorem allResLocE_sliceStep {n : Node} {c : Ctx} (hl : LocE d n c) (hw : n.WF) (lo hi : Str) :
    AllResLocE d (sliceStep lo hi n c) := by
  cases n with
  | scalar a v => intro r hr; simp [sliceStep, nil] at hr
  | seq a items => exact allResLocE_sliceOnSeq hl lo hi
  | map a es => exact allResLocE_real (allLocE_sliceOnMap hl hw.1 lo hi es (fun _ h => h))
  | set a ms => exact allResLocE_real (allLocE_sliceOnSet hl lo hi ms (fun _ h => h))

theorem locE_anchorGo {a : Option Str} {items : List Node} {c : Ctx} (hl : LocE d (.seq a items) c) (an : Str) :
    ∀ (suf pre : List Node), items = pre ++ suf → ∀ x ∈ anchorKids.go an c suf pre.length,
      x.1.anchor = some an → LocE d x.1 x.2 := by
  intro suf
  induction suf with
  | nil => intro pre _ x hx; simp [anchorKids.go] at hx
  | cons m ms ih =>
    intro pre hpre x hx ha
    simp only [anchorKids.go, List.mem_cons] at hx
    cases hx with
    | inl hx =>
      subst hx
      refine LocE.child _ _ (.anc an) m hl ?_ ?_ (.ancIdx _ _ ha) rfl
      · simp [Node.child?, hpre]
      · simp only [prefOk, inRange, normIdx, Bool.and_eq_true, decide_eq_true_eq]
        subst hpre
        simp only [List.length_append, List.length_cons]
        refine ⟨⟨by omega, by omega⟩, ?_⟩
        have : ¬ ((pre.length : Int) < 0) := by omega
        simp [this]
    | inr hx =>
      have := ih (pre ++ [m]) (by simp [hpre]) x (by simpa using hx) ha
      exact this

theorem locE_anchorKids {n : Node} {c : Ctx} (hl : LocE d n c) (hw : n.WF) (an : Str) :
    ∀ x ∈ anchorKids an n c, x.1.anchor = some an → LocE d x.1 x.2 := by
  cases n with
  | scalar a v => intro x hx; simp [anchorKids] at hx
  | set a ms => intro x hx; simp [anchorKids] at hx
  | seq a items => exact locE_anchorGo hl an items [] rfl
  | map a es =>
    intro x hx ha
    simp only [anchorKids, List.mem_map] at hx
    obtain ⟨kv, hkv, rfl⟩ := hx
    refine LocE.child _ _ (.anc an) kv.2 hl ?_ ?_ (.ancKey _ _ ha) rfl
    · simp [Node.child?, lookup_of_mem_nodup hw.1 kv hkv]
    · simp [prefOk]

theorem allLocE_anchorStep {n : Node} {c : Ctx} (hl : LocE d n c) (hw : n.WF) (a : Str) : AllLocE d (anchorStep a n c) :=
  allLocE_ofList (fun x hx => locE_anchorKids hl hw a x (List.mem_filter.mp hx).1
    (by simpa using (List.mem_filter.mp hx).2))

variable {mt : Matcher} {dsc : Desc} {rt : Node}

theorem allLocE_searchStep {n : Node} {c : Ctx} (hl : LocE d n c) (hw : n.WF)
    (inv : Bool) (m : Method) (attr term : Str) (tl : Bool) :
    AllLocE d (searchStep mt dsc inv m attr term tl n c) := by
  cases n with
  | scalar a v =>
    intro y hy
    simp only [searchStep] at hy
    rw [mem_yieldIf hy]; exact hl
  | seq a items =>
    simp only [searchStep]
    split
    · intro y hy
      exact locE_seqKids hl items [] rfl y (mem_searchList _ y hy)
    · exact allLocE_nil
  | set a ms =>
    intro y hy
    simp only [searchStep] at hy
    have := mem_searchNames _ y hy
    simp only [List.map_map] at this
    exact locE_setKids hl y (by simpa [setKids, Function.comp] using this)
  | map a es =>
    simp only [searchStep, searchMap]
    split
    · intro y hy
      have := mem_searchNames _ y hy
      simp only [List.map_map] at this
      exact locE_mapKids hl hw.1 y (by simpa [mapKids, Function.comp] using this)
    · split
      · rename_i v hv
        intro y hy
        rw [mem_yieldIf hy]
        exact LocE.child _ _ (.key attr) v hl (by simpa [Node.child?] using hv) (by simp [prefOk])
          (.key _ _ rfl) rfl
      · split
        · exact allLocE_one hl
        · exact allLocE_nil
        · exact allLocE_fail _

mutual
theorem locE_preorder : (n : Node) → (c : Ctx) → LocE d n c → n.WF → ∀ x ∈ Spec.preorder n c, LocE d x.1 x.2
  | .scalar a v, c, hl, _ => by intro x hx; simp [Spec.preorder] at hx; subst hx; exact hl
  | .set a ms, c, hl, _ => by intro x hx; simp [Spec.preorder] at hx; subst hx; exact hl
  | .seq a items, c, hl, hw => by
      intro x hx
      simp only [Spec.preorder, List.mem_cons] at hx
      cases hx with
      | inl h => subst h; exact hl
      | inr h => exact locE_preSeq a c items items [] rfl hl hw x h
  | .map a es, c, hl, hw => by
      intro x hx
      simp only [Spec.preorder, List.mem_cons] at hx
      cases hx with
      | inl h => subst h; exact hl
      | inr h => exact locE_preMap a c es es (fun _ h => h) hw.1 hl hw.2 x h
theorem locE_preSeq (a : Option Str) (c : Ctx) (all : List Node) :
    (items pre : List Node) → all = pre ++ items → LocE d (.seq a all) c → WFList items →
      ∀ x ∈ Spec.preorder.preSeq c items pre.length, LocE d x.1 x.2
  | [], _, _, _, _ => by intro x hx; simp [Spec.preorder.preSeq] at hx
  | m :: ms, pre, hall, hl, hw => by
      intro x hx
      simp only [Spec.preorder.preSeq, List.mem_append] at hx
      simp only [WFList] at hw
      have hm : LocE d m (c.child (.idx pre.length) (.idx pre.length) (idxSection pre.length)) :=
        locE_seqKids hl (m :: ms) pre hall (m, _) (by simp [seqKidsFrom, Ctx.child])
      cases hx with
      | inl h => exact locE_preorder m _ hm hw.1 x h
      | inr h =>
        have := locE_preSeq a c all ms (pre ++ [m]) (by simp [hall]) hl hw.2 x (by simpa using h)
        exact this
theorem locE_preMap (a : Option Str) (c : Ctx) (all : List (Key × Node)) :
    (es : List (Key × Node)) → (∀ kv ∈ es, kv ∈ all) → (all.map (·.1)).Nodup → LocE d (.map a all) c →
      WFEntries es → ∀ x ∈ Spec.preorder.preMap c es, LocE d x.1 x.2
  | [], _, _, _, _ => by intro x hx; simp [Spec.preorder.preMap] at hx
  | (k, v) :: es, hsub, hnd, hl, hw => by
      intro x hx
      simp only [Spec.preorder.preMap, List.mem_append] at hx
      simp only [WFEntries] at hw
      have hv : LocE d v (c.child (.key k) (.key k) (escSection k.text)) :=
        locE_mapKids hl hnd (v, _) (by
          simp only [mapKids, List.mem_map]
          exact ⟨(k, v), hsub (k, v) (by simp), rfl⟩)
      cases hx with
      | inl h => exact locE_preorder v _ hv hw.1 x h
      | inr h => exact locE_preMap a c all es (fun kv h' => hsub kv (by simp [h'])) hnd hl hw.2 x h
end

theorem allLocE_leafAt {n : Node} {c : Ctx} (hl : LocE d n c) : AllLocE d (leafAt n c) := by
  cases n with
  | scalar a v => exact allLocE_one hl
  | seq a items => exact allLocE_nil
  | map a es => exact allLocE_nil
  | set a ms => exact allLocE_ofList (locE_setKids hl)

theorem allLocE_walk {f : Node → Ctx → Gen NC} {n : Node} {c : Ctx} (hl : LocE d n c) (hw : n.WF)
    (hf : ∀ m cm, LocE d m cm → AllLocE d (f m cm)) : AllLocE d (walk f n c) := by
  rw [walk_eq]
  intro y hy
  obtain ⟨x, hx, hy'⟩ := mem_bindList_fst hy
  exact hf x.1 x.2 (locE_preorder n c hl hw x hx) y hy'

/-- the segment kinds covered here: everything but KEYWORD_SEARCH and COLLECTOR segments -/
def plainKind : ESeg → Bool
  | .keyword .. => false
  | .collector .. => false
  | _ => true

/-- Every result of a segment applied at a located node is located. -/
theorem allResLocE_stepSeg {n : Node} {c : Ctx} (hl : LocE d n c) (hw : n.WF) (s : ESeg) (hs : plainKind s = true)
    (rest : List ESeg) (tl : Bool) :
    AllResLocE d (stepSeg mt dsc rt s rest tl n c) := by
  cases s with
  | key k => simp only [stepSeg]; exact allResLocE_real (allLocE_keyStep k tl n c hl)
  | index i => simp only [stepSeg]; exact allResLocE_real (allLocE_indexStep hl i)
  | slice lo hi => simp only [stepSeg]; exact allResLocE_sliceStep hl hw lo hi
  | anchor a => simp only [stepSeg]; exact allResLocE_real (allLocE_anchorStep hl hw a)
  | search inv m attr term => simp only [stepSeg]; exact allResLocE_real (allLocE_searchStep hl hw inv m attr term tl)
  | matchAll =>
    cases rest with
    | nil =>
      simp only [stepSeg, reals]
      intro r hr
      simp only [ofList, List.mem_map] at hr
      obtain ⟨x, hx, rfl⟩ := hr
      exact locE_kids hl hw x hx
    | cons nxt rest' =>
      simp only [stepSeg]
      exact allResLocE_real (fun x hx => locE_deepKids hl hw x (mem_filterFirst_fst hx))
  | traverse =>
    cases rest with
    | nil =>
      simp only [stepSeg]
      exact allResLocE_real (allLocE_walk hl hw (fun m cm h => allLocE_leafAt h))
    | cons nxt rest' =>
      simp only [stepSeg]
      refine allResLocE_real (allLocE_walk hl hw (fun m cm h y hy => ?_))
      rw [mem_ifAny_fst hy]
      exact h
  | keyword => simp [plainKind] at hs
  | collector => simp [plainKind] at hs
  | unknown => intro r hr; simp [stepSeg, fail] at hr

theorem allResLocE_stepVirt {items : List NC} (hl : ∀ x ∈ items, LocE d x.1 x.2) (s : ESeg) :
    AllResLocE d (stepVirt s items) := by
  unfold stepVirt
  split
  · split
    · refine allResLocE_real (fun y hy => ?_)
      obtain ⟨x, hx, hy'⟩ := mem_bindList_fst hy
      exact allLocE_keyStep _ true x.1 x.2 (hl x hx) y hy'
    · intro r hr; simp [fail] at hr
  · intro r hr; simp [fail] at hr

/-- Every result of `_get_required_nodes` started at a located result of a well-formed document is
located. -/
theorem allResLocE_required (hd : d.WF) : ∀ (segs : List ESeg), (∀ s ∈ segs, plainKind s = true) →
    ∀ (r : Res), ResLocE d r → AllResLocE d (required mt dsc rt segs r) := by
  intro segs
  induction segs with
  | nil => intro _ r hr y hy; simp [required, one] at hy; subst hy; exact hr
  | cons s rest ih =>
    intro hk r hr y hy
    simp only [required] at hy
    obtain ⟨x, hx, hy'⟩ := mem_bind_fst hy
    refine ih (fun s' hs' => hk s' (by simp [hs'])) x ?_ y hy'
    cases r with
    | real nc => exact allResLocE_stepSeg hr (LocE.wf hr hd) s (hk s (by simp)) rest true x hx
    | virt items => exact allResLocE_stepVirt hr s x hx


end Ypv.Acc
