import Ypv.Spec.MergeAt
/-!
# Lemmas for C11: writing a node back at an address, the loop over the targets, path creation
-/
namespace Ypv.MergeAt
open Ypv Ypv.Merge

theorem Apart.symm {a b : Addr} (h : Apart a b) : Apart b a := ⟨h.2, h.1⟩

theorem apart_cons_same {r : Ref} {a b : Addr} (h : Apart (r :: a) (r :: b)) : Apart a b := by
  constructor
  · intro hp; exact h.1 (by simpa using hp)
  · intro hp; exact h.2 (by simpa using hp)

/-! ## `setKey` / `List.lookup`, `List.set` -/

theorem lookup_setKey_same (k : Key) (v : Node) :
    ∀ (es : List (Key × Node)) (c : Node), es.lookup k = some c → (setKey k v es).lookup k = some v
  | [], _, h => by simp at h
  | (k', v') :: rest, c, h => by
    by_cases hk : k' = k
    · subst hk; simp [setKey]
    · have hk' : (k == k') = false := by
        simp only [beq_eq_false_iff_ne, ne_eq]; exact fun e => hk e.symm
      simp only [List.lookup, hk'] at h
      simp only [setKey, hk, if_false, List.lookup, hk']
      exact lookup_setKey_same k v rest c h

theorem lookup_setKey_other (k k' : Key) (v : Node) (hne : k' ≠ k) :
    ∀ (es : List (Key × Node)), (setKey k v es).lookup k' = es.lookup k'
  | [] => by simp [setKey]
  | (k'', v') :: rest => by
    by_cases hk : k'' = k
    · subst hk
      have : (k' == k'') = false := by simp only [beq_eq_false_iff_ne, ne_eq]; exact hne
      simp [setKey, List.lookup, this]
    · simp only [setKey, hk, if_false, List.lookup]
      rw [lookup_setKey_other k k' v hne rest]

/-! ## One level -/

theorem child?_setChild_same {n : Node} {r : Ref} {c c' : Node} (h : n.child? r = some c)
    (hm : isMemberRef r = false) : (setChild n r c').child? r = some c' := by
  cases n with
  | scalar a v => cases r <;> simp [Node.child?] at h
  | set a ms => cases r <;> simp [Node.child?, isMemberRef] at h hm
  | seq a items =>
    cases r with
    | idx i =>
      simp only [Node.child?] at h
      have hi : i < items.length := by
        rcases List.getElem?_eq_some_iff.mp h with ⟨hi, _⟩; exact hi
      simp [setChild, Node.child?, hi]
    | key k => simp [Node.child?] at h
    | member k => simp [Node.child?] at h
  | map a es =>
    cases r with
    | key k =>
      simp only [Node.child?] at h
      simp only [setChild, Node.child?]
      exact lookup_setKey_same k c' es c h
    | idx i => simp [Node.child?] at h
    | member k => simp [Node.child?] at h

theorem child?_setChild_other {n : Node} {r r' : Ref} {c' : Node} (hne : r' ≠ r) :
    (setChild n r c').child? r' = n.child? r' := by
  cases n with
  | scalar a v => cases r <;> rfl
  | set a ms => cases r <;> rfl
  | seq a items =>
    cases r with
    | idx i =>
      cases r' with
      | idx j =>
        have : i ≠ j := fun e => hne (by rw [e])
        simp [setChild, Node.child?, List.getElem?_set_ne this]
      | key k => simp [setChild, Node.child?]
      | member k => simp [setChild, Node.child?]
    | key k => rfl
    | member k => rfl
  | map a es =>
    cases r with
    | key k =>
      cases r' with
      | key k' =>
        have : k' ≠ k := fun e => hne (by rw [e])
        simp only [setChild, Node.child?]
        exact lookup_setKey_other k k' c' this es
      | idx j => simp [setChild, Node.child?]
      | member k' => simp [setChild, Node.child?]
    | idx i => rfl
    | member k => rfl

/-- `setChild` on a member reference (or a reference of the wrong kind) changes nothing. -/
theorem setChild_member {n : Node} {k : Key} {c' : Node} : setChild n (.member k) c' = n := by
  cases n <;> rfl

/-! ## `setAt` against `get?` -/

/-- Writing at `a` leaves every address apart from `a` as it was (both ways: nothing appears,
nothing vanishes, nothing changes). -/
theorem get?_setAt_apart (new : Node) :
    ∀ (a : Addr) (d : Node) (b : Addr), Apart a b → (setAt new d a).get? b = d.get? b
  | [], _, b, h => absurd (List.nil_prefix (l := b)) h.1
  | r :: rest, _, [], h => absurd (List.nil_prefix (l := r :: rest)) h.2
  | r :: rest, d, r' :: rest', h => by
    simp only [setAt]
    cases hc : d.child? r with
    | none => rfl
    | some c =>
      simp only
      by_cases hr : r' = r
      · subst hr
        cases hm : isMemberRef r' with
        | false =>
          simp only [Node.get?, child?_setChild_same hc hm, hc]
          exact get?_setAt_apart new rest c rest' (apart_cons_same h)
        | true =>
          cases r' with
          | member k => rw [setChild_member]
          | idx i => simp [isMemberRef] at hm
          | key k => simp [isMemberRef] at hm
      · simp only [Node.get?, child?_setChild_other hr]

theorem hasMember_cons {r : Ref} {a : Addr} (h : hasMember (r :: a) = false) :
    isMemberRef r = false ∧ hasMember a = false := by
  simpa [hasMember] using h

/-- Writing at an existing address that passes through no set member puts the node there. -/
theorem get?_setAt_self (new : Node) :
    ∀ (a : Addr) (d old : Node), hasMember a = false → d.get? a = some old →
      (setAt new d a).get? a = some new
  | [], _, _, _, _ => rfl
  | r :: rest, d, old, hm, h => by
    obtain ⟨hr, hrest⟩ := hasMember_cons hm
    simp only [Node.get?] at h
    cases hc : d.child? r with
    | none => simp [hc] at h
    | some c =>
      simp only [hc] at h
      simp only [setAt, hc, Node.get?, child?_setChild_same hc hr]
      exact get?_setAt_self new rest c old hrest h

/-! ## The loop over the targets -/

theorem mergeOne_ok {env : Env} {r d d' : Node} {a : Addr} (h : mergeOne env r d a = .ok d') :
    hasMember a = false ∧ ∃ old m, d.get? a = some old ∧
      mergeTarget env a.isEmpty old r = .ok m ∧ d' = setAt m d a := by
  unfold mergeOne at h
  cases hm : hasMember a with
  | true => simp [hm] at h
  | false =>
    simp only [hm, Bool.false_eq_true, if_false] at h
    cases hg : d.get? a with
    | none => simp [hg] at h
    | some old =>
      simp only [hg] at h
      cases ht : mergeTarget env a.isEmpty old r with
      | error e => simp [ht] at h
      | ok m =>
        simp only [ht] at h
        refine ⟨rfl, old, m, rfl, ht, ?_⟩
        cases h; rfl

/-- FRAME of the loop: an address apart from every target holds after the loop what it held
before (`none` included). -/
theorem mergeTargets_frame (env : Env) (r : Node) :
    ∀ (ts : List Addr) (d d' : Node), mergeTargets env r d ts = .ok d' →
      ∀ b, (∀ t ∈ ts, Apart t b) → d'.get? b = d.get? b
  | [], d, d', h, _, _ => by simp [mergeTargets] at h; cases h; rfl
  | a :: rest, d, d', h, b, hb => by
    simp only [mergeTargets] at h
    cases h1 : mergeOne env r d a with
    | error e => simp [h1] at h
    | ok d1 =>
      simp only [h1] at h
      obtain ⟨_, old, m, _, _, hd1⟩ := mergeOne_ok h1
      rw [mergeTargets_frame env r rest d1 d' h b (fun t ht => hb t (List.mem_cons_of_mem _ ht)), hd1]
      exact get?_setAt_apart m a d b (hb a List.mem_cons_self)

/-- TARGETS of the loop: with targets pairwise apart, every target ends up holding the merge of
what it held in the document the loop started from. -/
theorem mergeTargets_merged (env : Env) (r : Node) :
    ∀ (ts : List Addr) (d d' : Node), ts.Pairwise Apart → mergeTargets env r d ts = .ok d' →
      ∀ t ∈ ts, ∃ old m, d.get? t = some old ∧ mergeTarget env t.isEmpty old r = .ok m ∧
        d'.get? t = some m
  | [], _, _, _, _, t, ht => by simp at ht
  | a :: rest, d, d', hp, h, t, ht => by
    simp only [mergeTargets] at h
    cases h1 : mergeOne env r d a with
    | error e => simp [h1] at h
    | ok d1 =>
      simp only [h1] at h
      obtain ⟨hm, old, m, hold, hmt, hd1⟩ := mergeOne_ok h1
      have hpa : ∀ t' ∈ rest, Apart a t' := (List.pairwise_cons.mp hp).1
      have hpr : rest.Pairwise Apart := (List.pairwise_cons.mp hp).2
      rcases List.mem_cons.mp ht with hta | htr
      · subst hta
        refine ⟨old, m, hold, hmt, ?_⟩
        rw [mergeTargets_frame env r rest d1 d' h t (fun t' ht' => (hpa t' ht').symm), hd1]
        exact get?_setAt_self m t d old hm hold
      · obtain ⟨old', m', hold', hmt', hres⟩ := mergeTargets_merged env r rest d1 d' hpr h t htr
        refine ⟨old', m', ?_, hmt', hres⟩
        rw [← hold', hd1]
        exact (get?_setAt_apart m a d t (hpa t htr)).symm

/-! ## Creation of a missing path -/

theorem lookup_append_new (k : Key) (c : Node) :
    ∀ (es : List (Key × Node)), (es.map Prod.fst).contains k = false →
      (es ++ [(k, c)]).lookup k = some c
  | [], _ => by simp
  | (k', v') :: rest, h => by
    simp only [List.map_cons, List.contains_cons, Bool.or_eq_false_iff] at h
    simp only [List.cons_append, List.lookup, h.1]
    exact lookup_append_new k c rest h.2

theorem lookup_append_old (k' : Key) (e : Key × Node) :
    ∀ (es : List (Key × Node)) (x : Node), es.lookup k' = some x → (es ++ [e]).lookup k' = some x
  | [], _, h => by simp at h
  | (k'', v') :: rest, x, h => by
    cases hk : (k' == k'') with
    | true => simpa [List.lookup, hk] using h
    | false =>
      simp only [List.lookup, hk] at h
      simp only [List.cons_append, List.lookup, hk]
      exact lookup_append_old k' e rest x h

theorem getElem?_replicate_append_self {α : Type} (n : Nat) (p c : α) :
    (List.replicate n p ++ [c])[n]? = some c := by
  rw [List.getElem?_append_right (by simp)]
  simp

theorem getElem?_pad {α : Type} (items : List α) (k : Nat) (p c : α) (n : Nat)
    (h : n = items.length + k) : (items ++ List.replicate k p ++ [c])[n]? = some c := by
  subst h
  rw [List.append_assoc, List.getElem?_append_right (by omega)]
  simp

/-- The spine that `fillN` builds leads to the leaf. -/
theorem fillN_resolves (leaf : Node) :
    ∀ (rest : List PSeg) (c : Node), fillN rest leaf = .ok c → c.get? (fillAddr rest) = some leaf
  | [], c, h => by simp [fillN] at h; cases h; rfl
  | .key s :: rest, c, h => by
    simp only [fillN] at h
    cases hf : fillN rest leaf with
    | error e => simp [hf, Except.map] at h
    | ok c0 =>
      simp only [hf, Except.map] at h
      cases h
      simp only [fillAddr, Node.get?, Node.child?, List.lookup, beq_self_eq_true]
      exact fillN_resolves leaf rest c0 hf
  | .index i :: rest, c, h => by
    simp only [fillN] at h
    by_cases hi : i < 0
    · simp [hi] at h
    · simp only [hi, if_false] at h
      cases hf : fillN rest leaf with
      | error e => simp [hf, Except.map] at h
      | ok c0 =>
        simp only [hf, Except.map] at h
        cases h
        simp only [fillAddr, Node.get?, Node.child?, getElem?_replicate_append_self]
        exact fillN_resolves leaf rest c0 hf

/-- The creation block for one missing segment puts the leaf at `newRef :: fillAddr rest`. -/
theorem createHereN_resolves {n n' leaf : Node} {seg : PSeg} {rest : List PSeg}
    (hl : lookSeg n seg = .missing) (h : createHereN n seg rest leaf = .ok n') :
    n'.get? (newRef n seg :: fillAddr rest) = some leaf := by
  cases n with
  | scalar a v => simp [createHereN] at h
  | set a ms => simp [createHereN] at h
  | seq a items =>
    simp only [createHereN] at h
    simp only [lookSeg] at hl
    cases hs : intOfSeg seg with
    | none => simp [hs] at h
    | some i =>
      simp only [hs] at h hl
      by_cases hi : i < 0
      · simp [hi] at h
      · simp only [hi, if_false] at h
        cases hf : fillN rest leaf with
        | error e => simp [hf] at h
        | ok c0 =>
          simp only [hf] at h
          cases h
          have hlen : items.length ≤ i.toNat := by
            by_cases hgt : (items.length : Int) > i
            · simp only [hgt, if_true] at hl
              split at hl <;> (try split at hl) <;> simp at hl
            · omega
          simp only [newRef, hs, Node.get?, Node.child?]
          rw [getElem?_pad items _ _ c0 i.toNat (by omega)]
          exact fillN_resolves leaf rest c0 hf
  | map a es =>
    simp only [createHereN] at h
    cases seg with
    | index i => simp at h
    | key s =>
      simp only at h
      cases hf : fillN rest leaf with
      | error e => simp [hf] at h
      | ok c0 =>
        simp only [hf] at h
        cases h
        simp only [lookSeg] at hl
        have hnot : (es.map Prod.fst).contains (Key.str s) = false := by
          cases hc : (es.map Prod.fst).contains (Key.str s) with
          | false => rfl
          | true => rw [if_pos hc] at hl; cases hl
        simp only [newRef, Node.get?, Node.child?, lookup_append_new (.str s) c0 es hnot]
        exact fillN_resolves leaf rest c0 hf

theorem lookSeg_found_not_member {n : Node} {seg : PSeg} {r : Ref} (h : lookSeg n seg = .found r) :
    isMemberRef r = false := by
  cases n with
  | scalar a v => simp [lookSeg] at h
  | set a ms => simp [lookSeg] at h
  | seq a items =>
    simp only [lookSeg] at h
    split at h
    · split at h
      · split at h
        · cases h; rfl
        · split at h
          · cases h; rfl
          · cases h
      · cases h
    · cases h
  | map a es =>
    simp only [lookSeg] at h
    split at h
    · split at h
      · cases h; rfl
      · split at h
        · split at h
          · cases h; rfl
          · cases h
        · cases h
    · cases h

/-- The creation block keeps every child the node had. -/
theorem createHereN_child_old {n n' leaf : Node} {seg : PSeg} {rest : List PSeg} {r' : Ref} {y : Node}
    (h : createHereN n seg rest leaf = .ok n') (hc : n.child? r' = some y) : n'.child? r' = some y := by
  cases n with
  | scalar a v => simp [createHereN] at h
  | set a ms => simp [createHereN] at h
  | seq a items =>
    simp only [createHereN] at h
    cases hs : intOfSeg seg with
    | none => simp [hs] at h
    | some i =>
      simp only [hs] at h
      by_cases hi : i < 0
      · simp [hi] at h
      · simp only [hi, if_false] at h
        cases hf : fillN rest leaf with
        | error e => simp [hf] at h
        | ok c0 =>
          simp only [hf] at h
          cases h
          cases r' with
          | idx j =>
            simp only [Node.child?] at hc ⊢
            have hj : j < items.length := (List.getElem?_eq_some_iff.mp hc).1
            rw [List.append_assoc, List.getElem?_append_left hj]
            exact hc
          | key k => simp [Node.child?] at hc
          | member k => simp [Node.child?] at hc
  | map a es =>
    simp only [createHereN] at h
    cases seg with
    | index i => simp at h
    | key s =>
      simp only at h
      cases hf : fillN rest leaf with
      | error e => simp [hf] at h
      | ok c0 =>
        simp only [hf] at h
        cases h
        cases r' with
        | key k =>
          simp only [Node.child?] at hc ⊢
          exact lookup_append_old k _ es y hc
        | idx j => simp [Node.child?] at hc
        | member k => simp [Node.child?] at hc

/-- CREATED: when the path was missing, the node at the relayed address is the leaf. -/
theorem createPathN_fresh_holds (leaf : Node) :
    ∀ (segs : List PSeg) (n : Node) (c : CreatedN), createPathN leaf n segs = .ok c →
      c.fresh = true → c.doc.get? c.addr = some leaf
  | [], n, c, h, hf => by
    simp only [createPathN] at h; cases h; simp at hf
  | seg :: rest, n, c, h, hf => by
    simp only [createPathN] at h
    cases hl : lookSeg n seg with
    | crash e => simp [hl] at h
    | missing =>
      simp only [hl] at h
      cases hh : createHereN n seg rest leaf with
      | error e => simp [hh] at h
      | ok n' =>
        simp only [hh] at h
        cases h
        exact createHereN_resolves hl hh
    | found r =>
      simp only [hl] at h
      cases hc : n.child? r with
      | none => simp [hc] at h
      | some c0 =>
        simp only [hc] at h
        cases hn : isPlainNull c0 with
        | true => simp only [hn, if_true] at h; cases h; simp at hf
        | false =>
          simp only [hn, Bool.false_eq_true, if_false] at h
          cases hr : createPathN leaf c0 rest with
          | error e => simp [hr] at h
          | ok cr =>
            simp only [hr] at h
            cases h
            simp only [Node.get?, child?_setChild_same hc (lookSeg_found_not_member hl)]
            exact createPathN_fresh_holds leaf rest c0 cr hr hf

/-- FRAME of the creation: a node that existed at an address apart from the relayed one is still
there, unchanged. -/
theorem createPathN_frame (leaf : Node) :
    ∀ (segs : List PSeg) (n : Node) (c : CreatedN), createPathN leaf n segs = .ok c →
      ∀ (b : Addr) (x : Node), n.get? b = some x → Apart c.addr b → c.doc.get? b = some x
  | [], n, c, h, b, x, hb, _ => by
    simp only [createPathN] at h; cases h; exact hb
  | seg :: rest, n, c, h, b, x, hb, hap => by
    simp only [createPathN] at h
    cases hl : lookSeg n seg with
    | crash e => simp [hl] at h
    | missing =>
      simp only [hl] at h
      cases hh : createHereN n seg rest leaf with
      | error e => simp [hh] at h
      | ok n' =>
        simp only [hh] at h
        cases h
        cases b with
        | nil => exact absurd (List.nil_prefix) hap.2
        | cons r' rest' =>
          simp only [Node.get?] at hb ⊢
          cases hc : n.child? r' with
          | none => simp [hc] at hb
          | some y =>
            simp only [hc] at hb
            simp only [createHereN_child_old hh hc]
            exact hb
    | found r =>
      simp only [hl] at h
      cases hc : n.child? r with
      | none => simp [hc] at h
      | some c0 =>
        simp only [hc] at h
        cases hn : isPlainNull c0 with
        | true => simp only [hn, if_true] at h; cases h; exact hb
        | false =>
          simp only [hn, Bool.false_eq_true, if_false] at h
          cases hr : createPathN leaf c0 rest with
          | error e => simp [hr] at h
          | ok cr =>
            simp only [hr] at h
            cases h
            cases b with
            | nil => exact absurd (List.nil_prefix) hap.2
            | cons r' rest' =>
              by_cases hrr : r' = r
              · subst hrr
                simp only [Node.get?, hc] at hb
                simp only [Node.get?, child?_setChild_same hc (lookSeg_found_not_member hl)]
                exact createPathN_frame leaf rest c0 cr hr rest' x hb (apart_cons_same hap)
              · simp only [Node.get?, child?_setChild_other hrr]
                exact hb

/-! ## Nothing to create: the document is untouched -/

theorem set_same {α : Type} : ∀ (l : List α) (i : Nat) (c : α), l[i]? = some c → l.set i c = l
  | [], _, _, h => by simp at h
  | x :: xs, 0, c, h => by simp at h; simp [h]
  | x :: xs, i + 1, c, h => by simp at h; simp [set_same xs i c h]

theorem setKey_same (k : Key) (c : Node) :
    ∀ (es : List (Key × Node)), es.lookup k = some c → setKey k c es = es
  | [], h => by simp at h
  | (k', v') :: rest, h => by
    by_cases hk : k' = k
    · subst hk
      simp only [List.lookup, beq_self_eq_true, Option.some.injEq] at h
      simp [setKey, h]
    · have hk' : (k == k') = false := by
        simp only [beq_eq_false_iff_ne, ne_eq]; exact fun e => hk e.symm
      simp only [List.lookup, hk'] at h
      simp [setKey, hk, setKey_same k c rest h]

theorem setChild_child {n : Node} {r : Ref} {c : Node} (h : n.child? r = some c) : setChild n r c = n := by
  cases n with
  | scalar a v => cases r <;> rfl
  | set a ms => cases r <;> rfl
  | seq a items =>
    cases r with
    | idx i => simp only [Node.child?] at h; simp [setChild, set_same items i c h]
    | key k => rfl
    | member k => rfl
  | map a es =>
    cases r with
    | key k => simp only [Node.child?] at h; simp [setChild, setKey_same k c es h]
    | idx i => rfl
    | member k => rfl

/-- When the whole path exists the optional query changes nothing and relays the node there. -/
theorem createPathN_not_fresh (leaf : Node) :
    ∀ (segs : List PSeg) (n : Node) (c : CreatedN), createPathN leaf n segs = .ok c →
      c.fresh = false → c.doc = n ∧ ∃ x, n.get? c.addr = some x
  | [], n, c, h, _ => by
    simp only [createPathN] at h; cases h; exact ⟨rfl, n, rfl⟩
  | seg :: rest, n, c, h, hf => by
    simp only [createPathN] at h
    cases hl : lookSeg n seg with
    | crash e => simp [hl] at h
    | missing =>
      simp only [hl] at h
      cases hh : createHereN n seg rest leaf with
      | error e => simp [hh] at h
      | ok n' => simp only [hh] at h; cases h; simp at hf
    | found r =>
      simp only [hl] at h
      cases hc : n.child? r with
      | none => simp [hc] at h
      | some c0 =>
        simp only [hc] at h
        cases hn : isPlainNull c0 with
        | true =>
          simp only [hn, if_true] at h; cases h
          exact ⟨rfl, c0, by simp [Node.get?, hc]⟩
        | false =>
          simp only [hn, Bool.false_eq_true, if_false] at h
          cases hr : createPathN leaf c0 rest with
          | error e => simp [hr] at h
          | ok cr =>
            simp only [hr] at h
            cases h
            obtain ⟨hd, x, hx⟩ := createPathN_not_fresh leaf rest c0 cr hr hf
            refine ⟨?_, x, ?_⟩
            · simp only [hd]; exact setChild_child hc
            · simp only [Node.get?, hc]; exact hx

/-! ## The per-target dispatch is the C05 root merge -/

/-- Outside the finding class `Retyped`, what `merge_with` makes of a target node and the
right-hand document (neither of them null) is the C05 root merge of the two. -/
theorem mergeTarget_eq_c05 (cfg : Config) (isRoot : Bool) (l r : Node)
    (hl : isNull l = false) (hr : isNull r = false) (hs : Retyped isRoot l r = false) :
    mergeTarget (prepare cfg r) isRoot l r = c05 cfg l r := by
  unfold c05 mergeWith mergeTarget
  cases r with
  | map ra res =>
    cases l with
    | scalar la lv => cases lv <;> first | rfl | (exfalso; simp [isNull] at hl)
    | seq la li => rfl
    | map la le => rfl
    | set la lm => rfl
  | seq ra ri =>
    cases l with
    | scalar la lv => cases lv <;> first | rfl | (exfalso; simp [isNull] at hl)
    | seq la li => rfl
    | map la le => rfl
    | set la lm => rfl
  | set ra rm =>
    cases l with
    | scalar la lv => cases lv <;> first | rfl | (exfalso; simp [isNull] at hl)
    | seq la li => rfl
    | map la le => rfl
    | set la lm => rfl
  | scalar ra v =>
    cases l with
    | seq la li => cases v <;> first | rfl | (exfalso; simp [isNull] at hr)
    | map la le => cases v <;> first | rfl | (exfalso; simp [isNull] at hr)
    | set la lm => cases v <;> first | rfl | (exfalso; simp [isNull] at hr)
    | scalar la lv =>
      have hv : v ≠ .null := by intro e; subst e; simp [isNull] at hr
      have hlv : lv ≠ .null := by intro e; subst e; simp [isNull] at hl
      cases isRoot with
      | true =>
        cases v <;> first | exact absurd rfl hv | (cases lv <;> first | rfl | exact absurd rfl hlv)
      | false =>
        simp only [Retyped, Bool.not_false, Bool.true_and, Bool.not_eq_false',
          Bool.and_eq_true, decide_eq_true_eq] at hs
        obtain ⟨hla, hns⟩ := hs
        subst hla
        have : setScalar la v = .ok (.scalar la v) := by simp [setScalar, hns]
        simp only [Bool.false_eq_true, if_false, this]
        cases v <;> first | exact absurd rfl hv | (cases lv <;> first | rfl | exact absurd rfl hlv)

/-! ## The spine above a target keeps its shape -/

theorem setKey_keys (k : Key) (v : Node) :
    ∀ (es : List (Key × Node)), (setKey k v es).map Prod.fst = es.map Prod.fst
  | [] => rfl
  | (k', v') :: rest => by
    by_cases hk : k' = k
    · simp [setKey, hk]
    · simp [setKey, hk, setKey_keys k v rest]

theorem shape_setChild (n : Node) (r : Ref) (c' : Node) : shape (setChild n r c') = shape n := by
  cases n with
  | scalar a v => cases r <;> rfl
  | set a ms => cases r <;> rfl
  | seq a items => cases r <;> simp [setChild, shape]
  | map a es => cases r <;> simp [setChild, shape, setKey_keys]

/-- Writing at `a` keeps the shape of every position that does not lie under `a` (the positions
above `a` included). -/
theorem shape_get?_setAt (new : Node) :
    ∀ (a : Addr) (d : Node) (p : Addr), ¬ a <+: p →
      ((setAt new d a).get? p).map shape = (d.get? p).map shape
  | [], _, p, h => absurd (List.nil_prefix (l := p)) h
  | r :: rest, d, [], _ => by
    simp only [setAt]
    cases hc : d.child? r with
    | none => rfl
    | some c => simp [Node.get?, shape_setChild]
  | r :: rest, d, r' :: rest', h => by
    simp only [setAt]
    cases hc : d.child? r with
    | none => rfl
    | some c =>
      simp only
      by_cases hr : r' = r
      · subst hr
        have hrest : ¬ rest <+: rest' := fun hp => h (by simpa using hp)
        cases hm : isMemberRef r' with
        | false =>
          simp only [Node.get?, child?_setChild_same hc hm, hc]
          exact shape_get?_setAt new rest c rest' hrest
        | true =>
          cases r' with
          | member k => rw [setChild_member]
          | idx i => simp [isMemberRef] at hm
          | key k => simp [isMemberRef] at hm
      · simp only [Node.get?, child?_setChild_other hr]

/-- SPINE of the loop: a position that lies under no target keeps its shape — in particular every
container above a target keeps its kind, anchor, key list (in order) / length. -/
theorem mergeTargets_shape (env : Env) (r : Node) :
    ∀ (ts : List Addr) (d d' : Node), mergeTargets env r d ts = .ok d' →
      ∀ p, (∀ t ∈ ts, ¬ t <+: p) → (d'.get? p).map shape = (d.get? p).map shape
  | [], d, d', h, _, _ => by simp [mergeTargets] at h; cases h; rfl
  | a :: rest, d, d', h, p, hp => by
    simp only [mergeTargets] at h
    cases h1 : mergeOne env r d a with
    | error e => simp [h1] at h
    | ok d1 =>
      simp only [h1] at h
      obtain ⟨_, old, m, _, _, hd1⟩ := mergeOne_ok h1
      rw [mergeTargets_shape env r rest d1 d' h p (fun t ht => hp t (List.mem_cons_of_mem _ ht)), hd1]
      exact shape_get?_setAt m a d p (hp a List.mem_cons_self)

/-! ## On a Scalar leaf the creation model is the C09 model (`Model/Edit.lean`) -/

def CreatedN.toCreated (c : CreatedN) : Created := ⟨c.doc, c.addr⟩

theorem buildNextN_scalar (rest : List PSeg) (s : Scalar) :
    buildNextN rest (.scalar none s) = buildNext rest s := by
  cases rest with
  | nil => rfl
  | cons seg t => cases seg <;> rfl

theorem fillN_scalar (s : Scalar) : ∀ (rest : List PSeg), fillN rest (.scalar none s) = fill rest s
  | [] => rfl
  | .key k :: rest => by simp [fillN, fill, fillN_scalar s rest]
  | .index i :: rest => by simp [fillN, fill, fillN_scalar s rest, buildNextN_scalar]

theorem createHereN_scalar (n : Node) (seg : PSeg) (rest : List PSeg) (s : Scalar) :
    createHereN n seg rest (.scalar none s) = createHere n seg rest s := by
  cases n with
  | scalar a v => rfl
  | set a m => rfl
  | seq a items =>
    simp only [createHereN, createHere, fillN_scalar, buildNextN_scalar]
    cases intOfSeg seg with
    | none => rfl
    | some i =>
      simp only
      split
      · rfl
      · cases fill rest s <;> rfl
  | map a es =>
    simp only [createHereN, createHere, fillN_scalar]
    cases seg with
    | index i => rfl
    | key k => simp only; cases fill rest s <;> rfl

theorem isPlainNull_iff (c : Node) : isPlainNull c = true ↔ c = .scalar none .null := by
  cases c with
  | scalar a v => cases a <;> cases v <;> simp [isPlainNull]
  | seq a i => simp [isPlainNull]
  | map a e => simp [isPlainNull]
  | set a m => simp [isPlainNull]

theorem createList_eq (s : Scalar) : ∀ (items : List Node) (i : Nat) (rest : List PSeg),
    createList s items i rest =
      match items[i]? with
      | none => .error .outOfModel
      | some c =>
        if isPlainNull c then .ok (items, [])
        else (c.createPath s rest).map (fun r => (items.set i r.doc, r.addr))
  | [], i, rest => by simp [createList]
  | c :: cs, 0, rest => by
    by_cases hn : isPlainNull c = true
    · have := (isPlainNull_iff c).mp hn
      subst this
      simp [createList, isPlainNull]
    · simp only [List.getElem?_cons_zero, hn, Bool.false_eq_true, if_false, List.set_cons_zero]
      cases c with
      | scalar a v =>
        cases a with
        | some x => simp [createList]
        | none => cases v <;> first | (exfalso; exact hn rfl) | simp [createList]
      | seq a i => simp [createList]
      | map a e => simp [createList]
      | set a m => simp [createList]
  | c :: cs, i + 1, rest => by
    simp only [createList, createList_eq s cs i rest, List.getElem?_cons_succ, List.set_cons_succ]
    cases cs[i]? with
    | none => rfl
    | some c0 =>
      simp only
      split
      · rfl
      · cases c0.createPath s rest <;> rfl

theorem createEntries_eq (s : Scalar) : ∀ (es : List (Key × Node)) (k : Key) (rest : List PSeg),
    createEntries s es k rest =
      match es.lookup k with
      | none => .error .outOfModel
      | some c =>
        if isPlainNull c then .ok (es, [])
        else (c.createPath s rest).map (fun r => (setKey k r.doc es, r.addr))
  | [], k, rest => by simp [createEntries]
  | (k', c) :: es, k, rest => by
    by_cases hk : k' = k
    · subst hk
      simp only [createEntries, if_true, List.lookup, beq_self_eq_true, setKey]
      by_cases hn : isPlainNull c = true
      · have := (isPlainNull_iff c).mp hn
        subst this
        simp [isPlainNull]
      · simp only [hn, Bool.false_eq_true, if_false]
        cases c with
        | scalar a v =>
          cases a with
          | some x => rfl
          | none => cases v <;> first | (exfalso; exact hn rfl) | rfl
        | seq a i => rfl
        | map a e => rfl
        | set a m => rfl
    · have hk' : (k == k') = false := by
        simp only [beq_eq_false_iff_ne, ne_eq]; exact fun e => hk e.symm
      simp only [createEntries, hk, if_false, List.lookup, hk', createEntries_eq s es k rest, setKey]
      cases es.lookup k with
      | none => rfl
      | some c0 =>
        simp only
        split
        · rfl
        · cases c0.createPath s rest <;> rfl

/-- On a Scalar leaf, `createPathN` (recursion over the segments) is the C09 creation model
`Node.createPath` (mutual recursion over the document): same document, same relayed address. -/
theorem createPathN_scalar (s : Scalar) : ∀ (segs : List PSeg) (n : Node),
    (createPathN (.scalar none s) n segs).map CreatedN.toCreated = n.createPath s segs
  | [], n => by cases n <;> simp [createPathN, Node.createPath, Except.map, CreatedN.toCreated]
  | seg :: rest, n => by
    cases n with
    | scalar a v =>
      simp [createPathN, Node.createPath, lookSeg, createHereN, Except.map]
    | set a ms =>
      simp [createPathN, Node.createPath, lookSeg, Except.map]
    | seq a items =>
      simp only [createPathN, Node.createPath, createHereN_scalar]
      cases hl : lookSeg (.seq a items) seg with
      | crash e => rfl
      | missing =>
        simp only
        cases createHere (.seq a items) seg rest s <;> simp [Except.map, CreatedN.toCreated, newRef]
        cases intOfSeg seg <;> rfl
      | found r =>
        cases r with
        | idx i =>
          simp only [Node.child?, createList_eq s items i rest]
          cases hi : items[i]? with
          | none => rfl
          | some c =>
            simp only
            by_cases hn : isPlainNull c = true
            · simp [hn, Except.map, CreatedN.toCreated]
            · simp only [hn, Bool.false_eq_true, if_false]
              rw [← createPathN_scalar s rest c]
              cases createPathN (.scalar none s) c rest <;> simp [Except.map, CreatedN.toCreated, setChild]
        | key k => simp [Node.child?, Except.map]
        | member k => simp [Node.child?, Except.map]
    | map a es =>
      simp only [createPathN, Node.createPath, createHereN_scalar]
      cases hl : lookSeg (.map a es) seg with
      | crash e => rfl
      | missing =>
        simp only
        cases createHere (.map a es) seg rest s <;> simp [Except.map, CreatedN.toCreated, newRef]
        cases seg <;> rfl
      | found r =>
        cases r with
        | key k =>
          simp only [Node.child?, createEntries_eq s es k rest]
          cases hi : es.lookup k with
          | none => rfl
          | some c =>
            simp only
            by_cases hn : isPlainNull c = true
            · simp [hn, Except.map, CreatedN.toCreated]
            · simp only [hn, Bool.false_eq_true, if_false]
              rw [← createPathN_scalar s rest c]
              cases createPathN (.scalar none s) c rest <;> simp [Except.map, CreatedN.toCreated, setChild]
        | idx i => simp [Node.child?, Except.map]
        | member k => simp [Node.child?, Except.map]

/-! ## Re-basing rule paths on the merge path -/

/-- `/k1/k2/…` (nothing for the empty list). -/
def renderRaw (ks : List Str) : Str := ks.foldr (fun k acc => '/' :: k ++ acc) []

theorem renderKeys_cons (k : Str) (ks : List Str) : renderKeys (k :: ks) = renderRaw (k :: ks) := rfl

theorem renderRaw_append (a b : List Str) : renderRaw (a ++ b) = renderRaw a ++ renderRaw b := by
  induction a with
  | nil => rfl
  | cons k ks ih => simp [renderRaw] at ih ⊢; exact ih

theorem go_key (k : Str) (hk : '/' ∉ k) : ∀ (rest cur : Str) (acc : List Str),
    splitKeys.go (k ++ rest) cur acc = splitKeys.go rest (cur ++ k) acc := by
  induction k with
  | nil => intro rest cur acc; simp
  | cons c cs ih =>
    intro rest cur acc
    have hc : c ≠ '/' := fun e => hk (by simp [e])
    have hcs : '/' ∉ cs := fun h => hk (by simp [h])
    simp only [List.cons_append, splitKeys.go, hc, if_false]
    rw [ih hcs]
    simp

theorem go_render : ∀ (p : List Str), (∀ k ∈ p, '/' ∉ k) → ∀ (cur : Str) (acc : List Str),
    splitKeys.go (renderRaw p) cur acc = acc ++ [cur] ++ p
  | [], _, cur, acc => by simp [renderRaw, splitKeys.go]
  | k :: ps, h, cur, acc => by
    have hk : '/' ∉ k := h k (by simp)
    have hps : ∀ k' ∈ ps, '/' ∉ k' := fun k' hk' => h k' (by simp [hk'])
    have : renderRaw (k :: ps) = '/' :: (k ++ renderRaw ps) := rfl
    rw [this]
    simp only [splitKeys.go, if_true]
    rw [go_key k hk, go_render ps hps]
    simp

/-- RE-BASING.  A rule written against the left document below the merge path — `mergePath ++ p`,
plain key names (non-empty, without the separator) — is the rule `p` of the right-hand document. -/
theorem stripPrefix_append (m p : List Str) (hm : m ≠ [])
    (hp : ∀ k ∈ p, k ≠ [] ∧ '/' ∉ k) : stripPrefix (m ++ p) m = p := by
  cases m with
  | nil => exact absurd rfl hm
  | cons k ks =>
    have hr : renderKeys ((k :: ks) ++ p) = renderKeys (k :: ks) ++ renderRaw p := by
      rw [List.cons_append, renderKeys_cons, renderKeys_cons, ← List.cons_append, renderRaw_append]
    unfold stripPrefix
    simp only [List.isEmpty_cons, Bool.false_eq_true, if_false, hr]
    have hpre : (renderKeys (k :: ks)).isPrefixOf (renderKeys (k :: ks) ++ renderRaw p) = true := by
      simp
    simp only [hpre, if_true, List.drop_left']
    cases p with
    | nil => rfl
    | cons k0 p0 =>
    have hrr : renderRaw (k0 :: p0) = '/' :: (k0 ++ renderRaw p0) := rfl
    have : reparse (renderRaw (k0 :: p0)) = splitKeys (renderRaw (k0 :: p0)) := by
      rw [hrr]; simp [reparse]
    rw [this]
    unfold splitKeys
    rw [go_render (k0 :: p0) (fun k hk => (hp k hk).2)]
    have hf : ([] ++ [([] : Str)] ++ (k0 :: p0)).filter (fun k => !k.isEmpty)
        = (k0 :: p0).filter (fun k => !k.isEmpty) := by simp
    rw [hf]
    apply List.filter_eq_self.mpr
    intro k hk
    have := (hp k hk).1
    cases k with
    | nil => exact absurd rfl this
    | cons c cs => rfl

/-! ## The relayed address never passes through a set member -/

theorem hasMember_fillAddr : ∀ (rest : List PSeg), hasMember (fillAddr rest) = false
  | [] => rfl
  | .key s :: rest => by
    have := hasMember_fillAddr rest
    simp only [hasMember] at this
    simp [fillAddr, hasMember, isMemberRef, this]
  | .index i :: rest => by
    have := hasMember_fillAddr rest
    simp only [hasMember] at this
    simp [fillAddr, hasMember, isMemberRef, this]

theorem isMemberRef_newRef (n : Node) (seg : PSeg) : isMemberRef (newRef n seg) = false := by
  cases n <;> rfl

theorem hasMember_cons_iff (r : Ref) (a : Addr) :
    hasMember (r :: a) = (isMemberRef r || hasMember a) := by
  simp [hasMember]

theorem createPathN_addr_noMember (leaf : Node) :
    ∀ (segs : List PSeg) (n : Node) (c : CreatedN), createPathN leaf n segs = .ok c →
      hasMember c.addr = false
  | [], n, c, h => by simp only [createPathN] at h; cases h; rfl
  | seg :: rest, n, c, h => by
    simp only [createPathN] at h
    cases hl : lookSeg n seg with
    | crash e => simp [hl] at h
    | missing =>
      simp only [hl] at h
      cases hh : createHereN n seg rest leaf with
      | error e => simp [hh] at h
      | ok n' =>
        simp only [hh] at h
        cases h
        simp [hasMember_cons_iff, isMemberRef_newRef, hasMember_fillAddr]
    | found r =>
      simp only [hl] at h
      have hr := lookSeg_found_not_member hl
      cases hc : n.child? r with
      | none => simp [hc] at h
      | some c0 =>
        simp only [hc] at h
        cases hn : isPlainNull c0 with
        | true =>
          simp only [hn, if_true] at h; cases h
          simp [hr, hasMember]
        | false =>
          simp only [hn, Bool.false_eq_true, if_false] at h
          cases hcr : createPathN leaf c0 rest with
          | error e => simp [hcr] at h
          | ok cr =>
            simp only [hcr] at h
            cases h
            simp [hasMember_cons_iff, hr, createPathN_addr_noMember leaf rest c0 cr hcr]

theorem createPathN_fresh_addr_ne_nil (leaf : Node) (segs : List PSeg) (n : Node) (c : CreatedN)
    (h : createPathN leaf n segs = .ok c) (hf : c.fresh = true) : c.addr ≠ [] := by
  cases segs with
  | nil => simp only [createPathN] at h; cases h; simp at hf
  | cons seg rest =>
    simp only [createPathN] at h
    cases hl : lookSeg n seg with
    | crash e => simp [hl] at h
    | missing =>
      simp only [hl] at h
      cases hh : createHereN n seg rest leaf with
      | error e => simp [hh] at h
      | ok n' => simp only [hh] at h; cases h; simp
    | found r =>
      simp only [hl] at h
      cases hc : n.child? r with
      | none => simp [hc] at h
      | some c0 =>
        simp only [hc] at h
        cases hn : isPlainNull c0 with
        | true => simp only [hn, if_true] at h; cases h; simp
        | false =>
          simp only [hn, Bool.false_eq_true, if_false] at h
          cases hcr : createPathN leaf c0 rest with
          | error e => simp [hcr] at h
          | ok cr => simp only [hcr] at h; cases h; simp

end Ypv.MergeAt
