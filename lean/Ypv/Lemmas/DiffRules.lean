import Ypv.Lemmas.Diff
import Ypv.Spec.DiffRules
/-!
# C06 under per-path `[rules]` / `[keys]`: truthfulness wherever the resolved modes are positional
-/
namespace Ypv.Diff.Rules
open Ypv Ypv.Diff Ypv.Diff.Proofs

/-! ## `_get_config_for` -/

/-- `_get_config_for` returns the text of the first stored entry whose node, parent and parentref are `==`
to the asked ones -/
theorem getConfigFor_eq_find (es : List RuleEntry) (q : Coord) :
    getConfigFor es q = match es.find? (fun e => coordMatch e.nc q) with
      | some e => e.text
      | none => [] := by
  induction es with
  | nil => rfl
  | cons e es ih =>
    simp only [getConfigFor, List.find?_cons]
    cases coordMatch e.nc q with
    | true => rfl
    | false => simpa using ih

theorem getConfigFor_nil (q : Coord) : getConfigFor [] q = [] := rfl

/-! ## truthfulness -/

theorem Rep.app_ok {a b : Rep} {rep : List Entry} (h : Rep.app a b = .ok rep) :
    ∃ x y, a = .ok x ∧ b = .ok y ∧ rep = x ++ y := by
  unfold Rep.app at h
  cases a with
  | error c => cases h
  | ok x =>
    cases b with
    | error c => cases h
    | ok y => simp only [Except.ok.injEq] at h; exact ⟨x, y, rfl, rfl, h.symm⟩

theorem Rep.app_ok_ok (x y : List Entry) : Rep.app (.ok x) (.ok y) = .ok (x ++ y) := rfl

/-- the induction hypothesis handed to the list lemmas -/
def TruthfulAt (s : Bool) (pc : PCfg) (x : Node) : Prop :=
  ∀ r q par pref, wf x = true → wf r = true → posReach pc par pref x r = true →
    ∃ rep, diffBetween s pc q par pref x r = .ok rep ∧ ∀ e ∈ rep, EntryOk q x r e

theorem diffPos_nil_right (s : Bool) (pc : PCfg) (p : Addr) (par : Node) : ∀ (xs : List Node) (i : Nat),
    diffPos s pc p par i xs [] = .ok (delSeq p i xs) := by
  intro xs
  induction xs with
  | nil => intro i; simp [diffPos, delSeq, addSeq]
  | cons x xs ih => intro i; simp only [diffPos, ih, delSeq]; rfl

theorem pos_ok (s : Bool) (pc : PCfg) (p : Addr) (par : Node) (a b : Option Str) : ∀ (xs ys pre pre' : List Node),
    pre.length = pre'.length → (∀ x ∈ xs, TruthfulAt s pc x) → (∀ x ∈ xs, wf x = true) → (∀ y ∈ ys, wf y = true) →
    posReachPos pc par pre.length xs ys = true →
    ∃ rep, diffPos s pc p par pre.length xs ys = .ok rep ∧
      ∀ e ∈ rep, EntryOk p (.seq a (pre ++ xs)) (.seq b (pre' ++ ys)) e := by
  intro xs
  induction xs with
  | nil =>
    intro ys pre pre' hlen _ _ _ _
    refine ⟨addSeq p pre.length ys, by simp [diffPos], ?_⟩
    intro e h
    rw [hlen] at h
    exact addSeq_ok p b _ ys pre' e h
  | cons x xs ih =>
    intro ys pre pre' hlen hih hwx hwy hpr
    cases ys with
    | nil =>
      exact ⟨_, diffPos_nil_right s pc p par (x :: xs) pre.length, delSeq_ok p a _ (x :: xs) pre⟩
    | cons y ys =>
      simp only [posReachPos, Bool.and_eq_true] at hpr
      obtain ⟨r1, h1, h1'⟩ := hih x (List.mem_cons_self ..) y (p ++ [.idx pre.length]) (some par)
        (some (.int (pre.length + 1))) (hwx x (List.mem_cons_self ..)) (hwy y (List.mem_cons_self ..)) (by simpa using hpr.1)
      obtain ⟨r2, h2, h2'⟩ := ih ys (pre ++ [x]) (pre' ++ [y]) (by simp [hlen])
        (fun z hz => hih z (List.mem_cons_of_mem _ hz)) (fun z hz => hwx z (List.mem_cons_of_mem _ hz))
        (fun z hz => hwy z (List.mem_cons_of_mem _ hz)) (by simpa using hpr.2)
      simp only [List.length_append, List.length_singleton] at h2
      refine ⟨r1 ++ r2, by simp only [diffPos]; rw [h2, h1]; rfl, ?_⟩
      intro e he
      rcases List.mem_append.mp he with h | h
      · exact EntryOk.lift (lc := x) (rc := y) (by simp [Node.child?]) (by rw [hlen]; simp [Node.child?]) (h1' e h)
      · simpa using h2' e h

theorem dict_ok (s : Bool) (pc : PCfg) (p : Addr) (par : Node) (a b : Option Str) (es0 fs : List (Key × Node))
    (hwf : ∀ kv ∈ fs, wf kv.2 = true) : ∀ (es : List (Key × Node)),
    (∀ kv ∈ es, es0.lookup kv.1 = some kv.2) → (∀ kv ∈ es, TruthfulAt s pc kv.2) → (∀ kv ∈ es, wf kv.2 = true) →
    posReachEntries pc par es fs = true →
    ∃ rep, diffDict s pc p par es fs = .ok rep ∧ ∀ e ∈ rep, EntryOk p (.map a es0) (.map b fs) e := by
  intro es
  induction es with
  | nil => intro _ _ _ _; exact ⟨[], by simp [diffDict], fun _ h => by cases h⟩
  | cons kv es ih =>
    obtain ⟨k, v⟩ := kv
    intro hlk hih hw hpr
    have hl := hlk (k, v) (List.mem_cons_self ..)
    simp only at hl
    simp only [posReachEntries, Bool.and_eq_true] at hpr
    obtain ⟨r2, h2, h2'⟩ := ih (fun kv hkv => hlk kv (List.mem_cons_of_mem _ hkv))
      (fun kv hkv => hih kv (List.mem_cons_of_mem _ hkv)) (fun kv hkv => hw kv (List.mem_cons_of_mem _ hkv)) hpr.2
    cases hf : fs.lookup k with
    | some w =>
      have hp1 := hpr.1
      rw [hf] at hp1
      obtain ⟨r1, h1, h1'⟩ := hih (k, v) (List.mem_cons_self ..) w (p ++ [.key k]) (some par) (some k)
        (hw (k, v) (List.mem_cons_self ..)) (hwf (k, w) (mem_of_lookup hf)) hp1
      refine ⟨r1 ++ r2, by simp only [diffDict, hf]; rw [h1, h2]; rfl, ?_⟩
      intro e he
      rcases List.mem_append.mp he with h | h
      · exact EntryOk.lift (lc := v) (rc := w) (by simpa [Node.child?] using hl) (by simpa [Node.child?] using hf) (h1' e h)
      · exact h2' e h
    | none =>
      refine ⟨[mkDel (p ++ [.key k]) v] ++ r2, by simp only [diffDict, hf]; rw [h2]; rfl, ?_⟩
      intro e he
      rcases List.mem_append.mp he with h | h
      · simp only [List.mem_singleton] at h
        rw [h]
        exact EntryOk.del_child (by simpa [Node.child?] using hl)
      · exact h2' e h

theorem truthful_node (s : Bool) (pc : PCfg) : ∀ (l : Node), TruthfulAt s pc l := by
  intro l
  induction l using nodeInduct with
  | hscalar a v =>
    intro r q par pref hl hr _
    cases r with
    | scalar b w =>
      refine ⟨_, by simp only [diffBetween]; rfl, ?_⟩
      intro e he
      simp only [List.mem_singleton] at he
      rw [he]; exact EntryOk.scalar_self
    | seq b ys => exact ⟨_, by simp only [diffBetween], clash_ok s q _ _ hl hr⟩
    | map b fs => exact ⟨_, by simp only [diffBetween], clash_ok s q _ _ hl hr⟩
    | set b ns => exact ⟨_, by simp only [diffBetween], clash_ok s q _ _ hl hr⟩
  | hset a ms =>
    intro r q par pref hl hr _
    cases r with
    | set b ns =>
      refine ⟨_, by simp only [diffBetween]; rfl, ?_⟩
      intro e he
      simp only [List.mem_append, List.mem_map, List.mem_filter] at he
      cases he with
      | inl h =>
        obtain ⟨k, hk, rfl⟩ := h
        cases hn : ns.contains k with
        | true =>
          rw [if_pos rfl]
          have hkn : k ∈ ns := by simpa using hn
          exact EntryOk.same [.member k] (keyNode k) (keyNode k) (by rw [get?_cons (child_member hk)]; rfl)
            (by rw [get?_cons (child_member hkn)]; rfl) (skey_eqv_keyNode k)
        | false =>
          rw [if_neg (by decide)]
          exact EntryOk.del_child (child_member hk)
      | inr h =>
        obtain ⟨k, ⟨hk, _⟩, rfl⟩ := h
        exact EntryOk.add_child (child_member hk)
    | scalar b w => exact ⟨_, by simp only [diffBetween], clash_ok s q _ _ hl hr⟩
    | seq b ys => exact ⟨_, by simp only [diffBetween], clash_ok s q _ _ hl hr⟩
    | map b fs => exact ⟨_, by simp only [diffBetween], clash_ok s q _ _ hl hr⟩
  | hmap a es ih =>
    intro r q par pref hl hr hpr
    cases r with
    | map b fs =>
      obtain ⟨hd, hv⟩ := wf_map hl
      obtain ⟨hd', hv'⟩ := wf_map hr
      simp only [posReach] at hpr
      obtain ⟨r1, h1, h1'⟩ := dict_ok s pc q (.map b fs) a b es fs hv' es (fun kv hkv => lookup_of_mem hd kv hkv) ih hv hpr
      refine ⟨_, by simp only [diffBetween]; rw [h1]; rfl, ?_⟩
      intro e he
      rcases List.mem_append.mp he with h | h
      · exact h1' e h
      · simp only [List.mem_map, List.mem_filter] at h
        obtain ⟨kv, ⟨hkv, _⟩, rfl⟩ := h
        exact EntryOk.add_child (by simpa [Node.child?] using lookup_of_mem hd' kv hkv)
    | scalar b w => exact ⟨_, by simp only [diffBetween], clash_ok s q _ _ hl hr⟩
    | seq b ys => exact ⟨_, by simp only [diffBetween], clash_ok s q _ _ hl hr⟩
    | set b ns => exact ⟨_, by simp only [diffBetween], clash_ok s q _ _ hl hr⟩
  | hseq a xs ih =>
    intro r q par pref hl hr hpr
    cases r with
    | seq b ys =>
      simp only [posReach] at hpr
      simp only [diffBetween]
      cases hm : listModeAt pc ⟨.seq b ys, par, pref⟩ xs ys with
      | error c => rw [hm] at hpr; cases hpr
      | ok m =>
        rw [hm] at hpr
        cases m with
        | nothing => exact ⟨[], rfl, fun _ h => by cases h⟩
        | posShallow => exact ⟨_, rfl, shallow_ok q a b xs ys [] [] rfl⟩
        | posDeep =>
          exact pos_ok s pc q (.seq b ys) a b xs ys [] [] rfl ih (wf_seq_mem hl) (wf_seq_mem hr) hpr
        | value => cases hpr
        | key => cases hpr
        | deep => cases hpr
    | scalar b w => exact ⟨_, by simp only [diffBetween], clash_ok s q _ _ hl hr⟩
    | map b fs => exact ⟨_, by simp only [diffBetween], clash_ok s q _ _ hl hr⟩
    | set b ns => exact ⟨_, by simp only [diffBetween], clash_ok s q _ _ hl hr⟩

end Ypv.Diff.Rules

/-! ## without a configuration file the per-path model is the global one -/

namespace Ypv.Diff.Rules
open Ypv Ypv.Diff Ypv.Diff.Proofs

theorem listModeAt_plain (c : Cfg) (q : Coord) (xs ys : List Node) :
    listModeAt (PCfg.plain c) q xs ys = .ok (listMode c xs ys) := by
  obtain ⟨arr, aoh⟩ := c
  unfold listModeAt listMode
  simp only [aohModeAt, arrModeAt, PCfg.plain, getConfigFor, if_true]
  cases ys with
  | nil =>
    cases xs with
    | nil => rfl
    | cons x xs => cases hx : isMap x <;> cases aoh <;> cases arr <;> simp [hx, Except.map, arrToList]
  | cons y ys => cases hy : isMap y <;> cases aoh <;> cases arr <;> simp [hy, Except.map, arrToList]

/-- the identity key inferred from a record: its first key -/
def inferredKey : Node → Key × Bool
  | .map _ ((k, _) :: _) => (k, false)
  | _ => (.str [], true)

theorem aohDiffKey_plain (c : Cfg) (q : Coord) : aohDiffKey (PCfg.plain c) q = inferredKey q.node := by
  obtain ⟨n, pa, pr⟩ := q
  simp only [aohDiffKey, PCfg.plain, getConfigFor, parentKey, if_true]
  cases n with
  | map a es =>
    cases es with
    | nil => rfl
    | cons e es => obtain ⟨k, v⟩ := e; rfl
  | scalar _ _ => rfl
  | seq _ _ => rfl
  | set _ _ => rfl

theorem keyAttrAt_plain (c : Cfg) (par : Node) (ys : List Node) : keyAttrAt (PCfg.plain c) par ys = keyAttr ys := by
  cases ys with
  | nil => rfl
  | cons y ys =>
    cases y with
    | map a es =>
      simp only [keyAttrAt, aohDiffKey_plain]
      cases es with
      | nil => rfl
      | cons e es => obtain ⟨k, v⟩ := e; rfl
    | scalar _ _ => rfl
    | seq _ _ => rfl
    | set _ _ => rfl

theorem useKey_plain (c : Cfg) (par : Node) (ka : Key) (y : Nat × Node) : useKey (PCfg.plain c) par ka y = ka := by
  obtain ⟨i, n⟩ := y
  simp only [useKey, aohDiffKey_plain]
  cases n with
  | map a es =>
    cases es with
    | nil => simp [inferredKey]
    | cons e es => obtain ⟨k, v⟩ := e; simp [inferredKey]
  | scalar _ _ => simp [inferredKey]
  | seq _ _ => simp [inferredKey]
  | set _ _ => simp [inferredKey]

theorem matchAt_plain (c : Cfg) (par : Node) (ka : Key) (x : Node) (y : Nat × Node) {v : Node}
    (hx : keyVal ka x = some v) : matchAt (PCfg.plain c) par ka x y = .ok (keyMatch ka x y.2) := by
  simp only [matchAt, useKey_plain, keyMatch, hx]
  cases keyVal ka y.2 <;> rfl

theorem removeFirstAt_ok (f : Node → Bool) (g : Nat × Node → Except Crash Bool) :
    ∀ (rem : List (Nat × Node)), (∀ y ∈ rem, g y = .ok (f y.2)) → removeFirstAt g rem = .ok (removeFirst f rem) := by
  intro rem
  induction rem with
  | nil => intro _; rfl
  | cons y ys ih =>
    intro h
    simp only [removeFirstAt, removeFirst, h y (List.mem_cons_self ..)]
    cases hf : f y.2 with
    | true => simp
    | false =>
      simp only [ih (fun z hz => h z (List.mem_cons_of_mem _ hz))]
      cases removeFirst f ys with
      | none => simp
      | some r => obtain ⟨z, zs⟩ := r; simp

theorem removeFirst_keyless (ka : Key) (x : Node) (hx : keyVal ka x = none) :
    ∀ (rem : List (Nat × Node)), removeFirst (keyMatch ka x) rem = none := by
  intro rem
  induction rem with
  | nil => rfl
  | cons y ys ih => simp [removeFirst, keyMatch, hx, ih]

/-- the induction hypothesis handed to the list lemmas -/
def PlainAt (s : Bool) (c : Cfg) (x : Node) : Prop :=
  ∀ r q par pref, diffBetween s (PCfg.plain c) q par pref x r = .ok (Diff.diffBetween s c q x r)

theorem plain_dict (s : Bool) (c : Cfg) (p : Addr) (par : Node) (fs : List (Key × Node)) : ∀ (es : List (Key × Node)),
    (∀ kv ∈ es, PlainAt s c kv.2) → diffDict s (PCfg.plain c) p par es fs = .ok (Diff.diffDict s c p es fs) := by
  intro es
  induction es with
  | nil => intro _; simp [diffDict, Diff.diffDict]
  | cons kv es ih =>
    obtain ⟨k, v⟩ := kv
    intro hih
    simp only [diffDict, Diff.diffDict, ih (fun kv hkv => hih kv (List.mem_cons_of_mem _ hkv))]
    cases fs.lookup k with
    | none => rfl
    | some w => simp only [hih (k, v) (List.mem_cons_self ..) w]; rfl

theorem plain_pos (s : Bool) (c : Cfg) (p : Addr) (par : Node) : ∀ (xs ys : List Node) (i : Nat),
    (∀ x ∈ xs, PlainAt s c x) → diffPos s (PCfg.plain c) p par i xs ys = .ok (Diff.diffPos s c p i xs ys) := by
  intro xs
  induction xs with
  | nil => intro ys i _; simp [diffPos, Diff.diffPos]
  | cons x xs ih =>
    intro ys i hih
    cases ys with
    | nil =>
      simp only [diffPos, Diff.diffPos, ih [] (i + 1) (fun z hz => hih z (List.mem_cons_of_mem _ hz))]; rfl
    | cons y ys =>
      simp only [diffPos, Diff.diffPos, ih ys (i + 1) (fun z hz => hih z (List.mem_cons_of_mem _ hz)),
        hih x (List.mem_cons_self ..) y]; rfl

theorem plain_value (s : Bool) (c : Cfg) (p : Addr) (par : Node) : ∀ (xs : List Node) (i : Nat) (rem : List (Nat × Node)),
    (∀ x ∈ xs, PlainAt s c x) → diffValue s (PCfg.plain c) p par i xs rem = .ok (Diff.diffValue s c p i xs rem) := by
  intro xs
  induction xs with
  | nil => intro i rem _; simp [diffValue, Diff.diffValue]
  | cons x xs ih =>
    intro i rem hih
    simp only [diffValue, Diff.diffValue]
    cases removeFirst (fun y => eqv y x) rem with
    | none => simp only [ih (i + 1) rem (fun z hz => hih z (List.mem_cons_of_mem _ hz))]
    | some r =>
      obtain ⟨y, rem'⟩ := r
      simp only [hih x (List.mem_cons_self ..) y.2, ih (i + 1) rem' (fun z hz => hih z (List.mem_cons_of_mem _ hz))]

theorem plain_key (s : Bool) (c : Cfg) (p : Addr) (par : Node) (deep : Bool) (ka : Key) :
    ∀ (xs : List Node) (i : Nat) (rem : List (Nat × Node)),
    (∀ x ∈ xs, PlainAt s c x) →
    diffKey s (PCfg.plain c) p par deep ka i xs rem = .ok (Diff.diffKey s c p deep ka i xs rem) := by
  intro xs
  induction xs with
  | nil => intro i rem _; simp [diffKey, Diff.diffKey]
  | cons x xs ih =>
    intro i rem hih
    have hrec := fun rem' => ih (i + 1) rem' (fun z hz => hih z (List.mem_cons_of_mem _ hz))
    simp only [diffKey, Diff.diffKey]
    cases hx : keyVal ka x with
    | none => simp only [removeFirst_keyless ka x hx, hrec]; rfl
    | some v =>
      simp only [removeFirstAt_ok (keyMatch ka x) _ rem (fun y _ => matchAt_plain c par ka x y hx)]
      cases removeFirst (keyMatch ka x) rem with
      | none => simp only [hrec]; rfl
      | some r =>
        obtain ⟨y, rem'⟩ := r
        simp only [hrec]
        cases deep with
        | false => rfl
        | true => simp only [hih x (List.mem_cons_self ..) y.2, if_true]; rfl

theorem plain_node (s : Bool) (c : Cfg) : ∀ (l : Node), PlainAt s c l := by
  intro l
  induction l using nodeInduct with
  | hscalar a v => intro r q par pref; cases r <;> simp only [diffBetween, Diff.diffBetween]
  | hset a ms => intro r q par pref; cases r <;> simp only [diffBetween, Diff.diffBetween]
  | hmap a es ih =>
    intro r q par pref
    cases r with
    | map b fs => simp only [diffBetween, Diff.diffBetween, plain_dict s c q _ fs es ih]; rfl
    | scalar _ _ => simp only [diffBetween, Diff.diffBetween]
    | seq _ _ => simp only [diffBetween, Diff.diffBetween]
    | set _ _ => simp only [diffBetween, Diff.diffBetween]
  | hseq a xs ih =>
    intro r q par pref
    cases r with
    | seq b ys =>
      simp only [diffBetween, Diff.diffBetween, listModeAt_plain, keyAttrAt_plain]
      cases listMode c xs ys with
      | nothing => rfl
      | posShallow => rfl
      | posDeep => exact plain_pos s c q _ xs ys 0 ih
      | value => simp only [plain_value s c q _ xs 0 _ ih]
      | key => exact plain_key s c q _ false _ xs 0 _ ih
      | deep => exact plain_key s c q _ true _ xs 0 _ ih
    | scalar _ _ => simp only [diffBetween, Diff.diffBetween]
    | map _ _ => simp only [diffBetween, Diff.diffBetween]
    | set _ _ => simp only [diffBetween, Diff.diffBetween]

/-- with no `[rules]` the reachability condition is the positional condition on the global modes -/
theorem posReach_plain (c : Cfg) (hc : Positional c) : ∀ (l r : Node) (par : Option Node) (pref : Option Key),
    posReach (PCfg.plain c) par pref l r = true := by
  intro l
  induction l using nodeInduct with
  | hscalar a v => intro r par pref; cases r <;> simp [posReach]
  | hset a ms => intro r par pref; cases r <;> simp [posReach]
  | hmap a es ih =>
    intro r par pref
    cases r with
    | map b fs =>
      simp only [posReach]
      induction es with
      | nil => simp [posReachEntries]
      | cons e es ihe =>
        obtain ⟨k, v⟩ := e
        simp only [posReachEntries, Bool.and_eq_true]
        refine ⟨?_, ihe (fun kv hkv => ih kv (List.mem_cons_of_mem _ hkv))⟩
        cases fs.lookup k with
        | none => rfl
        | some w => exact ih (k, v) (List.mem_cons_self ..) w _ _
    | scalar _ _ => simp [posReach]
    | seq _ _ => simp [posReach]
    | set _ _ => simp [posReach]
  | hseq a xs ih =>
    intro r par pref
    cases r with
    | seq b ys =>
      simp only [posReach, listModeAt_plain]
      rcases listMode_positional hc xs ys with hm | hm | hm
      · rw [hm]
      · rw [hm]
      · rw [hm]
        simp only
        generalize 0 = i
        generalize Node.seq b ys = par'
        clear hm
        induction xs generalizing ys i with
        | nil => simp [posReachPos]
        | cons x xs ihx =>
          cases ys with
          | nil => simp [posReachPos]
          | cons y ys =>
            simp only [posReachPos, Bool.and_eq_true]
            exact ⟨ih x (List.mem_cons_self ..) y _ _, ihx (fun u hu => ih u (List.mem_cons_of_mem _ hu)) ys (i + 1)⟩
    | scalar _ _ => simp [posReach]
    | map _ _ => simp [posReach]
    | set _ _ => simp [posReach]

end Ypv.Diff.Rules
