import Ypv.Model.Cli
/-!
# Lemmas about the command-line tool models (C16)
-/
namespace Ypv.Cli.Lemmas
open Ypv Ypv.Cli

theorem when_eq_nil {α : Type} (c : Bool) (e : α) : when c e = [] ↔ c = false := by
  cases c <;> simp [when]

/-! ## yaml-get -/

theorem getErrors_nil_iff (a : GetArgs) (tty : Bool) :
    getErrors a tty = [] ↔
      ¬ ((a.file = none ∧ (a.nostdin = true ∨ tty = true)) ∨ a.priv = .bad ∨ a.pub = .bad
          ∨ a.priv.isSet ≠ a.pub.isSet) := by
  obtain ⟨file, nostdin, priv, pub⟩ := a
  cases file with
  | none => cases nostdin <;> cases tty <;> cases priv <;> cases pub <;> decide
  | some f => cases f <;> cases nostdin <;> cases tty <;> cases priv <;> cases pub <;> decide

theorem get_exit_zero_iff (ev : Node → Query) (a : GetArgs) (tty : Bool) (ld : Option Node) :
    (get ev a tty ld).exit = 0 ↔
      getErrors a tty = [] ∧ ∃ d, ld = some d ∧ (ev d).err = none ∧ (ev d).nodes ≠ [] := by
  unfold get
  by_cases hv : getErrors a tty = []
  · simp only [hv, ne_eq, not_true_eq_false, ↓reduceIte, true_and]
    cases ld with
    | none => simp
    | some d =>
      simp only [Option.some.injEq, exists_eq_left']
      cases he : (ev d).err with
      | some e => cases e <;> simp
      | none =>
        cases hn : (ev d).nodes with
        | nil => simp
        | cons x xs => simp
  · simp [hv]

theorem get_lines (ev : Node → Query) (a : GetArgs) (tty : Bool) (ld : Option Node) :
    ((get ev a tty ld).exit = 0 →
        ∃ d, ld = some d ∧ (get ev a tty ld).out = (ev d).nodes.map render
          ∧ (get ev a tty ld).out.length = (ev d).nodes.length
          ∧ ∀ i : Nat, (get ev a tty ld).out[i]? = ((ev d).nodes[i]?).map render)
    ∧ ((get ev a tty ld).exit ≠ 0 → (get ev a tty ld).out = []) := by
  unfold get
  by_cases hv : getErrors a tty = []
  · simp only [hv, ne_eq, not_true_eq_false, ↓reduceIte]
    cases ld with
    | none => simp
    | some d =>
      cases he : (ev d).err with
      | some e => cases e <;> simp [he]
      | none =>
        cases hn : (ev d).nodes with
        | nil => simp [he, hn]
        | cons x xs =>
          simp only [he, hn]
          simp only [List.isEmpty_cons, Bool.false_eq_true, ↓reduceIte, Option.some.injEq, exists_eq_left',
            List.length_map, true_and, not_true_eq_false, false_implies, and_true, hn]
          intro _ i
          rw [List.getElem?_map]
  · simp [hv]

theorem get_args (ev : Node → Query) (a : GetArgs) (tty : Bool) (ld : Option Node) :
    (getErrors a tty ≠ [] ↔
        (a.file = none ∧ (a.nostdin = true ∨ tty = true)) ∨ a.priv = .bad ∨ a.pub = .bad
          ∨ a.priv.isSet ≠ a.pub.isSet)
    ∧ (getErrors a tty ≠ [] → get ev a tty ld = ⟨[], 1⟩) := by
  constructor
  · rw [ne_eq, getErrors_nil_iff, Classical.not_not]
  · intro h
    simp [get, h]

theorem getErrors_file (a : GetArgs) (f : FileArg) (tty tty' : Bool) :
    getErrors { a with file := some f } tty = getErrors { a with file := some .path } tty' := by
  simp [getErrors, inStream]

theorem get_delivery (ev : Node → Query) (a : GetArgs) (tty tty' : Bool) (ld : Option Node) :
    get ev { a with file := some .dash } tty ld = get ev { a with file := some .path } tty' ld
    ∧ (a.nostdin = false →
        get ev { a with file := none } false ld = get ev { a with file := some .path } tty' ld) := by
  constructor
  · unfold get
    rw [getErrors_file a .dash tty tty']
  · intro hn
    unfold get
    have : getErrors { a with file := none } false = getErrors { a with file := some .path } tty' := by
      simp [getErrors, inStream, hn]
    rw [this]

/-! ## yaml-diff -/

theorem diffErrors_nil_iff (a : DiffArgs) :
    diffErrors a = [] ↔
      ¬ ((a.lhs = .dash ∧ a.rhs = .dash) ∨ (a.quiet = true ∧ (a.same = true ∨ a.onlysame = true))
          ∨ a.config = .bad ∨ a.priv = .bad ∨ a.pub = .bad) := by
  obtain ⟨lhs, rhs, quiet, same, onlysame, config, priv, pub, lidx, ridx⟩ := a
  cases lhs <;> cases rhs <;> cases quiet <;> cases same <;> cases onlysame <;> cases config <;>
    cases priv <;> cases pub <;> simp [diffErrors, when, manyDash]

section
variable {E : Type} (isSame : E → Bool) (differ : Node → Node → Option (List E))

theorem diff_report (a : DiffArgs) (ls rs : List Node) (ld rd : Node) (rep : List E)
    (hv : diffErrors a = []) (hl : pickDoc ls a.lidx = .doc ld) (hr : pickDoc rs a.ridx = .doc rd)
    (hd : differ ld rd = some rep) :
    diff isSame differ a (some ls) (some rs)
      = some ⟨rep.filter (shown isSame a), if rep.all isSame then 0 else 1⟩ := by
  simp [diff, hv, hl, hr, hd]

theorem diff_exit_zero_iff (a : DiffArgs) (l r : Option (List Node)) (o : DiffOut E)
    (h : diff isSame differ a l r = some o) :
    o.exit = 0 ↔
      diffErrors a = [] ∧ ∃ ls rs ld rd rep, l = some ls ∧ r = some rs ∧ pickDoc ls a.lidx = .doc ld
        ∧ pickDoc rs a.ridx = .doc rd ∧ differ ld rd = some rep ∧ ∀ e ∈ rep, isSame e = true := by
  unfold diff at h
  by_cases hv : diffErrors a = []
  · simp only [hv, ne_eq, not_true_eq_false, ↓reduceIte, true_and] at h ⊢
    cases l with
    | none => simp at h; subst h; simp
    | some ls =>
      cases r with
      | none => simp at h; subst h; simp
      | some rs =>
        simp only at h
        cases hl : pickDoc ls a.lidx with
        | exit1 => simp [hl] at h; subst h; simp [hl]
        | crash => simp [hl] at h
        | doc ld =>
          cases hr : pickDoc rs a.ridx with
          | exit1 => simp [hl, hr] at h; subst h; simp [hr]
          | crash => simp [hl, hr] at h
          | doc rd =>
            cases hd : differ ld rd with
            | none => simp [hl, hr, hd] at h; subst h; simp [hl, hr, hd]
            | some rep =>
              simp [hl, hr, hd] at h
              subst h
              simp only [Option.some.injEq, exists_and_left, exists_eq_left', Pick.doc.injEq, hl, hr, hd]
              simp
  · simp [hv] at h
    subst h
    simp [hv]

theorem diff_args (a : DiffArgs) (l r : Option (List Node)) :
    (diffErrors a ≠ [] ↔
        (a.lhs = .dash ∧ a.rhs = .dash) ∨ (a.quiet = true ∧ (a.same = true ∨ a.onlysame = true))
          ∨ a.config = .bad ∨ a.priv = .bad ∨ a.pub = .bad)
    ∧ (diffErrors a ≠ [] → diff isSame differ a l r = some ⟨[], 1⟩) := by
  constructor
  · rw [ne_eq, diffErrors_nil_iff, Classical.not_not]
  · intro h
    simp [diff, h]

theorem diff_exit_indep (a : DiffArgs) (q s os : Bool) (l r : Option (List Node))
    (hv : diffErrors a = []) (hv' : diffErrors { a with quiet := q, same := s, onlysame := os } = []) :
    (diff isSame differ { a with quiet := q, same := s, onlysame := os } l r).map (·.exit)
      = (diff isSame differ a l r).map (·.exit) := by
  unfold diff
  simp only [hv, hv', ne_eq, not_true_eq_false, ↓reduceIte]
  cases l with
  | none => rfl
  | some ls =>
    cases r with
    | none => rfl
    | some rs =>
      simp only
      cases pickDoc ls a.lidx with
      | exit1 => rfl
      | crash => rfl
      | doc ld =>
        cases pickDoc rs a.ridx with
        | exit1 => rfl
        | crash => rfl
        | doc rd =>
          cases hd : differ ld rd <;> simp [hd]
end

/-! ## yaml-validate -/

theorem valErrors_nil_iff (a : ValArgs) (tty : Bool) :
    valErrors a tty = [] ↔
      ¬ ((a.files = [] ∧ (tty = true ∨ a.nostdin = true)) ∨ manyDash a.files = true) := by
  unfold valErrors
  simp only [List.append_eq_nil_iff, when_eq_nil]
  cases hf : a.files with
  | nil => cases tty <;> cases a.nostdin <;> simp [manyDash]
  | cons x xs => cases h : manyDash (x :: xs) <;> simp

theorem valFileState_eq (flags : List Bool) :
    (valFileState flags = 0 ↔ ∀ b ∈ flags, b = true) ∧ (valFileState flags = 0 ∨ valFileState flags = 2) := by
  unfold valFileState
  by_cases h : flags.all id = true
  · simp [h]
    simpa [List.all_eq_true] using h
  · simp [h]
    simpa [List.all_eq_true] using h

theorem valLoop_state (a : ValArgs) (fi : Nat) (loads : List (List Bool)) :
    ((valLoop a fi loads).2 = 0 ↔ ∀ f ∈ loads, ∀ b ∈ f, b = true)
      ∧ ((valLoop a fi loads).2 = 0 ∨ (valLoop a fi loads).2 = 2) := by
  induction loads generalizing fi with
  | nil => simp [valLoop]
  | cons f rest ih =>
    obtain ⟨ih1, ih2⟩ := ih (fi + 1)
    obtain ⟨hf1, hf2⟩ := valFileState_eq f
    simp only [valLoop, List.mem_cons, forall_eq_or_imp]
    by_cases hst : (valLoop a (fi + 1) rest).2 = 0
    · simp only [hst, ne_eq, not_true_eq_false, ↓reduceIte]
      refine ⟨?_, hf2⟩
      rw [hf1]
      exact ⟨fun h => ⟨h, ih1.mp hst⟩, fun h => h.1⟩
    · simp only [hst, ne_eq, not_false_eq_true, ↓reduceIte, false_iff, not_and]
      refine ⟨fun _ h => hst (ih1.mpr h), ?_⟩
      cases ih2 with
      | inl h => exact absurd h hst
      | inr h => exact Or.inr h

theorem validate_exit (a : ValArgs) (tty : Bool) (loads : List (List Bool)) (stdin : List Bool)
    (hv : valErrors a tty = []) :
    ((validate a tty loads stdin).exit = 0 ↔
        (∀ f ∈ loads, ∀ b ∈ f, b = true)
          ∧ (implicitStdin a.files a.nostdin tty = true → ∀ b ∈ stdin, b = true))
    ∧ ((validate a tty loads stdin).exit = 0 ∨ (validate a tty loads stdin).exit = 2) := by
  obtain ⟨h1, h2⟩ := valLoop_state a 0 loads
  obtain ⟨hs1, hs2⟩ := valFileState_eq stdin
  unfold validate
  simp only [hv, ne_eq, not_true_eq_false, ↓reduceIte]
  cases hvl : valLoop a 0 loads with
  | mk ls st =>
    rw [hvl] at h1 h2
    simp only at h1 h2 ⊢
    by_cases hst : st = 0
    · cases hi : implicitStdin a.files a.nostdin tty
      · simp only [hst, decide_true, Bool.and_false, Bool.false_eq_true, ↓reduceIte, false_implies, and_true]
        exact ⟨⟨fun _ => h1.mp hst, fun _ => trivial⟩, Or.inl trivial⟩
      · simp only [hst, decide_true, Bool.and_self, ↓reduceIte, forall_const]
        refine ⟨?_, hs2⟩
        rw [hs1]
        exact ⟨fun h => ⟨h1.mp hst, h⟩, fun h => h.2⟩
    · have hd : (decide (st = 0) && implicitStdin a.files a.nostdin tty) = false := by simp [hst]
      simp only [hd, Bool.false_eq_true, ↓reduceIte]
      exact ⟨⟨fun h => absurd h hst, fun h => absurd (h1.mpr h.1) hst⟩, h2⟩

theorem validate_args (a : ValArgs) (tty : Bool) (loads : List (List Bool)) (stdin : List Bool) :
    (valErrors a tty ≠ [] ↔
        (a.files = [] ∧ (tty = true ∨ a.nostdin = true)) ∨ manyDash a.files = true)
    ∧ (valErrors a tty ≠ [] → validate a tty loads stdin = ⟨[], 1⟩) := by
  constructor
  · rw [ne_eq, valErrors_nil_iff, Classical.not_not]
  · intro h
    simp [validate, h]

/-! ## yaml-set -/

theorem setRun_result (a : SetArgs) (d : Node) (g : Gather) (segs : Option (List PSeg)) (o : SetOut)
    (h : setRun a d g segs = some o) :
    (o.exit = 0 →
        ((a.src = .none ∧ o.written = some (setDest a, d)) ∨
          ∃ op d', setOp a g segs = some op ∧ op.apply d = .ok d' ∧ o.written = some (setDest a, d'))
        ∧ o.backup = (if a.backup then some d else none))
    ∧ (o.exit ≠ 0 → o.written = none ∧ o.backup = none ∧ (o.exit = 1 ∨ o.exit = 20)) := by
  unfold setRun at h
  simp only [] at h
  repeat' split at h
  all_goals first
    | (cases h; done)
    | (cases h; simp [SetOut.fail]; done)
    | (cases h; simp_all; done)
    | skip


theorem set_result (ev : Node → Gather) (a : SetArgs) (tty : Bool) (ld : Option (Option Node))
    (segs : Option (List PSeg)) (o : SetOut) (h : set ev a tty ld segs = some o) :
    (o.exit = 0 →
        ∃ d, ld = some (some d) ∧ setErrors a tty = [] ∧
          ((a.src = .none ∧ o.written = some (setDest a, d)) ∨
            ∃ op d', setOp a (ev d) segs = some op ∧ op.apply d = .ok d' ∧ o.written = some (setDest a, d'))
          ∧ o.backup = (if a.backup then some d else none))
    ∧ (o.exit ≠ 0 → o.written = none ∧ o.backup = none ∧ (o.exit = 1 ∨ o.exit = 20)) := by
  unfold set at h
  split at h
  · cases h; simp [SetOut.fail]
  · rename_i hv
    split at h
    · cases h; simp [SetOut.fail]
    · cases h
    · rename_i d
      obtain ⟨h1, h2⟩ := setRun_result a d (ev d) segs o h
      refine ⟨fun h0 => ⟨d, rfl, ?_, h1 h0⟩, h2⟩
      simpa using hv

theorem inStream_iff (file : Option FileArg) (nostdin tty : Bool) :
    inStream file nostdin tty = true ↔ file = some .dash ∨ (file = none ∧ nostdin = false ∧ tty = false) := by
  cases file with
  | none => cases nostdin <;> cases tty <;> simp [inStream]
  | some f => cases f <;> simp [inStream]

theorem set_args (ev : Node → Gather) (a : SetArgs) (tty : Bool) (ld : Option (Option Node))
    (segs : Option (List PSeg)) :
    (setErrors a tty ≠ [] ↔
        (a.file = none ∧ (a.nostdin = true ∨ tty = true))
        ∨ (a.src.truthy = false ∧ a.anchor = .unset ∧ a.tag = false)
        ∨ (isStdinSrc a.src = true ∧ inStream a.file a.nostdin tty = true)
        ∨ (a.anchor = .name ∧ a.src ≠ .aliasof ∧ a.src ≠ .mergekey)
        ∨ (a.backup = true ∧ inStream a.file a.nostdin tty = true)
        ∨ (savetoSet a = true ∧ a.saveto = some a.change)
        ∨ a.priv = .bad ∨ a.pub = .bad ∨ a.randomFromShort = true)
    ∧ (setErrors a tty ≠ [] → set ev a tty ld segs = some (.fail 1)) := by
  constructor
  · unfold setErrors
    simp only [ne_eq, List.append_eq_nil_iff, when_eq_nil, Classical.not_and_iff_not_or_not, Bool.not_eq_false]
    have e1 : (!(a.file.isSome || inStream a.file a.nostdin tty)) = true ↔
        (a.file = none ∧ (a.nostdin = true ∨ tty = true)) := by
      cases a.file with
      | none => cases a.nostdin <;> cases tty <;> simp [inStream]
      | some f => simp
    have e2 : (!(a.src.truthy || a.anchor != .unset || a.tag)) = true ↔
        (a.src.truthy = false ∧ a.anchor = .unset ∧ a.tag = false) := by
      cases a.src.truthy <;> cases a.anchor <;> cases a.tag <;> simp
    have e4 : (a.anchor == .name && !(a.src == .aliasof || a.src == .mergekey)) = true ↔
        (a.anchor = .name ∧ a.src ≠ .aliasof ∧ a.src ≠ .mergekey) := by
      simp
    rw [e1, e2, e4]
    simp [or_assoc]
  · intro h
    simp [set, h]

/-! ## yaml-paths -/

section
variable (valid : Str → Bool) (find : Node → Str → List Str)

theorem addHits_mem (e : Str) (ps : List Str) (acc : List Hit) (h : Hit) (hm : h ∈ addHits e ps acc) :
    h ∈ acc ∨ (h.1 = e ∧ h.2 ∈ ps) := by
  induction ps generalizing acc with
  | nil => exact Or.inl hm
  | cons p ps ih =>
    simp only [addHits] at hm
    rcases ih _ hm with h1 | h2
    · split at h1
      · exact Or.inl h1
      · rcases List.mem_append.mp h1 with h3 | h3
        · exact Or.inl h3
        · simp only [List.mem_singleton] at h3
          subst h3
          exact Or.inr ⟨rfl, List.mem_cons_self⟩
    · exact Or.inr ⟨h2.1, List.mem_cons_of_mem _ h2.2⟩

theorem addHits_mono (e : Str) (ps : List Str) (acc : List Hit) (h : Hit) (hm : h ∈ acc) :
    h ∈ addHits e ps acc := by
  induction ps generalizing acc with
  | nil => exact hm
  | cons p ps ih =>
    simp only [addHits]
    apply ih
    split
    · exact hm
    · exact List.mem_append_left _ hm

theorem any_snd_iff (acc : List Hit) (p : Str) : acc.any (·.2 == p) = true ↔ p ∈ acc.map (·.2) := by
  simp only [List.any_eq_true, beq_iff_eq, List.mem_map]

theorem addHits_complete (e : Str) (ps : List Str) (acc : List Hit) (p : Str) (hp : p ∈ ps) :
    p ∈ (addHits e ps acc).map (·.2) := by
  induction ps generalizing acc with
  | nil => cases hp
  | cons q ps ih =>
    simp only [addHits]
    rcases List.mem_cons.mp hp with rfl | h
    · by_cases hc : acc.any (·.2 == p) = true
      · simp only [hc, ↓reduceIte]
        obtain ⟨x, hx, hx2⟩ := List.mem_map.mp ((any_snd_iff acc p).mp hc)
        exact List.mem_map.mpr ⟨x, addHits_mono e ps acc x hx, hx2⟩
      · simp only [hc, Bool.false_eq_true, ↓reduceIte]
        exact List.mem_map.mpr ⟨(e, p), addHits_mono e ps _ _ (List.mem_append_right _ List.mem_cons_self), rfl⟩
    · exact ih _ h

theorem addHits_nodup (e : Str) (ps : List Str) (acc : List Hit) (hn : (acc.map (·.2)).Nodup) :
    ((addHits e ps acc).map (·.2)).Nodup := by
  induction ps generalizing acc with
  | nil => exact hn
  | cons p ps ih =>
    simp only [addHits]
    apply ih
    by_cases hc : acc.any (·.2 == p) = true
    · simpa [hc] using hn
    · simp only [hc, Bool.false_eq_true, ↓reduceIte, List.map_append, List.map_cons, List.map_nil]
      have hnot : p ∉ acc.map (·.2) := fun hm => hc ((any_snd_iff acc p).mpr hm)
      rw [List.nodup_append]
      refine ⟨hn, by simp, ?_⟩
      intro a ha b hb
      simp only [List.mem_singleton] at hb
      subst hb
      intro hab
      subst hab
      exact hnot ha

/-- Invariant of the search loop. -/
theorem searchLoop_inv (d : Node) (es : List Str) (acc : List Hit) (bad : Bool) (all : List Str)
    (hsub : ∀ e ∈ es, e ∈ all)
    (hacc : ∀ h ∈ acc, h.1 ∈ all ∧ valid h.1 = true ∧ h.2 ∈ find d h.1)
    (hn : (acc.map (·.2)).Nodup) :
    (∀ h ∈ (searchLoop valid find d es acc bad).1, h.1 ∈ all ∧ valid h.1 = true ∧ h.2 ∈ find d h.1)
    ∧ ((searchLoop valid find d es acc bad).1.map (·.2)).Nodup
    ∧ (∀ h ∈ acc, h ∈ (searchLoop valid find d es acc bad).1)
    ∧ (∀ e ∈ es, valid e = true → ∀ p ∈ find d e, p ∈ (searchLoop valid find d es acc bad).1.map (·.2))
    ∧ ((searchLoop valid find d es acc bad).2 = true ↔ bad = true ∨ ∃ e ∈ es, valid e = false) := by
  induction es generalizing acc bad with
  | nil =>
    simp only [searchLoop, List.not_mem_nil, false_and, exists_false, or_false, imp_self, implies_true, and_true,
      false_implies]
    exact ⟨hacc, hn⟩
  | cons e es ih =>
    have hsub' : ∀ x ∈ es, x ∈ all := fun x hx => hsub x (List.mem_cons_of_mem _ hx)
    by_cases hv : valid e = true
    · simp only [searchLoop, hv, ↓reduceIte]
      have hacc' : ∀ h ∈ addHits e (find d e) acc, h.1 ∈ all ∧ valid h.1 = true ∧ h.2 ∈ find d h.1 := by
        intro h hm
        rcases addHits_mem e (find d e) acc h hm with h1 | ⟨h2, h3⟩
        · exact hacc h h1
        · rw [h2]; exact ⟨hsub e List.mem_cons_self, hv, h3⟩
      obtain ⟨i1, i2, i3, i4, i5⟩ := ih (addHits e (find d e) acc) bad hsub' hacc' (addHits_nodup e _ acc hn)
      refine ⟨i1, i2, fun h hm => i3 h (addHits_mono e _ acc h hm), ?_, ?_⟩
      · intro x hx hvx p hp
        rcases List.mem_cons.mp hx with rfl | hx'
        · obtain ⟨y, hy, hy2⟩ := List.mem_map.mp (addHits_complete x (find d x) acc p hp)
          exact List.mem_map.mpr ⟨y, i3 y hy, hy2⟩
        · exact i4 x hx' hvx p hp
      · rw [i5]
        constructor
        · rintro (h | ⟨x, hx, hxv⟩)
          · exact Or.inl h
          · exact Or.inr ⟨x, List.mem_cons_of_mem _ hx, hxv⟩
        · rintro (h | ⟨x, hx, hxv⟩)
          · exact Or.inl h
          · rcases List.mem_cons.mp hx with rfl | hx'
            · rw [hv] at hxv; cases hxv
            · exact Or.inr ⟨x, hx', hxv⟩
    · simp only [searchLoop, hv, Bool.false_eq_true, ↓reduceIte]
      obtain ⟨i1, i2, i3, i4, i5⟩ := ih acc true hsub' hacc hn
      refine ⟨i1, i2, i3, ?_, ?_⟩
      · intro x hx hvx p hp
        rcases List.mem_cons.mp hx with rfl | hx'
        · exact absurd hvx hv
        · exact i4 x hx' hvx p hp
      · rw [i5]
        simp only [true_or, true_iff]
        exact Or.inr ⟨e, List.mem_cons_self, by simpa using hv⟩

theorem eraseP_excl (acc : List Hit) (p : Str) (hn : (acc.map (·.2)).Nodup) :
    p ∉ (acc.eraseP (·.2 == p)).map (·.2) := by
  induction acc with
  | nil => simp
  | cons x xs ih =>
    simp only [List.map_cons, List.nodup_cons] at hn
    by_cases hx : x.2 = p
    · simp only [List.eraseP_cons, hx, beq_self_eq_true, cond_true]
      rw [← hx]; exact hn.1
    · have : (x.2 == p) = false := by simpa using hx
      simp only [List.eraseP_cons, this, cond_false, List.map_cons, List.mem_cons, not_or]
      exact ⟨fun h => hx h.symm, ih hn.2⟩

theorem dropHits_sublist (ps : List Str) (acc : List Hit) : List.Sublist (dropHits ps acc) acc := by
  induction ps generalizing acc with
  | nil => exact List.Sublist.refl _
  | cons p ps ih => exact (ih _).trans (List.eraseP_sublist)

theorem dropHits_excl (ps : List Str) (acc : List Hit) (hn : (acc.map (·.2)).Nodup) (p : Str) (hp : p ∈ ps) :
    p ∉ (dropHits ps acc).map (·.2) := by
  induction ps generalizing acc with
  | nil => cases hp
  | cons q ps ih =>
    simp only [dropHits]
    have hn' : ((acc.eraseP (·.2 == q)).map (·.2)).Nodup := (List.eraseP_sublist.map _).nodup hn
    rcases List.mem_cons.mp hp with rfl | h
    · intro hm
      exact eraseP_excl acc p hn (((dropHits_sublist ps _).map _).subset hm)
    · exact ih _ hn' h

theorem dropHits_keeps (ps : List Str) (acc : List Hit) (h : Hit) (hm : h ∈ acc) (hp : h.2 ∉ ps) :
    h ∈ dropHits ps acc := by
  induction ps generalizing acc with
  | nil => exact hm
  | cons q ps ih =>
    simp only [dropHits]
    apply ih
    · rw [List.mem_eraseP_of_neg]
      · exact hm
      · simp only [beq_iff_eq]
        intro hq
        exact hp (hq ▸ List.mem_cons_self)
    · exact fun hq => hp (List.mem_cons_of_mem _ hq)

theorem exceptLoop_inv (d : Node) (es : List Str) (acc : List Hit) (bad : Bool)
    (hn : (acc.map (·.2)).Nodup) :
    List.Sublist (exceptLoop valid find d es acc bad).1 acc
    ∧ (∀ x ∈ es, valid x = true → ∀ p ∈ find d x, p ∉ (exceptLoop valid find d es acc bad).1.map (·.2))
    ∧ (∀ h ∈ acc, (∀ x ∈ es, valid x = true → h.2 ∉ find d x) → h ∈ (exceptLoop valid find d es acc bad).1)
    ∧ ((exceptLoop valid find d es acc bad).2 = true ↔ bad = true ∨ ∃ e ∈ es, valid e = false) := by
  induction es generalizing acc bad with
  | nil => simp [exceptLoop]
  | cons e es ih =>
    by_cases hv : valid e = true
    · simp only [exceptLoop, hv, ↓reduceIte]
      have hs := dropHits_sublist (find d e) acc
      have hn' : ((dropHits (find d e) acc).map (·.2)).Nodup := (hs.map _).nodup hn
      obtain ⟨i1, i2, i3, i4⟩ := ih (dropHits (find d e) acc) bad hn'
      refine ⟨i1.trans hs, ?_, ?_, ?_⟩
      · intro x hx hvx p hp
        rcases List.mem_cons.mp hx with rfl | hx'
        · intro hm
          exact dropHits_excl (find d x) acc hn p hp ((i1.map _).subset hm)
        · exact i2 x hx' hvx p hp
      · intro h hm hfree
        apply i3 h
        · exact dropHits_keeps _ acc h hm (hfree e List.mem_cons_self hv)
        · exact fun x hx hvx => hfree x (List.mem_cons_of_mem _ hx) hvx
      · rw [i4]
        constructor
        · rintro (h | ⟨x, hx, hxv⟩)
          · exact Or.inl h
          · exact Or.inr ⟨x, List.mem_cons_of_mem _ hx, hxv⟩
        · rintro (h | ⟨x, hx, hxv⟩)
          · exact Or.inl h
          · rcases List.mem_cons.mp hx with rfl | hx'
            · rw [hv] at hxv; cases hxv
            · exact Or.inr ⟨x, hx', hxv⟩
    · simp only [exceptLoop, hv, Bool.false_eq_true, ↓reduceIte]
      obtain ⟨i1, i2, i3, i4⟩ := ih acc true hn
      refine ⟨i1, ?_, ?_, ?_⟩
      · intro x hx hvx p hp
        rcases List.mem_cons.mp hx with rfl | hx'
        · exact absurd hvx hv
        · exact i2 x hx' hvx p hp
      · intro h hm hfree
        exact i3 h hm (fun x hx hvx => hfree x (List.mem_cons_of_mem _ hx) hvx)
      · rw [i4]
        simp only [true_or, true_iff]
        exact Or.inr ⟨e, List.mem_cons_self, by simpa using hv⟩

/-- The hits printed for one document. -/
theorem pathsDoc_spec (a : PathsArgs) (d : Node) :
    (∀ h ∈ (pathsDoc valid find a d).1, h.1 ∈ a.search ∧ valid h.1 = true ∧ h.2 ∈ find d h.1)
    ∧ ((pathsDoc valid find a d).1.map (·.2)).Nodup
    ∧ (∀ x ∈ a.exc, valid x = true → ∀ p ∈ find d x, p ∉ (pathsDoc valid find a d).1.map (·.2))
    ∧ (∀ e ∈ a.search, valid e = true → ∀ p ∈ find d e,
        (∀ x ∈ a.exc, valid x = true → p ∉ find d x) → p ∈ (pathsDoc valid find a d).1.map (·.2))
    ∧ ((∀ e ∈ a.search, valid e = true) → (∀ e ∈ a.exc, valid e = true) → (pathsDoc valid find a d).2 = none) := by
  obtain ⟨s1, s2, _, s4, s5⟩ := searchLoop_inv valid find d a.search [] false a.search (fun _ h => h)
    (by simp) (by simp)
  unfold pathsDoc
  cases hsl : searchLoop valid find d a.search [] false with
  | mk hits bad =>
    rw [hsl] at s1 s2 s4 s5
    simp only at s1 s2 s4 s5 ⊢
    by_cases hemp : hits.isEmpty = true
    · have hnil : hits = [] := by simpa using hemp
      subst hnil
      simp only [List.isEmpty_nil, ↓reduceIte, List.not_mem_nil, false_implies, implies_true, List.map_nil,
        List.nodup_nil, not_false_eq_true, true_and]
      refine ⟨?_, ?_⟩
      · intro e he hve p hp _
        exact absurd (s4 e he hve p hp) (by simp)
      · intro hall _
        have : bad = false := by
          cases hb : bad with
          | false => rfl
          | true =>
            obtain ⟨e, he, hne⟩ := (s5.mp hb).resolve_left (by simp)
            rw [hall e he] at hne; cases hne
        simp [this]
    · simp only [hemp, Bool.false_eq_true, ↓reduceIte]
      obtain ⟨x1, x2, x3, x4⟩ := exceptLoop_inv valid find d a.exc hits false s2
      cases hel : exceptLoop valid find d a.exc hits false with
      | mk kept bad' =>
        rw [hel] at x1 x2 x3 x4
        simp only at x1 x2 x3 x4 ⊢
        refine ⟨fun h hm => s1 h (x1.subset hm), (x1.map _).nodup s2, x2, ?_, ?_⟩
        · intro e he hve p hp hfree
          obtain ⟨y, hy, hy2⟩ := List.mem_map.mp (s4 e he hve p hp)
          exact List.mem_map.mpr ⟨y, x3 y hy (fun x hx hvx => hy2 ▸ hfree x hx hvx), hy2⟩
        · intro hall hall'
          have hb : bad = false := by
            cases hb : bad with
            | false => rfl
            | true =>
              obtain ⟨e, he, hne⟩ := (s5.mp hb).resolve_left (by simp)
              rw [hall e he] at hne; cases hne
          have hb' : bad' = false := by
            cases hb' : bad' with
            | false => rfl
            | true =>
              obtain ⟨e, he, hne⟩ := (x4.mp hb').resolve_left (by simp)
              rw [hall' e he] at hne; cases hne
          simp [hb, hb']

/-- The lines of one input whose documents all loaded: per document, in stream order, its hits tagged
with the input's position and the document index. -/
def fileLines (a : PathsArgs) (fi : Nat) : Nat → List Node → List PLine
  | _, [] => []
  | i, d :: ds => (pathsDoc valid find a d).1.map (fun h => (fi, i, h)) ++ fileLines a fi (i + 1) ds

theorem pathsFile_lines (a : PathsArgs) (fi i : Nat) (ds : List Node) (st : Nat) :
    (pathsFile valid find a fi i (ds.map some) st).1 = fileLines valid find a fi i ds := by
  induction ds generalizing i st with
  | nil => simp [pathsFile, fileLines]
  | cons d ds ih =>
    simp only [List.map_cons, pathsFile, fileLines]
    rw [ih]
end

/-! ## yaml-merge -/

open Ypv.MultiDoc in
section
variable {ε : Type} (m : Node → Node → Except ε Node) (cls : ε → Cls)

theorem across_nonempty (l : Node) (ls rs : List Node) (o : Out) (h : across m cls (l :: ls) rs = .ok o) :
    o.docs ≠ [] := by
  cases rs with
  | nil => simp [across] at h; subst h; simp
  | cons r rs =>
    simp only [across] at h
    split at h
    · split at h
      · cases h; simp
      · cases h
    · split at h
      · cases h; simp
      · cases h

theorem matrix_nonempty (rhs : List Node) (l : Node) (ls : List Node) (st : Nat) (o : Out)
    (h : matrix m cls rhs (l :: ls) st = .ok o) : o.docs ≠ [] := by
  simp only [matrix] at h
  split at h
  · cases h
  · split at h
    · cases h
    · cases h; simp

theorem mergeDocs_nonempty (mode : Mode) (lhs : List Node) (rhs : Option (List Node)) (o : Out)
    (hl : lhs ≠ []) (h : mergeDocs m cls mode lhs rhs = some (.ok o)) : o.docs ≠ [] := by
  cases lhs with
  | nil => exact absurd rfl hl
  | cons l ls =>
    cases rhs with
    | none => simp [mergeDocs] at h; subst h; simp
    | some rs =>
      cases mode with
      | condenseAll =>
        simp only [mergeDocs, condenseAll] at h
        split at h
        · cases h
        · split at h
          · cases h
          · simp only [Option.some.injEq, Except.ok.injEq] at h; subst h; simp
      | mergeAcross =>
        simp only [mergeDocs, Option.some.injEq] at h
        exact across_nonempty m cls l ls rs o h
      | matrixMerge =>
        simp only [mergeDocs, Option.some.injEq] at h
        exact matrix_nonempty m cls rs l ls 0 o h

theorem mergeFiles_fileLoop (mode : Mode) (files : List (List Node)) (docs : List Node) (n : Nat)
    (hd : docs ≠ []) :
    match fileLoop m cls mode files docs with
    | none => mergeFiles m cls mode (files.map some) docs n = none
    | some (.error e) => mergeFiles m cls mode (files.map some) docs n = some (.error e)
    | some (.ok o) => ∃ k, mergeFiles m cls mode (files.map some) docs n = some (.ok (o, k))
        ∧ (o.state = 0 → k = n + files.length ∧ o.docs ≠ []) := by
  induction files generalizing docs n with
  | nil => simp [fileLoop, mergeFiles, hd]
  | cons f rest ih =>
    have hne : docs.isEmpty = false := by cases docs with | nil => exact absurd rfl hd | cons _ _ => rfl
    simp only [fileLoop, List.map_cons, mergeFiles, hne, Bool.false_eq_true, ↓reduceIte]
    cases hmd : mergeDocs m cls mode docs (some f) with
    | none => simp
    | some r =>
      cases r with
      | error e => simp
      | ok o =>
        simp only
        by_cases hs : o.state = 0
        · simp only [hs, ↓reduceIte]
          have := ih o.docs (n + 1) (mergeDocs_nonempty m cls mode docs (some f) o hd hmd)
          cases hfl : fileLoop m cls mode rest o.docs with
          | none => rw [hfl] at this; simpa using this
          | some r' =>
            cases r' with
            | error e => rw [hfl] at this; simpa using this
            | ok o' =>
              rw [hfl] at this
              obtain ⟨k, hk1, hk2⟩ := this
              refine ⟨k, hk1, fun h0 => ?_⟩
              obtain ⟨a1, a2⟩ := hk2 h0
              exact ⟨by rw [a1, List.length_cons]; omega, a2⟩
        · simp only [hs, ↓reduceIte]
          exact ⟨n, rfl, fun h0 => h0.elim⟩

theorem mergeFiles_first (mode : Mode) (f0 : List Node) (xs : List (Option (List Node))) :
    mergeFiles m cls mode (some f0 :: xs) [] 0 = mergeFiles m cls mode xs f0 0 := by
  simp [mergeFiles]

/-- With every input loaded and a first input that holds at least one document, the tool's file loop
is `MultiDoc.mainRun` (the model C18's theorems are about). -/
theorem mergeStreams_eq_mainRun (mode : Mode) (f0 : List Node) (rest : List (List Node)) (h0 : f0 ≠ []) :
    mergeStreams m cls mode ((f0 :: rest).map some) = mainRun m cls mode (f0 :: rest) := by
  have hne : f0.isEmpty = false := by cases f0 with | nil => exact absurd rfl h0 | cons _ _ => rfl
  unfold mergeStreams
  rw [List.map_cons, mergeFiles_first]
  cases rest with
  | nil =>
    simp only [List.map_nil, mergeFiles, mergeFinish, ne_eq, not_true_eq_false, ↓reduceIte,
      decide_true, Bool.true_and, beq_iff_eq, hne, Bool.false_eq_true, mainRun]
  | cons r rs =>
    have hl := mergeFiles_fileLoop m cls mode (r :: rs) f0 0 h0
    simp only [mainRun]
    split at hl
    · rename_i heq; rw [hl, heq]
    · rename_i e heq; rw [hl, heq]
    · rename_i o heq
      obtain ⟨k, hk1, hk2⟩ := hl
      rw [hk1, heq]
      simp only [mergeFinish]
      by_cases hs : o.state = 0
      · obtain ⟨a1, a2⟩ := hk2 hs
        have hk : k ≠ 0 := by rw [a1]; simp
        have he : o.docs.isEmpty = false := by
          cases hdd : o.docs with
          | nil => exact absurd hdd a2
          | cons _ _ => rfl
        simp [hs, hk, he]
      · simp [hs]

theorem merge_of_streams (a : MergeArgs) (tty : Bool) (loads : List (Option (List Node)))
    (stdin : Option (List Node)) (f0 : List Node) (rest : List (List Node))
    (hv : mergeErrors a tty = []) (hin : mergeInputs a tty loads stdin = (f0 :: rest).map some) (h0 : f0 ≠ []) :
    merge m cls a tty loads stdin =
      match MultiDoc.mainRun m cls a.mode (f0 :: rest) with
      | none => none
      | some (.error e) => some (.error e)
      | some (.ok o) =>
        if o.state = 0 then some (.ok ⟨0, some o.docs, a.out != .stdout, a.backup⟩)
        else some (.ok ⟨o.state, none, false, false⟩) := by
  unfold merge
  simp only [hv, ne_eq, not_true_eq_false, ↓reduceIte, hin]
  rw [mergeStreams_eq_mainRun m cls a.mode f0 rest h0]
  rcases mainRun m cls a.mode (f0 :: rest) with _ | (_ | _) <;> rfl

theorem merge_delivery (a a' : MergeArgs) (tty tty' : Bool) (loads loads' : List (Option (List Node)))
    (stdin stdin' : Option (List Node))
    (hv : mergeErrors a tty = []) (hv' : mergeErrors a' tty' = [])
    (hm : a.mode = a'.mode) (ho : a.out = a'.out) (hb : a.backup = a'.backup)
    (hin : mergeInputs a tty loads stdin = mergeInputs a' tty' loads' stdin') :
    merge m cls a tty loads stdin = merge m cls a' tty' loads' stdin' := by
  unfold merge
  simp only [hv, hv', ne_eq, not_true_eq_false, ↓reduceIte, hin, hm, ho, hb]

theorem merge_args (a : MergeArgs) (tty : Bool) (loads : List (Option (List Node))) (stdin : Option (List Node)) :
    (mergeErrors a tty ≠ [] ↔
        (a.files = [] ∧ (tty = true ∨ a.nostdin = true)) ∨ manyDash a.files = true ∨ a.config = .bad
          ∨ a.out = .output true ∨ (a.backup = true ∧ a.out.isOverwrite = false))
    ∧ (mergeErrors a tty ≠ [] → merge m cls a tty loads stdin = some (.ok ⟨1, none, false, false⟩)) := by
  constructor
  · unfold mergeErrors
    simp only [ne_eq, List.append_eq_nil_iff, when_eq_nil, Classical.not_and_iff_not_or_not, Bool.not_eq_false]
    have e1 : (a.files.isEmpty && (tty || a.nostdin)) = true ↔ (a.files = [] ∧ (tty = true ∨ a.nostdin = true)) := by
      simp
    have e5 : (a.backup && !a.out.isOverwrite) = true ↔ (a.backup = true ∧ a.out.isOverwrite = false) := by
      simp
    rw [e1, e5]
    simp [or_assoc]
  · intro h
    simp [merge, h]
end

end Ypv.Cli.Lemmas
