import Ypv.Model.Cli
/-!
# Lemmas about the command-line tool models (C16)
-/
namespace Ypv.Cli.Lemmas
open Ypv Ypv.Cli

theorem when_eq_nil {α : Type} (c : Bool) (e : α) : when c e = [] ↔ c = false := by
  cases c <;> simp [when]

/-! ## yaml-get -/

theorem getErrors_nil_iff (a : GetArgs) (tty : Bool) :
    getErrors a tty = [] ↔
      ¬ ((a.file = none ∧ (a.nostdin = true ∨ tty = true)) ∨ a.priv = .bad ∨ a.pub = .bad
          ∨ a.priv.isSet ≠ a.pub.isSet) := by
  obtain ⟨file, nostdin, priv, pub⟩ := a
  cases file with
  | none => cases nostdin <;> cases tty <;> cases priv <;> cases pub <;> decide
  | some f => cases f <;> cases nostdin <;> cases tty <;> cases priv <;> cases pub <;> decide

theorem get_exit_zero_iff (ev : Node → Query) (a : GetArgs) (tty : Bool) (ld : Option Node) :
    (get ev a tty ld).exit = 0 ↔
      getErrors a tty = [] ∧ ∃ d, ld = some d ∧ (ev d).err = none ∧ (ev d).nodes ≠ [] := by
  unfold get
  by_cases hv : getErrors a tty = []
  · simp only [hv, ne_eq, not_true_eq_false, ↓reduceIte, true_and]
    cases ld with
    | none => simp
    | some d =>
      simp only [Option.some.injEq, exists_eq_left']
      cases he : (ev d).err with
      | some e => cases e <;> simp
      | none =>
        cases hn : (ev d).nodes with
        | nil => simp
        | cons x xs => simp
  · simp [hv]

theorem get_lines (ev : Node → Query) (a : GetArgs) (tty : Bool) (ld : Option Node) :
    ((get ev a tty ld).exit = 0 →
        ∃ d, ld = some d ∧ (get ev a tty ld).out = (ev d).nodes.map render
          ∧ (get ev a tty ld).out.length = (ev d).nodes.length
          ∧ ∀ i : Nat, (get ev a tty ld).out[i]? = ((ev d).nodes[i]?).map render)
    ∧ ((get ev a tty ld).exit ≠ 0 → (get ev a tty ld).out = []) := by
  unfold get
  by_cases hv : getErrors a tty = []
  · simp only [hv, ne_eq, not_true_eq_false, ↓reduceIte]
    cases ld with
    | none => simp
    | some d =>
      cases he : (ev d).err with
      | some e => cases e <;> simp [he]
      | none =>
        cases hn : (ev d).nodes with
        | nil => simp [he, hn]
        | cons x xs =>
          simp only [he, hn]
          simp only [List.isEmpty_cons, Bool.false_eq_true, ↓reduceIte, Option.some.injEq, exists_eq_left',
            List.length_map, true_and, not_true_eq_false, false_implies, and_true, hn]
          intro _ i
          rw [List.getElem?_map]
  · simp [hv]

theorem get_args (ev : Node → Query) (a : GetArgs) (tty : Bool) (ld : Option Node) :
    (getErrors a tty ≠ [] ↔
        (a.file = none ∧ (a.nostdin = true ∨ tty = true)) ∨ a.priv = .bad ∨ a.pub = .bad
          ∨ a.priv.isSet ≠ a.pub.isSet)
    ∧ (getErrors a tty ≠ [] → get ev a tty ld = ⟨[], 1⟩) := by
  constructor
  · rw [ne_eq, getErrors_nil_iff, Classical.not_not]
  · intro h
    simp [get, h]

theorem getErrors_file (a : GetArgs) (f : FileArg) (tty tty' : Bool) :
    getErrors { a with file := some f } tty = getErrors { a with file := some .path } tty' := by
  simp [getErrors, inStream]

theorem get_delivery (ev : Node → Query) (a : GetArgs) (tty tty' : Bool) (ld : Option Node) :
    get ev { a with file := some .dash } tty ld = get ev { a with file := some .path } tty' ld
    ∧ (a.nostdin = false →
        get ev { a with file := none } false ld = get ev { a with file := some .path } tty' ld) := by
  constructor
  · unfold get
    rw [getErrors_file a .dash tty tty']
  · intro hn
    unfold get
    have : getErrors { a with file := none } false = getErrors { a with file := some .path } tty' := by
      simp [getErrors, inStream, hn]
    rw [this]

/-! ## yaml-diff -/

theorem diffErrors_nil_iff (a : DiffArgs) :
    diffErrors a = [] ↔
      ¬ ((a.lhs = .dash ∧ a.rhs = .dash) ∨ (a.quiet = true ∧ (a.same = true ∨ a.onlysame = true))
          ∨ a.config = .bad ∨ a.priv = .bad ∨ a.pub = .bad) := by
  obtain ⟨lhs, rhs, quiet, same, onlysame, config, priv, pub, lidx, ridx⟩ := a
  cases lhs <;> cases rhs <;> cases quiet <;> cases same <;> cases onlysame <;> cases config <;>
    cases priv <;> cases pub <;> simp [diffErrors, when, manyDash]

section
variable {E : Type} (isSame : E → Bool) (differ : Node → Node → Option (List E))

theorem diff_report (a : DiffArgs) (ls rs : List Node) (ld rd : Node) (rep : List E)
    (hv : diffErrors a = []) (hl : pickDoc ls a.lidx = .doc ld) (hr : pickDoc rs a.ridx = .doc rd)
    (hd : differ ld rd = some rep) :
    diff isSame differ a (some ls) (some rs)
      = some ⟨rep.filter (shown isSame a), if rep.all isSame then 0 else 1⟩ := by
  simp [diff, hv, hl, hr, hd]

theorem diff_exit_zero_iff (a : DiffArgs) (l r : Option (List Node)) (o : DiffOut E)
    (h : diff isSame differ a l r = some o) :
    o.exit = 0 ↔
      diffErrors a = [] ∧ ∃ ls rs ld rd rep, l = some ls ∧ r = some rs ∧ pickDoc ls a.lidx = .doc ld
        ∧ pickDoc rs a.ridx = .doc rd ∧ differ ld rd = some rep ∧ ∀ e ∈ rep, isSame e = true := by
  unfold diff at h
  by_cases hv : diffErrors a = []
  · simp only [hv, ne_eq, not_true_eq_false, ↓reduceIte, true_and] at h ⊢
    cases l with
    | none => simp at h; subst h; simp
    | some ls =>
      cases r with
      | none => simp at h; subst h; simp
      | some rs =>
        simp only at h
        cases hl : pickDoc ls a.lidx with
        | exit1 => simp [hl] at h; subst h; simp [hl]
        | crash => simp [hl] at h
        | doc ld =>
          cases hr : pickDoc rs a.ridx with
          | exit1 => simp [hl, hr] at h; subst h; simp [hr]
          | crash => simp [hl, hr] at h
          | doc rd =>
            cases hd : differ ld rd with
            | none => simp [hl, hr, hd] at h; subst h; simp [hl, hr, hd]
            | some rep =>
              simp [hl, hr, hd] at h
              subst h
              simp only [Option.some.injEq, exists_and_left, exists_eq_left', Pick.doc.injEq, hl, hr, hd]
              simp
  · simp [hv] at h
    subst h
    simp [hv]

theorem diff_args (a : DiffArgs) (l r : Option (List Node)) :
    (diffErrors a ≠ [] ↔
        (a.lhs = .dash ∧ a.rhs = .dash) ∨ (a.quiet = true ∧ (a.same = true ∨ a.onlysame = true))
          ∨ a.config = .bad ∨ a.priv = .bad ∨ a.pub = .bad)
    ∧ (diffErrors a ≠ [] → diff isSame differ a l r = some ⟨[], 1⟩) := by
  constructor
  · rw [ne_eq, diffErrors_nil_iff, Classical.not_not]
  · intro h
    simp [diff, h]

theorem diff_exit_indep (a : DiffArgs) (q s os : Bool) (l r : Option (List Node))
    (hv : diffErrors a = []) (hv' : diffErrors { a with quiet := q, same := s, onlysame := os } = []) :
    (diff isSame differ { a with quiet := q, same := s, onlysame := os } l r).map (·.exit)
      = (diff isSame differ a l r).map (·.exit) := by
  unfold diff
  simp only [hv, hv', ne_eq, not_true_eq_false, ↓reduceIte]
  cases l with
  | none => rfl
  | some ls =>
    cases r with
    | none => rfl
    | some rs =>
      simp only
      cases pickDoc ls a.lidx with
      | exit1 => rfl
      | crash => rfl
      | doc ld =>
        cases pickDoc rs a.ridx with
        | exit1 => rfl
        | crash => rfl
        | doc rd =>
          cases hd : differ ld rd <;> simp [hd]
end

/-! ## yaml-validate -/

theorem valErrors_nil_iff (a : ValArgs) (tty : Bool) :
    valErrors a tty = [] ↔
      ¬ ((a.files = [] ∧ (tty = true ∨ a.nostdin = true)) ∨ manyDash a.files = true) := by
  unfold valErrors
  simp only [List.append_eq_nil_iff, when_eq_nil]
  cases hf : a.files with
  | nil => cases tty <;> cases a.nostdin <;> simp [manyDash]
  | cons x xs => cases h : manyDash (x :: xs) <;> simp

theorem valFileState_eq (flags : List Bool) :
    (valFileState flags = 0 ↔ ∀ b ∈ flags, b = true) ∧ (valFileState flags = 0 ∨ valFileState flags = 2) := by
  unfold valFileState
  by_cases h : flags.all id = true
  · simp [h]
    simpa [List.all_eq_true] using h
  · simp [h]
    simpa [List.all_eq_true] using h

theorem valLoop_state (a : ValArgs) (fi : Nat) (loads : List (List Bool)) :
    ((valLoop a fi loads).2 = 0 ↔ ∀ f ∈ loads, ∀ b ∈ f, b = true)
      ∧ ((valLoop a fi loads).2 = 0 ∨ (valLoop a fi loads).2 = 2) := by
  induction loads generalizing fi with
  | nil => simp [valLoop]
  | cons f rest ih =>
    obtain ⟨ih1, ih2⟩ := ih (fi + 1)
    obtain ⟨hf1, hf2⟩ := valFileState_eq f
    simp only [valLoop, List.mem_cons, forall_eq_or_imp]
    by_cases hst : (valLoop a (fi + 1) rest).2 = 0
    · simp only [hst, ne_eq, not_true_eq_false, ↓reduceIte]
      refine ⟨?_, hf2⟩
      rw [hf1]
      exact ⟨fun h => ⟨h, ih1.mp hst⟩, fun h => h.1⟩
    · simp only [hst, ne_eq, not_false_eq_true, ↓reduceIte, false_iff, not_and]
      refine ⟨fun _ h => hst (ih1.mpr h), ?_⟩
      cases ih2 with
      | inl h => exact absurd h hst
      | inr h => exact Or.inr h

theorem validate_exit (a : ValArgs) (tty : Bool) (loads : List (List Bool)) (stdin : List Bool)
    (hv : valErrors a tty = []) :
    ((validate a tty loads stdin).exit = 0 ↔
        (∀ f ∈ loads, ∀ b ∈ f, b = true)
          ∧ (implicitStdin a.files a.nostdin tty = true → ∀ b ∈ stdin, b = true))
    ∧ ((validate a tty loads stdin).exit = 0 ∨ (validate a tty loads stdin).exit = 2) := by
  obtain ⟨h1, h2⟩ := valLoop_state a 0 loads
  obtain ⟨hs1, hs2⟩ := valFileState_eq stdin
  unfold validate
  simp only [hv, ne_eq, not_true_eq_false, ↓reduceIte]
  cases hvl : valLoop a 0 loads with
  | mk ls st =>
    rw [hvl] at h1 h2
    simp only at h1 h2 ⊢
    by_cases hst : st = 0
    · cases hi : implicitStdin a.files a.nostdin tty
      · simp only [hst, decide_true, Bool.and_false, Bool.false_eq_true, ↓reduceIte, false_implies, and_true]
        exact ⟨⟨fun _ => h1.mp hst, fun _ => trivial⟩, Or.inl trivial⟩
      · simp only [hst, decide_true, Bool.and_self, ↓reduceIte, forall_const]
        refine ⟨?_, hs2⟩
        rw [hs1]
        exact ⟨fun h => ⟨h1.mp hst, h⟩, fun h => h.2⟩
    · have hd : (decide (st = 0) && implicitStdin a.files a.nostdin tty) = false := by simp [hst]
      simp only [hd, Bool.false_eq_true, ↓reduceIte]
      exact ⟨⟨fun h => absurd h hst, fun h => absurd (h1.mpr h.1) hst⟩, h2⟩

theorem validate_args (a : ValArgs) (tty : Bool) (loads : List (List Bool)) (stdin : List Bool) :
    (valErrors a tty ≠ [] ↔
        (a.files = [] ∧ (tty = true ∨ a.nostdin = true)) ∨ manyDash a.files = true)
    ∧ (valErrors a tty ≠ [] → validate a tty loads stdin = ⟨[], 1⟩) := by
  constructor
  · rw [ne_eq, valErrors_nil_iff, Classical.not_not]
  · intro h
    simp [validate, h]

/-! ## yaml-set -/

theorem setRun_result (a : SetArgs) (d : Node) (g : Gather) (segs : Option (List PSeg)) (o : SetOut)
    (h : setRun a d g segs = some o) :
    (o.exit = 0 →
        ((a.src = .none ∧ o.written = some (setDest a, d)) ∨
          ∃ op d', setOp a g segs = some op ∧ op.apply d = .ok d' ∧ o.written = some (setDest a, d'))
        ∧ o.backup = (if a.backup then some d else none))
    ∧ (o.exit ≠ 0 → o.written = none ∧ o.backup = none ∧ (o.exit = 1 ∨ o.exit = 20)) := by
  unfold setRun at h
  simp only [] at h
  repeat' split at h
  all_goals first
    | (cases h; done)
    | (cases h; simp [SetOut.fail]; done)
    | (cases h; simp_all; done)
    | skip


theorem set_result (ev : Node → Gather) (a : SetArgs) (tty : Bool) (ld : Option (Option Node))
    (segs : Option (List PSeg)) (o : SetOut) (h : set ev a tty ld segs = some o) :
    (o.exit = 0 →
        ∃ d, ld = some (some d) ∧ setErrors a tty = [] ∧
          ((a.src = .none ∧ o.written = some (setDest a, d)) ∨
            ∃ op d', setOp a (ev d) segs = some op ∧ op.apply d = .ok d' ∧ o.written = some (setDest a, d'))
          ∧ o.backup = (if a.backup then some d else none))
    ∧ (o.exit ≠ 0 → o.written = none ∧ o.backup = none ∧ (o.exit = 1 ∨ o.exit = 20)) := by
  unfold set at h
  split at h
  · cases h; simp [SetOut.fail]
  · rename_i hv
    split at h
    · cases h; simp [SetOut.fail]
    · cases h
    · rename_i d
      obtain ⟨h1, h2⟩ := setRun_result a d (ev d) segs o h
      refine ⟨fun h0 => ⟨d, rfl, ?_, h1 h0⟩, h2⟩
      simpa using hv

theorem inStream_iff (file : Option FileArg) (nostdin tty : Bool) :
    inStream file nostdin tty = true ↔ file = some .dash ∨ (file = none ∧ nostdin = false ∧ tty = false) := by
  cases file with
  | none => cases nostdin <;> cases tty <;> simp [inStream]
  | some f => cases f <;> simp [inStream]

theorem set_args (ev : Node → Gather) (a : SetArgs) (tty : Bool) (ld : Option (Option Node))
    (segs : Option (List PSeg)) :
    (setErrors a tty ≠ [] ↔
        (a.file = none ∧ (a.nostdin = true ∨ tty = true))
        ∨ (a.src.truthy = false ∧ a.anchor = .unset ∧ a.tag = false)
        ∨ (isStdinSrc a.src = true ∧ inStream a.file a.nostdin tty = true)
        ∨ (a.anchor = .name ∧ a.src ≠ .aliasof ∧ a.src ≠ .mergekey)
        ∨ (a.backup = true ∧ inStream a.file a.nostdin tty = true)
        ∨ (savetoSet a = true ∧ a.saveto = some a.change)
        ∨ a.priv = .bad ∨ a.pub = .bad ∨ a.randomFromShort = true)
    ∧ (setErrors a tty ≠ [] → set ev a tty ld segs = some (.fail 1)) := by
  constructor
  · unfold setErrors
    simp only [ne_eq, List.append_eq_nil_iff, when_eq_nil, Classical.not_and_iff_not_or_not, Bool.not_eq_false]
    have e1 : (!(a.file.isSome || inStream a.file a.nostdin tty)) = true ↔
        (a.file = none ∧ (a.nostdin = true ∨ tty = true)) := by
      cases a.file with
      | none => cases a.nostdin <;> cases tty <;> simp [inStream]
      | some f => simp
    have e2 : (!(a.src.truthy || a.anchor != .unset || a.tag)) = true ↔
        (a.src.truthy = false ∧ a.anchor = .unset ∧ a.tag = false) := by
      cases a.src.truthy <;> cases a.anchor <;> cases a.tag <;> simp
    have e4 : (a.anchor == .name && !(a.src == .aliasof || a.src == .mergekey)) = true ↔
        (a.anchor = .name ∧ a.src ≠ .aliasof ∧ a.src ≠ .mergekey) := by
      simp
    rw [e1, e2, e4]
    simp [or_assoc]
  · intro h
    simp [set, h]

end Ypv.Cli.Lemmas
