import Ypv.Lemmas.EvalPath
import Ypv.Lemmas.EvalKwLoc
/-!
# The segments of a reported path select exactly the node (C02 `path_reresolves`)

`resolve_steps`: for `LocP d n c ss` in a well-formed document without twin keys, where every anchor
a section names is borne by one child of its parent only (`aloneAlong`), the segments KEY `t` /
INDEX `i` / ANCHOR `a` of the steps, evaluated from the root, select exactly `n`, once, at `c.addr`.
`resolve_steps_aliased`: when the LAST section names an anchor that several children bear, exactly
those children are selected, in document order — "once per place it is aliased".
-/
namespace Ypv.Acc
open Ypv Ypv.Eval Ypv.W1 Gen

def Sec.eseg : Sec → ESeg
  | .key t => .key t
  | .idx i => .index i
  | .anc a => .anchor a

theorem eseg_ofSeg (s : Sec) : ESeg.ofSeg s.seg = s.eseg := by cases s <;> rfl

/-- how many children of `n` bear the anchor `a` (what `_get_nodes_by_anchor` looks through: the
elements of a list, the values of a dict) -/
def ancCount : Node → Str → Nat
  | .seq _ items, a => items.countP (fun x => x.anchor == some a)
  | .map _ es, a => es.countP (fun kv => kv.2.anchor == some a)
  | _, _ => 0

/-- an anchor section names one child only -/
def aloneAt (n : Node) : Sec → Bool
  | .anc a => ancCount n a == 1
  | _ => true

/-- along the address: every anchor named by a section is borne by one child of its parent only
(otherwise the path denotes every bearer: `resolve_steps_aliased`) -/
def aloneAlong : Node → Addr → List Sec → Bool
  | n, r :: rs, s :: ss => aloneAt n s && (match n.child? r with
      | some m => aloneAlong m rs ss
      | none => true)
  | _, _, _ => true

theorem aloneAlong_snoc (s : Sec) (r : Ref) : ∀ (addr : Addr) (ss : List Sec) (d : Node),
    ss.length = addr.length → ∀ n, d.get? addr = some n →
    aloneAlong d (addr ++ [r]) (ss ++ [s]) = (aloneAlong d addr ss && aloneAt n s) := by
  intro addr
  induction addr with
  | nil =>
    intro ss d hl n hn
    cases ss with
    | nil =>
      simp only [Node.get?, Option.some.injEq] at hn
      subst hn
      cases hc : d.child? r <;> simp [aloneAlong, hc]
    | cons _ _ => simp at hl
  | cons r0 rs ih =>
    intro ss d hl n hn
    cases ss with
    | nil => simp at hl
    | cons s0 ss =>
      simp only [Node.get?] at hn
      cases hc : d.child? r0 with
      | none => simp [hc] at hn
      | some m =>
        rw [hc] at hn
        simp only [List.cons_append, aloneAlong, hc]
        rw [ih ss m (by simpa using hl) n hn, Bool.and_assoc]

/-! ## One step -/

theorem filter_map_unique {α β : Type} (f : α → β) (p : β → Bool) (x : α) : ∀ (l : List α), x ∈ l →
    p (f x) = true → l.countP (fun y => p (f y)) = 1 → (l.map f).filter p = [f x]
  | [], hx, _, _ => by simp at hx
  | y :: ys, hx, hp, h => by
    by_cases hy : p (f y) = true
    · simp only [List.countP_cons, hy, ↓reduceIte, Nat.add_eq_right] at h
      have hnone : ∀ w ∈ ys, p (f w) = true → False := fun w hw pw => by
        have := List.countP_pos_iff (p := fun y => p (f y)).mpr ⟨w, hw, pw⟩
        omega
      have hxy : x = y := by
        simp only [List.mem_cons] at hx
        rcases hx with rfl | hx
        · rfl
        · exact (hnone x hx hp).elim
      subst hxy
      have : (ys.map f).filter p = [] := by
        simp only [List.filter_eq_nil_iff, List.mem_map]
        rintro b ⟨w, hw, rfl⟩ hb
        exact hnone w hw hb
      simp [hy, this]
    · simp only [List.countP_cons, hy, Bool.false_eq_true, ↓reduceIte, Nat.add_zero] at h
      have hx' : x ∈ ys := by
        simp only [List.mem_cons] at hx
        rcases hx with rfl | hx
        · exact absurd hp hy
        · exact hx
      simp [hy, filter_map_unique f p x ys hx' hp h]

theorem go_filter_none (a : Str) (c : Ctx) : ∀ (items : List Node) (i0 : Nat),
    items.countP (fun x => x.anchor == some a) = 0 →
    (anchorKids.go a c items i0).filter (fun nc => nc.1.anchor == some a) = []
  | [], _, _ => rfl
  | x :: xs, i0, h => by
    by_cases hx : (x.anchor == some a) = true
    · simp [hx] at h
    · simp only [List.countP_cons, hx, Bool.false_eq_true, ↓reduceIte, Nat.add_zero] at h
      simp [anchorKids.go, hx, go_filter_none a c xs (i0 + 1) h]

theorem go_filter_unique (a : Str) (c : Ctx) : ∀ (items : List Node) (i0 j : Nat) (m : Node),
    items[j]? = some m → m.anchor = some a → items.countP (fun x => x.anchor == some a) = 1 →
    ∃ c', (anchorKids.go a c items i0).filter (fun nc => nc.1.anchor == some a) = [(m, c')] ∧
      c'.addr = c.addr ++ [.idx (i0 + j)]
  | [], _, _, _, h, _, _ => by simp at h
  | x :: xs, i0, j, m, hj, ha, h => by
    by_cases hx : (x.anchor == some a) = true
    · simp only [List.countP_cons, hx, ↓reduceIte, Nat.add_eq_right] at h
      cases j with
      | zero =>
        simp only [List.getElem?_cons_zero, Option.some.injEq] at hj
        subst hj
        exact ⟨c.child (.idx i0) (.idx i0) (anchorSection a),
          by simp [anchorKids.go, hx, go_filter_none a c xs (i0 + 1) h], by simp [Ctx.child]⟩
      | succ j' =>
        simp only [List.getElem?_cons_succ] at hj
        have : 0 < xs.countP (fun x => x.anchor == some a) :=
          List.countP_pos_iff.mpr ⟨m, List.mem_of_getElem? hj, by simp [ha]⟩
        omega
    · simp only [List.countP_cons, hx, Bool.false_eq_true, ↓reduceIte, Nat.add_zero] at h
      cases j with
      | zero =>
        simp only [List.getElem?_cons_zero, Option.some.injEq] at hj
        subst hj
        simp [ha] at hx
      | succ j' =>
        simp only [List.getElem?_cons_succ] at hj
        obtain ⟨c', h1, h2⟩ := go_filter_unique a c xs (i0 + 1) j' m hj ha h
        refine ⟨c', by simp [anchorKids.go, hx, h1], ?_⟩
        rw [h2]; congr 3; omega

variable (mt : Matcher) (dsc : Desc) (rt : Node)

/-- **One step**: the segment of the section, applied at the parent, selects exactly the child. -/
theorem step_resolves {n m : Node} (c : Ctx) {r : Ref} {pr : PRef} {s : Sec} (hw : n.WF)
    (hc : n.child? r = some m) (hp : prefOk n pr r) (hs : StepSec n m pr s)
    (hcl : stepClear n pr = true) (hal : aloneAt n s = true) (rest : List ESeg) (tl : Bool) :
    ∃ c', stepSeg mt dsc rt s.eseg rest tl n c = Gen.one (.real (m, c')) ∧ c'.addr = c.addr ++ [r] := by
  cases hs with
  | idx i =>
    obtain ⟨c', h1, h2⟩ := step_reresolves mt dsc rt c hw hc hp hcl
    refine ⟨c', ?_, h2⟩
    simpa [segOfPref, Sec.eseg, stepSeg] using h1
  | member k =>
    obtain ⟨c', h1, h2⟩ := step_reresolves mt dsc rt c hw hc hp hcl
    refine ⟨c', ?_, h2⟩
    cases n with
    | set a ms => simpa [segOfPref, Sec.eseg, stepSeg, keyStep] using h1
    | _ => cases r <;> simp [prefOk] at hp
  | key k t hk =>
    cases n with
    | map a es =>
      cases r with
      | key k' =>
        simp only [prefOk] at hp
        subst hp
        simp only [Node.child?] at hc
        cases k with
        | str s' =>
          simp only [keyNames] at hk
          subst hk
          exact ⟨_, by simp only [Sec.eseg, stepSeg, keyStep, keyOnMap, hc]; rfl, by simp [Ctx.child]⟩
        | int i =>
          obtain ⟨hi, hor⟩ := hk
          have hnone : es.lookup (.str t) = none := by
            rcases hor with rfl | h
            · simpa [stepClear] using hcl
            · simpa [strEntry] using h
          exact ⟨_, by simp only [Sec.eseg, stepSeg, keyStep, keyOnMap, hnone, hi, hc]; rfl,
            by simp [Ctx.child]⟩
      | _ => simp [prefOk] at hp
    | _ => cases r <;> simp [prefOk] at hp
  | ancIdx i a ha =>
    cases n with
    | seq an items =>
      cases r with
      | idx j =>
        simp only [Node.child?] at hc
        simp only [aloneAt, ancCount, beq_iff_eq] at hal
        obtain ⟨c', h1, h2⟩ := go_filter_unique a c items 0 j m hc ha hal
        refine ⟨c', ?_, by simpa using h2⟩
        simp only [Sec.eseg, stepSeg, anchorStep, anchorKids, h1]
        rfl
      | _ => simp [prefOk] at hp
    | _ => cases r <;> simp [prefOk] at hp
  | ancKey k a ha =>
    cases n with
    | map an es =>
      cases r with
      | key k' =>
        simp only [prefOk] at hp
        subst hp
        simp only [Node.child?] at hc
        simp only [aloneAt, ancCount, beq_iff_eq] at hal
        have hmem := mem_of_lookup hc
        have := filter_map_unique
          (fun kv : Key × Node => (kv.2, c.child (.key kv.1) (.key kv.1) (anchorSection a)))
          (fun nc : NC => nc.1.anchor == some a) (k, m) es hmem (by simp [ha]) hal
        refine ⟨c.child (.key k) (.key k) (anchorSection a), ?_, by simp [Ctx.child]⟩
        simp only [Sec.eseg, stepSeg, anchorStep, anchorKids, this]
        rfl
      | _ => simp [prefOk] at hp
    | _ => cases r <;> simp [prefOk] at hp

/-! ## The chain -/

/-- the evaluation of a KEY / INDEX / ANCHOR segment does not look at the following segments -/
theorem required_snoc : ∀ (ss : List Sec) (s : ESeg) (r : Res),
    required mt dsc rt (ss.map Sec.eseg ++ [s]) r =
      Gen.bind (required mt dsc rt (ss.map Sec.eseg) r) (required mt dsc rt [s]) := by
  intro ss
  induction ss with
  | nil => intro s r; simp [required]
  | cons t ts ih =>
    intro s r
    have hstep : stepRes mt dsc rt t.eseg (ts.map Sec.eseg ++ [s]) r =
        stepRes mt dsc rt t.eseg (ts.map Sec.eseg) r := by
      cases r with
      | virt items => rfl
      | real nc => cases t <;> simp [Sec.eseg, stepRes, stepSeg]
    simp only [List.map_cons, List.cons_append, required, hstep]
    rw [bind_assoc]
    apply Gen.bind_congr
    intro x
    exact ih s x

/-- **The segments of the steps select exactly the node.** -/
theorem resolve_steps {d n : Node} {c : Ctx} {ss : List Sec} (hd : d.WF) (hcl : docClear d = true)
    (h : LocP d n c ss) (hal : aloneAlong d c.addr ss = true) :
    ∃ c', required mt dsc d (ss.map Sec.eseg) (.real (d, Ctx.root)) = Gen.one (.real (n, c')) ∧
      c'.addr = c.addr := by
  induction h with
  | root => exact ⟨Ctx.root, by simp [required], rfl⟩
  | @child n0 c0 ss0 r pr s m hl hc hp hs ih =>
    have hlen := hl.path.2
    have hget := hl.loc.get
    have hsn : aloneAlong d (c0.child r pr s.mtext).addr (ss0 ++ [s])
        = (aloneAlong d c0.addr ss0 && aloneAt n0 s) := by
      simpa [Ctx.child] using aloneAlong_snoc s r c0.addr ss0 d hlen n0 hget
    rw [hsn, Bool.and_eq_true] at hal
    obtain ⟨c1, h1, ha1⟩ := ih hal.1
    have hw : n0.WF := Loc.wf hl.loc hd
    have hclr : stepClear n0 pr = true :=
      stepClear_of_nodeClear (docClear_node (loc_clear hl.loc hcl)) hc hp
    obtain ⟨c2, h2, ha2⟩ := step_resolves mt dsc d c1 hw hc hp hs hclr hal.2 [] true
    refine ⟨c2, ?_, by simp [Ctx.child, ha2, ha1]⟩
    rw [List.map_append, List.map_cons, List.map_nil, required_snoc, h1]
    simp [required, stepRes, h2]

/-! ## A last section that names an anchor borne by several children -/

theorem bindList_one {α : Type} : ∀ (l : List α), Gen.bindList Gen.one l = Gen.ofList l
  | [] => rfl
  | x :: xs => by
    rw [Gen.bindList_cons, bindList_one xs]
    simp [Gen.append, Gen.one, Gen.ofList]

theorem go_mem (a : Str) (c : Ctx) : ∀ (items : List Node) (i0 j : Nat) (m : Node), items[j]? = some m →
    ∃ c', (m, c') ∈ anchorKids.go a c items i0 ∧ c'.addr = c.addr ++ [.idx (i0 + j)]
  | [], _, _, _, h => by simp at h
  | x :: xs, i0, j, m, hj => by
    cases j with
    | zero =>
      simp only [List.getElem?_cons_zero, Option.some.injEq] at hj
      subst hj
      exact ⟨c.child (.idx i0) (.idx i0) (anchorSection a), by simp [anchorKids.go], by simp [Ctx.child]⟩
    | succ j' =>
      simp only [List.getElem?_cons_succ] at hj
      obtain ⟨c', h1, h2⟩ := go_mem a c xs (i0 + 1) j' m hj
      refine ⟨c', by simp [anchorKids.go, h1], ?_⟩
      rw [h2]; congr 3; omega

/-- the child named by an anchor section is among the bearers of the anchor -/
theorem bearer_mem {n m : Node} (c : Ctx) {r : Ref} {pr : PRef} {a : Str} (hc : n.child? r = some m)
    (hp : prefOk n pr r) (hs : StepSec n m pr (.anc a)) :
    ∃ c', (m, c') ∈ (anchorKids a n c).filter (fun nc => nc.1.anchor == some a) ∧
      c'.addr = c.addr ++ [r] := by
  cases hs with
  | ancIdx i a' ha =>
    cases n with
    | seq an items =>
      cases r with
      | idx j =>
        simp only [Node.child?] at hc
        obtain ⟨c', h1, h2⟩ := go_mem a c items 0 j m hc
        exact ⟨c', List.mem_filter.mpr ⟨by simpa [anchorKids] using h1, by simp [ha]⟩, by simpa using h2⟩
      | _ => simp [prefOk] at hp
    | _ => cases r <;> simp [prefOk] at hp
  | ancKey k a' ha =>
    cases n with
    | map an es =>
      cases r with
      | key k' =>
        simp only [prefOk] at hp
        subst hp
        simp only [Node.child?] at hc
        refine ⟨c.child (.key k) (.key k) (anchorSection a), List.mem_filter.mpr ⟨?_, by simp [ha]⟩,
          by simp [Ctx.child]⟩
        simp only [anchorKids, List.mem_map]
        exact ⟨(k, m), mem_of_lookup hc, rfl⟩
      | _ => simp [prefOk] at hp
    | _ => cases r <;> simp [prefOk] at hp

/-- **Once per place it is aliased**: the segments of steps that end in an anchor section select
exactly the children of the parent that bear the anchor, in document order. -/
theorem resolve_steps_aliased {d n0 : Node} {c0 : Ctx} {ss0 : List Sec} (hd : d.WF)
    (hcl : docClear d = true) (h : LocP d n0 c0 ss0) (hal : aloneAlong d c0.addr ss0 = true) (a : Str) :
    ∃ c1, c1.addr = c0.addr ∧
      required mt dsc d ((ss0 ++ [Sec.anc a]).map Sec.eseg) (.real (d, Ctx.root)) =
        Gen.ofList (((anchorKids a n0 c1).filter (fun nc => nc.1.anchor == some a)).map Res.real) := by
  obtain ⟨c1, h1, ha1⟩ := resolve_steps mt dsc hd hcl h hal
  refine ⟨c1, ha1, ?_⟩
  rw [List.map_append, List.map_cons, List.map_nil, required_snoc, h1, Gen.bind_one]
  simp only [Sec.eseg, required, stepRes, stepSeg, anchorStep]
  have : (Gen.ofList ((anchorKids a n0 c1).filter (fun nc => nc.1.anchor == some a))).map Res.real =
      Gen.ofList (((anchorKids a n0 c1).filter (fun nc => nc.1.anchor == some a)).map Res.real) := rfl
  rw [this, Gen.bind_ofList]
  exact bindList_one _

end Ypv.Acc
