import Ypv.Lemmas.Order
import Ypv.Lemmas.EvalKw
import Ypv.Lemmas.Parser
/-!
# Keyword results are the nodes at the addresses `kwSearch` returns; coordinates re-resolve
(helpers of `Props/C01`, `Props/C02`)
-/
namespace Ypv
namespace W1
open Ypv.Eval Ypv.Spec Gen

/-- The address of a result (of its first member for a virtual list; `[]` for an empty one). -/
def resAddr : Res → Addr
  | .real x => x.2.addr
  | .virt _ => []

theorem kwChild_addr {n : Node} {c : Ctx} {r : Ref} {x : NC} (h : kwChild n c r = some x) :
    x.2.addr = c.addr ++ [r] ∧ n.child? r = some x.1 := by
  cases r with
  | idx i =>
    cases n with
    | seq a items =>
      simp only [kwChild, Option.map_eq_some_iff] at h
      obtain ⟨y, hy, rfl⟩ := h
      exact ⟨rfl, by simp [Node.child?, hy]⟩
    | _ => simp [kwChild] at h
  | key k =>
    cases n with
    | map a es =>
      simp only [kwChild, Option.map_eq_some_iff] at h
      obtain ⟨y, hy, rfl⟩ := h
      exact ⟨rfl, by simp [Node.child?, hy]⟩
    | _ => simp [kwChild] at h
  | member k => simp [kwChild] at h

/-- What `kwResolve` returns for an address: coordinates with exactly that address; the node is the
present node, its child under the last reference, or the node at the address below `rt`. -/
theorem kwResolve_spec {rt n : Node} {c : Ctx} {a : Addr} {x : NC} (h : kwResolve rt n c a = some x) :
    x.2.addr = a ∧
    ((a = c.addr ∧ x.1 = n) ∨ (∃ r, a = c.addr ++ [r] ∧ n.child? r = some x.1) ∨
      (a.length < c.addr.length ∧ rt.get? a = some x.1)) := by
  unfold kwResolve at h
  split at h
  · rename_i ha
    cases h
    exact ⟨ha.symm, Or.inl ⟨ha, rfl⟩⟩
  · split at h
    · rename_i hlt
      split at h
      · rename_i htk
        split at h
        · rename_i m hm
          cases h
          refine ⟨?_, Or.inr (Or.inr ⟨hlt, hm⟩)⟩
          simp only [ctxUp]
          have : c.addr.length - (c.addr.length - a.length) = a.length := by omega
          rw [this]
          exact htk.symm
        · cases h
      · cases h
    · split at h
      · rename_i r hr
        split at h
        · rename_i har
          obtain ⟨h1, h2⟩ := kwChild_addr h
          exact ⟨by rw [h1, har], Or.inr (Or.inl ⟨r, har, h2⟩)⟩
        · cases h
      · cases h

theorem kwResolveAll_addrs {rt n : Node} {c : Ctx} : ∀ {as : List Addr} {l : List NC},
    kwResolveAll rt n c as = some l → l.map (·.2.addr) = as := by
  intro as
  induction as with
  | nil => intro l h; simp [kwResolveAll] at h; subst h; rfl
  | cons a as ih =>
    intro l h
    simp only [kwResolveAll] at h
    split at h
    · rename_i x xs hx hxs
      cases h
      simp [(kwResolve_spec hx).1, ih hxs]
    · cases h

theorem kwResolveAll_mem {rt n : Node} {c : Ctx} : ∀ {as : List Addr} {l : List NC},
    kwResolveAll rt n c as = some l → ∀ x ∈ l, ∃ a ∈ as, kwResolve rt n c a = some x := by
  intro as
  induction as with
  | nil => intro l h x hx; simp [kwResolveAll] at h; subst h; cases hx
  | cons a as ih =>
    intro l h x hx
    simp only [kwResolveAll] at h
    split at h
    · rename_i y ys hy hys
      cases h
      simp only [List.mem_cons] at hx
      cases hx with
      | inl hx => subst hx; exact ⟨a, by simp, hy⟩
      | inr hx =>
        obtain ⟨b, hb, hr⟩ := ih hys x hx
        exact ⟨b, by simp [hb], hr⟩
    · cases h

/-- In a document, at a located node, a resolved address leads to the very node returned. -/
theorem kwResolve_get {d n : Node} {c : Ctx} (hl : Loc d n c) {a : Addr} {x : NC}
    (h : kwResolve d n c a = some x) : d.get? x.2.addr = some x.1 := by
  obtain ⟨h1, h2⟩ := kwResolve_spec h
  rw [h1]
  rcases h2 with ⟨ha, hx⟩ | ⟨r, ha, hc⟩ | ⟨_, hg⟩
  · rw [ha, hx]; exact hl.get
  · rw [ha, ev_get?_append, hl.get]; exact hc
  · exact hg

/-! ## Coordinates re-resolve -/

/-- The segment that names a reported reference: a key or set member by its text, a list element
by the index as reported (possibly negative). -/
def segOfPref : PRef → ESeg
  | .key k => .key k.text
  | .member k => .key k.text
  | .idx i => .index i

/-- The segments of a result's coordinates, one per ancestry entry. -/
def pathSegs (c : Ctx) : List ESeg := c.anc.map (fun e => segOfPref e.2)

/-- The step from the parent `n` under the reported reference `pr` is not shadowed by a twin:
an integer key has no string key with its digits beside it (`{1: x, '1': y}`), and no earlier
member of a set has the same text. -/
def stepClear (n : Node) (pr : PRef) : Bool :=
  match n, pr with
  | .map _ es, .key (.int i) => (es.lookup (.str (pyStrInt i))).isNone
  | .set _ ms, .member k => ms.find? (fun m => m.text == k.text) == some k
  | _, _ => true

/-- Every step of the located node's coordinates is clear. -/
inductive LocClear (d : Node) : Node → Ctx → Prop
  | root : LocClear d d Ctx.root
  | child {n : Node} {c : Ctx} (r : Ref) (pr : PRef) (sec : Str) (m : Node) :
      LocClear d n c → n.child? r = some m → prefOk n pr r → stepClear n pr = true →
      LocClear d m (c.child r pr sec)

theorem LocClear.loc {d n : Node} {c : Ctx} (h : LocClear d n c) : Loc d n c := by
  induction h with
  | root => exact Loc.root
  | child r pr sec m _ hc hp _ ih => exact Loc.child r pr sec m ih hc hp

variable (mt : Matcher) (dsc : Desc) (rt : Node)

/-- A key / index segment does not look at the following segments. -/
def plainSeg : ESeg → Bool
  | .key _ => true
  | .index _ => true
  | _ => false

theorem required_append_plain : ∀ (segs : List ESeg) (s : ESeg) (r : Res), (∀ t ∈ segs, plainSeg t = true) →
    required mt dsc rt (segs ++ [s]) r = Gen.bind (required mt dsc rt segs r) (required mt dsc rt [s]) := by
  intro segs
  induction segs with
  | nil => intro s r _; simp [required]
  | cons t ts ih =>
    intro s r h
    have ht : plainSeg t = true := h t (by simp)
    have hts : ∀ u ∈ ts, plainSeg u = true := fun u hu => h u (by simp [hu])
    have hstep : stepRes mt dsc rt t (ts ++ [s]) r = stepRes mt dsc rt t ts r := by
      cases r with
      | virt items => rfl
      | real nc => cases t <;> simp_all [plainSeg, stepRes, stepSeg]
    simp only [List.cons_append, required, hstep]
    rw [bind_assoc]
    apply Gen.bind_congr
    intro x
    exact ih s x hts

theorem pathSegs_plain (c : Ctx) : ∀ t ∈ pathSegs c, plainSeg t = true := by
  intro t ht
  simp only [pathSegs, List.mem_map] at ht
  obtain ⟨e, _, rfl⟩ := ht
  cases e.2 <;> rfl

/-- One step: the segment naming the reported reference, applied at the parent, selects exactly the
child. -/
theorem step_reresolves {n m : Node} (c : Ctx) {r : Ref} {pr : PRef} (hw : n.WF) (hc : n.child? r = some m)
    (hp : prefOk n pr r) (hs : stepClear n pr = true) :
    ∃ c', stepSeg mt dsc rt (segOfPref pr) [] true n c = Gen.one (.real (m, c')) ∧ c'.addr = c.addr ++ [r] := by
  cases n with
  | scalar a v => cases pr <;> cases r <;> simp [prefOk] at hp
  | seq a items =>
    cases pr with
    | idx i =>
      cases r with
      | idx j =>
        simp only [prefOk] at hp
        obtain ⟨hin, hj⟩ := hp
        obtain ⟨x, hx⟩ := pyGetItem_inRange items i hin
        have hspec := pyGetItem_spec items i x hin hx
        simp only [Node.child?] at hc
        rw [hj] at hspec
        rw [hc] at hspec
        cases hspec
        refine ⟨c.child (.idx (normIdx items.length i)) (.idx i) (idxSection i), ?_, ?_⟩
        · simp only [segOfPref, stepSeg, indexStep, elemAt, hin, if_true, hx]
          rfl
        · simp [Ctx.child, hj]
      | _ => simp [prefOk] at hp
    | _ => cases r <;> simp [prefOk] at hp
  | map a es =>
    cases pr with
    | key k =>
      cases r with
      | key k' =>
        simp only [prefOk] at hp
        subst hp
        simp only [Node.child?] at hc
        cases k with
        | str s =>
          refine ⟨c.child (.key (.str s)) (.key (.str s)) (escSection s), ?_, ?_⟩
          · simp only [segOfPref, Key.text, stepSeg, keyStep, keyOnMap, hc]
            rfl
          · simp [Ctx.child]
        | int i =>
          simp only [stepClear, Option.isNone_iff_eq_none] at hs
          refine ⟨c.child (.key (.int i)) (.key (.int i)) (escSection (pyStrInt i)), ?_, ?_⟩
          · simp only [segOfPref, Key.text, stepSeg, keyStep, keyOnMap, hs, pyInt_pyStrInt, hc]
            rfl
          · simp [Ctx.child]
      | _ => simp [prefOk] at hp
    | _ => cases r <;> simp [prefOk] at hp
  | set a ms =>
    cases pr with
    | member k =>
      cases r with
      | member k' =>
        simp only [prefOk] at hp
        subst hp
        simp only [stepClear, beq_iff_eq] at hs
        simp only [Node.child?] at hc
        split at hc
        · cases hc
          refine ⟨c.child (.member k) (.member k) (escSection k.text), ?_, ?_⟩
          · simp only [segOfPref, stepSeg, keyStep, keyOnSet, hs]
            cases k <;> rfl
          · simp [Ctx.child]
        · cases hc
      | _ => simp [prefOk] at hp
    | _ => cases r <;> simp [prefOk] at hp

/-- **Coordinates re-resolve.**  The key / index segments naming the reported references of a located
node (one per ancestry entry), evaluated from the document root, select exactly that node, once,
at its address. -/
theorem coords_reresolve_loc {d n : Node} {c : Ctx} (hd : d.WF) (h : LocClear d n c) :
    ∃ c', required mt dsc rt (pathSegs c) (.real (d, Ctx.root)) = Gen.one (.real (n, c')) ∧ c'.addr = c.addr := by
  induction h with
  | root => exact ⟨Ctx.root, by simp [pathSegs, Ctx.root, required], rfl⟩
  | @child n0 c0 r pr sec m hl hc hp hs ih =>
    obtain ⟨c1, h1, ha1⟩ := ih
    have hw : n0.WF := Loc.wf hl.loc hd
    obtain ⟨c2, h2, ha2⟩ := step_reresolves mt dsc rt c1 hw hc hp hs
    refine ⟨c2, ?_, by simp [Ctx.child, ha2, ha1]⟩
    have hps : pathSegs (c0.child r pr sec) = pathSegs c0 ++ [segOfPref pr] := by
      simp [pathSegs, Ctx.child]
    rw [hps, required_append_plain mt dsc rt _ _ _ (pathSegs_plain c0), h1]
    simp [required, stepRes, h2]

end W1
end Ypv

namespace Ypv
namespace W1
open Ypv.Eval Ypv.Spec Gen

/-! ## Documents without twin keys -/

/-- The node has no twins: no integer key beside the string key with its digits, no two set members
with the same text. -/
def nodeClear : Node → Bool
  | .map _ es => es.all (fun kv => match kv.1 with
      | .int i => (es.lookup (.str (pyStrInt i))).isNone
      | .str _ => true)
  | .set _ ms => ms.all (fun k => ms.find? (fun m => m.text == k.text) == some k)
  | _ => true

mutual
/-- No node of the document has twins (decidable; Python allows `{1: x, '1': y}`, the path notation
cannot tell the two keys apart). -/
def docClear : Node → Bool
  | .scalar .. => true
  | .set a ms => nodeClear (.set a ms)
  | .seq _ items => clearList items
  | .map a es => nodeClear (.map a es) && clearEntries es
def clearList : List Node → Bool
  | [] => true
  | n :: ns => docClear n && clearList ns
def clearEntries : List (Key × Node) → Bool
  | [] => true
  | (_, n) :: es => docClear n && clearEntries es
end

theorem clearList_mem {items : List Node} (h : clearList items = true) : ∀ n ∈ items, docClear n = true := by
  induction items with
  | nil => intro n hn; cases hn
  | cons x xs ih =>
    intro n hn
    simp only [clearList, Bool.and_eq_true] at h
    cases hn with
    | head => exact h.1
    | tail _ hm => exact ih h.2 n hm

theorem clearEntries_mem {es : List (Key × Node)} (h : clearEntries es = true) : ∀ kv ∈ es, docClear kv.2 = true := by
  induction es with
  | nil => intro kv hkv; cases hkv
  | cons x xs ih =>
    obtain ⟨k, n⟩ := x
    intro kv hkv
    simp only [clearEntries, Bool.and_eq_true] at h
    cases hkv with
    | head => exact h.1
    | tail _ hm => exact ih h.2 kv hm

theorem docClear_node {n : Node} (h : docClear n = true) : nodeClear n = true := by
  cases n with
  | scalar a v => rfl
  | seq a items => rfl
  | set a ms => simpa [docClear] using h
  | map a es => simp only [docClear, Bool.and_eq_true] at h; exact h.1

theorem docClear_child {n m : Node} {r : Ref} (hn : docClear n = true) (h : n.child? r = some m) :
    docClear m = true := by
  cases n with
  | scalar a v => cases r <;> simp [Node.child?] at h
  | seq a items =>
    cases r <;> simp only [Node.child?] at h <;> try cases h
    simp only [docClear] at hn
    exact clearList_mem hn m (List.mem_of_getElem? h)
  | map a es =>
    cases r <;> simp only [Node.child?] at h <;> try cases h
    simp only [docClear, Bool.and_eq_true] at hn
    exact clearEntries_mem hn.2 _ (mem_of_lookup h)
  | set a ms =>
    cases r <;> simp only [Node.child?] at h <;> try cases h
    split at h
    · cases h; rfl
    · cases h

theorem stepClear_of_nodeClear {n m : Node} {r : Ref} {pr : PRef} (hn : nodeClear n = true)
    (hc : n.child? r = some m) (hp : prefOk n pr r) : stepClear n pr = true := by
  cases n with
  | scalar a v => rfl
  | seq a items => rfl
  | map a es =>
    cases pr with
    | key k =>
      cases k with
      | str s => rfl
      | int i =>
        cases r with
        | key k' =>
          simp only [prefOk] at hp
          subst hp
          simp only [Node.child?] at hc
          simp only [nodeClear, List.all_eq_true] at hn
          exact hn _ (mem_of_lookup hc)
        | _ => simp [prefOk] at hp
    | _ => rfl
  | set a ms =>
    cases pr with
    | member k =>
      cases r with
      | member k' =>
        simp only [prefOk] at hp
        subst hp
        simp only [Node.child?] at hc
        split at hc
        · rename_i hmem
          simp only [nodeClear, List.all_eq_true] at hn
          exact hn k (by simpa using hmem)
        · cases hc
      | _ => simp [prefOk] at hp
    | _ => rfl

theorem loc_clear {d n : Node} {c : Ctx} (h : Loc d n c) (hd : docClear d = true) : docClear n = true := by
  induction h with
  | root => exact hd
  | child r pr sec m _ hc _ ih => exact docClear_child ih hc

theorem locClear_of_loc {d n : Node} {c : Ctx} (h : Loc d n c) (hd : docClear d = true) : LocClear d n c := by
  induction h with
  | root => exact LocClear.root
  | @child n0 c0 r pr sec m hl hc hp ih =>
    exact LocClear.child r pr sec m ih hc hp (stepClear_of_nodeClear (docClear_node (loc_clear hl hd)) hc hp)

/-- The reported references as parser segments. -/
def segSOfPref : PRef → Seg
  | .key k => (.key, .str k.text)
  | .member k => (.key, .str k.text)
  | .idx i => (.index, .int i)

def pathSegsS (c : Ctx) : List Seg := c.anc.map (fun e => segSOfPref e.2)

theorem pathSegsS_eseg (c : Ctx) : (pathSegsS c).map ESeg.ofSeg = pathSegs c := by
  simp only [pathSegsS, pathSegs, List.map_map]
  apply List.map_congr_left
  intro e _
  obtain ⟨a, pr⟩ := e
  cases pr <;> rfl


end W1
end Ypv
